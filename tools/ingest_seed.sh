#!/bin/bash
# ingest_seed.sh <ID> [name]  — takes the seeded change left by a seeding agent in /tmp/seed_<ID>, re-verifies it in a fresh
# scratch worktree (demo fails with the change, passes without, the packages' existing tests pass with it), stores it under
# /verif/seeded/<ID>[-name]/ and runs the check against it.
set -u
ID=$1; NAME=${2:-$ID}; SRC=${3:-/tmp/seed_$ID}; OUT=/verif/seeded/$NAME
[ -d "$SRC" ] || { echo "no $SRC"; exit 2; }
mkdir -p "$OUT"
git -C "$SRC" diff > "$OUT/patch.diff"
[ -s "$OUT/patch.diff" ] || { echo "empty patch"; exit 2; }
DEMOS=$(git -C "$SRC" ls-files --others --exclude-standard | grep -E '\.go$')
for f in $DEMOS; do mkdir -p "$OUT/demo/$(dirname $f)"; cp "$SRC/$f" "$OUT/demo/$f"; done
cp "$SRC/SEED_REPORT.md" "$OUT/SEED_REPORT.md" 2>/dev/null
PKGS=$(for f in $DEMOS; do echo "./$(dirname $f)"; done | sort -u)
TOUCHED=$(git -C "$SRC" diff --name-only | xargs -n1 dirname | sort -u | sed 's|^|./|')
WT=$(mktemp -d /tmp/vseed.XXXXXX); git -C /repo worktree add --detach -f "$WT" HEAD >/dev/null 2>&1
trap 'git -C /repo worktree remove --force "$WT" >/dev/null 2>&1; rm -rf "$WT" /tmp/vseed_mod.$$' EXIT
mkdir -p /tmp/vseed_mod.$$; cp "$WT/go.mod" "$WT/go.sum" /tmp/vseed_mod.$$/
export GOTOOLCHAIN=local GOPROXY=off GOSUMDB=off GOFLAGS=
gt() { (cd "$WT" && go1.26 test -modfile=/tmp/vseed_mod.$$/go.mod -vet=off -count=1 "$@" 2>&1); }
cp -r "$OUT/demo/." "$WT/"
DEMOTESTS=$(grep -h -o '^func Test[A-Za-z0-9_]*' $(for f in $DEMOS; do echo "$OUT/demo/$f"; done) | sed 's/func //' | paste -sd'|')
echo "== demo WITHOUT the change (must pass): $PKGS -run '$DEMOTESTS'"
R1=$(gt -run "^($DEMOTESTS)\$" $PKGS); echo "$R1" | tail -3
git -C "$WT" apply "$OUT/patch.diff" || { echo "patch does not apply to HEAD"; exit 2; }
echo "== demo WITH the change (must fail)"
R2=$(gt -run "^($DEMOTESTS)\$" $PKGS); echo "$R2" | tail -3
echo "== existing tests WITH the change (must pass): $TOUCHED $PKGS"
R3=$(gt -skip "^($DEMOTESTS)\$" $(echo $TOUCHED $PKGS | tr ' ' '\n' | sort -u)); echo "$R3" | grep -v "no test files" | tail -6
P1=$(echo "$R1" | grep -c '^ok'); F2=$(echo "$R2" | grep -c '^FAIL\|^--- FAIL'); F3=$(echo "$R3" | grep -c '^FAIL\|^--- FAIL')
echo "== check against the change"
C=$(/verif/bin/mutcheck "$ID" "$OUT/patch.diff" 2>&1); echo "$C" | tail -4
CAUGHT=$(echo "$C" | grep -c '^CAUGHT')
python3 - <<PY
import json
json.dump({"property":"$ID","name":"$NAME","patch":"patch.diff","demo":"$(echo $DEMOS)","demo_tests":"$DEMOTESTS",
 "demo_passes_without_change":$P1>0,"demo_fails_with_change":$F2>0,"existing_tests_pass_with_change":$F3==0,
 "existing_test_packages":"$(echo $TOUCHED $PKGS)","caught_by_check":bool($CAUGHT),
 "check_output":"""$(echo "$C" | grep -a -E '^(VIOLATION|OK|FAIL|CAUGHT|MISSED|TROUBLE)' | head -6 | sed 's/"/\\"/g')""",
 "needs_to_manifest":"see SEED_REPORT.md","ran":"tools/ingest_seed.sh $ID $NAME (fresh worktree of /repo HEAD $(git -C /repo log --format=%h -1))"}, open("$OUT/meta.json","w"), indent=1)
PY
cat "$OUT/meta.json" | head -20
