#!/bin/bash
# Runs minekube/gate's own pinned test suite (command from /root/.vp/BASELINE.json) on a scratch worktree of
# /repo HEAD (so that -mod=mod cannot dirty /repo/go.sum) and compares against BASELINE stable_pass.
# usage: tools/baseline.sh [outfile.json]
set -u
OUT=${1:-/verif/.build/baseline_run.json}
WT=/tmp/vbase_wt.$$
mkdir -p "$(dirname "$OUT")"
git -C /repo worktree add --detach -f "$WT" HEAD >/dev/null 2>&1 || { echo "worktree failed"; exit 2; }
trap 'git -C /repo worktree remove --force "$WT" >/dev/null 2>&1; rm -rf "$WT"' EXIT
export GOPROXY=off GOSUMDB=off GOFLAGS=-mod=mod GOTOOLCHAIN=local
(cd "$WT" && go1.26 test -mod=mod -json -vet=off -count=1 -timeout 25m ./... > "$OUT" 2> "$OUT.err")
python3 - "$OUT" <<'EOF'
import json, sys
base = json.load(open('/root/.vp/BASELINE.json'))
want = set(base['stable_pass'])
res = {}
for l in open(sys.argv[1]):
    try: e = json.loads(l)
    except Exception: continue
    if e.get('Test') and e.get('Action') in ('pass', 'fail', 'skip'):
        res[e['Package'] + '::' + e['Test']] = e['Action']
missing = sorted(t for t in want if res.get(t) != 'pass')
print(f"baseline: {len(want)} stable_pass, {sum(1 for t in want if res.get(t)=='pass')} pass now, {len(missing)} not passing")
for t in missing[:40]: print("  NOT-PASS", t, res.get(t))
sys.exit(1 if missing else 0)
EOF
