#!/usr/bin/env python3
"""Prints the prompt for a mutation ('seeding') sub-agent for one property and creates its worktree."""
import json, subprocess, sys, os
pid = sys.argv[1]
rnd = sys.argv[2] if len(sys.argv) > 2 else ""
p = next(json.loads(l) for l in open('/verif/properties.jsonl') if json.loads(l)['id'] == pid)
wt = f"/tmp/seed{rnd}_{pid}"
if not os.path.isdir(wt):
    subprocess.run(["git", "-C", "/repo", "worktree", "add", "--detach", "-f", wt, "HEAD"], check=True, capture_output=True)
print(f"""You are testing how well a (hidden) verification suite detects regressions in the Go project minekube/gate (a Minecraft proxy). You work ONLY inside the scratch git worktree {wt} (a checkout of the project). Do not read or write anything under /verif or /repo; do not use the network (there is none).

Property {pid}: {p['title']}
Statement: {p['statement']}
Quantified over: {p['quantifier']['text']}
Code it is anchored in: {', '.join(p['anchors']['files'])}

{"Note: other people have already seeded several regressions for this property (you do not know which). Do NOT go for the single most obvious site or the most obvious off-by-one: pick a different mechanism - a second anchored file, a rarely taken branch, a version- or mode-specific path, an error/cleanup path, or two cooperating sites." if rnd else ""}

Task: make ONE realistic change to the project's non-test source that BREAKS this property while
(1) the project still compiles, and (2) the project's existing tests still pass. The change should look like a plausible refactoring slip or 'optimisation' by a maintainer, and it must need something specific to manifest — a particular interleaving, a fault at a particular point, a multi-step sequence of operations, an unusual input, a boundary value, or two cooperating sites that each look fine alone — not something ordinary use would expose at once. Do not add new exported API, do not touch test files of the project, keep the change small (a few lines, at most two sites).

Then write a demonstration: a Go test file (a new file, e.g. {wt}/<pkg>/seed_demo_test.go in the appropriate package, may use unexported identifiers) or small program that FAILS with your change and PASSES without it. Verify both directions yourself (never use `git stash` - the stash is shared by all worktrees; use `git diff > /tmp/seed{rnd}_{pid}_tmp/change.diff; git checkout -- <files>` to test the unchanged tree, then re-apply).

How to build and test offline (do exactly this; never run go with -mod=mod inside the worktree):
  cd {wt} && mkdir -p /tmp/seed{rnd}_{pid}_mod && cp go.mod go.sum /tmp/seed{rnd}_{pid}_mod/
  export GOTOOLCHAIN=local GOPROXY=off GOSUMDB=off GOFLAGS=
  go1.26 build -modfile=/tmp/seed{rnd}_{pid}_mod/go.mod ./...
  go1.26 test -modfile=/tmp/seed{rnd}_{pid}_mod/go.mod -vet=off -count=1 ./pkg/<affected packages>/...     (existing tests must pass WITH your change; run at least every package you touched and its direct dependants; running ./... takes a few minutes and is best)
The machine is shared and busy: builds can take a minute or two. Other agents work in sibling directories: any temporary file you create must live under /tmp/seed{rnd}_{pid}_tmp/ (create it), never directly in /tmp, and never delete anything in /tmp that you did not create.

Deliverables, left in the worktree when you finish (do not commit):
  - your source change applied in the working tree (only non-test files modified),
  - the demonstration test file(s) (new files only),
  - {wt}/SEED_REPORT.md: what you changed and why it breaks the property, what exactly is needed for it to manifest, the exact commands you ran and their outcome (existing tests pass with the change: which packages; demo fails with / passes without).
Your final message should summarise the same in a few lines.""")
