// instr rewrites repo packages for engine A (sched). For each non-test .go file of the named
// package directories it
//   - redirects imports: sync -> zzverif/vsync, sync/atomic -> zzverif/vatomic,
//     go.uber.org/atomic -> zzverif/vuatomic (local names are preserved, so code is untouched);
//   - turns `go f(args)` into a scheduler-owned thread (arguments still evaluated at the go statement);
//   - brackets `for ... range X` (X an identifier or selector) with RangeBegin/RangeStep/RangeEnd and
//     prefixes X[k] = v, X[k] op= v, X[k]++/--, delete(X,k), clear(X) with MapWrite(X): the runtime
//     monitor keeps only real maps and reports a write by another thread during an iteration;
//   - turns time.Sleep into sched.Sleep and puts a sched.Yield before every goto (polling loops).
//
// Output: transformed files under -out and, on stdout, a JSON object {original: replacement}
// suitable for a `go build -overlay` Replace map. Stdlib only.
package main

import (
	"bytes"
	"encoding/json"
	"flag"
	"fmt"
	"go/ast"
	"go/format"
	"go/parser"
	"go/token"
	"os"
	"path/filepath"
	"strconv"
	"strings"
)

var (
	repo    = flag.String("repo", "/repo", "")
	out     = flag.String("out", "", "")
	zz      = flag.String("zz", "", "import path prefix of the shim packages")
	noRange = flag.Bool("norange", false, "do not instrument map ranges/writes")
	noGo    = flag.Bool("nogo", false, "do not rewrite go statements")
)

const schedName = "vsched__"

func main() {
	flag.Parse()
	repl := map[string]string{}
	for _, pkg := range flag.Args() {
		dir := filepath.Join(*repo, pkg)
		if filepath.IsAbs(pkg) {
			dir = pkg // a package outside the repo (module cache)
		}
		ents, err := os.ReadDir(dir)
		if err != nil {
			fmt.Fprintln(os.Stderr, err)
			os.Exit(1)
		}
		for _, e := range ents {
			n := e.Name()
			if e.IsDir() || !strings.HasSuffix(n, ".go") || strings.HasSuffix(n, "_test.go") {
				continue
			}
			src := filepath.Join(dir, n)
			b, changed, err := rewrite(src)
			if err != nil {
				fmt.Fprintln(os.Stderr, src, err)
				os.Exit(1)
			}
			if !changed {
				continue
			}
			dst := filepath.Join(*out, strings.ReplaceAll(pkg, "/", "__"), n)
			os.MkdirAll(filepath.Dir(dst), 0o755)
			if err := os.WriteFile(dst, b, 0o644); err != nil {
				fmt.Fprintln(os.Stderr, err)
				os.Exit(1)
			}
			repl[src] = dst
		}
	}
	json.NewEncoder(os.Stdout).Encode(repl)
}

type rw struct {
	changed   bool
	needSched bool
	tmp       int
}

func rewrite(path string) ([]byte, bool, error) {
	fset := token.NewFileSet()
	f, err := parser.ParseFile(fset, path, nil, parser.ParseComments)
	if err != nil {
		return nil, false, err
	}
	r := &rw{}
	hasTime := false
	for _, im := range f.Imports {
		p, _ := strconv.Unquote(im.Path.Value)
		var np, def string
		switch p {
		case "sync":
			np, def = *zz+"/vsync", "sync"
		case "sync/atomic":
			np, def = *zz+"/vatomic", "atomic"
		case "go.uber.org/atomic":
			np, def = *zz+"/vuatomic", "atomic"
		case "time":
			hasTime = true
		}
		if np != "" {
			im.Path.Value = strconv.Quote(np)
			if im.Name == nil {
				im.Name = ast.NewIdent(def)
			}
			r.changed = true
		}
	}
	for _, d := range f.Decls {
		if fd, ok := d.(*ast.FuncDecl); ok && fd.Body != nil {
			fd.Body.List = r.stmts(fd.Body.List)
		} else {
			// function literals in var initialisers
			ast.Inspect(d, func(n ast.Node) bool {
				if fl, ok := n.(*ast.FuncLit); ok {
					fl.Body.List = r.stmts(fl.Body.List)
					return false
				}
				return true
			})
		}
	}
	if !r.changed {
		return nil, false, nil
	}
	if r.needSched {
		addImport(f, schedName, *zz+"/sched")
	}
	if hasTime {
		// time.Sleep calls may have been the only use of the import
		f.Decls = append(f.Decls, &ast.GenDecl{Tok: token.VAR, Specs: []ast.Spec{&ast.ValueSpec{Names: []*ast.Ident{ast.NewIdent("_")}, Type: &ast.SelectorExpr{X: ast.NewIdent("time"), Sel: ast.NewIdent("Duration")}}}})
	}
	var buf bytes.Buffer
	if err := format.Node(&buf, fset, f); err != nil {
		return nil, false, err
	}
	return buf.Bytes(), true, nil
}

func addImport(f *ast.File, name, path string) {
	spec := &ast.ImportSpec{Name: ast.NewIdent(name), Path: &ast.BasicLit{Kind: token.STRING, Value: strconv.Quote(path)}}
	for _, d := range f.Decls {
		if gd, ok := d.(*ast.GenDecl); ok && gd.Tok == token.IMPORT {
			gd.Specs = append(gd.Specs, spec)
			if !gd.Lparen.IsValid() {
				gd.Lparen = gd.Pos()
				gd.Rparen = gd.End()
			}
			f.Imports = append(f.Imports, spec)
			return
		}
	}
	gd := &ast.GenDecl{Tok: token.IMPORT, Specs: []ast.Spec{spec}}
	f.Decls = append([]ast.Decl{gd}, f.Decls...)
}

func call(fn string, args ...ast.Expr) *ast.CallExpr {
	return &ast.CallExpr{Fun: &ast.SelectorExpr{X: ast.NewIdent(schedName), Sel: ast.NewIdent(fn)}, Args: args}
}

func simpleOperand(e ast.Expr) bool {
	switch v := e.(type) {
	case *ast.Ident:
		return v.Name != "_"
	case *ast.SelectorExpr:
		return simpleOperand(v.X)
	case *ast.ParenExpr:
		return simpleOperand(v.X)
	case *ast.StarExpr:
		return simpleOperand(v.X)
	}
	return false
}

// exprs rewrites function literals nested in expressions of a statement.
func (r *rw) exprs(n ast.Node) {
	if n == nil {
		return
	}
	ast.Inspect(n, func(m ast.Node) bool {
		switch v := m.(type) {
		case *ast.FuncLit:
			v.Body.List = r.stmts(v.Body.List)
			return false
		case *ast.CallExpr:
			if !*noGo {
				if se, ok := v.Fun.(*ast.SelectorExpr); ok {
					if id, ok := se.X.(*ast.Ident); ok && id.Name == "time" && se.Sel.Name == "Sleep" && id.Obj == nil {
						v.Fun = &ast.SelectorExpr{X: ast.NewIdent(schedName), Sel: ast.NewIdent("Sleep")}
						r.changed, r.needSched = true, true
					}
				}
			}
		}
		return true
	})
}

func (r *rw) block(b *ast.BlockStmt) {
	if b != nil {
		b.List = r.stmts(b.List)
	}
}

func (r *rw) stmts(in []ast.Stmt) []ast.Stmt {
	var outl []ast.Stmt
	for _, s := range in {
		outl = append(outl, r.stmt(s)...)
	}
	return outl
}

func (r *rw) stmt(s ast.Stmt) []ast.Stmt {
	switch v := s.(type) {
	case *ast.BlockStmt:
		r.block(v)
	case *ast.IfStmt:
		if v.Init != nil {
			r.exprs(v.Init)
		}
		r.exprs(v.Cond)
		r.block(v.Body)
		if v.Else != nil {
			e := r.stmt(v.Else)
			if len(e) == 1 {
				v.Else = e[0]
			} else {
				v.Else = &ast.BlockStmt{List: e}
			}
		}
	case *ast.ForStmt:
		if v.Init != nil {
			r.exprs(v.Init)
		}
		if v.Cond != nil {
			r.exprs(v.Cond)
		}
		if v.Post != nil {
			r.exprs(v.Post)
		}
		r.block(v.Body)
	case *ast.RangeStmt:
		r.exprs(v.X)
		r.block(v.Body)
		if !*noRange && simpleOperand(v.X) {
			r.changed, r.needSched = true, true
			r.tmp++
			tok := ast.NewIdent(fmt.Sprintf("vrt__%d", r.tmp))
			begin := &ast.AssignStmt{Lhs: []ast.Expr{tok}, Tok: token.DEFINE, Rhs: []ast.Expr{call("RangeBegin", v.X)}}
			v.Body.List = append([]ast.Stmt{&ast.ExprStmt{X: call("RangeStep", tok)}}, endBeforeReturns(v.Body.List, tok)...)
			end := &ast.ExprStmt{X: call("RangeEnd", tok)}
			return []ast.Stmt{&ast.BlockStmt{List: []ast.Stmt{begin, v, end}}}
		}
	case *ast.SwitchStmt:
		if v.Init != nil {
			r.exprs(v.Init)
		}
		if v.Tag != nil {
			r.exprs(v.Tag)
		}
		r.block(v.Body)
	case *ast.TypeSwitchStmt:
		if v.Init != nil {
			r.exprs(v.Init)
		}
		r.exprs(v.Assign)
		r.block(v.Body)
	case *ast.SelectStmt:
		r.block(v.Body)
	case *ast.CaseClause:
		for _, e := range v.List {
			r.exprs(e)
		}
		v.Body = r.stmts(v.Body)
	case *ast.CommClause:
		if v.Comm != nil {
			r.exprs(v.Comm)
		}
		v.Body = r.stmts(v.Body)
	case *ast.LabeledStmt:
		inner := r.stmt(v.Stmt)
		if len(inner) == 1 {
			v.Stmt = inner[0]
		} else {
			v.Stmt = &ast.BlockStmt{List: inner}
		}
	case *ast.GoStmt:
		r.exprs(v.Call)
		if *noGo {
			return []ast.Stmt{s}
		}
		r.changed, r.needSched = true, true
		if fl, ok := v.Call.Fun.(*ast.FuncLit); ok && len(v.Call.Args) == 0 {
			return []ast.Stmt{&ast.ExprStmt{X: call("Go", fl)}}
		}
		// evaluate arguments now, call later
		var pre []ast.Stmt
		c := *v.Call
		c.Args = nil
		for _, a := range v.Call.Args {
			r.tmp++
			id := ast.NewIdent(fmt.Sprintf("vga__%d", r.tmp))
			pre = append(pre, &ast.AssignStmt{Lhs: []ast.Expr{id}, Tok: token.DEFINE, Rhs: []ast.Expr{a}})
			c.Args = append(c.Args, id)
		}
		lit := &ast.FuncLit{Type: &ast.FuncType{Params: &ast.FieldList{}}, Body: &ast.BlockStmt{List: []ast.Stmt{&ast.ExprStmt{X: &c}}}}
		pre = append(pre, &ast.ExprStmt{X: call("Go", lit)})
		return []ast.Stmt{&ast.BlockStmt{List: pre}}
	case *ast.BranchStmt:
		if v.Tok == token.GOTO && !*noGo {
			r.changed, r.needSched = true, true
			return []ast.Stmt{&ast.BlockStmt{List: []ast.Stmt{&ast.ExprStmt{X: call("Yield")}, v}}}
		}
	case *ast.AssignStmt:
		r.exprs(v)
		if !*noRange && v.Tok != token.DEFINE {
			var pre []ast.Stmt
			for _, l := range v.Lhs {
				if ix, ok := l.(*ast.IndexExpr); ok && simpleOperand(ix.X) {
					pre = append(pre, &ast.ExprStmt{X: call("MapWrite", ix.X)})
				}
			}
			if pre != nil {
				r.changed, r.needSched = true, true
				return []ast.Stmt{&ast.BlockStmt{List: append(pre, v)}}
			}
		}
	case *ast.IncDecStmt:
		if ix, ok := v.X.(*ast.IndexExpr); ok && !*noRange && simpleOperand(ix.X) {
			r.changed, r.needSched = true, true
			return []ast.Stmt{&ast.BlockStmt{List: []ast.Stmt{&ast.ExprStmt{X: call("MapWrite", ix.X)}, v}}}
		}
	case *ast.ExprStmt:
		r.exprs(v.X)
		if ce, ok := v.X.(*ast.CallExpr); ok && !*noRange {
			if id, ok := ce.Fun.(*ast.Ident); ok && (id.Name == "delete" || id.Name == "clear") && len(ce.Args) >= 1 && simpleOperand(ce.Args[0]) {
				r.changed, r.needSched = true, true
				return []ast.Stmt{&ast.BlockStmt{List: []ast.Stmt{&ast.ExprStmt{X: call("MapWrite", ce.Args[0])}, v}}}
			}
		}
	case *ast.DeferStmt:
		r.exprs(v.Call)
	case *ast.ReturnStmt:
		for _, e := range v.Results {
			r.exprs(e)
		}
	case *ast.DeclStmt:
		r.exprs(v.Decl)
	case *ast.SendStmt:
		r.exprs(v.Chan)
		r.exprs(v.Value)
	}
	return []ast.Stmt{s}
}

// endBeforeReturns inserts RangeEnd(tok) before every return statement lexically inside the
// loop body (not inside nested function literals).
func endBeforeReturns(list []ast.Stmt, tok *ast.Ident) []ast.Stmt {
	var outl []ast.Stmt
	for _, s := range list {
		outl = append(outl, endRet(s, tok))
	}
	return outl
}

func endRet(s ast.Stmt, tok *ast.Ident) ast.Stmt {
	switch v := s.(type) {
	case *ast.ReturnStmt:
		return &ast.BlockStmt{List: []ast.Stmt{&ast.ExprStmt{X: call("RangeEnd", tok)}, v}}
	case *ast.BlockStmt:
		v.List = endBeforeReturns(v.List, tok)
	case *ast.IfStmt:
		v.Body.List = endBeforeReturns(v.Body.List, tok)
		if v.Else != nil {
			v.Else = endRet(v.Else, tok)
		}
	case *ast.ForStmt:
		v.Body.List = endBeforeReturns(v.Body.List, tok)
	case *ast.RangeStmt:
		v.Body.List = endBeforeReturns(v.Body.List, tok)
	case *ast.SwitchStmt:
		v.Body.List = endBeforeReturns(v.Body.List, tok)
	case *ast.TypeSwitchStmt:
		v.Body.List = endBeforeReturns(v.Body.List, tok)
	case *ast.SelectStmt:
		v.Body.List = endBeforeReturns(v.Body.List, tok)
	case *ast.CaseClause:
		v.Body = endBeforeReturns(v.Body, tok)
	case *ast.CommClause:
		v.Body = endBeforeReturns(v.Body, tok)
	case *ast.LabeledStmt:
		v.Stmt = endRet(v.Stmt, tok)
	}
	return s
}
