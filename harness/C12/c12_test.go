package proxy

// C12 — listing players and servers is safe during concurrent joins and leaves.
//
// Seam: a Proxy (built like New builds it). Players join through the real login path
// (authSessionHandler.Activated -> registerConnection) and leave through the real teardown
// (connection close -> Disconnected -> teardown -> unregisterConnection); server player lists change
// through players.add/remove (what backendPlaySessionHandler does on join/disconnect); the server
// registry through Register/Unregister. Reader threads call Players, PlayerCount, DisconnectAll,
// Servers, RegisteredServer.Players().Range / Len and PlayersToSlice.
//
// Deciding pass: controlled scheduler, every schedule within the preemption bound; the map-overlap
// monitor reports a map written while another thread iterates it (the runtime's fatal "concurrent map
// iteration and map write"), deadlocks and panics are findings, and every returned list must equal the
// registry at ONE moment between the call and its return (compared with the snapshots taken at every
// scheduling point in that window). Supplementary pass "race": the same bodies free-running on real
// goroutines under the race detector.

import (
	"errors"
	"fmt"
	"net"
	"sort"
	"strings"
	"testing"

	"github.com/robinbraemer/event"
	"go.minekube.com/common/minecraft/component"
	"go.minekube.com/gate/pkg/edition/java/proxy/zzverif/dualrun"
	"go.minekube.com/gate/pkg/edition/java/proxy/zzverif/vrt"
	"go.minekube.com/gate/pkg/util/uuid"
)

func c12ID(b byte) uuid.UUID {
	return uuid.UUID{b, b, b, b, 0, 0, 0, 0, 0, 0, 0, 0, 0, 0, 0, b}
}

var c12Names = []string{"Ann", "Ben", "Cid", "Dee"}

// c12 is the per-execution fixture + observation log.
type c12 struct {
	e    *dualrun.Env
	w    *g5World
	sess []*g5Session // one per name, created up front (index = identity)
	// again[i] is a second client connection of identity i (same name and UUID): in kick-existing mode its
	// login disconnects sess[i]
	again  []*g5Session
	reason component.Component // what DisconnectAll is called with
	srv    []*registeredServer

	// successive DISTINCT states of each observed collection (sched pass only)
	hist map[string][]string
}

func newC12(e *dualrun.Env, kick bool) *c12 {
	c := &c12{e: e, w: g5NewWorld(true, kick), hist: map[string][]string{}, reason: &component.Text{Content: "bye"}}
	for i, n := range c12Names {
		c.sess = append(c.sess, c.w.newSession(n, c12ID(byte(i+1)), false))
	}
	if kick {
		for i, n := range c12Names[:2] {
			c.again = append(c.again, c.w.newSession(n, c12ID(byte(i+1)), false))
		}
	}
	return c
}

func (c *c12) addServers(n int) {
	for i := 0; i < n; i++ {
		rs, err := c.w.Proxy.Register(NewServerInfo(fmt.Sprintf("srv%d", i+1), &net.TCPAddr{IP: net.IPv4(10, 0, 0, byte(i+1)), Port: 25565}))
		if err != nil {
			panic(err)
		}
		c.srv = append(c.srv, rs.(*registeredServer))
	}
}

// label names a player in the recorded collection states: its username, with a prime for the second
// connection of the same identity (again[i]) so that the two sessions of one player stay distinguishable.
func (c *c12) label(p *connectedPlayer) string {
	for _, s := range c.again {
		if s.mc == p.MinecraftConn { // (not s.player(): that field is being written by the login thread)
			return p.Username() + "'"
		}
	}
	return p.Username()
}

func (c *c12) playerSetKey(l []*connectedPlayer) string {
	var n []string
	for _, p := range l {
		n = append(n, c.label(p))
	}
	sort.Strings(n)
	return "{" + strings.Join(n, ",") + "}"
}

func hasMember(state, label string) bool {
	for _, m := range strings.Split(strings.Trim(state, "{}"), ",") {
		if m == label {
			return true
		}
	}
	return false
}

// observe records the current state of every collection (all threads are parked, or the caller is
// the only running thread); direct reads, no locks: mutations happen inside critical sections that
// contain no scheduling point.
func (c *c12) observe() {
	if c.e.Free() {
		return
	}
	p := c.w.Proxy
	rec := func(k, v string) {
		h := c.hist[k]
		if len(h) == 0 || h[len(h)-1] != v {
			c.hist[k] = append(h, v)
		}
	}
	var pl []*connectedPlayer
	for _, x := range p.playerIDs {
		pl = append(pl, x)
	}
	rec("players", c.playerSetKey(pl))
	var sn []string
	for n := range p.servers {
		sn = append(sn, n)
	}
	sort.Strings(sn)
	rec("servers", "{"+strings.Join(sn, ",")+"}")
	for i, s := range c.srv {
		var l []*connectedPlayer
		for _, x := range s.players.list {
			l = append(l, x)
		}
		rec(fmt.Sprintf("srv%d", i+1), c.playerSetKey(l))
	}
}

// read runs a list-returning call and checks that what it returned equals the collection at one
// moment between call and return.
func (c *c12) read(what, coll string, call func() string) {
	c.observe()
	i0 := len(c.hist[coll]) - 1
	got := call()
	c.observe()
	if c.e.Free() {
		return
	}
	window := c.hist[coll][i0:]
	c.e.Outcome(what + "=" + got)
	c.e.AtEnd(func() {
		for _, s := range window {
			if s == got {
				return
			}
		}
		if len(window) > 1 && c.overlapSeen() {
			return // the live map was iterated while written: already reported (map-overlap); what such an iteration yields depends on Go's random iteration order
		}
		c.e.Fail("mixed-list/"+what, "%s returned %s, but between the call and its return the %s collection was successively %v - the result matches none of these moments", what, got, coll, window)
	})
}

// overlapSeen reports whether the monitor flagged a map iteration/write overlap in this execution.
// Without the accessor in lib/sched the answer is the conservative "maybe".
func (c *c12) overlapSeen() bool {
	if h, ok := any(c.e.X).(interface{ HasFailure(string) bool }); ok {
		return h.HasFailure("map-overlap")
	}
	return true
}

// hist entries for counts: compare against sizes
func sizeOf(state string) int {
	if state == "{}" {
		return 0
	}
	return strings.Count(state, ",") + 1
}

func (c *c12) players() {
	c.read("Players", "players", func() string {
		var l []*connectedPlayer
		for _, p := range c.w.Proxy.Players() {
			l = append(l, p.(*connectedPlayer))
		}
		return c.playerSetKey(l)
	})
}

func (c *c12) count(what, coll string, call func() int) {
	c.observe()
	i0 := len(c.hist[coll]) - 1
	got := call()
	c.observe()
	if c.e.Free() {
		return
	}
	window := c.hist[coll][i0:]
	c.e.Outcome(fmt.Sprintf("%s=%d", what, got))
	c.e.AtEnd(func() {
		for _, s := range window {
			if sizeOf(s) == got {
				return
			}
		}
		c.e.Fail("wrong-count/"+what, "%s returned %d, but between the call and its return the %s collection was successively %v", what, got, coll, window)
	})
}

func (c *c12) servers() {
	c.read("Servers", "servers", func() string {
		var n []string
		for _, s := range c.w.Proxy.Servers() {
			n = append(n, strings.ToLower(s.ServerInfo().Name()))
		}
		sort.Strings(n)
		return "{" + strings.Join(n, ",") + "}"
	})
}

func (c *c12) srvRange(i int) {
	c.read(fmt.Sprintf("srv%d.Players().Range", i+1), fmt.Sprintf("srv%d", i+1), func() string {
		var l []*connectedPlayer
		c.srv[i].Players().Range(func(p Player) bool { l = append(l, p.(*connectedPlayer)); return true })
		return c.playerSetKey(l)
	})
}

func (c *c12) srvSlice(i int) {
	c.read(fmt.Sprintf("PlayersToSlice(srv%d)", i+1), fmt.Sprintf("srv%d", i+1), func() string {
		return c.playerSetKey(PlayersToSlice[*connectedPlayer](c.srv[i].Players()))
	})
}

// disconnectAll: everyone who was registered during the whole call is disconnected when it returns.
func (c *c12) disconnectAll() {
	c.observe()
	i0 := len(c.hist["players"]) - 1
	c.w.Proxy.DisconnectAll(c.reason)
	c.observe()
	if c.e.Free() {
		return
	}
	window := append([]string{}, c.hist["players"][i0:]...)
	var open []string
	for _, s := range append(append([]*g5Session{}, c.sess...), c.again...) {
		if s.player() != nil && !s.closed() {
			open = append(open, c.label(s.player()))
		}
	}
	c.e.AtEnd(func() {
		if c.overlapSeen() && len(window) > 1 {
			return
		}
		// a player contained in the registry at the moment DisconnectAll looked at it is disconnected:
		// some moment of the window must have all its members closed now
		for _, st := range window {
			ok := true
			for _, n := range open {
				if hasMember(st, n) {
					ok = false
				}
			}
			if ok {
				return
			}
		}
		c.e.Fail("disconnect-all/left-connected", "DisconnectAll returned while %v were still connected; registry during the call: %v", open, window)
	})
}

func (c *c12) finish() {
	c.e.AtEnd(func() {
		var o []string
		for _, s := range c.sess {
			if s.player() == nil {
				continue
			}
			st := "open"
			if s.closed() {
				st = "closed"
			}
			o = append(o, s.name+":"+st)
		}
		pl := c.w.Proxy.Players()
		o = append(o, fmt.Sprintf("players=%d", len(pl)))
		if c.w.Proxy.PlayerCount() != len(pl) {
			c.e.Fail("wrong-count/final", "PlayerCount()=%d but Players() lists %d at quiescence", c.w.Proxy.PlayerCount(), len(pl))
		}
		var hs []string
		for k, h := range c.hist {
			hs = append(hs, fmt.Sprintf("%s:%d", k, len(h)))
		}
		sort.Strings(hs)
		o = append(o, hs...)
		c.e.Outcome(strings.Join(o, " "))
	})
}

func c12Scenarios() []dualrun.Scenario {
	type body = func(c *c12)
	var setup func(c *c12) // optional: runs on the fresh fixture before servers/players are added (event subscribers)
	mk := func(name string, quick, thorough, fq, ft int, kick bool, pre []int, nsrv int, threads map[string]body) dualrun.Scenario {
		setup := setup
		return dualrun.Scenario{Name: name, Quick: quick, Thorough: thorough, FreeQuick: fq, FreeThorough: ft, Body: func(e *dualrun.Env) {
			c := newC12(e, kick)
			if setup != nil {
				setup(c)
			}
			c.addServers(nsrv)
			for _, i := range pre {
				c.sess[i].login()
				if !c.sess[i].accepted {
					panic("c12: pre-login rejected")
				}
				if nsrv > 0 {
					c.srv[0].players.add(c.sess[i].player())
				}
			}
			c.observe()
			e.OnPoint(c.observe)
			names := make([]string, 0, len(threads))
			for n := range threads {
				names = append(names, n)
			}
			sort.Strings(names)
			for _, n := range names {
				f := threads[n]
				e.Go(n, func() { f(c) })
			}
			c.finish()
		}}
	}
	freeOnly := func(s dualrun.Scenario) dualrun.Scenario { s.FreeOnly = true; return s }
	withSetup := func(f func(c *c12), mkScenario func() dualrun.Scenario) dualrun.Scenario {
		setup = f
		defer func() { setup = nil }()
		return mkScenario()
	}
	srv3 := NewServerInfo("srv3", &net.TCPAddr{IP: net.IPv4(10, 0, 0, 3), Port: 25565})
	return append(c12BaseScenarios(mk, freeOnly), []dualrun.Scenario{
		// ---- re-entrancy: the listing calls are made from event subscribers, i.e. from inside the very
		// join/leave/register/unregister that is in progress ("from any goroutine at any time") ----
		withSetup(func(c *c12) {
			event.Subscribe(c.w.Events, 0, func(e *ServerRegisteredEvent) {
				c.servers()
				if c.w.Proxy.Server(e.Server().ServerInfo().Name()) == nil {
					c.e.Fail("registered-server-not-found", "Server(%q) = nil inside the ServerRegisteredEvent for it", e.Server().ServerInfo().Name())
				}
			})
			event.Subscribe(c.w.Events, 0, func(e *ServerUnregisteredEvent) {
				c.servers()
				_ = c.w.Proxy.Server(e.ServerInfo().Name())
			})
		}, func() dualrun.Scenario {
			// scheduler pass only: on a tree where the events are fired under the registry lock the set-up itself
			// deadlocks - a finding with a trace under the scheduler, but a hang of the whole free-running pass
			return mk("server-event-subscriber-lists-servers", 2, 3, 0, 0, false, nil, 1, map[string]body{
				"r": func(c *c12) { c.servers() },
				"w": func(c *c12) {
					if _, err := c.w.Proxy.Register(srv3); err != nil {
						panic(err)
					}
					if !c.w.Proxy.Unregister(c.srv[0].ServerInfo()) {
						panic("c12: Unregister(srv1) = false")
					}
				}})
		}),
		withSetup(func(c *c12) {
			event.Subscribe(c.w.Events, 0, func(e *LoginEvent) {
				c.players()
				c.count("PlayerCount", "players", c.w.Proxy.PlayerCount)
			})
			event.Subscribe(c.w.Events, 0, func(e *DisconnectEvent) {
				c.players()
				c.count("PlayerCount", "players", c.w.Proxy.PlayerCount)
			})
		}, func() dualrun.Scenario {
			return mk("player-event-subscribers-list-players/leave-vs-join", 2, 3, 150, 2000, false, []int{0, 1}, 0, map[string]body{
				"w1": func(c *c12) { c.sess[0].disconnect() },
				"w2": func(c *c12) { c.sess[2].login() }})
		}),
		withSetup(func(c *c12) {
			event.Subscribe(c.w.Events, 0, func(e *DisconnectEvent) { c.players() })
		}, func() dualrun.Scenario {
			return mk("player-event-subscribers-list-players/DisconnectAll", 2, 2, 150, 2000, false, []int{0, 1}, 0, map[string]body{
				"r": func(c *c12) { c.disconnectAll() }})
		}),
		// ---- a join that kicks the existing session of the same player (kick-existing mode): the listing
		// sees the old session, nobody, or the new session - never a mix, and nothing deadlocks ----
		mk("Players-vs-kicking-join", 2, 3, 150, 2000, true, []int{0, 1}, 0, map[string]body{
			"r": func(c *c12) { c.players(); c.count("PlayerCount", "players", c.w.Proxy.PlayerCount) },
			"w": func(c *c12) { c.again[0].login() }}),
		mk("DisconnectAll-vs-kicking-join", 2, 3, 150, 2000, true, []int{0}, 0, map[string]body{
			"r": func(c *c12) { c.disconnectAll() },
			"w": func(c *c12) { c.again[0].login() }}),
		// ---- input shapes of disconnect-everyone: no reason given (Shutdown(nil) does that), and a player
		// whose connection is already broken (the disconnect packet cannot be written) ----
		mk("DisconnectAll-nil-reason-broken-conns", 2, 3, 150, 2000, false, []int{0, 1}, 0, map[string]body{
			"r": func(c *c12) {
				for _, i := range []int{0, 1} {
					c.sess[i].base.failWrites(errors.New("broken pipe"))
				}
				c.reason = nil
				c.disconnectAll()
			}}),
	}...)
}

func c12BaseScenarios(mk func(name string, quick, thorough, fq, ft int, kick bool, pre []int, nsrv int, threads map[string]func(c *c12)) dualrun.Scenario, freeOnly func(dualrun.Scenario) dualrun.Scenario) []dualrun.Scenario {
	type body = func(c *c12)
	return []dualrun.Scenario{
		mk("Players-vs-join", 2, 3, 150, 2000, false, []int{0, 1}, 0, map[string]body{
			"r": func(c *c12) { c.players() },
			"w": func(c *c12) { c.sess[2].login() }}),
		mk("Players-vs-leave", 2, 3, 150, 2000, false, []int{0, 1, 2}, 0, map[string]body{
			"r": func(c *c12) { c.players() },
			"w": func(c *c12) { c.sess[1].disconnect() }}),
		mk("Players-vs-join-and-leave", 2, 2, 150, 2000, false, []int{0, 1}, 0, map[string]body{
			"r":  func(c *c12) { c.players() },
			"w1": func(c *c12) { c.sess[0].disconnect() },
			"w2": func(c *c12) { c.sess[2].login() }}),
		mk("PlayerCount-vs-join-leave", 2, 3, 150, 2000, false, []int{0}, 0, map[string]body{
			"r": func(c *c12) {
				c.count("PlayerCount", "players", c.w.Proxy.PlayerCount)
				c.count("PlayerCount", "players", c.w.Proxy.PlayerCount)
			},
			"w": func(c *c12) { c.sess[1].login(); c.sess[1].disconnect() }}),
		mk("Servers-vs-register-unregister", 2, 3, 150, 2000, false, nil, 2, map[string]body{
			"r": func(c *c12) { c.servers(); c.servers() },
			"w": func(c *c12) {
				if _, err := c.w.Proxy.Register(NewServerInfo("srv3", &net.TCPAddr{IP: net.IPv4(10, 0, 0, 3), Port: 25565})); err != nil {
					panic(err)
				}
				if !c.w.Proxy.Unregister(c.srv[0].ServerInfo()) {
					panic("c12: Unregister(srv1) = false")
				}
			}}),
		mk("server-Range-vs-join-leave", 2, 3, 150, 2000, false, []int{0, 1}, 1, map[string]body{
			"r": func(c *c12) { c.srvRange(0); c.srvSlice(0) },
			"w": func(c *c12) {
				// Cid joins the server, Ann leaves it (as the backend play handler does)
				c.sess[2].login()
				c.srv[0].players.add(c.sess[2].player())
				c.srv[0].players.remove(c.sess[0].player())
			}}),
		mk("server-lists-vs-switch", 2, 3, 150, 2000, false, []int{0, 1}, 2, map[string]body{
			"r": func(c *c12) {
				c.srvSlice(0)
				c.count("srv2.Players().Len", "srv2", c.srv[1].Players().Len)
				c.srvRange(1)
			},
			"w": func(c *c12) {
				// Ann switches from srv1 to srv2, then Ben follows
				for _, i := range []int{0, 1} {
					c.srv[1].players.add(c.sess[i].player())
					c.srv[0].players.remove(c.sess[i].player())
				}
			}}),
		mk("2-server-readers-vs-switch", 2, 2, 150, 2000, false, []int{0, 1}, 2, map[string]body{
			"r1": func(c *c12) { c.srvRange(0) },
			"r2": func(c *c12) { c.srvRange(1) },
			"w": func(c *c12) {
				c.srv[1].players.add(c.sess[0].player())
				c.srv[0].players.remove(c.sess[0].player())
			}}),
		// DisconnectAll spawns one goroutine per listed player in map-iteration order: the scheduler pass keeps
		// the listed players symmetric (or at most one), the asymmetric mixes run in the free pass only.
		mk("DisconnectAll-alone", 2, 3, 150, 2000, false, []int{0, 1, 2}, 0, map[string]body{
			"r": func(c *c12) { c.disconnectAll() }}),
		mk("DisconnectAll-vs-leave", 2, 3, 150, 2000, false, []int{0}, 0, map[string]body{
			"r": func(c *c12) { c.disconnectAll() },
			"w": func(c *c12) { c.sess[0].disconnect() }}),
		mk("DisconnectAll-vs-first-join", 2, 3, 150, 2000, false, nil, 0, map[string]body{
			"r": func(c *c12) { c.disconnectAll() },
			"w": func(c *c12) { c.sess[0].login() }}),
		mk("Players-vs-DisconnectAll", 2, 2, 150, 2000, false, []int{0, 1}, 0, map[string]body{
			"r1": func(c *c12) { c.players() },
			"r2": func(c *c12) { c.disconnectAll() }}),
		freeOnly(mk("DisconnectAll-vs-join", 0, 0, 150, 2000, false, []int{0, 1}, 0, map[string]body{
			"r": func(c *c12) { c.disconnectAll() },
			"w": func(c *c12) { c.sess[2].login() }})),
		freeOnly(mk("DisconnectAll-vs-leave-of-two", 0, 0, 150, 2000, false, []int{0, 1}, 0, map[string]body{
			"r": func(c *c12) { c.disconnectAll() },
			"w": func(c *c12) { c.sess[0].disconnect() }})),
	}
}

func TestVerif(t *testing.T) {
	vrt.Run(t, "C12", func(r *vrt.R) { dualrun.Run(r, c12Scenarios()) })
}
