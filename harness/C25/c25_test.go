package proxy

import (
	"bytes"
	"encoding/hex"
	"fmt"
	"strings"
	"testing"

	"github.com/go-logr/logr"
	"go.minekube.com/gate/pkg/edition/java/netmc"
	"go.minekube.com/gate/pkg/edition/java/proto/packet/plugin"
	"go.minekube.com/gate/pkg/edition/java/proto/state"
	"go.minekube.com/gate/pkg/edition/java/proto/version"
	"go.minekube.com/gate/pkg/edition/java/proxy/bungeecord"
	"go.minekube.com/gate/pkg/edition/java/proxy/message"
	"go.minekube.com/gate/pkg/edition/java/proxy/phase"
	"go.minekube.com/gate/pkg/edition/java/proxy/zzverif/bfs"
	"go.minekube.com/gate/pkg/edition/java/proxy/zzverif/vrt"
	"go.minekube.com/gate/pkg/gate/proto"
)

// ---- independent wire helpers (the raw packet a session handler gets as PacketContext.Payload) ----

func c25VarInt(v int) []byte {
	u := uint32(v)
	var out []byte
	for {
		if u&^0x7F == 0 {
			return append(out, byte(u))
		}
		out = append(out, byte(u&0x7F)|0x80)
		u >>= 7
	}
}

const c25PacketID = 0x17 // arbitrary: handlers never look at it

func c25Raw(channel string, body []byte) []byte {
	var b []byte
	b = append(b, c25VarInt(c25PacketID)...)
	b = append(b, c25VarInt(len(channel))...)
	b = append(b, channel...)
	return append(b, body...)
}

// c25ParseRaw splits a raw plugin-message packet into channel and body.
func c25ParseRaw(raw []byte) (channel string, body []byte, ok bool) {
	rd := func() (int, bool) {
		v, shift := 0, 0
		for i := 0; i < 5 && len(raw) > 0; i++ {
			b := raw[0]
			raw = raw[1:]
			v |= int(b&0x7F) << shift
			if b&0x80 == 0 {
				return v, true
			}
			shift += 7
		}
		return 0, false
	}
	if _, ok = rd(); !ok {
		return
	}
	n, ok := rd()
	if !ok || n > len(raw) {
		return "", nil, false
	}
	return string(raw[:n]), raw[n:], true
}

// ---- one case ----

type c25Case struct {
	Handler   string   `json:"handler"` // client-play | client-config | client-config-queued | client-initial | backend-play | backend-config
	Modern    bool     `json:"modern"`  // protocol of both connections: 1.20.2 or 1.12.2
	Channel   string   `json:"channel"`
	Body      string   `json:"body_hex"`
	Registrar []string `json:"registrar"`  // channel ids registered with the proxy's ChannelRegistrar
	Sub       string   `json:"subscriber"` // none | passive | allow | deny : what a PluginMessageEvent subscriber does
	WriteFail bool     `json:"write_fail"` // the receiving connection rejects writes
	Existing  int      `json:"existing"`   // channels already registered by this client
	// Peer: state of the connection(s) the message would be forwarded to / answered on.
	//   ""              the usual one (connected / in flight, open, in the handler's state)
	//   "absent"        client handlers: the player has no server connection at all
	//   "closed"        the receiving connection is closed (writes fail with ErrClosedConn; serverConnection.active()==false)
	//   "not-play"      client-play: the backend connection is not in the PLAY state yet
	//   "also-inflight" client-play: besides the current server there is a second, in-flight server connection
	//   "connected-only" client-config: the server is the player's CURRENT server (re-configuration), nothing in flight
	Peer string `json:"peer,omitempty"`
	// ConnType (1.12.2 only): "" vanilla | "forge-new" (legacy Forge client and backend, handshake not started)
	// | "forge-complete" (handshake complete on both sides) | "forge-transition" (current server in the
	// IN_TRANSITION phase, a second connection in flight)
	ConnType string `json:"conn_type,omitempty"`
	// Proto: "" = by Modern (1.20.2 / 1.12.2); "1.13" = exactly the version at which channel names become
	// namespaced identifiers (getChannels, brand/channel rewriting are gated on >= 1.13); Modern must be true
	Proto string `json:"proto,omitempty"`
}

func (c c25Case) String() string {
	body := c.Body
	if len(body) > 700 {
		body = fmt.Sprintf("%s...(%d bytes)", body[:64], len(body)/2)
	}
	return fmt.Sprintf("%s modern=%v channel=%q body=%s registrar=%v sub=%s writeFail=%v existing=%d peer=%q connType=%q", c.Handler, c.Modern, c.Channel, body, c.Registrar, c.Sub, c.WriteFail, c.Existing, c.Peer, c.ConnType)
}

type c25Forward struct {
	channel string
	body    []byte
	how     string
}

type c25Obs struct {
	pluginEvents []*PluginMessageEvent
	eventData    [][]byte // copy of Data() as seen by the subscriber at firing time
	regEvents    []*PlayerChannelRegisterEvent
	unregEvents  []*PlayerChannelUnregisterEvent
	forwarded    []c25Forward // what reached the receiving side (backend for client->server, client for server->client)
	panicked     bool
	panicVal     any
}

type c25Rig struct {
	w        *g7World
	events   *g7Events
	client   *g7Conn
	backend  *g7Conn
	player   *connectedPlayer
	sc       *serverConnection
	handler  netmc.SessionHandler
	toServer bool
	protocol proto.Protocol
	obs      *c25Obs
	cfgH     *clientConfigSessionHandler
	backend2 *g7Conn // second (in-flight) backend connection of the also-inflight / forge-transition situations
	mgr      *c25Events
}

func c25NewRig(handler string, modern bool, registrar []string, sub string, existing int) *c25Rig {
	return c25NewRigFor(c25Case{Handler: handler, Modern: modern, Registrar: registrar, Sub: sub, Existing: existing})
}

func c25NewRigFor(c c25Case) *c25Rig {
	handler, modern, registrar, sub, existing := c.Handler, c.Modern, c.Registrar, c.Sub, c.Existing
	r := &c25Rig{w: g7NewWorld(), obs: &c25Obs{}}
	r.events = r.w.Events
	// the recording manager of the kit, wrapped so that FireParallel's after-callbacks can be held back
	r.mgr = &c25Events{g7Events: r.w.Events}
	r.w.Proxy.event = r.mgr
	r.protocol = g7Legacy
	if modern {
		r.protocol = g7Modern
	}
	if c.Proto == "1.13" {
		r.protocol = version.Minecraft_1_13.Protocol
	}
	for _, id := range registrar {
		if strings.Contains(id, ":") {
			ci, err := message.ChannelIdentifierFrom(id)
			if err != nil {
				panic(err)
			}
			r.w.Proxy.ChannelRegistrar().Register(ci)
		} else {
			r.w.Proxy.ChannelRegistrar().Register(message.LegacyChannelIdentifier(id))
		}
	}
	clientState, backendState := state.Play, state.Play
	if strings.Contains(handler, "config") {
		clientState, backendState = state.Config, state.Config
	}
	if c.Peer == "not-play" {
		backendState = state.Config
	}
	r.client = g7NewConn("client", r.protocol, clientState)
	r.backend = g7NewConn("backend", r.protocol, backendState)
	if c.ConnType != "" {
		// the player's phase is taken from the connection type when the player object is built
		r.client.connType = phase.LegacyForge
		r.backend.connType = phase.LegacyForge
	}
	r.player = c25Player(r.w, r.mgr, "Alice", r.client)
	if c.ConnType == "forge-complete" {
		r.player.SetPhase(phase.CompleteLegacyForgeHandshakeClientPhase)
	}
	for i := 0; i < existing; i++ {
		r.player.clientsideChannels.Add(fmt.Sprintf("pre:c%d", i))
	}
	srv := r.w.server("lobby", []byte{10, 0, 1, 1}, 25565)

	switch sub {
	case "passive":
		g7On(r.events, func(e *PluginMessageEvent) {
			r.obs.eventData = append(r.obs.eventData, append([]byte(nil), e.Data()...))
		})
	case "allow":
		g7On(r.events, func(e *PluginMessageEvent) {
			r.obs.eventData = append(r.obs.eventData, append([]byte(nil), e.Data()...))
			e.SetForward(true)
		})
	case "deny":
		g7On(r.events, func(e *PluginMessageEvent) {
			r.obs.eventData = append(r.obs.eventData, append([]byte(nil), e.Data()...))
			e.SetForward(false)
		})
	}

	// current(): the server is the player's CURRENT server; inFlight(): a connection attempt in flight
	current := func() {
		if c.Peer == "absent" {
			return
		}
		r.sc = g7Connect(r.player, srv, r.backend)
		switch c.ConnType {
		case "forge-new":
			r.sc.connPhase = phase.NotStartedLegacyForgeHandshakeBackendPhase
		case "forge-complete":
			r.sc.connPhase = phase.CompleteLegacyForgeHandshakeBackendPhase
		case "forge-transition":
			r.sc.connPhase = phase.InTransitionBackendPhase
		}
		if c.Peer == "also-inflight" || c.ConnType == "forge-transition" {
			srv2 := r.w.server("next", []byte{10, 0, 1, 2}, 25565)
			r.backend2 = g7NewConn("backend2", r.protocol, state.Play)
			r.backend2.connType = r.backend.connType
			sc2 := newServerConnection(srv2, nil, r.player)
			sc2.connection = r.backend2
			r.player.mu.Lock()
			r.player.connInFlight = sc2
			r.player.mu.Unlock()
		}
	}
	inFlight := func() {
		if c.Peer == "absent" {
			return
		}
		if c.Peer == "connected-only" {
			r.sc = g7Connect(r.player, srv, r.backend)
			return
		}
		r.sc = newServerConnection(srv, nil, r.player)
		r.sc.connection = r.backend
		if c.ConnType == "forge-new" {
			r.sc.connPhase = phase.NotStartedLegacyForgeHandshakeBackendPhase
		}
		r.player.mu.Lock()
		r.player.connInFlight = r.sc
		r.player.mu.Unlock()
	}
	defer func() {
		if c.Peer == "closed" {
			// the connection dies without anybody having noticed yet (no session handler teardown)
			r.receiver().cancel()
		}
	}()

	switch handler {
	case "client-play":
		current()
		h := newClientPlaySessionHandler(r.player)
		r.client.handler = h
		r.handler, r.toServer = h, true
	case "client-config", "client-config-queued":
		inFlight()
		h := newClientConfigSessionHandler(r.player)
		r.client.handler = h
		r.cfgH = h
		if handler == "client-config" && r.sc != nil {
			if err := h.flushQueuedPluginMessagesTo(r.sc); err != nil {
				panic(err)
			}
		}
		r.handler, r.toServer = h, true
	case "client-initial":
		inFlight()
		r.handler, r.toServer = newInitialConnectSessionHandler(r.player), true
	case "backend-play":
		current()
		psh := newClientPlaySessionHandler(r.player)
		r.client.handler = psh
		r.handler = &backendPlaySessionHandler{serverConn: r.sc, bungeeCordMessageResponder: bungeecord.NopMessageResponder, playerSessionHandler: psh, log: logr.Discard()}
	case "backend-config":
		inFlight()
		h, err := newBackendConfigSessionHandler(r.sc, &connRequestCxt{})
		if err != nil {
			panic(err)
		}
		r.handler = h
	default:
		panic("unknown handler " + handler)
	}
	return r
}

func (r *c25Rig) receiver() *g7Conn {
	if r.toServer {
		return r.backend
	}
	return r.client
}

// send delivers one plugin message to the handler the way the read loop does.
func (r *c25Rig) send(channel string, body []byte) {
	dir := proto.ClientBound
	if r.toServer {
		dir = proto.ServerBound
	}
	msg := &plugin.Message{Channel: channel, Data: append([]byte(nil), body...)}
	pc := &proto.PacketContext{Direction: dir, Protocol: r.protocol, PacketID: c25PacketID, Packet: msg, Payload: c25Raw(channel, body)}
	p, v := vrt.Catch(func() { r.handler.HandlePacket(pc) })
	if p {
		r.obs.panicked, r.obs.panicVal = true, v
	}
}

func (r *c25Rig) collect() *c25Obs {
	o := r.obs
	o.pluginEvents = g7Fired[*PluginMessageEvent](r.events)
	o.regEvents = g7Fired[*PlayerChannelRegisterEvent](r.events)
	o.unregEvents = g7Fired[*PlayerChannelUnregisterEvent](r.events)
	o.forwarded = nil
	writes := r.receiver().writes
	if r.toServer && r.backend2 != nil {
		// whatever reaches ANY backend connection of the player counts as forwarded to "its backend"
		writes = append(append([]g7Write(nil), writes...), r.backend2.writes...)
	}
	for _, w := range writes {
		switch w.Kind {
		case "packet", "buffer":
			if pm, ok := w.Pkt.(*plugin.Message); ok {
				o.forwarded = append(o.forwarded, c25Forward{pm.Channel, append([]byte(nil), pm.Data...), w.Kind})
			}
		case "raw", "rawbuf":
			if ch, body, ok := c25ParseRaw(w.Raw); ok {
				o.forwarded = append(o.forwarded, c25Forward{ch, body, w.Kind})
			} else {
				o.forwarded = append(o.forwarded, c25Forward{"<unparsable raw>", w.Raw, w.Kind})
			}
		}
	}
	return o
}

type c25Fail struct{ key, desc string }

func isRegisterChannel(ch string) bool {
	return strings.EqualFold(ch, plugin.RegisterChannel) || strings.EqualFold(ch, plugin.RegisterChannelLegacy)
}

// c25Check runs one case and applies the oracle of the property statement.
func c25Check(c c25Case) (fails []c25Fail, class string, o *c25Obs) {
	body, _ := hex.DecodeString(c.Body)
	r := c25NewRigFor(c)
	if c.WriteFail {
		r.receiver().writeErr = errG7Write
		if r.backend2 != nil {
			r.backend2.writeErr = errG7Write
		}
	}
	r.send(c.Channel, body)
	if c.Handler == "client-config-queued" && r.sc != nil {
		// the backend becomes ready afterwards: the queue is flushed to it
		if p, v := vrt.Catch(func() { _ = r.cfgH.flushQueuedPluginMessagesTo(r.sc) }); p {
			r.obs.panicked, r.obs.panicVal = true, v
		}
	}
	o = r.collect()
	fail := func(kind, format string, a ...any) {
		fails = append(fails, c25Fail{c.Handler + "/" + kind, fmt.Sprintf("case: %s\n", c) + fmt.Sprintf(format, a...)})
	}
	if o.panicked {
		fail("panic", "panic: %v", o.panicVal)
		return fails, "panic", o
	}
	clientSide := strings.HasPrefix(c.Handler, "client-")
	switch {
	case isRegisterChannel(c.Channel) && clientSide:
		class = "register"
		// "Every channel registration a client sends that the proxy forwards to its backend raises exactly
		// one channel-register event."
		nf := 0
		for _, f := range o.forwarded {
			if isRegisterChannel(f.channel) && bytes.Equal(f.body, body) {
				nf++
			}
		}
		if nf > 0 {
			class = "register-forwarded"
			switch {
			case len(o.regEvents) < nf:
				fail("register-forwarded-without-event", "registration %q reached the backend %d time(s), PlayerChannelRegisterEvent fired %d time(s)", body, nf, len(o.regEvents))
			case len(o.regEvents) > nf:
				fail("register-event-count", "registration %q reached the backend %d time(s), PlayerChannelRegisterEvent fired %d time(s)", body, nf, len(o.regEvents))
			}
		} else {
			class = "register-not-forwarded"
		}
	default:
		class = "message"
		if clientSide {
			class += "-to-server"
		} else {
			class += "-to-client"
		}
		// "every plugin-message event, in any connection phase and either direction, exposes exactly the
		// plugin message's body (not the raw packet) so that the data a handler sees is the data forwarded"
		for i, e := range o.pluginEvents {
			seen := e.Data()
			if i < len(o.eventData) {
				seen = o.eventData[i]
			}
			if !bytes.Equal(seen, body) {
				what := ""
				if bytes.Equal(seen, c25Raw(c.Channel, body)) {
					what = " (that is the RAW PACKET: id + channel + body)"
				}
				fail("event-data-not-body", "PluginMessageEvent.Data() = %x%s\nmessage body           = %x", seen, what, body)
			}
			if e.Identifier() == nil || !strings.EqualFold(e.Identifier().ID(), c.Channel) && plugin.TransformLegacyToModernChannel(e.Identifier().ID()) != plugin.TransformLegacyToModernChannel(c.Channel) {
				fail("event-identifier", "PluginMessageEvent.Identifier() = %v for a message on channel %q", e.Identifier(), c.Channel)
			}
		}
		if len(o.pluginEvents) > 0 {
			class += "+event"
			var same []c25Forward
			for _, f := range o.forwarded {
				if f.channel == c.Channel || plugin.TransformLegacyToModernChannel(f.channel) == plugin.TransformLegacyToModernChannel(c.Channel) {
					same = append(same, f)
				}
			}
			// a dead / missing / not-ready receiving side cannot be forwarded to: like a failing write
			if !c.WriteFail && c.Peer != "closed" && c.Peer != "absent" && c.Peer != "not-play" {
				switch c.Sub {
				case "allow", "passive", "none":
					// a handler that lets the message pass: what is forwarded is what the handler saw
					if len(same) == 0 {
						kind := "allowed-not-forwarded"
						if c.Sub != "allow" {
							kind = "untouched-event-not-forwarded"
						}
						fail(kind, "a PluginMessageEvent fired, the subscriber (%s) did not deny it, nothing was forwarded", c.Sub)
					}
					for _, f := range same {
						if !bytes.Equal(f.body, body) {
							fail("forwarded-data-differs", "forwarded body = %x (via %s)\nevent data     = %x", f.body, f.how, body)
						}
					}
					if len(same) > 1 {
						fail("forwarded-twice", "forwarded %d times", len(same))
					}
				}
			}
		}
	}
	return fails, class, o
}

// ---- enumeration ----

func c25Bodies(thorough bool) [][]byte {
	// 32768 bytes: one more than the largest body a client may send (and than getChannels parses)
	out := [][]byte{{}, {0x00}, []byte("hello"), bytes.Repeat([]byte{0xAB, 0x00, 0x7F}, 100), bytes.Repeat([]byte{0x5A, 0x00}, 16384)}
	if thorough {
		out = append(out, []byte{0xFF}, bytes.Repeat([]byte("x"), 32767), []byte("a:b\x00c:d"))
	}
	return out
}

func c25RegisterPayloads(modern, thorough bool) [][]byte {
	var out [][]byte
	if modern {
		out = [][]byte{{}, []byte("a:b"), []byte("a:b\x00c:d"), []byte("Bad Id!"), []byte("a:b\x00Bad Id!\x00c:d"), []byte("my:chan"), []byte("a:b\x00a:b"), []byte("\x00")}
	} else {
		out = [][]byte{{}, []byte("FML|HS"), []byte("FML|HS\x00FML\x00FORGE"), []byte("MyChan"), []byte("a:b\x00legacyname"), []byte("\x00")}
	}
	// one byte more than the longest payload getChannels parses (math.MaxInt16): still forwarded as it is
	out = append(out, []byte(strings.Repeat("a:b\x00", 8191)+"z:zz"))
	if thorough {
		out = append(out, []byte(strings.Repeat("a:b\x00", 40)+"z:z"), bytes.Repeat([]byte("n"), 300))
	}
	return out
}

// c25PeerCases: the receiving side is missing / dead / not ready / doubled (see c25Case.Peer).
func c25PeerCases() []c25Case {
	var out []c25Case
	peers := map[string][]string{
		"client-play":          {"absent", "closed", "not-play", "also-inflight"},
		"client-config":        {"absent", "closed", "connected-only"},
		"client-config-queued": {"absent", "closed", "connected-only"},
		"client-initial":       {"absent", "closed"},
		"backend-play":         {"closed"},
		"backend-config":       {"closed"},
	}
	for _, h := range []string{"client-play", "client-config", "client-config-queued", "client-initial", "backend-play", "backend-config"} {
		for _, modern := range []bool{true, false} {
			if !modern && strings.Contains(h, "config") {
				continue
			}
			regCh, unregCh, chans := plugin.RegisterChannel, plugin.UnregisterChannel, []string{"my:chan", "unreg:chan"}
			if !modern {
				regCh, unregCh, chans = plugin.RegisterChannelLegacy, plugin.UnregisterChannelLegacy, []string{"MyChan", "Unreg"}
			}
			for _, peer := range peers[h] {
				for _, sub := range []string{"none", "allow", "deny"} {
					for _, ch := range chans {
						for _, body := range [][]byte{{}, []byte("hello")} {
							out = append(out, c25Case{Handler: h, Modern: modern, Channel: ch, Body: hex.EncodeToString(body), Registrar: []string{"my:chan", "MyChan"}, Sub: sub, Peer: peer})
						}
					}
					for _, ch := range []string{regCh, unregCh} {
						for _, body := range c25RegisterPayloads(modern, false)[:5] {
							for _, wf := range []bool{false, true} {
								out = append(out, c25Case{Handler: h, Modern: modern, Channel: ch, Body: hex.EncodeToString(body), Registrar: []string{"my:chan"}, Sub: sub, WriteFail: wf, Peer: peer})
							}
						}
					}
				}
			}
		}
	}
	return out
}

// c25ForgeCases: 1.12.2 connections of the legacy-Forge type in the handshake phases (see c25Case.ConnType).
// The FML|HS bodies start with the handshake discriminators (1 ClientHello, 2 ModList, 0xff Ack, 0 ServerHello).
func c25ForgeCases() []c25Case {
	var out []c25Case
	for _, h := range []string{"client-play", "client-initial", "backend-play"} {
		for _, ct := range []string{"forge-new", "forge-complete", "forge-transition"} {
			if ct == "forge-transition" && h != "client-play" {
				continue // the IN_TRANSITION phase belongs to the player's CURRENT server connection
			}
			for _, reg := range [][]string{nil, {"my:chan", "MyChan", "FML|HS"}} {
				for _, sub := range []string{"none", "allow", "deny"} {
					for _, wf := range []bool{false, true} {
						for _, ch := range []string{"MyChan", "Unreg", "FML|HS"} {
							bodies := [][]byte{{}, []byte("hello")}
							if ch == "FML|HS" {
								bodies = [][]byte{{}, {1, 2}, {2, 0}, {0xff, 2}, {0, 2, 0, 0, 0, 0}}
							}
							for _, body := range bodies {
								out = append(out, c25Case{Handler: h, Modern: false, Channel: ch, Body: hex.EncodeToString(body), Registrar: reg, Sub: sub, WriteFail: wf, ConnType: ct})
							}
						}
						for _, ch := range []string{plugin.RegisterChannelLegacy, plugin.UnregisterChannelLegacy} {
							for _, body := range c25RegisterPayloads(false, false)[:5] {
								out = append(out, c25Case{Handler: h, Modern: false, Channel: ch, Body: hex.EncodeToString(body), Registrar: reg, Sub: sub, WriteFail: wf, ConnType: ct})
							}
						}
					}
				}
			}
		}
	}
	return out
}

func c25Cases(thorough bool) []c25Case {
	var out []c25Case
	handlers := []string{"client-play", "client-config", "client-config-queued", "client-initial", "backend-play", "backend-config"}
	registrars := [][]string{nil, {"my:chan"}, {"my:chan", "MyChan", "other:x"}}
	for _, h := range handlers {
		clientSide := strings.HasPrefix(h, "client-")
		for _, modern := range []bool{true, false} {
			if !modern && strings.Contains(h, "config") {
				continue // there is no configuration phase before 1.20.2
			}
			// custom payloads
			channels := []string{"my:chan", "unreg:chan"}
			if !modern {
				channels = []string{"MyChan", "my:chan", "Unreg"}
			}
			for _, reg := range registrars {
				for _, ch := range channels {
					for _, body := range c25Bodies(thorough) {
						for _, sub := range []string{"none", "passive", "allow", "deny"} {
							for _, wf := range []bool{false, true} {
								out = append(out, c25Case{Handler: h, Modern: modern, Channel: ch, Body: hex.EncodeToString(body), Registrar: reg, Sub: sub, WriteFail: wf})
							}
						}
					}
				}
			}
			// registrations / unregistrations
			regCh, unregCh := plugin.RegisterChannel, plugin.UnregisterChannel
			if !modern {
				regCh, unregCh = plugin.RegisterChannelLegacy, plugin.UnregisterChannelLegacy
			}
			for _, ch := range []string{regCh, unregCh} {
				for _, body := range c25RegisterPayloads(modern, thorough) {
					for _, reg := range registrars[:2] {
						for _, sub := range []string{"none", "passive"} {
							for _, wf := range []bool{false, true} {
								existing := []int{0}
								if clientSide && ch == regCh {
									existing = []int{0, 1, maxClientsidePluginChannels - 1, maxClientsidePluginChannels}
								}
								for _, ex := range existing {
									out = append(out, c25Case{Handler: h, Modern: modern, Channel: ch, Body: hex.EncodeToString(body), Registrar: reg, Sub: sub, WriteFail: wf, Existing: ex})
								}
							}
						}
					}
				}
			}
		}
	}
	out = append(out, c25PeerCases()...)
	out = append(out, c25ForgeCases()...)
	// exactly AT the 1.13 gate (the base cases sit on both sides of it, at 1.12.2 and 1.20.2)
	for _, h := range []string{"client-play", "client-initial", "backend-play"} {
		for _, reg := range registrars {
			for _, sub := range []string{"none", "allow"} {
				for _, ch := range []string{"my:chan", "MyChan", "unreg:chan"} {
					out = append(out, c25Case{Handler: h, Modern: true, Proto: "1.13", Channel: ch, Body: hex.EncodeToString([]byte("hello")), Registrar: reg, Sub: sub})
				}
				for _, ch := range []string{plugin.RegisterChannel, plugin.UnregisterChannel, plugin.RegisterChannelLegacy} {
					for _, body := range append(c25RegisterPayloads(true, false), []byte("FML|HS\x00FML"), []byte("MyChan")) {
						for _, ex := range []int{0, maxClientsidePluginChannels - 1} {
							out = append(out, c25Case{Handler: h, Modern: true, Proto: "1.13", Channel: ch, Body: hex.EncodeToString(body), Registrar: reg, Sub: sub, Existing: ex})
						}
					}
				}
			}
		}
	}
	return out
}

// ---- histories on the play-phase client handler: several messages on one connection ----

type c25Op struct {
	Channel string
	Body    string
	Fail    bool // the backend write of THIS message fails
}

func c25Ops() []c25Op {
	return []c25Op{
		{plugin.RegisterChannel, "a:b", false},
		{plugin.RegisterChannel, "c:d\x00e:f", false},
		{plugin.RegisterChannel, "a:b", true},
		{plugin.UnregisterChannel, "a:b", false},
		{"my:chan", "one", false},
		{"my:chan", "two", false},
		{"unreg:chan", "three", false},
	}
}

func c25RunHistory(handler string, h []int) bfs.Outcome {
	ops := c25Ops()
	r := c25NewRig(handler, true, []string{"my:chan"}, "allow", 0)
	var wantBodies [][]byte
	regForwarded := 0
	desc := func() string {
		var ls []string
		for _, oi := range h {
			ls = append(ls, fmt.Sprintf("%s %q fail=%v", ops[oi].Channel, ops[oi].Body, ops[oi].Fail))
		}
		return strings.Join(ls, " ; ")
	}
	for step, oi := range h {
		op := ops[oi]
		before := len(r.backend.writes)
		evBefore := len(g7Fired[*PlayerChannelRegisterEvent](r.events))
		if op.Fail {
			r.backend.writeErr = errG7Write
		}
		r.send(op.Channel, []byte(op.Body))
		r.backend.writeErr = nil
		if r.obs.panicked {
			return bfs.Outcome{FailKey: handler + "/panic", FailDesc: fmt.Sprint(r.obs.panicVal)}
		}
		dEv := len(g7Fired[*PlayerChannelRegisterEvent](r.events)) - evBefore
		if isRegisterChannel(op.Channel) && len(r.backend.writes) > before {
			// this registration was forwarded: exactly one event for it
			regForwarded++
			if dEv != 1 {
				kind := "register-forwarded-without-event"
				if dEv > 1 {
					kind = "register-event-count"
				}
				return bfs.Outcome{FailKey: handler + "/" + kind, FailDesc: fmt.Sprintf("history: %s\nstep %d: the registration reached the backend, PlayerChannelRegisterEvent fired %d time(s) for it", desc(), step, dEv)}
			}
		} else if dEv > 1 || (!isRegisterChannel(op.Channel) && dEv != 0) {
			return bfs.Outcome{FailKey: handler + "/register-event-count", FailDesc: fmt.Sprintf("history: %s\nstep %d: PlayerChannelRegisterEvent fired %d time(s) for a message that is not a forwarded registration", desc(), step, dEv)}
		}
		if op.Channel == "my:chan" {
			wantBodies = append(wantBodies, []byte(op.Body))
		}
	}
	o := r.collect()
	for i, d := range o.eventData {
		if i >= len(wantBodies) || !bytes.Equal(d, wantBodies[i]) {
			return bfs.Outcome{FailKey: handler + "/event-data-not-body", FailDesc: fmt.Sprintf("history: %s\nevent %d data %q", desc(), i, d)}
		}
	}
	key := fmt.Sprintf("reg=%d ev=%d chans=%d fwd=%d", regForwarded, len(o.eventData), r.player.clientsideChannels.Len(), len(r.backend.writes))
	return bfs.Outcome{Key: "", Obs: key}
}

type c25Replay struct {
	Mode    string    `json:"mode"`
	Pair    *c25Pair  `json:"pair,omitempty"`
	Login   *c25Login `json:"login,omitempty"`
	Case    c25Case   `json:"case"`
	Handler string    `json:"handler,omitempty"`
	History []int     `json:"history,omitempty"`
}

func TestVerif(t *testing.T) {
	vrt.Run(t, "C25", func(r *vrt.R) {
		var rp c25Replay
		if r.ReplayInto(&rp) {
			if rp.Mode == "login" && rp.Login != nil {
				for _, f := range c25CheckLogin(*rp.Login) {
					r.Violation(f.key, f.desc, rp)
				}
				return
			}
			if rp.Mode == "pair" && rp.Pair != nil {
				fails, _ := c25CheckPair(*rp.Pair)
				for _, f := range fails {
					r.Violation(f.key, f.desc, rp)
				}
				return
			}
			if rp.Mode == "history" {
				if out := c25RunHistory(rp.Handler, rp.History); out.FailKey != "" {
					r.Violation(out.FailKey, out.FailDesc, rp)
				}
				return
			}
			fails, _, _ := c25Check(rp.Case)
			for _, f := range fails {
				r.Violation(f.key, f.desc, rp)
			}
			return
		}
		cases := c25Cases(r.Thorough())
		samples := 0
		for i, c := range cases {
			if !r.Mine(i) {
				continue
			}
			if r.Expired() {
				break
			}
			fails, class, o := c25Check(c)
			r.Eval(1)
			r.Class(c.Handler + ":" + class)
			if c.Peer != "" {
				r.Class("peer=" + c.Peer + ":" + class)
			}
			if c.ConnType != "" {
				r.Class("conn=" + c.ConnType + ":" + c.Handler + ":" + class)
			}
			if c.Proto != "" {
				r.Class("proto=" + c.Proto + ":" + c.Handler + ":" + class)
			}
			if len(o.pluginEvents)+len(o.regEvents) > 0 {
				r.Nontrivial(1)
			}
			for _, f := range fails {
				r.Violation(f.key, f.desc, c25Replay{Mode: "case", Case: c})
			}
			if samples < 2 && len(o.eventData) > 0 && len(fails) == 0 {
				samples++
				r.Sample(map[string]any{"case": c.String(), "event_data": hex.EncodeToString(o.eventData[0]), "forwarded": len(o.forwarded)})
			}
		}
		r.Extra("cases", len(cases))
		pairs := c25PairCases()
		for i, c := range pairs {
			if !r.Mine(i) {
				continue
			}
			if r.Expired() {
				break
			}
			c := c
			fails, nEv := c25CheckPair(c)
			r.Eval(1)
			mode := "sync"
			if c.Deferred {
				mode = "deferred-callback"
			}
			r.Class(fmt.Sprintf("pair:%s:%s:events=%d", c.Handler, mode, nEv))
			if nEv > 0 {
				r.Nontrivial(1)
			}
			for _, f := range fails {
				r.Violation(f.key, f.desc, c25Replay{Mode: "pair", Pair: &c})
			}
		}
		r.Extra("pairs", len(pairs))
		logins := c25LoginCases()
		for i, c := range logins {
			if !r.Mine(i) {
				continue
			}
			c := c
			fails := c25CheckLogin(c)
			r.Eval(1)
			r.Class("backend-login:sub=" + c.Sub)
			if c.Sub != "none" {
				r.Nontrivial(1)
			}
			for _, f := range fails {
				r.Violation(f.key, f.desc, c25Replay{Mode: "login", Login: &c})
			}
		}
		r.Extra("login_cases", len(logins))
		depth := 3
		if r.Thorough() {
			depth = 5
		}
		alphabet := make([]int, len(c25Ops()))
		for i := range alphabet {
			alphabet[i] = i
		}
		for _, h := range []string{"client-play"} {
			h := h
			res := bfs.Explore(bfs.Config[int]{Name: h, Ops: alphabet, Depth: depth, Shard: r.Shard, NShards: r.NShards, Deadline: r.DeadlineTime(),
				Run: func(hist []int) bfs.Outcome { return c25RunHistory(h, hist) }})
			for k, f := range res.Failures {
				r.Violation(k, f.Desc, c25Replay{Mode: "history", Handler: h, History: f.History})
			}
			res.Failures = nil
			res.Merge(r, "history:"+h)
		}
	})
}
