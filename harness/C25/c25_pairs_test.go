package proxy

// C25, second part: two plugin messages in a row through one handler, every fired event RETAINED.
//
// event.Manager.FireParallel runs subscribers and the forwarding callback in another goroutine: an event
// (and its Data()) outlives the handler call that created it, and the read loop may already handle the next
// message. The statement "every plugin-message event exposes exactly the plugin message's body ... so that
// the data a handler sees is the data forwarded" therefore has to hold for an event that is looked at
// LATER: at the end of the history each retained event's Data() must still be the body of ITS message, and
// what was forwarded for it must be that body. Mode "deferred" additionally holds back the after-callback
// (the forwarding step) of message 1 until message 2 has been handled - the order a slow subscriber
// produces - for the handlers that do not pause reading while an event is in flight.

import (
	"bytes"
	"encoding/hex"
	"fmt"
	"net"
	"strings"

	"github.com/robinbraemer/event"
	"go.minekube.com/gate/pkg/edition/java/profile"
	"go.minekube.com/gate/pkg/edition/java/proto/packet"
	"go.minekube.com/gate/pkg/util/uuid"
)

// c25Events = the kit's synchronous recording manager + optional deferral of the after-callbacks.
type c25Events struct {
	*g7Events
	deferAfter bool
	pending    []func()
}

func (m *c25Events) FireParallel(e event.Event, after ...event.HandlerFunc) {
	m.g7Events.Fire(e) // subscribers see the event now
	run := func() {
		for _, fn := range after {
			fn(e)
		}
	}
	if m.deferAfter {
		m.pending = append(m.pending, run)
		return
	}
	run()
}

// release runs the held-back callbacks in firing order.
func (m *c25Events) release() {
	p := m.pending
	m.pending = nil
	for _, fn := range p {
		fn()
	}
}

var _ event.Manager = (*c25Events)(nil)

// c25Player is g7World.player with the wrapped manager in the player's dependencies.
func c25Player(w *g7World, mgr event.Manager, name string, conn *g7Conn) *connectedPlayer {
	prof := &profile.GameProfile{ID: uuid.OfflinePlayerUUID(name), Name: name}
	deps := &sessionHandlerDeps{proxy: w.Proxy, registrar: w.Proxy, eventMgr: mgr, configProvider: w.Proxy}
	p := newConnectedPlayer(conn, prof, &net.TCPAddr{IP: net.IPv4(127, 0, 0, 1), Port: 25565}, packet.LoginHandshakeIntent, false, nil, deps)
	if !w.Proxy.registerConnection(p) {
		panic("c25: cannot register player " + name)
	}
	return p
}

type c25Pair struct {
	Handler  string `json:"handler"`
	Modern   bool   `json:"modern"`
	Ch1      string `json:"ch1"`
	Ch2      string `json:"ch2"`
	Body1    string `json:"body1_hex"`
	Body2    string `json:"body2_hex"`
	Sub      string `json:"subscriber"` // passive | allow | deny
	Deferred bool   `json:"deferred"`   // the after-callback of message 1 runs after message 2 was handled
}

func (c c25Pair) String() string {
	return fmt.Sprintf("%s modern=%v [%q %s] then [%q %s] sub=%s deferred=%v", c.Handler, c.Modern, c.Ch1, c.Body1, c.Ch2, c.Body2, c.Sub, c.Deferred)
}

func c25PairCases() []c25Pair {
	var out []c25Pair
	first := []byte("first-message-body-0123456789")
	seconds := [][]byte{
		[]byte("2nd"),                            // shorter
		[]byte("SECOND-MESSAGE-BODY-9876543210"), // same length, other content
		bytes.Repeat([]byte("longer!"), 12),      // longer
		{},                                       // empty
		first,                                    // identical
	}
	for _, h := range []string{"client-play", "client-config", "client-initial", "backend-play", "backend-config"} {
		for _, modern := range []bool{true, false} {
			if !modern && strings.Contains(h, "config") {
				continue
			}
			a, b := "my:chan", "other:x"
			if !modern {
				a, b = "MyChan", "my:chan"
			}
			for _, chs := range [][2]string{{a, a}, {a, b}, {a, "unreg:chan"}, {"unreg:chan", a}} {
				for _, b2 := range seconds {
					for _, sub := range []string{"passive", "allow", "deny"} {
						for _, def := range []bool{false, true} {
							if def && strings.Contains(h, "config") {
								continue // the config handlers stop reading until the callback has run
							}
							out = append(out, c25Pair{Handler: h, Modern: modern, Ch1: chs[0], Ch2: chs[1], Body1: hex.EncodeToString(first), Body2: hex.EncodeToString(b2), Sub: sub, Deferred: def})
						}
					}
				}
			}
		}
	}
	return out
}

// c25CheckPair runs the two messages and applies the retained-event oracle.
func c25CheckPair(c c25Pair) (fails []c25Fail, nEvents int) {
	b1, _ := hex.DecodeString(c.Body1)
	b2, _ := hex.DecodeString(c.Body2)
	r := c25NewRigFor(c25Case{Handler: c.Handler, Modern: c.Modern, Registrar: []string{"my:chan", "MyChan", "other:x"}, Sub: c.Sub})
	fail := func(kind, format string, a ...any) {
		fails = append(fails, c25Fail{c.Handler + "/" + kind, fmt.Sprintf("pair: %s\n", c) + fmt.Sprintf(format, a...)})
	}
	r.mgr.deferAfter = c.Deferred
	msgs := []struct {
		ch   string
		body []byte
	}{{c.Ch1, b1}, {c.Ch2, b2}}
	for _, m := range msgs {
		r.send(m.ch, m.body)
		if r.obs.panicked {
			fail("panic", "panic: %v", r.obs.panicVal)
			return fails, 0
		}
	}
	if p, v := vrtCatch(r.mgr.release); p {
		fail("panic", "panic in a deferred forwarding callback: %v", v)
		return fails, 0
	}
	o := r.collect()
	// which message does an event belong to? events fire in message order, at most one per message; a message
	// on an unregistered channel fires none
	var want [][]byte
	var wantCh []string
	for _, m := range msgs {
		if _, ok := r.w.Proxy.ChannelRegistrar().FromID(m.ch); ok {
			want = append(want, m.body)
			wantCh = append(wantCh, m.ch)
		}
	}
	if len(o.pluginEvents) > len(want) {
		fail("event-count", "%d PluginMessageEvents for %d messages on registered channels", len(o.pluginEvents), len(want))
		return fails, len(o.pluginEvents)
	}
	if len(o.pluginEvents) < len(want) {
		// the statement does not demand an event; without the full set the attribution below is not defined
		return fails, len(o.pluginEvents)
	}
	for i, e := range o.pluginEvents {
		if i < len(o.eventData) && !bytes.Equal(o.eventData[i], want[i]) {
			fail("event-data-not-body", "event %d: Data() at firing time = %x\nbody of its message      = %x", i, o.eventData[i], want[i])
		}
		if now := e.Data(); !bytes.Equal(now, want[i]) {
			fail("retained-event-data-changed", "event %d (channel %q), looked at after the next message was handled: Data() = %x\nbody of ITS message = %x\n(body of the other message = %x)", i, wantCh[i], now, want[i], want[len(want)-1-i])
		}
	}
	if c.Sub != "deny" {
		// everything was let through: the messages on registered channels are forwarded once each, in order,
		// each with the body its event exposed
		var fw []c25Forward
		for _, f := range o.forwarded {
			for _, ch := range wantCh {
				if f.channel == ch {
					fw = append(fw, f)
					break
				}
			}
		}
		// (messages on unregistered channels are forwarded too and are not part of fw unless the names coincide)
		if len(fw) != len(want) {
			fail("forwarded-count", "%d messages on registered channels let through, %d forwarded: %v", len(want), len(fw), fw)
		} else {
			for i, f := range fw {
				if !bytes.Equal(f.body, want[i]) {
					fail("forwarded-data-differs", "message %d (channel %q): forwarded body = %x (via %s)\nbody its event exposed = %x", i, wantCh[i], f.body, f.how, want[i])
				}
			}
		}
	}
	return fails, len(o.pluginEvents)
}

func vrtCatch(fn func()) (panicked bool, val any) {
	defer func() {
		if v := recover(); v != nil {
			panicked, val = true, v
		}
	}()
	fn()
	return
}
