package proxy

// C25, third part: the LOGIN phase of a backend connection. "every plugin-message event, in any connection
// phase ..., exposes exactly the plugin message's body": a backend's login plugin request that the proxy does
// not answer itself is handed to plugins as ServerLoginPluginMessageEvent; its Contents() must be the body of
// that request (and identifier / SequenceID those of that request), also when the event is looked at again
// after the next request was handled.

import (
	"bytes"
	"context"
	"encoding/hex"
	"fmt"

	"go.minekube.com/gate/pkg/edition/java/proto/packet"
	"go.minekube.com/gate/pkg/edition/java/proto/state"
	"go.minekube.com/gate/pkg/gate/proto"
)

type c25Login struct {
	Modern   bool     `json:"modern"`
	Channels []string `json:"channels"` // one request per channel, in order
	Bodies   []string `json:"bodies_hex"`
	Sub      string   `json:"subscriber"` // none | passive | respond
}

func (c c25Login) String() string {
	return fmt.Sprintf("backend-login modern=%v channels=%q bodies=%v sub=%s", c.Modern, c.Channels, c.Bodies, c.Sub)
}

func c25LoginCases() []c25Login {
	var out []c25Login
	bodies := append(c25Bodies(false), []byte("SECOND-request"), []byte("2"))
	hx := func(b []byte) string { return hex.EncodeToString(b) }
	for _, modern := range []bool{true, false} {
		for _, sub := range []string{"none", "passive", "respond"} {
			for _, ch := range []string{"my:chan", "velocity:player_info", "fml:loginwrapper", "minecraft:brand"} {
				for _, b := range bodies {
					out = append(out, c25Login{Modern: modern, Channels: []string{ch}, Bodies: []string{hx(b)}, Sub: sub})
				}
			}
			// two requests in a row (second body shorter / same length / longer), events retained
			first := []byte("first-login-request-0123456789")
			for _, b2 := range [][]byte{[]byte("2nd"), []byte("SECOND-LOGIN-REQUEST-987654321"), bytes.Repeat([]byte("longer!"), 12), {}} {
				for _, chs := range [][]string{{"my:chan", "my:chan"}, {"my:chan", "other:x"}} {
					out = append(out, c25Login{Modern: modern, Channels: chs, Bodies: []string{hx(first), hx(b2)}, Sub: sub})
				}
			}
		}
	}
	return out
}

func c25CheckLogin(c c25Login) (fails []c25Fail) {
	fail := func(kind, format string, a ...any) {
		fails = append(fails, c25Fail{"backend-login/" + kind, fmt.Sprintf("case: %s\n", c) + fmt.Sprintf(format, a...)})
	}
	w := g7NewWorld()
	mgr := &c25Events{g7Events: w.Events}
	w.Proxy.event = mgr
	protocol := g7Legacy
	if c.Modern {
		protocol = g7Modern
	}
	client := g7NewConn("client", protocol, state.Login)
	backend := g7NewConn("backend", protocol, state.Login)
	player := c25Player(w, mgr, "Alice", client)
	srv := w.server("lobby", []byte{10, 0, 1, 1}, 25565)
	sc := newServerConnection(srv, nil, player)
	sc.connection = backend
	player.mu.Lock()
	player.connInFlight = sc
	player.mu.Unlock()
	var seen [][]byte
	switch c.Sub {
	case "passive":
		g7On(w.Events, func(e *ServerLoginPluginMessageEvent) { seen = append(seen, append([]byte(nil), e.Contents()...)) })
	case "respond":
		g7On(w.Events, func(e *ServerLoginPluginMessageEvent) {
			seen = append(seen, append([]byte(nil), e.Contents()...))
			e.Result().Response = []byte("plugin-answer")
		})
	}
	deps := &sessionHandlerDeps{proxy: w.Proxy, registrar: w.Proxy, eventMgr: mgr, configProvider: w.Proxy}
	h := newBackendLoginSessionHandler(sc, &connRequestCxt{Context: context.Background(), response: make(chan *connResponse, 4)}, deps)
	var bodies [][]byte
	for i, ch := range c.Channels {
		body, _ := hex.DecodeString(c.Bodies[i])
		bodies = append(bodies, body)
		msg := &packet.LoginPluginMessage{ID: 40 + i, Channel: ch, Data: append([]byte(nil), body...)}
		if p, v := vrtCatch(func() {
			h.HandlePacket(&proto.PacketContext{Direction: proto.ClientBound, Protocol: protocol, PacketID: 0x04, Packet: msg})
		}); p {
			fail("panic", "request %d on %q: panic: %v", i, ch, v)
			return fails
		}
	}
	events := g7Fired[*ServerLoginPluginMessageEvent](w.Events)
	if c.Sub == "none" && len(events) != 0 {
		// (whether an event fires without subscribers is not stated; its data still has to be right)
	}
	// attribute events to requests by sequence id (the proxy answers some requests itself: no event for those)
	for i, e := range events {
		idx := e.SequenceID() - 40
		if idx < 0 || idx >= len(bodies) {
			fail("event-sequence-id", "event %d carries sequence id %d, the requests had ids 40..%d", i, e.SequenceID(), 39+len(bodies))
			continue
		}
		if i < len(seen) && !bytes.Equal(seen[i], bodies[idx]) {
			fail("event-data-not-body", "event for request %d (channel %q): Contents() at firing time = %x\nbody of the request = %x", idx, c.Channels[idx], seen[i], bodies[idx])
		}
		if now := e.Contents(); !bytes.Equal(now, bodies[idx]) {
			fail("retained-event-data-changed", "event for request %d (channel %q), looked at after all requests were handled: Contents() = %x\nbody of ITS request = %x", idx, c.Channels[idx], now, bodies[idx])
		}
		if e.id == nil || e.id.ID() != c.Channels[idx] {
			fail("event-identifier", "event for request %d: identifier = %v, the request was on channel %q", idx, e.id, c.Channels[idx])
		}
	}
	return fails
}
