package gate

// C37 — configuration validation accepts exactly the documented space, and every accepted
// configuration survives a serialize-and-reload round trip unchanged.
//
// Base = the repository's shipped config.yml loaded over the defaults (classic mode), and the
// same with lite.enabled = true. Every single-field and every two-field deviation over the
// boundary alphabets below is applied to a fresh copy; the real Validate() verdict (errors or
// none) is compared with an independent predicate written from the documented constraints
// (the constraint texts of the validation messages and the field docs); accepted configurations
// are serialized (YAML, JSON) and reloaded through the strict decoder and through the file
// reload path, and compared field by field with the original.

import (
	"encoding/json"
	"fmt"
	"math"
	"net"
	"os"
	"path/filepath"
	"reflect"
	"sort"
	"strings"
	"testing"
	"time"

	"github.com/spf13/viper"
	"gopkg.in/yaml.v3"

	bconfig "go.minekube.com/gate/pkg/edition/bedrock/config"
	jconfig "go.minekube.com/gate/pkg/edition/java/config"
	liteconfig "go.minekube.com/gate/pkg/edition/java/lite/config"
	"go.minekube.com/gate/pkg/edition/java/ping"
	"go.minekube.com/gate/pkg/edition/java/proxy/zzverif/vrt"
	"go.minekube.com/gate/pkg/gate/config"
	"go.minekube.com/gate/pkg/util/configutil"
)

// ---------------------------------------------------------------------------------------------
// base configurations
// ---------------------------------------------------------------------------------------------

var shippedYAML []byte

func loadShipped() error {
	repo := os.Getenv("VERIF_REPO")
	if repo == "" {
		repo = "/repo"
	}
	b, err := os.ReadFile(filepath.Join(repo, "config.yml"))
	if err != nil {
		return err
	}
	shippedYAML = b
	_, err = freshBase(false)
	return err
}

// defaultsCopy returns an independent deep copy of config.DefaultConfig (through YAML, which
// every custom type of the configuration supports).
func defaultsCopy() (*config.Config, error) {
	b, err := yaml.Marshal(&config.DefaultConfig)
	if err != nil {
		return nil, err
	}
	var c config.Config
	if err := yaml.Unmarshal(b, &c); err != nil {
		return nil, err
	}
	return &c, nil
}

var baseCfg *config.Config

// freshBase returns a new base configuration: defaults overlaid with the shipped file (lenient
// YAML, as gate.LoadConfig does), optionally switched to Lite mode. The struct is copied by
// value from one parsed instance; maps, slices and pointers stay shared, so every setter below
// replaces (never mutates) the collection it changes.
func freshBase(lite bool) (*config.Config, error) {
	if baseCfg == nil {
		c, err := defaultsCopy()
		if err != nil {
			return nil, err
		}
		if err := yaml.Unmarshal(shippedYAML, c); err != nil {
			return nil, err
		}
		baseCfg = c
	}
	c := *baseCfg
	c.Config.Lite.Enabled = lite
	return &c, nil
}

func cowServers(c *config.Config) map[string]string {
	m := make(map[string]string, len(c.Config.Servers)+1)
	for k, v := range c.Config.Servers {
		m[k] = v
	}
	c.Config.Servers = m
	return m
}

func cowRoutes(c *config.Config) []liteconfig.Route {
	c.Config.Lite.Routes = append([]liteconfig.Route{}, c.Config.Lite.Routes...)
	return c.Config.Lite.Routes
}

// ---------------------------------------------------------------------------------------------
// deviation alphabets
// ---------------------------------------------------------------------------------------------

type val struct {
	label string
	set   func(c *config.Config)
}

type field struct {
	name string
	vals []val
	lite int // 0 = both modes, 1 = only meaningful with lite on, -1 = only classic
	// single: applied as a single deviation only (never paired with a second field)
	single bool
}

func repeat(s string, n int) string { return strings.Repeat(s, n) }

func fields() []field {
	var fs []field
	add := func(name string, lite int, vs ...val) { fs = append(fs, field{name: name, vals: vs, lite: lite}) }

	var binds []val
	for _, b := range []string{"", " ", "\t", "localhost", ":25565", "0.0.0.0:", "[::1]:25565", "::1:25565", "[::1]", "a:b:c", "1.2.3.4:99999", "0.0.0.0:abc", " 0.0.0.0:25565", "[::1:25565", "host]:1"} {
		b := b
		binds = append(binds, val{fmt.Sprintf("%q", b), func(c *config.Config) { c.Config.Bind = b }})
	}
	add("bind", 0, binds...)

	for qi, qn := range []string{"connections", "logins"} {
		qi := qi
		q := func(c *config.Config) *jconfig.QuotaSettings {
			if qi == 0 {
				return &c.Config.Quota.Connections
			}
			return &c.Config.Quota.Logins
		}
		add("quota."+qn+".enabled", 0, val{"false", func(c *config.Config) { q(c).Enabled = false }})
		var ops []val
		for _, o := range []float32{-1, -math.SmallestNonzeroFloat32, 0, float32(math.Copysign(0, -1)), math.SmallestNonzeroFloat32, 0.4, math.MaxFloat32, float32(math.NaN())} {
			o := o
			ops = append(ops, val{fmt.Sprintf("%g", o), func(c *config.Config) { q(c).OPS = o }})
		}
		add("quota."+qn+".ops", 0, ops...)
		var bursts, entries []val
		for _, n := range []int{-1, 0, 1, 2} {
			n := n
			bursts = append(bursts, val{fmt.Sprint(n), func(c *config.Config) { q(c).Burst = n }})
			entries = append(entries, val{fmt.Sprint(n), func(c *config.Config) { q(c).MaxEntries = n }})
		}
		add("quota."+qn+".burst", 0, bursts...)
		add("quota."+qn+".maxEntries", 0, entries...)
	}

	var modes []val
	for _, m := range []string{"none", "legacy", "velocity", "bungeeguard", "", "Legacy", "modern", " legacy", "legacy\n"} {
		m := m
		modes = append(modes, val{fmt.Sprintf("%q", m), func(c *config.Config) { c.Config.Forwarding.Mode = jconfig.ForwardingMode(m) }})
	}
	add("forwarding.mode", -1, modes...)

	var levels, thresholds []val
	for n := -2; n <= 10; n++ {
		n := n
		levels = append(levels, val{fmt.Sprint(n), func(c *config.Config) { c.Config.Compression.Level = n }})
	}
	for _, n := range []int{-2, -1, 0, 1, math.MinInt32} {
		n := n
		thresholds = append(thresholds, val{fmt.Sprint(n), func(c *config.Config) { c.Config.Compression.Threshold = n }})
	}
	add("compression.level", -1, levels...)
	add("compression.threshold", -1, thresholds...)

	// servers: one extra entry with a boundary name / address, or a removal
	var names []val
	for _, n := range []string{"", "a", "A", "0", repeat("a", 63), repeat("a", 64), "-a", "a-", "_a", "a_", ".a", "a.", "a b", "a/b", "a:b", "a_b.c-d", "ä", "aä", "a\n", " a", "a§"} {
		n := n
		names = append(names, val{fmt.Sprintf("%.12q(len %d)", n, len(n)), func(c *config.Config) { cowServers(c)[n] = "localhost:25570" }})
	}
	add("servers.+name", -1, names...)
	var addrs []val
	for _, a := range []string{"", "localhost", "localhost:", ":25570", "localhost:25570:1", "[::1]:25570", "::1", "[::1]", "example.com:abc"} {
		a := a
		addrs = append(addrs, val{fmt.Sprintf("%q", a), func(c *config.Config) { cowServers(c)["extra"] = a }})
	}
	add("servers.+addr", -1, addrs...)
	add("servers.-server1", -1, val{"removed", func(c *config.Config) { delete(cowServers(c), "server1") }},
		val{"all-removed", func(c *config.Config) { c.Config.Servers = map[string]string{} }})

	var tries []val
	for _, t := range [][]string{{}, {"server1"}, {"missing"}, {"server1", "missing"}, {"server1", "server1"}, {"Server1"}, {""}} {
		t := t
		tries = append(tries, val{fmt.Sprint(t), func(c *config.Config) { c.Config.Try = append([]string{}, t...) }})
	}
	add("try", -1, tries...)

	var fh []val
	for _, t := range [][]string{{"server2"}, {"missing"}, {"server1", "missing"}, {}, {"SERVER1"}} {
		t := t
		fh = append(fh, val{fmt.Sprint(t), func(c *config.Config) {
			c.Config.ForcedHosts = map[string][]string{"play.example.test": append([]string{}, t...)}
		}})
	}
	fh = append(fh,
		val{"two-hosts-second-missing", func(c *config.Config) {
			c.Config.ForcedHosts = map[string][]string{"a.example.test": {"server1"}, "b.example.test": {"missing"}}
		}},
		val{"two-hosts-ok", func(c *config.Config) {
			c.Config.ForcedHosts = map[string][]string{"a.example.test": {"server1"}, "b.example.test": {"server2", "server1"}}
		}},
		val{"host-without-servers", func(c *config.Config) {
			c.Config.ForcedHosts = map[string][]string{"a.example.test": nil}
		}})
	add("forcedHosts", -1, fh...)

	var tp []val
	for _, t := range [][]string{{"10.1.2.3"}, {"10.0.0.0/8"}, {"::1"}, {"fc00::/7"}, {" 10.0.0.1 "}, {"10.0.0.1/8"}, {"0.0.0.0/0"}, {"10.0.0.0/33"}, {"10.0.0.0/-1"}, {"abc"}, {""}, {"10.0.0"}, {"10.0.0.1", "nope"},
		{"::ffff:10.0.0.1"}, {"::ffff:10.0.0.0/104"}, {"10.0.0.0/8/8"}, {"1.2.3.4:80"}, {"::/0"}, {"fc00::/129"}} {
		t := t
		tp = append(tp, val{fmt.Sprintf("%q", t), func(c *config.Config) { c.Config.ProxyProtocolTrustedProxies = append([]string{}, t...) }})
	}
	add("proxyProtocolTrustedProxies", 0, tp...)
	add("proxyProtocol", 0, val{"true", func(c *config.Config) { c.Config.ProxyProtocol = true }})

	// settings whose default is not the zero value (no constraint of their own; they matter for
	// the serialize-and-reload half of the property)
	add("nonzero-default", 0,
		val{"onlineMode=false", func(c *config.Config) { c.Config.OnlineMode = false }},
		val{"bungeePluginChannelEnabled=false", func(c *config.Config) { c.Config.BungeePluginChannelEnabled = false }},
		val{"builtinCommands=false", func(c *config.Config) { c.Config.BuiltinCommands = false }},
		val{"announceProxyCommands=false", func(c *config.Config) { c.Config.AnnounceProxyCommands = false }},
		val{"forceKeyAuthentication=false", func(c *config.Config) { c.Config.ForceKeyAuthentication = false }},
		val{"failoverOnUnexpectedServerDisconnect=false", func(c *config.Config) { c.Config.FailoverOnUnexpectedServerDisconnect = false }},
		val{"connectionTimeout=0", func(c *config.Config) { c.Config.ConnectionTimeout = 0 }},
		val{"readTimeout=0", func(c *config.Config) { c.Config.ReadTimeout = 0 }},
		val{"status.showMaxPlayers=0", func(c *config.Config) { c.Config.Status.ShowMaxPlayers = 0 }},
		val{"query.port=0", func(c *config.Config) { c.Config.Query.Port = 0 }},
		val{"packetLimiter=zero", func(c *config.Config) { c.Config.PacketLimiter = jconfig.PacketLimiter{} }},
		val{"healthService.bind=empty", func(c *config.Config) { c.HealthService.Bind = "" }},
		val{"api.bind=empty(disabled)", func(c *config.Config) { c.API.Config.Bind = "" }},
	)

	// lite routes
	r0 := func(c *config.Config) *liteconfig.Route {
		if len(c.Config.Lite.Routes) == 0 {
			return &liteconfig.Route{} // no first route to change (pair with lite.routes=none/empty)
		}
		return &cowRoutes(c)[0]
	}
	add("lite.routes", 1,
		val{"none", func(c *config.Config) { c.Config.Lite.Routes = nil }},
		val{"empty", func(c *config.Config) { c.Config.Lite.Routes = []liteconfig.Route{} }},
		val{"one-zero-route", func(c *config.Config) { c.Config.Lite.Routes = []liteconfig.Route{{}} }},
		val{"first-only", func(c *config.Config) { c.Config.Lite.Routes = c.Config.Lite.Routes[:1] }},
		val{"last-broken", func(c *config.Config) {
			c.Config.Lite.Routes = append(cowRoutes(c), liteconfig.Route{Host: []string{"x.example.test"}})
		}},
	)
	add("lite.routes[0].host", 1,
		val{"nil", func(c *config.Config) { r0(c).Host = nil }},
		val{"empty", func(c *config.Config) { r0(c).Host = []string{} }},
		val{"two", func(c *config.Config) { r0(c).Host = []string{"a.example.test", "*.b.example.test"} }},
		val{"wildcard", func(c *config.Config) { r0(c).Host = []string{"*"} }},
	)
	var backends []val
	for _, b := range [][]string{nil, {}, {"localhost"}, {"10.0.0.1:25565"}, {"host:abc"}, {"host:"}, {"$1.svc:25565"}, {"$1.svc:abc"}, {"[::1]:25565"}, {"::1"}, {"[::1"}, {"localhost:25566", "host:abc"}, {"a:1:2"}, {"host:25565x"}, {"host:-1"}, {"host:+1"},
		// '$' in backends. Documented: "$1, $2, etc." parameters are substituted from the host's
		// wildcards, so an address that only fails to parse because of such a parameter is exempt.
		// A '$' that is not followed by a digit is not a parameter: no exemption.
		{"backend.local:$PORT"}, {"backend.local:$"}, {"backend.local:${1}"}, {"[backend$:25565"}, {"host:$x1"}, {"localhost:25566", "backend.local:$PORT"},
		{"host:$1"}, {"[$1:25565"}, {"svc:$10"}, {"$1.svc:$2"},
		{"back$end:25565"}, {"$.svc:25565"}, {"host$"}, {"$0.svc:25565"}, {"$10.svc:25565"}, {"$1$2.svc"}} {
		b := b
		backends = append(backends, val{fmt.Sprintf("%q", b), func(c *config.Config) {
			if b == nil {
				r0(c).Backend = nil
			} else {
				r0(c).Backend = append([]string{}, b...)
			}
		}})
	}
	add("lite.routes[0].backend", 1, backends...)
	// optional members of a route (no constraint of their own: present / absent / non-default
	// values for the serialize-and-reload half)
	add("lite.routes[0].options", 1,
		val{"cachePingTTL=-1s", func(c *config.Config) { r0(c).CachePingTTL = configutil.Duration(-time.Second) }},
		val{"cachePingTTL=0", func(c *config.Config) { r0(c).CachePingTTL = 0 }},
		val{"cachePingTTL=90s", func(c *config.Config) { r0(c).CachePingTTL = configutil.Duration(90 * time.Second) }},
		val{"proxyProtocol", func(c *config.Config) { r0(c).ProxyProtocol = true }},
		val{"realIP", func(c *config.Config) { r0(c).RealIP = true }},
		val{"tcpShieldRealIP", func(c *config.Config) { r0(c).TCPShieldRealIP = true }},
		val{"modifyVirtualHost", func(c *config.Config) { r0(c).ModifyVirtualHost = true }},
		val{"fallback=none", func(c *config.Config) { r0(c).Fallback = nil }},
		val{"fallback=empty", func(c *config.Config) { r0(c).Fallback = &liteconfig.Status{} }},
		val{"fallback=version+players", func(c *config.Config) {
			r0(c).Fallback = &liteconfig.Status{Version: ping.Version{Protocol: -1, Name: "offline"}, Players: &ping.Players{Online: 0, Max: 20}}
		}},
		val{"fallback=players-zero", func(c *config.Config) { r0(c).Fallback = &liteconfig.Status{Players: &ping.Players{}} }},
	)
	var strategies []val
	for _, s := range []string{"", "sequential", "random", "round-robin", "least-connections", "lowest-latency", "Random", "roundrobin", "round_robin", " random", "x"} {
		s := s
		strategies = append(strategies, val{fmt.Sprintf("%q", s), func(c *config.Config) { r0(c).Strategy = liteconfig.Strategy(s) }})
	}
	add("lite.routes[0].strategy", 1, strategies...)

	// the same constraints on a route that is NOT the first one (a second route is appended when
	// the list is shorter)
	rLast := func(c *config.Config) *liteconfig.Route {
		rs := cowRoutes(c)
		if len(rs) < 2 {
			rs = append(rs, liteconfig.Route{Host: []string{"second.example.test"}, Backend: []string{"localhost:25570"}})
			c.Config.Lite.Routes = rs
		}
		return &rs[len(rs)-1]
	}
	add("lite.routes[last]", 1,
		val{"strategy=x", func(c *config.Config) { rLast(c).Strategy = "x" }},
		val{"strategy=random", func(c *config.Config) { rLast(c).Strategy = "random" }},
		val{"backend=host:abc", func(c *config.Config) { rLast(c).Backend = []string{"localhost:25566", "host:abc"} }},
		val{"backend=none", func(c *config.Config) { rLast(c).Backend = nil }},
		val{"backend=host:$PORT", func(c *config.Config) { rLast(c).Backend = []string{"backend.local:$PORT"} }},
		val{"backend=host:$1", func(c *config.Config) { rLast(c).Backend = []string{"backend.local:$1"} }},
		val{"host=none", func(c *config.Config) { rLast(c).Host = nil }},
		val{"host=two", func(c *config.Config) { rLast(c).Host = []string{"c.example.test", "d.example.test"} }},
	)

	// optional sections switched ON (in a way that satisfies their own rules): Validate reads
	// these switches on its way to the listed constraints, so every listed constraint must keep
	// its verdict with each of them on (pairs with every other field).
	add("feature-switch", 0,
		val{"via.enabled", func(c *config.Config) { c.Config.Via.Enabled = true }},
		val{"via.enabled,embedded,bind", func(c *config.Config) {
			c.Config.Via.Enabled = true
			c.Config.Via.Mode = "embedded"
			c.Config.Via.Bind = "127.0.0.1:25570"
		}},
		val{"bedrock.enabled", func(c *config.Config) { c.Config.Bedrock.Enabled = true }},
		val{"api.enabled", func(c *config.Config) { c.API.Enabled = true }},
		val{"healthService.enabled", func(c *config.Config) { c.HealthService.Enabled = true }},
		val{"packetLimiter.rate-without-interval", func(c *config.Config) {
			c.Config.PacketLimiter = jconfig.PacketLimiter{PacketsPerSecond: 10, BytesPerSecond: 1000}
		}},
	)

	// every leaf of the configuration struct, one at a time: zero value / flipped bool / +1
	fs = append(fs, field{name: "leaf", vals: leafVals(), single: true})
	return fs
}

// leafVals walks config.Config by reflection (nested structs by value; pointers, collections and
// types with their own (un)marshalling are leaves) and yields, per leaf, the deviations "zero
// value", "flipped" (bool) and "+1" (numbers) from whatever the base holds. These matter for the
// serialize-and-reload half of the property (a field whose default is not its zero value, a
// custom codec) and re-check the verdict oracle on settings no alphabet above touches.
func leafVals() []val {
	var out []val
	var walk func(t reflect.Type, idx []int, name string)
	isLeafStruct := func(t reflect.Type) bool {
		pt := reflect.PointerTo(t)
		for _, m := range []string{"MarshalYAML", "MarshalJSON", "UnmarshalYAML", "UnmarshalJSON", "MarshalText"} {
			if _, ok := pt.MethodByName(m); ok {
				return true
			}
		}
		for i := 0; i < t.NumField(); i++ {
			if t.Field(i).IsExported() {
				return false
			}
		}
		return true
	}
	at := func(c *config.Config, idx []int) reflect.Value { return reflect.ValueOf(c).Elem().FieldByIndex(idx) }
	walk = func(t reflect.Type, idx []int, name string) {
		for i := 0; i < t.NumField(); i++ {
			f := t.Field(i)
			if !f.IsExported() {
				continue
			}
			p := append(append([]int{}, idx...), i)
			n := name + "." + f.Name
			if n == ".Config.Bedrock" || n == ".Connect" {
				// sections with rules of their own in which an empty string is not a setting but
				// "unset" (bedrock.ToConfig substitutes the defaults; connect refuses to start):
				// no listed constraint, and "" -> default on reload is not a change of meaning
				continue
			}
			if f.Type.Kind() == reflect.Struct && !isLeafStruct(f.Type) {
				walk(f.Type, p, n)
				continue
			}
			out = append(out, val{n + "=zero", func(c *config.Config) { v := at(c, p); v.Set(reflect.Zero(v.Type())) }})
			switch f.Type.Kind() {
			case reflect.Bool:
				out = append(out, val{n + "=flipped", func(c *config.Config) { v := at(c, p); v.SetBool(!v.Bool()) }})
			case reflect.Int, reflect.Int8, reflect.Int16, reflect.Int32, reflect.Int64:
				out = append(out, val{n + "=+1", func(c *config.Config) { v := at(c, p); v.SetInt(v.Int() + 1) }})
			case reflect.Uint, reflect.Uint8, reflect.Uint16, reflect.Uint32, reflect.Uint64:
				out = append(out, val{n + "=+1", func(c *config.Config) { v := at(c, p); v.SetUint(v.Uint() + 1) }})
			case reflect.Float32, reflect.Float64:
				out = append(out, val{n + "=+0.5", func(c *config.Config) { v := at(c, p); v.SetFloat(v.Float() + 0.5) }})
			}
		}
	}
	walk(reflect.TypeOf(config.Config{}), nil, "")
	return out
}

// ---------------------------------------------------------------------------------------------
// independent predicate: which documented constraints does c break?
// ---------------------------------------------------------------------------------------------

// hostPortForm: "host:port", "[host]:port"; an unbracketed host must not contain ':'; a bracketed
// host must be closed and followed by ':'; stray brackets are not allowed. Port may be any text.
func hostPortForm(s string) bool {
	i := strings.LastIndexByte(s, ':')
	if i < 0 {
		return false
	}
	host := s[:i]
	if strings.HasPrefix(s, "[") {
		end := strings.IndexByte(s, ']')
		if end < 0 || end+1 != i {
			return false
		}
		host = s[1:end]
		if strings.ContainsAny(host, "[]") {
			return false
		}
	} else if strings.ContainsAny(host, ":[]") {
		return false
	}
	return !strings.ContainsAny(s[i+1:], "[]")
}

func decimalInt(s string) bool {
	if s != "" && (s[0] == '+' || s[0] == '-') {
		s = s[1:]
	}
	if s == "" || len(s) > 18 {
		return false
	}
	for _, ch := range s {
		if ch < '0' || ch > '9' {
			return false
		}
	}
	return true
}

// liteBackendForm: a backend is "host" or "host:port" with an integer port; IPv6 literals with
// several colons and no brackets are a bare host.
func liteBackendForm(s string) bool {
	if strings.HasPrefix(s, "[") {
		end := strings.IndexByte(s, ']')
		if end < 0 {
			return false
		}
		rest := s[end+1:]
		if rest == "" {
			return true // bracketed host without port
		}
		return rest[0] == ':' && decimalInt(rest[1:])
	}
	switch strings.Count(s, ":") {
	case 0:
		return !strings.ContainsAny(s, "[]")
	case 1:
		return decimalInt(s[strings.IndexByte(s, ':')+1:]) && !strings.ContainsAny(s, "[]")
	default:
		return true
	}
}

func hasParam(s string) bool {
	for i := 0; i+1 < len(s); i++ {
		if s[i] == '$' && s[i+1] >= '0' && s[i+1] <= '9' {
			return true
		}
	}
	return false
}

func serverNameOK(n string) bool {
	if len(n) < 1 || len(n) > 63 {
		return false
	}
	alnum := func(b byte) bool { return b >= 'a' && b <= 'z' || b >= 'A' && b <= 'Z' || b >= '0' && b <= '9' }
	for i := 0; i < len(n); i++ {
		if !alnum(n[i]) && n[i] != '-' && n[i] != '_' && n[i] != '.' {
			return false
		}
	}
	return alnum(n[0]) && alnum(n[len(n)-1])
}

func trustedEntryOK(s string) bool {
	s = strings.TrimSpace(s)
	if strings.Contains(s, "/") {
		ip, _, err := net.ParseCIDR(s)
		if err != nil {
			return false
		}
		return !(strings.Contains(s, ":") && ip.To4() != nil) // no IPv4-mapped IPv6 spellings
	}
	ip := net.ParseIP(s)
	if ip == nil {
		return false
	}
	return !(strings.Contains(s, ":") && ip.To4() != nil)
}

func broken(c *config.Config) []string {
	var out []string
	b := func(id string) { out = append(out, id) }
	j := &c.Config
	if strings.TrimSpace(j.Bind) == "" || !hostPortForm(j.Bind) {
		b("bind")
	}
	for i, q := range []jconfig.QuotaSettings{j.Quota.Connections, j.Quota.Logins} {
		if !q.Enabled {
			continue
		}
		if !(q.OPS > 0) {
			b(fmt.Sprintf("quota[%d].ops", i))
		}
		if !(q.Burst >= 1) {
			b(fmt.Sprintf("quota[%d].burst", i))
		}
		if !(q.MaxEntries >= 1) {
			b(fmt.Sprintf("quota[%d].maxEntries", i))
		}
	}
	for _, t := range j.ProxyProtocolTrustedProxies {
		if !trustedEntryOK(t) {
			b("trustedProxies")
			break
		}
	}
	if c.HealthService.Enabled && !hostPortForm(c.HealthService.Bind) {
		b("healthService.bind")
	}
	if c.API.Enabled && (strings.TrimSpace(c.API.Config.Bind) == "" || !hostPortForm(c.API.Config.Bind)) {
		b("api.bind")
	}
	if j.Lite.Enabled {
		// Lite mode: routes are the only routing input; servers/try/forcedHosts, forwarding and
		// compression are documented as ignored.
		if len(j.Lite.Routes) == 0 {
			b("lite.noRoutes")
		}
		for i, rt := range j.Lite.Routes {
			if len(rt.Host) == 0 {
				b(fmt.Sprintf("lite.route[%d].host", i))
			}
			if len(rt.Backend) == 0 {
				b(fmt.Sprintf("lite.route[%d].backend", i))
			}
			switch rt.Strategy {
			case "", "sequential", "random", "round-robin", "least-connections", "lowest-latency":
			default:
				b(fmt.Sprintf("lite.route[%d].strategy", i))
			}
			for _, be := range rt.Backend {
				if !liteBackendForm(be) && !hasParam(be) {
					if len(rt.Host) > 0 { // (a route without host is already broken)
						b(fmt.Sprintf("lite.route[%d].backendAddr", i))
					}
				}
			}
		}
		return out
	}
	switch j.Forwarding.Mode {
	case "none", "legacy", "velocity", "bungeeguard":
	default:
		b("forwarding.mode")
	}
	for name, addr := range j.Servers {
		if !serverNameOK(name) {
			b("servers.name")
		}
		if !hostPortForm(addr) {
			b("servers.addr")
		}
	}
	for _, n := range j.Try {
		if _, ok := j.Servers[n]; !ok {
			b("try.ref")
		}
	}
	for _, ns := range j.ForcedHosts {
		for _, n := range ns {
			if _, ok := j.Servers[n]; !ok {
				b("forcedHosts.ref")
			}
		}
	}
	if j.Compression.Level < -1 || j.Compression.Level > 9 {
		b("compression.level")
	}
	if j.Compression.Threshold < -1 {
		b("compression.threshold")
	}
	sort.Strings(out)
	return out
}

// ---------------------------------------------------------------------------------------------
// comparison of configurations: field by field, nil and empty collections are the same
// ---------------------------------------------------------------------------------------------

var (
	componentType     = reflect.TypeOf(configutil.Component{})
	textComponentType = reflect.TypeOf(configutil.TextComponent{})
)

// richText renders a chat component in its serialized (legacy / JSON) form: two component trees
// that serialize identically are the same text (adjacent runs of one style may be split or
// merged by the codec without changing what is displayed).
func richText(v reflect.Value) (string, bool) {
	if !v.CanInterface() {
		return "", false
	}
	// normal form: serialize, parse, serialize again (the codec merges adjacent runs of one style
	// on output, so the second serialization is a fixpoint for equal renderings)
	switch x := v.Interface().(type) {
	case configutil.Component:
		out, err := x.MarshalYAML()
		if err == nil {
			var again configutil.Component
			if again.UnmarshalYAML(&yaml.Node{Kind: yaml.ScalarNode, Tag: "!!str", Value: fmt.Sprint(out)}) == nil {
				if out2, err2 := again.MarshalYAML(); err2 == nil {
					out = out2
				}
			}
		}
		return fmt.Sprintf("component(%v,%v)", out, err), true
	case configutil.TextComponent:
		out, err := x.MarshalYAML()
		if err == nil {
			var again configutil.TextComponent
			if again.UnmarshalYAML(&yaml.Node{Kind: yaml.ScalarNode, Tag: "!!str", Value: fmt.Sprint(out)}) == nil {
				if out2, err2 := again.MarshalYAML(); err2 == nil {
					out = out2
				}
			}
		}
		return fmt.Sprintf("text(%v,%v)", out, err), true
	}
	return "", false
}

func dump(sb *strings.Builder, v reflect.Value, depth int) {
	if depth > 40 {
		sb.WriteString("<deep>")
		return
	}
	if v.IsValid() && (v.Type() == componentType || v.Type() == textComponentType) {
		if s, ok := richText(v); ok {
			sb.WriteString(s)
			return
		}
	}
	switch v.Kind() {
	case reflect.Pointer, reflect.Interface:
		if v.IsNil() {
			sb.WriteString("nil")
			return
		}
		if v.Kind() == reflect.Interface {
			// free-form maps (map[string]any): YAML yields int, JSON float64 for the same number
			switch e := v.Elem(); e.Kind() {
			case reflect.Int, reflect.Int8, reflect.Int16, reflect.Int32, reflect.Int64:
				fmt.Fprintf(sb, "num:%g", float64(e.Int()))
				return
			case reflect.Uint, reflect.Uint8, reflect.Uint16, reflect.Uint32, reflect.Uint64:
				fmt.Fprintf(sb, "num:%g", float64(e.Uint()))
				return
			case reflect.Float32, reflect.Float64:
				fmt.Fprintf(sb, "num:%g", e.Float())
				return
			}
			sb.WriteString(v.Elem().Type().String())
		}
		sb.WriteString("&")
		dump(sb, v.Elem(), depth+1)
	case reflect.Struct:
		sb.WriteString("{")
		for i := 0; i < v.NumField(); i++ {
			sb.WriteString(v.Type().Field(i).Name)
			sb.WriteString(":")
			dump(sb, v.Field(i), depth+1)
			sb.WriteString(" ")
		}
		sb.WriteString("}")
	case reflect.Slice, reflect.Array:
		sb.WriteString("[")
		for i := 0; i < v.Len(); i++ {
			dump(sb, v.Index(i), depth+1)
			sb.WriteString(",")
		}
		sb.WriteString("]")
	case reflect.Map:
		keys := v.MapKeys()
		ks := make([]string, len(keys))
		m := map[string]reflect.Value{}
		for i, k := range keys {
			ks[i] = fmt.Sprintf("%q", k.String())
			m[ks[i]] = v.MapIndex(k)
		}
		sort.Strings(ks)
		sb.WriteString("map[")
		for _, k := range ks {
			sb.WriteString(k)
			sb.WriteString(":")
			dump(sb, m[k], depth+1)
			sb.WriteString(",")
		}
		sb.WriteString("]")
	case reflect.String:
		fmt.Fprintf(sb, "%q", v.String())
	case reflect.Bool:
		fmt.Fprintf(sb, "%v", v.Bool())
	case reflect.Int, reflect.Int8, reflect.Int16, reflect.Int32, reflect.Int64:
		fmt.Fprintf(sb, "%d", v.Int())
	case reflect.Uint, reflect.Uint8, reflect.Uint16, reflect.Uint32, reflect.Uint64, reflect.Uintptr:
		fmt.Fprintf(sb, "%d", v.Uint())
	case reflect.Float32, reflect.Float64:
		if v.Float() == 0 {
			sb.WriteString("0") // -0 and +0 are the same number
		} else {
			fmt.Fprintf(sb, "%x", v.Float())
		}
	case reflect.Func, reflect.Chan, reflect.UnsafePointer:
		sb.WriteString("<opaque>")
	default:
		fmt.Fprintf(sb, "<%s>", v.Kind())
	}
}

func dumpConfig(c *config.Config) string {
	var sb strings.Builder
	dump(&sb, reflect.ValueOf(c).Elem(), 0)
	return sb.String()
}

// diffPath names the first top-level-ish field that differs, for the violation key and message.
func diffPath(a, b reflect.Value, path string) string {
	var sa, sb strings.Builder
	dump(&sa, a, 0)
	dump(&sb, b, 0)
	if sa.String() == sb.String() {
		return ""
	}
	if a.Kind() == reflect.Struct && a.Type() == b.Type() {
		for i := 0; i < a.NumField(); i++ {
			if p := diffPath(a.Field(i), b.Field(i), path+"."+a.Type().Field(i).Name); p != "" {
				return p
			}
		}
	}
	x, y := sa.String(), sb.String()
	if len(x) > 160 {
		x = x[:160] + "…"
	}
	if len(y) > 160 {
		y = y[:160] + "…"
	}
	return fmt.Sprintf("%s: %s -> %s", strings.TrimPrefix(path, "."), x, y)
}

// ---------------------------------------------------------------------------------------------
// one case
// ---------------------------------------------------------------------------------------------

type caseID struct {
	Lite bool   `json:"lite"`
	F1   string `json:"f1"`
	V1   string `json:"v1"`
	F2   string `json:"f2,omitempty"`
	V2   string `json:"v2,omitempty"`
}

func (id caseID) String() string {
	s := fmt.Sprintf("base(lite=%v) %s=%s", id.Lite, id.F1, id.V1)
	if id.F2 != "" {
		s += fmt.Sprintf(" %s=%s", id.F2, id.V2)
	}
	return s
}

var tmpDir string

func runCase(r *vrt.R, id caseID, sets ...func(*config.Config)) {
	r.Eval(1)
	c, err := freshBase(id.Lite)
	if err != nil {
		r.Violation("harness/base", err.Error(), nil)
		return
	}
	for _, s := range sets {
		s(c)
	}
	var errs []error
	if p, v := vrt.Catch(func() { _, errs = c.Validate() }); p {
		r.Violation("Validate/panic", fmt.Sprintf("%v: panic %v", id, v), id)
		return
	}
	br := broken(c)
	switch {
	case len(errs) == 0 && len(br) > 0:
		r.Violation("Validate/accepts-broken-constraint/"+br[0], fmt.Sprintf("%v: documented constraint(s) %v broken but Validate reported no error", id, br), id)
		return
	case len(errs) > 0 && len(br) == 0 && id.F1 == "leaf" && strings.HasPrefix(id.V1, ".Config.Via."):
		// the section has rules of its own that the statement does not list: no verdict oracle
		r.Class("rejected:by-a-rule-outside-the-listed-constraints")
		return
	case len(errs) > 0 && len(br) == 0:
		r.Violation("Validate/rejects-documented-config/"+errTemplate(errs[0]), fmt.Sprintf("%v: no documented constraint is broken but Validate reported %v", id, errs), id)
		return
	case len(errs) > 0:
		r.Class("rejected:" + br[0])
		return
	}
	r.Class("accepted")
	r.Nontrivial(1)
	roundTrips(r, id, c)
}

// bedrockUnset returns a copy in which the three bedrock strings hold their defaults when empty:
// in that section "" is not a setting but "unset" (BedrockConfig.ToConfig substitutes exactly
// these defaults), so a loader that decodes over the defaults may legitimately hand back the
// default where the serialized document omitted the empty string.
func bedrockUnset(c *config.Config) *config.Config {
	cc := *c
	b := &cc.Config.Bedrock
	if b.GeyserListenAddr == "" {
		b.GeyserListenAddr = bconfig.DefaultConfig.GeyserListenAddr
	}
	if b.UsernameFormat == "" {
		b.UsernameFormat = bconfig.DefaultConfig.UsernameFormat
	}
	if b.FloodgateKeyPath == "" {
		b.FloodgateKeyPath = bconfig.DefaultConfig.FloodgateKeyPath
	}
	return &cc
}

func roundTrips(r *vrt.R, id caseID, c *config.Config) {
	want := reflect.ValueOf(c).Elem()
	wantU := reflect.ValueOf(bedrockUnset(c)).Elem()
	// (1) YAML -> strict decode
	y, err := yaml.Marshal(c)
	if err != nil {
		r.Violation("roundtrip/yaml-serialize-failed", fmt.Sprintf("%v: %v", id, err), id)
		return
	}
	var c1 config.Config
	if err := decodeConfigStrict(y, ".yaml", &c1); err != nil {
		r.Violation("roundtrip/yaml-strict-decode-failed", fmt.Sprintf("%v: serialized YAML is rejected by the strict decoder: %v", id, err), id)
	} else if d := diffPath(want, reflect.ValueOf(&c1).Elem(), ""); d != "" {
		r.Violation("roundtrip/yaml-changed/"+fieldOf(d), fmt.Sprintf("%v: YAML serialize -> strict decode changed %s", id, d), id)
	}
	// (2) JSON -> strict decode
	j, err := json.Marshal(c)
	if err != nil {
		j = nil
	}
	if err != nil && strings.Contains(err.Error(), "unsupported value: NaN") {
		// JSON (RFC 8259) has no representation for NaN; only reachable through a parameter of a
		// DISABLED quota once enabled quotas reject it. Recorded, not asserted.
		r.Class("json-round-trip-n/a:NaN-in-disabled-quota")
	} else if err != nil {
		r.Violation("roundtrip/json-serialize-failed", fmt.Sprintf("%v: %v", id, err), id)
	} else {
		var c2 config.Config
		if err := decodeConfigStrict(j, ".json", &c2); err != nil {
			r.Violation("roundtrip/json-strict-decode-failed", fmt.Sprintf("%v: serialized JSON is rejected by the strict decoder: %v", id, err), id)
		} else if d := diffPath(want, reflect.ValueOf(&c2).Elem(), ""); d != "" {
			r.Violation("roundtrip/json-changed/"+fieldOf(d), fmt.Sprintf("%v: JSON serialize -> strict decode changed %s", id, d), id)
		}
	}
	// (3) the file reload path: persist as YAML (what the API's persist does), reload with
	// loadLiveConfigCandidate (defaults + strict decode + viper), compare
	path := filepath.Join(tmpDir, "config.yml")
	if err := os.WriteFile(path, y, 0o600); err != nil {
		r.Violation("harness/tmpfile", err.Error(), nil)
		return
	}
	c3, err := loadLiveConfigCandidate(viper.New(), path)
	if err != nil {
		r.Violation("roundtrip/file-reload-failed", fmt.Sprintf("%v: persisted YAML cannot be reloaded: %v", id, err), id)
	} else if d := diffPath(want, reflect.ValueOf(c3).Elem(), ""); d != "" {
		r.Violation("roundtrip/file-reload-changed/"+fieldOf(d), fmt.Sprintf("%v: persist -> reload changed %s", id, d), id)
	}
	if id.F2 != "" {
		return // the two further loaders run on the base and on every single deviation (quick budget)
	}
	// (4) the same file through the start-up loader (LoadConfig: defaults + lenient decode)
	v := viper.New()
	v.SetConfigFile(path)
	c4, err := LoadConfig(v)
	if err != nil {
		r.Violation("roundtrip/startup-load-failed", fmt.Sprintf("%v: persisted YAML cannot be loaded at start-up: %v", id, err), id)
	} else if d := diffPath(wantU, reflect.ValueOf(bedrockUnset(c4)).Elem(), ""); d != "" {
		r.Violation("roundtrip/startup-load-changed/"+fieldOf(d), fmt.Sprintf("%v: persist -> LoadConfig changed %s", id, d), id)
	}
	// (5) a JSON config file through the file reload path
	if j != nil {
		jpath := filepath.Join(tmpDir, "config.json")
		if err := os.WriteFile(jpath, j, 0o600); err != nil {
			r.Violation("harness/tmpfile", err.Error(), nil)
			return
		}
		c5, err := loadLiveConfigCandidate(viper.New(), jpath)
		if err != nil {
			r.Violation("roundtrip/json-file-reload-failed", fmt.Sprintf("%v: persisted JSON cannot be reloaded: %v", id, err), id)
		} else if d := diffPath(wantU, reflect.ValueOf(bedrockUnset(c5)).Elem(), ""); d != "" {
			r.Violation("roundtrip/json-file-reload-changed/"+fieldOf(d), fmt.Sprintf("%v: JSON persist -> reload changed %s", id, d), id)
		}
	}
}

// errTemplate reduces a validation error to its constant words (quoted values, numbers and
// punctuation removed) so that the violation key names the rule that fired, not the input.
func errTemplate(err error) string {
	var words []string
	inQuote := false
	for _, w := range strings.Fields(err.Error()) {
		startsQ := strings.HasPrefix(w, "\"") || strings.HasPrefix(w, "'")
		endsQ := len(w) > 1 && (strings.HasSuffix(strings.TrimRight(w, ":,."), "\"") || strings.HasSuffix(strings.TrimRight(w, ":,."), "'"))
		if inQuote {
			if strings.ContainsAny(w, "\"'") {
				inQuote = false
			}
			continue
		}
		if startsQ {
			if !endsQ {
				inQuote = true
			}
			continue
		}
		clean := strings.Map(func(r rune) rune {
			if r >= 'a' && r <= 'z' || r >= 'A' && r <= 'Z' {
				return r
			}
			return -1
		}, w)
		if clean != "" && len(words) < 6 {
			words = append(words, strings.ToLower(clean))
		}
	}
	return strings.Join(words, "-")
}

func fieldOf(d string) string {
	if i := strings.Index(d, ":"); i > 0 {
		return d[:i]
	}
	return d
}

func TestVerif(t *testing.T) {
	vrt.Run(t, "C37", func(r *vrt.R) {
		if err := loadShipped(); err != nil {
			r.Violation("harness/shipped-config", "cannot load the repo's config.yml: "+err.Error(), nil)
			return
		}
		tmpDir = t.TempDir()
		fs := fields()
		byName := map[string]field{}
		for _, f := range fs {
			byName[f.name] = f
		}
		find := func(f field, label string) func(*config.Config) {
			for _, v := range f.vals {
				if v.label == label {
					return v.set
				}
			}
			return nil
		}
		var rps map[string]any
		if r.ReplayInto(&rps) && rps["shipped"] != nil {
			repo := os.Getenv("VERIF_REPO")
			if repo == "" {
				repo = "/repo"
			}
			f := fmt.Sprint(rps["shipped"])
			r.Eval(1)
			if _, err := loadLiveConfigCandidate(viper.New(), filepath.Join(repo, f)); err != nil {
				r.Violation("reload/shipped-config-rejected", fmt.Sprintf("the shipped %s is rejected by the file reload path (%v)", f, err), rps)
			}
			return
		}
		var rp caseID
		if r.ReplayInto(&rp) {
			sets := []func(*config.Config){}
			if rp.F1 != "base" {
				sets = append(sets, find(byName[rp.F1], rp.V1))
			}
			if rp.F2 != "" {
				sets = append(sets, find(byName[rp.F2], rp.V2))
			}
			for _, s := range sets {
				if s == nil {
					r.T.Fatalf("replay: unknown case %v", rp)
				}
			}
			runCase(r, rp, sets...)
			return
		}

		// the shipped example configurations are the documented space's exemplars: the strict
		// file reload path must accept them
		if r.Shard == 0 {
			repo := os.Getenv("VERIF_REPO")
			if repo == "" {
				repo = "/repo"
			}
			for _, f := range []string{"config.yml", "config-lite.yml", "config-simple.yml", "config-bedrock.yml"} {
				if _, err := os.Stat(filepath.Join(repo, f)); err != nil {
					continue
				}
				r.Eval(1)
				if _, err := loadLiveConfigCandidate(viper.New(), filepath.Join(repo, f)); err != nil {
					detail := ""
					if b, rerr := os.ReadFile(filepath.Join(repo, f)); rerr == nil {
						var c config.Config
						if derr := decodeConfigStrict(b, ".yml", &c); derr != nil {
							detail = derr.Error()
						}
					}
					r.Violation("reload/shipped-config-rejected", fmt.Sprintf("the shipped %s is rejected by the file reload path (%v): %s", f, err, detail), map[string]string{"shipped": f})
				} else {
					r.Class("shipped-config-reloadable")
				}
			}
		}

		item := 0
		mine := func() bool { item++; return r.Mine(item - 1) }
		nvals := 0
		for _, f := range fs {
			nvals += len(f.vals)
		}
		if r.Shard == 0 {
			r.Extra("fields", len(fs))
			r.Extra("field_values", nvals)
		}
		for _, lite := range []bool{false, true} {
			if mine() {
				runCase(r, caseID{Lite: lite, F1: "base", V1: "unchanged"})
			}
			for i, f1 := range fs {
				if f1.lite == 1 && !lite {
					continue
				}
				for _, v1 := range f1.vals {
					if mine() {
						runCase(r, caseID{Lite: lite, F1: f1.name, V1: v1.label}, v1.set)
					}
					if r.Expired() {
						return
					}
					if f1.single {
						continue
					}
					for _, f2 := range fs[i+1:] {
						if f2.lite == 1 && !lite || f2.single {
							continue
						}
						if r.Quick() && lite && f1.lite == -1 && f2.lite == -1 {
							// quick tier: pairs of two classic-only fields under Lite are sampled by
							// their single-field cases only (both are documented as ignored there)
							continue
						}
						for _, v2 := range f2.vals {
							if mine() {
								runCase(r, caseID{Lite: lite, F1: f1.name, V1: v1.label, F2: f2.name, V2: v2.label}, v1.set, v2.set)
							}
						}
					}
				}
			}
		}
	})
}
