package c06

import (
	"fmt"
	"math"
	"reflect"
	"sort"
	"testing"

	"go.minekube.com/gate/pkg/edition/java/proto/state"
	"go.minekube.com/gate/pkg/edition/java/proto/version"
	"go.minekube.com/gate/pkg/edition/java/proxy/zzverif/refids"
	"go.minekube.com/gate/pkg/edition/java/proxy/zzverif/vrt"
	"go.minekube.com/gate/pkg/gate/proto"
)

// gate packet type (reflect.Type.String()) -> Velocity packet class. Part of the trusted base together with the TSV.
var velocityClass = map[string]string{
	"packet.Handshake":                 "HandshakePacket",
	"packet.StatusRequest":             "StatusRequestPacket",
	"packet.StatusPing":                "StatusPingPacket",
	"packet.StatusResponse":            "StatusResponsePacket",
	"packet.ClientSettings":            "ClientSettingsPacket",
	"plugin.Message":                   "PluginMessagePacket",
	"config.FinishedUpdate":            "FinishedUpdatePacket",
	"packet.KeepAlive":                 "KeepAlivePacket",
	"packet.PingIdentify":              "PingIdentifyPacket",
	"packet.ResourcePackResponse":      "ResourcePackResponsePacket",
	"config.KnownPacks":                "KnownPacksPacket",
	"packet.CustomClickActionPacket":   "ServerboundCustomClickActionPacket",
	"config.CodeOfConductAcceptPacket": "CodeOfConductAcceptPacket",
	"cookie.CookieResponse":            "ServerboundCookieResponsePacket",
	"packet.Disconnect":                "DisconnectPacket",
	"config.RegistrySync":              "RegistrySyncPacket",
	"packet.RemoveResourcePack":        "RemoveResourcePackPacket",
	"packet.ResourcePackRequest":       "ResourcePackRequestPacket",
	"packet.Transfer":                  "TransferPacket",
	"config.ActiveFeatures":            "ActiveFeaturesPacket",
	"config.TagsUpdate":                "TagsUpdatePacket",
	"packet.CustomReportDetails":       "ClientboundCustomReportDetailsPacket",
	"packet.ServerLinks":               "ClientboundServerLinksPacket",
	"cookie.CookieRequest":             "ClientboundCookieRequestPacket",
	"cookie.CookieStore":               "ClientboundStoreCookiePacket",
	"packet.DialogClear":               "DialogClearPacket",
	"packet.DialogShow":                "DialogShowPacket",
	"config.CodeOfConductPacket":       "CodeOfConductPacket",
	"packet.ServerLogin":               "ServerLoginPacket",
	"packet.EncryptionResponse":        "EncryptionResponsePacket",
	"packet.LoginPluginResponse":       "LoginPluginResponsePacket",
	"packet.LoginAcknowledged":         "LoginAcknowledgedPacket",
	"packet.EncryptionRequest":         "EncryptionRequestPacket",
	"packet.ServerLoginSuccess":        "ServerLoginSuccessPacket",
	"packet.SetCompression":            "SetCompressionPacket",
	"packet.LoginPluginMessage":        "LoginPluginMessagePacket",
	"chat.LegacyChat":                  "LegacyChatPacket",
	"chat.ChatAcknowledgement":         "ChatAcknowledgementPacket",
	"chat.KeyedPlayerCommand":          "KeyedPlayerCommandPacket",
	"chat.KeyedPlayerChat":             "KeyedPlayerChatPacket",
	"chat.SessionPlayerCommand":        "SessionPlayerCommandPacket",
	"chat.UnsignedPlayerCommand":       "UnsignedPlayerCommandPacket",
	"chat.SessionPlayerChat":           "SessionPlayerChatPacket",
	"packet.TabCompleteRequest":        "TabCompleteRequestPacket",
	"packet.JoinGame":                  "JoinGamePacket",
	"packet.Respawn":                   "RespawnPacket",
	"bossbar.BossBar":                  "BossBarPacket",
	"packet.HeaderAndFooter":           "HeaderAndFooterPacket",
	"legacytablist.PlayerListItem":     "LegacyPlayerListItemPacket",
	"title.Legacy":                     "LegacyTitlePacket",
	"title.Subtitle":                   "TitleSubtitlePacket",
	"title.Text":                       "TitleTextPacket",
	"title.Actionbar":                  "TitleActionbarPacket",
	"title.Times":                      "TitleTimesPacket",
	"title.Clear":                      "TitleClearPacket",
	"packet.TabCompleteResponse":       "TabCompleteResponsePacket",
	"packet.AvailableCommands":         "AvailableCommandsPacket",
	"playerinfo.Remove":                "RemovePlayerInfoPacket",
	"playerinfo.Upsert":                "UpsertPlayerInfoPacket",
	"chat.SystemChat":                  "SystemChatPacket",
	"packet.PlayerChatCompletion":      "PlayerChatCompletionPacket",
	"packet.ServerData":                "ServerDataPacket",
	"config.StartUpdate":               "StartUpdatePacket",
	"packet.BundleDelimiter":           "BundleDelimiterPacket",
	"packet.SoundEntityPacket":         "ClientboundSoundEntityPacket",
	"packet.StopSoundPacket":           "ClientboundStopSoundPacket",
}

type side struct {
	state string
	dir   string
	reg   *state.PacketRegistry
	// mustFallback: the statement's fallback clause is asserted unconditionally here; for Play the tree (like the
	// reference implementation) deliberately has no fallback, there the clause is asserted only if a table is returned.
	mustFallback bool
}

func sides() []side {
	var out []side
	for _, s := range []struct {
		n string
		r *state.Registry
	}{{"Handshake", state.Handshake}, {"Status", state.Status}, {"Login", state.Login}, {"Config", state.Config}, {"Play", state.Play}} {
		out = append(out,
			side{s.n, "SB", s.r.ServerBound, s.n != "Play"},
			side{s.n, "CB", s.r.ClientBound, s.n != "Play"})
	}
	return out
}

type replayCase struct {
	State, Dir string
	Protocol   int
	Kind       string    `json:",omitempty"` // "" = registry cell / fallback; "fromdir"; "register"
	Lists      []mapList `json:",omitempty"` // Kind "register": the Register calls
}

func TestVerif(t *testing.T) {
	vrt.Run(t, "C06", func(r *vrt.R) {
		tab, err := refids.Load()
		if err != nil {
			t.Fatalf("reference table malformed: %v", err)
		}
		var rp replayCase
		replay := r.ReplayInto(&rp)

		// the proxy's own notion of "supported protocol versions"
		var supported []int
		supSet := map[int]bool{}
		for _, v := range version.SupportedVersions {
			supported = append(supported, int(v.Protocol))
			supSet[int(v.Protocol)] = true
		}
		sort.Ints(supported)
		minProto := proto.Protocol(supported[0])
		if int(version.MinimumVersion.Protocol) != supported[0] {
			r.Violation("versions/minimum-not-lowest", fmt.Sprintf("MinimumVersion=%d lowest supported=%d", version.MinimumVersion.Protocol, supported[0]), rp)
		}

		// trusted-base self checks (errors here are harness errors, not violations of the tree)
		refProtocols := []int{}
		for _, v := range refids.Versions {
			refProtocols = append(refProtocols, v.Protocol)
		}
		if probs := tab.SelfCheck(refProtocols); len(probs) > 0 {
			t.Fatalf("reference table is self-contradictory: %v", probs)
		}
		r.Extra("reference_table", fmt.Sprintf("lib/refids/velocity_ids.tsv: %d map() lines, %d registrations, horizon protocol %d — hand transcription, TRUSTED BASE", tab.Lines, len(tab.Rows), tab.Horizon))
		if !replay {
			ob := tab.OrderBreaks(refProtocols)
			keys := make([]string, 0, len(ob))
			for k := range ob {
				keys = append(keys, k)
			}
			sort.Strings(keys)
			r.Extra("reference_order_flips", fmt.Sprintf("%v (version steps where two transcribed packets swap relative id order; informational)", keys))
		}

		// every type registered anywhere
		allTypes := map[reflect.Type]bool{}
		for _, sd := range sides() {
			for _, pr := range sd.reg.Protocols {
				for ty := range pr.PacketTypes {
					allTypes[ty] = true
				}
			}
		}
		var types []reflect.Type
		for ty := range allTypes {
			types = append(types, ty)
		}
		sort.Slice(types, func(i, j int) bool { return types[i].String() < types[j].String() })
		r.Extra("registered_types", len(types))
		unmapped := []string{}
		for _, ty := range types {
			if velocityClass[ty.String()] == "" {
				unmapped = append(unmapped, ty.String())
			}
		}
		if len(unmapped) > 0 {
			r.Note(fmt.Sprintf("types without a Velocity counterpart in the harness mapping (not compared with the reference): %v", unmapped))
		}

		// unknown protocol numbers: every integer in [-3,1000] the proxy does not list, plus extremes
		var unknown []int
		for p := -3; p <= 1000; p++ {
			if !supSet[p] {
				unknown = append(unknown, p)
			}
		}
		unknown = append(unknown, math.MaxInt32, math.MinInt32, 0x7FFF, 1<<20)

		// ---- second half (c06_register_test.go): FromDirection and the Register API on fresh registries
		if replay && rp.Kind == "register" {
			runRegister(r, supported, rp.Lists)
			return
		}
		if !replay || rp.Kind == "fromdir" {
			checkFromDirection(r, supported, unknown, rp, replay)
			if replay {
				return
			}
		}

		uncoveredBeyond, uncoveredNoRow := 0, 0
		uncoveredProtocols := map[int]bool{}
		item := 0
		for _, sd := range sides() {
			sd := sd
			if replay && (rp.State != sd.state || rp.Dir != sd.dir) {
				continue
			}
			cellName := sd.state + "/" + sd.dir
			// registry must have exactly the supported protocols
			for p := range sd.reg.Protocols {
				if !supSet[int(p)] {
					r.Violation("registry/has-unsupported-protocol/"+cellName, fmt.Sprintf("%s has a table for protocol %d which is not a supported version", cellName, p), replayCase{State: sd.state, Dir: sd.dir, Protocol: int(p)})
				}
			}
			// does the type occur anywhere in this state/direction?
			inSide := map[reflect.Type]bool{}
			for _, pr := range sd.reg.Protocols {
				for ty := range pr.PacketTypes {
					inSide[ty] = true
				}
			}
			for _, p := range supported {
				item++
				if !r.Mine(item) || (replay && rp.Protocol != p && supSet[rp.Protocol]) {
					continue
				}
				rc := replayCase{State: sd.state, Dir: sd.dir, Protocol: p}
				pr := sd.reg.ProtocolRegistry(proto.Protocol(p))
				if pr == nil {
					r.Violation("registry/no-table-for-supported-protocol/"+cellName, fmt.Sprintf("%s: ProtocolRegistry(%d) is nil", cellName, p), rc)
					continue
				}
				if pr != sd.reg.Protocols[proto.Protocol(p)] || int(pr.Protocol) != p {
					r.Violation("registry/wrong-table-for-supported-protocol/"+cellName, fmt.Sprintf("%s: ProtocolRegistry(%d) returned the table of protocol %d", cellName, p, pr.Protocol), rc)
				}
				r.Class("cell/" + cellName)
				// ---- oracle 1: partial bijection, through the public accessors
				maxID := 255
				for id := range pr.PacketIDs {
					if int(id) > maxID {
						maxID = int(id)
					}
				}
				seenType := map[reflect.Type]int{}
				nIDs := 0
				for id := 0; id <= maxID; id++ {
					r.Eval(1)
					pk := pr.CreatePacket(proto.PacketID(id))
					ty, inMap := pr.PacketIDs[proto.PacketID(id)]
					if (pk != nil) != inMap {
						r.Violation("bijection/createpacket-disagrees-with-id-map/"+cellName, fmt.Sprintf("%s protocol %d id %#x: CreatePacket nil=%v but PacketIDs has entry=%v", cellName, p, id, pk == nil, inMap), rc)
					}
					if pk == nil {
						continue
					}
					nIDs++
					got := proto.TypeOf(pk)
					if inMap && got != ty {
						r.Violation("bijection/createpacket-wrong-type/"+cellName, fmt.Sprintf("%s protocol %d id %#x: CreatePacket made %s, table says %s", cellName, p, id, got, ty), rc)
					}
					if prev, dup := seenType[got]; dup {
						r.Violation("bijection/two-ids-one-type/"+cellName, fmt.Sprintf("%s protocol %d: ids %#x and %#x both create %s", cellName, p, prev, id, got), rc)
					}
					seenType[got] = id
					back, found := pr.PacketID(pk)
					if !found || int(back) != id {
						r.Violation("bijection/id-to-type-not-invertible/"+cellName, fmt.Sprintf("%s protocol %d: id %#x creates %s but PacketID(%s) = %#x found=%v", cellName, p, id, got, got, back, found), rc)
					}
				}
				for _, ty := range types {
					r.Eval(1)
					inst := reflect.New(ty).Interface().(proto.Packet)
					id, found := pr.PacketID(inst)
					if _, inMap := pr.PacketTypes[ty]; inMap != found {
						r.Violation("bijection/packetid-disagrees-with-type-map/"+cellName, fmt.Sprintf("%s protocol %d type %s", cellName, p, ty), rc)
					}
					if found {
						pk := pr.CreatePacket(id)
						if pk == nil || proto.TypeOf(pk) != ty {
							r.Violation("bijection/type-to-id-not-invertible/"+cellName, fmt.Sprintf("%s protocol %d: PacketID(%s)=%#x but CreatePacket(%#x) is %T", cellName, p, ty, id, id, pk), rc)
						}
					}
				}
				if len(pr.PacketIDs) != len(pr.PacketTypes) || nIDs != len(pr.PacketTypes) {
					r.Violation("bijection/map-sizes-differ/"+cellName, fmt.Sprintf("%s protocol %d: %d ids, %d types, %d creatable ids", cellName, p, len(pr.PacketIDs), len(pr.PacketTypes), nIDs), rc)
				}
				if nIDs > 0 {
					r.Nontrivial(1)
				}

				// ---- oracle 2: agreement with the transcribed Velocity table
				for _, ty := range types {
					cls := velocityClass[ty.String()]
					if cls == "" || !inSide[ty] {
						continue
					}
					gid, registered := pr.PacketTypes[ty]
					rid, present, known, mp := tab.Lookup(sd.state, sd.dir, cls, p)
					if !known {
						if registered {
							if p > tab.Horizon {
								uncoveredBeyond++
								uncoveredProtocols[p] = true
							} else {
								uncoveredNoRow++
							}
						}
						continue
					}
					r.Eval(1)
					who := fmt.Sprintf("%s %s (Velocity %s) protocol %d", cellName, ty, cls, p)
					tk := cellName + "/" + ty.String()
					switch {
					case registered && present:
						r.Class("velocity-compared/conf-" + mp.Conf)
						r.Distinct(fmt.Sprintf("%s|%d", tk, p))
						if int(gid) != rid {
							r.Violation("velocity-id-mismatch/"+tk, fmt.Sprintf("%s: proxy id %#x, reference id %#x (velocity_ids.tsv line %d, conf %s)", who, gid, rid, mp.Line, mp.Conf), rc)
						}
					case registered && !present:
						r.Class("velocity-compared/absent-in-reference")
						r.Violation("registered-where-velocity-has-none/"+tk, fmt.Sprintf("%s: proxy registers id %#x, the reference does not register the packet in this version", who, gid), rc)
					case !registered && present:
						r.Class("velocity-compared/absent-in-proxy")
						r.Violation("missing-where-velocity-registers/"+tk, fmt.Sprintf("%s: reference id %#x (line %d), the proxy does not register the packet in this version although it registers it in other versions of this state/direction", who, rid, mp.Line), rc)
					default:
						r.Class("velocity-compared/absent-in-both")
					}
				}
			}

			// ---- fallback clause
			if replay && supSet[rp.Protocol] {
				continue
			}
			minTable := sd.reg.Protocols[minProto]
			if sd.mustFallback && !sd.reg.Fallback {
				r.Violation("fallback/disabled/"+cellName, cellName+": Fallback is false; unknown protocol versions get no table", replayCase{State: sd.state, Dir: sd.dir, Protocol: -1})
			}
			for _, u := range unknown {
				if replay && rp.Protocol != u {
					continue
				}
				r.Eval(1)
				got := sd.reg.ProtocolRegistry(proto.Protocol(u))
				rc := replayCase{State: sd.state, Dir: sd.dir, Protocol: u}
				switch {
				case got == nil && sd.mustFallback:
					r.Violation("fallback/no-table/"+cellName, fmt.Sprintf("%s: unknown protocol %d gets no table", cellName, u), rc)
				case got == nil:
					r.Class("unknown-protocol/no-table(Play: fallback off by design, as in the reference)")
				case got != minTable:
					r.Violation("fallback/not-lowest-version/"+cellName, fmt.Sprintf("%s: unknown protocol %d resolves to the table of protocol %d, lowest supported is %d", cellName, u, got.Protocol, minProto), rc)
				default:
					r.Class("unknown-protocol/falls-back-to-lowest")
					// the fallback table must behave like the lowest version's table for every id
					for id := 0; id <= 255; id++ {
						a, b := got.CreatePacket(proto.PacketID(id)), minTable.CreatePacket(proto.PacketID(id))
						if (a == nil) != (b == nil) || (a != nil && proto.TypeOf(a) != proto.TypeOf(b)) {
							r.Violation("fallback/table-differs/"+cellName, fmt.Sprintf("%s unknown %d id %#x", cellName, u, id), rc)
						}
					}
				}
			}
		}
		if !replay {
			checkRegisterAPI(r, supported, &item)
		}
		if !replay {
			var up []int
			for p := range uncoveredProtocols {
				up = append(up, p)
			}
			sort.Ints(up)
			r.Extra("velocity_uncovered_cells_beyond_horizon", uncoveredBeyond)
			r.Extra("velocity_uncovered_cells_no_row", uncoveredNoRow)
			r.Extra("velocity_uncovered_protocols", fmt.Sprint(up))
			r.Extra("supported_protocols", len(supported))
			r.Extra("unknown_protocols_tried", len(unknown))
			// real protocol numbers the reference knows but the proxy does not list (they take the fallback path)
			var missing []int
			for _, v := range refids.Versions {
				if !supSet[v.Protocol] {
					missing = append(missing, v.Protocol)
				}
			}
			r.Extra("release_protocols_not_listed_by_proxy", fmt.Sprint(missing))
			r.Sample(map[string]any{"cell": "Play/CB protocol 773", "type": "plugin.Message", "proxy_id": idOf(state.Play.ClientBound, 773, "plugin.Message"), "reference": lookupStr(tab, "Play", "CB", "PluginMessagePacket", 773)})
			r.Sample(map[string]any{"cell": "Play/SB protocol 47", "type": "packet.ResourcePackResponse", "proxy_id": idOf(state.Play.ServerBound, 47, "packet.ResourcePackResponse"), "reference": lookupStr(tab, "Play", "SB", "ResourcePackResponsePacket", 47)})
			r.Sample(map[string]any{"unknown_protocol": 578, "Login/CB resolves to protocol": int(state.Login.ClientBound.ProtocolRegistry(578).Protocol), "Play/CB table nil": state.Play.ClientBound.ProtocolRegistry(578) == nil})
		}
	})
}

func idOf(reg *state.PacketRegistry, p int, typ string) string {
	pr := reg.Protocols[proto.Protocol(p)]
	if pr == nil {
		return "no table"
	}
	for ty, id := range pr.PacketTypes {
		if ty.String() == typ {
			return fmt.Sprintf("%#x", int(id))
		}
	}
	return "unregistered"
}

func lookupStr(t *refids.Table, st, dir, cls string, p int) string {
	id, present, known, mp := t.Lookup(st, dir, cls, p)
	if !known {
		return "no statement"
	}
	if !present {
		return "not registered"
	}
	return fmt.Sprintf("%#x (tsv line %d)", id, mp.Line)
}
