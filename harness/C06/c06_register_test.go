package c06

// Second half of C06 (added by the gap review): the two API entry points the first half never drove.
//
//  1. state.FromDirection — the accessor codec.Encoder/Decoder and netmc use to reach the tables. Every
//     (direction, state, protocol known or unknown) must resolve to exactly the table the per-direction registry
//     returns (observe_at of the property: state.<State>.<Dir>.ProtocolRegistry(p)).
//  2. PacketRegistry.Register on FRESH registries — the mechanism that builds the tables ("a mapping is valid from its
//     version up to the next mapping's version; the last one up to its last-valid version or the newest supported
//     version"; "duplicate id / duplicate type is rejected"). The global tables are only compared with the reference up
//     to the reference's horizon, so a range defect that shows only in the newest versions (or only for mapping shapes
//     the current register.go happens not to use) is invisible there. Here EVERY well-formed mapping list over a
//     boundary set of versions is registered and the resulting tables are compared, in every supported protocol, with
//     an independent expansion of the range rule; every pair of lists (second type, or the same type again) checks the
//     "at most one type per id and vice versa" clause: a conflicting registration must be rejected and whatever
//     happened the tables must stay a partial bijection.

import (
	"fmt"
	"io"
	"reflect"
	"sort"

	"go.minekube.com/gate/pkg/edition/java/proto/state"
	"go.minekube.com/gate/pkg/edition/java/proto/state/states"
	"go.minekube.com/gate/pkg/edition/java/proto/version"
	"go.minekube.com/gate/pkg/edition/java/proxy/zzverif/vrt"
	"go.minekube.com/gate/pkg/gate/proto"
)

type pkA struct{}
type pkB struct{}

func (*pkA) Encode(*proto.PacketContext, io.Writer) error { return nil }
func (*pkA) Decode(*proto.PacketContext, io.Reader) error { return nil }
func (*pkB) Encode(*proto.PacketContext, io.Writer) error { return nil }
func (*pkB) Decode(*proto.PacketContext, io.Reader) error { return nil }

// mapList is one Register call: which packet type, the mappings (protocol, id) in the order given, and the optional
// last-valid protocol of the final mapping (0 = open).
type mapList struct {
	Type  string // "A" | "B"
	Proto []int
	ID    []int
	Last  int
}

func (l mapList) String() string {
	s := l.Type + "["
	for i := range l.Proto {
		if i > 0 {
			s += " "
		}
		s += fmt.Sprintf("m(%#x,%d)", l.ID[i], l.Proto[i])
	}
	if l.Last != 0 {
		s += fmt.Sprintf(" last=%d", l.Last)
	}
	return s + "]"
}

func (l mapList) packet() proto.Packet {
	if l.Type == "A" {
		return &pkA{}
	}
	return &pkB{}
}

func (l mapList) mappings() []*state.PacketMapping {
	var out []*state.PacketMapping
	for i := range l.Proto {
		m := &state.PacketMapping{ID: proto.PacketID(l.ID[i]), Protocol: proto.Protocol(l.Proto[i])}
		if i == len(l.Proto)-1 {
			m.LastValidProtocol = proto.Protocol(l.Last)
		}
		out = append(out, m)
	}
	return out
}

// model: independent expansion of the range rule over the sorted list of supported protocols.
type modelTables struct {
	ids   map[int]map[int]string // protocol -> id -> type
	types map[int]map[string]int // protocol -> type -> id
}

func newModel(supported []int) *modelTables {
	m := &modelTables{ids: map[int]map[int]string{}, types: map[int]map[string]int{}}
	for _, p := range supported {
		m.ids[p] = map[int]string{}
		m.types[p] = map[string]int{}
	}
	return m
}

// apply registers l in the model; it reports the first conflict (and stops there, like a rejecting implementation).
func (m *modelTables) apply(l mapList, supported []int) (conflict string) {
	hiAll := supported[len(supported)-1]
	for i := range l.Proto {
		lo, hi := l.Proto[i], hiAll
		if i+1 < len(l.Proto) {
			hi = l.Proto[i+1] - 1
		} else if l.Last != 0 {
			hi = l.Last
		}
		for _, p := range supported {
			if p < lo || p > hi {
				continue
			}
			if t, taken := m.ids[p][l.ID[i]]; taken {
				return fmt.Sprintf("protocol %d: id %#x already belongs to %s", p, l.ID[i], t)
			}
			if _, dup := m.types[p][l.Type]; dup {
				return fmt.Sprintf("protocol %d: type %s already registered", p, l.Type)
			}
			m.ids[p][l.ID[i]] = l.Type
			m.types[p][l.Type] = l.ID[i]
		}
	}
	return ""
}

func typeLetter(t reflect.Type) string {
	switch t {
	case reflect.TypeOf(pkA{}):
		return "A"
	case reflect.TypeOf(pkB{}):
		return "B"
	}
	return t.String()
}

// well-formed lists over the boundary versions vs: strictly increasing versions, ids from idAlpha, last-valid on the
// final mapping absent or any boundary version >= the final mapping's version.
func enumLists(typ string, vs []int, maxK int, idAlpha []int) []mapList {
	var out []mapList
	var rec func(start int, protos, ids []int)
	rec = func(start int, protos, ids []int) {
		if len(protos) > 0 {
			out = append(out, mapList{Type: typ, Proto: append([]int{}, protos...), ID: append([]int{}, ids...)})
			for _, last := range vs {
				if last >= protos[len(protos)-1] {
					out = append(out, mapList{Type: typ, Proto: append([]int{}, protos...), ID: append([]int{}, ids...), Last: last})
				}
			}
		}
		if len(protos) == maxK {
			return
		}
		for i := start; i < len(vs); i++ {
			for _, id := range idAlpha {
				rec(i+1, append(protos, vs[i]), append(ids, id))
			}
		}
	}
	rec(0, nil, nil)
	return out
}

// runRegister performs the Register calls on a fresh registry and checks it against the model.
func runRegister(r *vrt.R, supported []int, lists []mapList) {
	r.Eval(1)
	reg := state.NewPacketRegistry(states.PlayState, proto.ClientBound)
	model := newModel(supported)
	rc := replayCase{Kind: "register", Lists: lists}
	desc := fmt.Sprint(lists)
	modelConflictAt := -1
	conflictWhy := ""
	for i, l := range lists {
		if modelConflictAt < 0 {
			if why := model.apply(l, supported); why != "" {
				modelConflictAt, conflictWhy = i, why
			}
		}
		l := l
		panicked, pv := vrt.Catch(func() { reg.Register(l.packet(), l.mappings()...) })
		switch {
		case panicked && modelConflictAt != i:
			r.Violation("register/valid-mapping-rejected", fmt.Sprintf("fresh registry, Register calls %s: call #%d %s is well-formed and conflict-free but panics: %v", desc, i, l, pv), rc)
			return
		case !panicked && modelConflictAt == i:
			r.Violation("register/conflict-not-rejected", fmt.Sprintf("fresh registry, Register calls %s: call #%d %s conflicts (%s) but is accepted", desc, i, l, conflictWhy), rc)
		}
		if modelConflictAt == i {
			break // the tables after a rejected call are only required to stay a partial bijection
		}
	}
	if modelConflictAt >= 0 {
		r.Class("register/conflicting-pair")
	} else {
		r.Class(fmt.Sprintf("register/conflict-free/%d-calls", len(lists)))
	}
	// the tables must have exactly the supported protocols
	if len(reg.Protocols) != len(supported) {
		r.Violation("register/fresh-registry-protocol-set", fmt.Sprintf("a fresh registry has %d protocol tables, %d versions are supported", len(reg.Protocols), len(supported)), rc)
	}
	nonEmpty := false
	for _, p := range supported {
		pr := reg.Protocols[proto.Protocol(p)]
		if pr == nil {
			r.Violation("register/fresh-registry-protocol-set", fmt.Sprintf("a fresh registry has no table for supported protocol %d", p), rc)
			continue
		}
		// partial bijection, always
		if len(pr.PacketIDs) != len(pr.PacketTypes) {
			r.Violation("register/tables-not-bijective", fmt.Sprintf("fresh registry after %s: protocol %d has %d ids but %d types", desc, p, len(pr.PacketIDs), len(pr.PacketTypes)), rc)
		}
		for id, ty := range pr.PacketIDs {
			if back, ok := pr.PacketTypes[ty]; !ok || back != id {
				r.Violation("register/tables-not-bijective", fmt.Sprintf("fresh registry after %s: protocol %d id %#x -> %s but %s -> %#x (present=%v)", desc, p, int(id), typeLetter(ty), typeLetter(ty), int(back), ok), rc)
			}
		}
		if modelConflictAt >= 0 {
			continue
		}
		// exact agreement with the range rule
		want := model.ids[p]
		if len(want) > 0 {
			nonEmpty = true
		}
		got := map[int]string{}
		for id, ty := range pr.PacketIDs {
			got[int(id)] = typeLetter(ty)
		}
		if !reflect.DeepEqual(got, want) {
			var wk []string
			for id, t := range want {
				wk = append(wk, fmt.Sprintf("%#x:%s", id, t))
			}
			var gk []string
			for id, t := range got {
				gk = append(gk, fmt.Sprintf("%#x:%s", id, t))
			}
			sort.Strings(wk)
			sort.Strings(gk)
			r.Violation("register/range-differs-from-rule", fmt.Sprintf("fresh registry after %s: protocol %d has %v, the range rule (valid from a mapping's version up to the next mapping / last-valid / newest version) gives %v", desc, p, gk, wk), rc)
		}
	}
	if nonEmpty {
		r.Nontrivial(1)
	}
}

func boundaryVersions(supported []int) []int {
	n := len(supported)
	idx := []int{0, 1, n / 2, n - 3, n - 2, n - 1}
	seen := map[int]bool{}
	var out []int
	for _, i := range idx {
		if i >= 0 && i < n && !seen[supported[i]] {
			seen[supported[i]] = true
			out = append(out, supported[i])
		}
	}
	sort.Ints(out)
	return out
}

// checkRegisterAPI enumerates the Register histories.
func checkRegisterAPI(r *vrt.R, supported []int, item *int) {
	vs := boundaryVersions(supported)
	singles := enumLists("A", vs, 3, []int{0x00, 0x01})
	// every protocol as the version of a single open or closed mapping as well (the range rule at every version step)
	for i, p := range supported {
		singles = append(singles, mapList{Type: "A", Proto: []int{p}, ID: []int{0x7F}})
		if i+1 < len(supported) {
			singles = append(singles, mapList{Type: "A", Proto: []int{p, supported[i+1]}, ID: []int{0x7F, 0x80}})
			singles = append(singles, mapList{Type: "A", Proto: []int{p}, ID: []int{0x7F}, Last: supported[i+1]})
		}
		singles = append(singles, mapList{Type: "A", Proto: []int{p}, ID: []int{0x7F}, Last: p})
	}
	for _, l := range singles {
		*item++
		if !r.Mine(*item) {
			continue
		}
		runRegister(r, supported, []mapList{l})
	}
	firsts := enumLists("A", vs, 2, []int{0x00, 0x01})
	var seconds []mapList
	seconds = append(seconds, enumLists("B", vs, 2, []int{0x00, 0x01})...)
	seconds = append(seconds, enumLists("A", vs, 1, []int{0x00, 0x01})...) // the same type registered again
	for _, a := range firsts {
		*item++
		if !r.Mine(*item) {
			continue
		}
		if r.Expired() {
			return
		}
		for _, b := range seconds {
			runRegister(r, supported, []mapList{a, b})
		}
	}
	r.Extra("register_api_boundary_versions", fmt.Sprint(vs))
	r.Extra("register_api_single_lists", len(singles))
	r.Extra("register_api_pairs", len(firsts)*len(seconds))
}

// checkFromDirection: state.FromDirection against the per-direction registries, for known and unknown protocols.
func checkFromDirection(r *vrt.R, supported, unknown []int, rp replayCase, replay bool) {
	regs := []struct {
		n string
		r *state.Registry
	}{{"Handshake", state.Handshake}, {"Status", state.Status}, {"Login", state.Login}, {"Config", state.Config}, {"Play", state.Play}}
	for _, s := range regs {
		if replay && rp.State != s.n {
			continue
		}
		for _, d := range []struct {
			n   string
			d   proto.Direction
			reg *state.PacketRegistry
		}{{"SB", proto.ServerBound, s.r.ServerBound}, {"CB", proto.ClientBound, s.r.ClientBound}} {
			if replay && rp.Dir != d.n {
				continue
			}
			cellName := s.n + "/" + d.n
			for _, ps := range [][]int{supported, unknown} {
				for _, p := range ps {
					if replay && rp.Protocol != p {
						continue
					}
					r.Eval(1)
					got := state.FromDirection(d.d, s.r, proto.Protocol(p))
					want := d.reg.ProtocolRegistry(proto.Protocol(p))
					if got != want {
						gp, wp := "nil", "nil"
						if got != nil {
							gp = fmt.Sprintf("table(state %s, protocol %d, %d ids)", got.State, got.Protocol, len(got.PacketIDs))
						}
						if want != nil {
							wp = fmt.Sprintf("table(state %s, protocol %d, %d ids)", want.State, want.Protocol, len(want.PacketIDs))
						}
						r.Violation("fromdirection/wrong-table/"+cellName, fmt.Sprintf("FromDirection(%s, %s, %d) = %s, the %s registry's ProtocolRegistry(%d) = %s", d.n, s.n, p, gp, cellName, p, wp),
							replayCase{Kind: "fromdir", State: s.n, Dir: d.n, Protocol: p})
						continue
					}
					r.Class("fromdirection/agrees")
				}
			}
		}
	}
}

var _ = version.MinimumVersion
