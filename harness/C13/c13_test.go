package proxy

// C13: login plugin messages are answered exactly once by the matching consumer; the login
// completion step runs exactly once, after the pre-login event and after every outstanding
// message has been answered; backend Forge login messages relayed through the client are each
// answered to the backend exactly once with the client's reply for that message.
//
// Engine B (bfs over operation histories, every history replayed on FRESH real objects inside a
// single-thread sched execution so that a self-deadlock is a finding with a trace instead of a
// hang) + engine A (sched: all interleavings of an event-handler / backend thread with the client
// read-loop thread within a preemption bound). The package is instrumented as a whole.
//
// The reference model is written from the statement: a set of outstanding ids, the reply each
// consumer must see, a sticky "completion due" flag that becomes true at the first moment the
// pre-login event has fired and nothing is outstanding.

import (
	"bytes"
	"context"
	"encoding/hex"
	"errors"
	"fmt"
	"sort"
	"strings"
	"testing"

	"github.com/go-logr/logr"
	"go.minekube.com/gate/pkg/edition/java/config"
	"go.minekube.com/gate/pkg/edition/java/proto/packet"
	"go.minekube.com/gate/pkg/edition/java/proto/version"
	"go.minekube.com/gate/pkg/edition/java/proxy/message"
	"go.minekube.com/gate/pkg/edition/java/proxy/phase"
	"go.minekube.com/gate/pkg/edition/java/proxy/zzverif/bfs"
	"go.minekube.com/gate/pkg/edition/java/proxy/zzverif/sched"
	"go.minekube.com/gate/pkg/edition/java/proxy/zzverif/schedrun"
	"go.minekube.com/gate/pkg/edition/java/proxy/zzverif/vrt"
	"go.minekube.com/gate/pkg/gate/proto"
	"go.minekube.com/gate/pkg/util/netutil"
)

// ------------------------------------------------------------------ shared pieces

type c13Op struct {
	K string `json:"k"`           // S SC SE SX F R RU R0 RN C | B (relay histories also use S: a handler's own message during the relay)
	I int    `json:"i,omitempty"` // id
	V int    `json:"v,omitempty"` // R: 0 failure, 1 success+data, 2 success+empty data; B: 0 data, 1 empty data
}

func (o c13Op) String() string {
	switch o.K {
	case "R":
		return fmt.Sprintf("R(%d,%s)", o.I, []string{"fail", "ok", "ok-empty"}[o.V])
	case "B":
		return fmt.Sprintf("B(%d,%s)", o.I, []string{"data", "empty"}[o.V])
	}
	return o.K
}

type c13Cfg struct{ cfg *config.Config }

func (c *c13Cfg) config() *config.Config { return c.cfg }

// wireResponse builds the client's LoginPluginResponse by running reference wire bytes through
// the REAL decoder, so that the nil / empty distinction of Data is what the read loop produces.
func wireResponse(id int, success bool, data []byte) *packet.LoginPluginResponse {
	var b bytes.Buffer
	n := uint32(int32(id))
	for {
		if n&^0x7F == 0 {
			b.WriteByte(byte(n))
			break
		}
		b.WriteByte(byte(n&0x7F) | 0x80)
		n >>= 7
	}
	if success {
		b.WriteByte(1)
	} else {
		b.WriteByte(0)
	}
	b.Write(data)
	p := &packet.LoginPluginResponse{}
	if err := p.Decode(&proto.PacketContext{Direction: proto.ServerBound, Protocol: version.Minecraft_1_20.Protocol}, bytes.NewReader(b.Bytes())); err != nil {
		panic(err)
	}
	return p
}

func bodyStr(b []byte) string {
	if b == nil {
		return "nil"
	}
	return "x" + hex.EncodeToString(b)
}

// msg is one login plugin message registered by the harness (event handler role).
type msg struct {
	tag        int    // harness identity, carried in the payload
	kind       string // plain | chain
	id         int    // id assigned by the implementation, discovered when the send returns (0 = not yet known)
	started    bool
	returned   bool
	answered   bool
	answeredBy int // wire id of the response that reached the consumer
	chainSent  bool
	early      bool     // answered before the pre-login event fired (a client guessing ids)
	inv        []string // bodies the consumer was invoked with
	invBy      []int    // wire id of the response being delivered by the invoking thread
}

// env is one fresh loginInboundConn over a recording client connection plus the reference model.
// Only one thread runs at a time (cooperative scheduler), so plain fields are a faithful record.
type env struct {
	x      *sched.X
	client *kitConn
	l      *loginInboundConn
	ch     message.ChannelIdentifier

	msgs      []*msg
	fired     bool
	cleaned   bool
	due       bool // completion is due (sticky): fired, nothing outstanding, no send in flight
	earlyResp bool // a registered message was answered before the pre-login event fired

	legacy  bool                              // the client runs a protocol older than 1.13 (no login plugin messages)
	deliver func(*packet.LoginPluginResponse) // how a client response reaches the login connection

	completions    int
	snap           []*msg // messages outstanding when the operation that may run the completion began
	consumerDepth  int
	consumerThread int
	curResp        map[int]int // thread id -> wire id of the response it is delivering
}

func (e *env) fail(key, format string, a ...any) { e.x.Fail(key, format, a...) }

func newEnv(x *sched.X, yield bool) *env { return newEnvP(x, yield, version.Minecraft_1_20.Protocol) }

func newEnvP(x *sched.X, yield bool, protocol proto.Protocol) *env {
	c := newKitConn("client", protocol)
	c.yieldOnWrite = yield
	c.typ = phase.ModernForge
	ch, err := message.ChannelIdentifierFrom("verif:login")
	if err != nil {
		panic(err)
	}
	e := &env{x: x, client: c, ch: ch, curResp: map[int]int{}, legacy: protocol < version.Minecraft_1_13.Protocol}
	e.deliver = func(p *packet.LoginPluginResponse) { _ = e.l.handleLoginPluginResponse(p) }
	e.l = newLoginInboundConn(newInitialInbound(c, netutil.NewAddr("play.example.com:25565", "tcp"), packet.LoginHandshakeIntent))
	return e
}

// outstanding per the statement: the send has returned and no response reached the consumer yet.
// A message is outstanding once its send has returned OR once it has been observed among the
// packets written to the client (from then on a client can causally answer it), until a response
// reached its consumer.
func (e *env) outstanding() []*msg {
	var o []*msg
	for _, m := range e.msgs {
		if (m.returned || e.wireID(m.tag) != 0) && !m.answered {
			o = append(o, m)
		}
	}
	return o
}

// wireID is the id under which the message tagged tag has been written to the client conn
// (0 = not on the wire yet). This is what a client can observe.
func (e *env) wireID(tag int) int {
	for _, p := range e.client.packets() {
		if pm, ok := p.(*packet.LoginPluginMessage); ok && len(pm.Data) == 2 && pm.Data[0] == 0xA0 && int(pm.Data[1]) == tag {
			return pm.ID
		}
	}
	return 0
}

// awaitWire is the causal client: it parks (sched.Yield) until it has observed message tag on
// the wire, or until give() says the sender is finished, and returns the observed id.
func (e *env) awaitWire(tag int, give func() bool) int {
	for e.wireID(tag) == 0 && !give() {
		sched.Yield()
	}
	return e.wireID(tag)
}

func (e *env) outstandingIDs() []int {
	var ids []int
	for _, m := range e.outstanding() {
		ids = append(ids, m.id)
	}
	sort.Ints(ids)
	return ids
}

func (e *env) inFlight() bool {
	for _, m := range e.msgs {
		if m.started && !m.returned {
			return true
		}
	}
	return false
}

type c13Consumer struct {
	e *env
	m *msg
}

func (c *c13Consumer) OnMessageResponse(body []byte) error {
	e, m := c.e, c.m
	m.inv = append(m.inv, bodyStr(body))
	m.invBy = append(m.invBy, e.curResp[e.x.CurID()])
	if m.kind == "chain" && !m.chainSent {
		m.chainSent = true
		e.consumerDepth++
		e.consumerThread = e.x.CurID()
		e.send("plain")
		e.consumerDepth--
	}
	if m.kind == "err" {
		// a consumer may fail; the message has still been answered
		return errors.New("verif: consumer failed")
	}
	return nil
}

// discoverID finds the id the implementation gave to message m: the key under which its consumer
// is registered (in-package access), or the id of the response that already reached it.
func (e *env) discoverID(m *msg) int {
	if id := e.wireID(m.tag); id != 0 {
		return id
	}
	for id, c := range e.l.outstandingResponses {
		if cc, ok := c.(*c13Consumer); ok && cc.m == m {
			return id
		}
	}
	if m.answered {
		return m.answeredBy
	}
	if len(m.invBy) > 0 { // a response overlapping the send already consumed the registration
		return m.invBy[0]
	}
	return 0
}

func (e *env) resolveIDs() {
	for _, m := range e.msgs {
		if m.id == 0 && (m.returned || e.wireID(m.tag) != 0) {
			m.id = e.discoverID(m)
		}
	}
}

// deliveries counts how often message m is queued for / has been written to the client.
func (e *env) deliveries(m *msg) int {
	n := 0
	// the queue is flushed exactly once, when the pre-login event fires: what sits in it
	// afterwards will never be sent
	for i := 0; !e.l.isLoginEventFired && i < e.l.loginMessagesToSend.Len(); i++ {
		if p := e.l.loginMessagesToSend.At(i); len(p.Data) == 2 && p.Data[0] == 0xA0 && int(p.Data[1]) == m.tag {
			n++
		}
	}
	for _, p := range e.client.packets() {
		if pm, ok := p.(*packet.LoginPluginMessage); ok && len(pm.Data) == 2 && pm.Data[0] == 0xA0 && int(pm.Data[1]) == m.tag {
			n++
			if pm.ID != m.id {
				e.fail("message-id-mismatch", "message #%d is registered under id %d but was written with id %d", m.tag, m.id, pm.ID)
			}
		}
	}
	return n
}

// send registers a message the way an event handler does.
func (e *env) send(kind string) *msg {
	m := &msg{tag: len(e.msgs) + 1, kind: kind, started: true}
	e.msgs = append(e.msgs, m)
	chained := e.consumerDepth > 0 && e.x.CurID() == e.consumerThread
	if err := e.l.SendLoginPluginMessage(e.ch, []byte{0xA0, byte(m.tag)}, &c13Consumer{e: e, m: m}); err != nil {
		if e.legacy {
			// refused (the client cannot take login plugin messages): the message does not exist, nothing
			// is outstanding because of it
			e.msgs = e.msgs[:len(e.msgs)-1]
			return nil
		}
		e.fail("send-error", "SendLoginPluginMessage #%d: %v", m.tag, err)
	}
	m.id = e.discoverID(m)
	m.returned = true
	// m.id may still be unknown here when a response overlapping this send has already removed
	// the registration and is about to invoke the consumer; it is resolved later (resolveIDs)
	if m.answered && m.answeredBy != m.id {
		e.fail("consumer-invoked-for-other-id", "message #%d got id %d but its consumer was invoked by the response for id %d", m.tag, m.id, m.answeredBy)
	}
	if chained {
		e.snap = append(e.snap, m)
	}
	return m
}

// sendInvalid is an event handler calling SendLoginPluginMessage with arguments it refuses (no contents /
// no channel / no consumer, in turn). Whatever it answers, no message exists afterwards: the model is
// not told about one, so a registration left behind shows up as a completion that never runs.
func (e *env) sendInvalid(n int) {
	switch n % 3 {
	case 0:
		_ = e.l.SendLoginPluginMessage(e.ch, nil, &c13Consumer{e: e, m: &msg{tag: 99, kind: "plain"}})
	case 1:
		_ = e.l.SendLoginPluginMessage(nil, []byte{0xA0, 99}, &c13Consumer{e: e, m: &msg{tag: 99, kind: "plain"}})
	case 2:
		_ = e.l.SendLoginPluginMessage(e.ch, []byte{0xA0, 99}, nil)
	}
	for _, p := range e.client.packets() {
		if pm, ok := p.(*packet.LoginPluginMessage); ok && len(pm.Data) == 2 && pm.Data[1] == 99 {
			e.fail("refused-send-reached-client", "a SendLoginPluginMessage call with invalid arguments wrote message id %d to the client", pm.ID)
		}
	}
}

func (e *env) completion() error {
	e.completions++
	if !e.fired {
		e.fail("completion-before-prelogin", "completion ran before loginEventFired")
	}
	// messages that were outstanding when the triggering operation began (or that its own consumer
	// sent) and still are: the completion did not wait for them. Messages registered concurrently
	// with the triggering operation may fall on either side.
	var bad []int
	for _, m := range e.snap {
		if m.returned && !m.answered {
			bad = append(bad, m.id)
		}
	}
	if len(bad) != 0 {
		e.fail("completion-with-outstanding", "completion ran while messages %v are unanswered", bad)
	}
	return nil
}

func (e *env) fire() {
	e.fired = true
	e.snap = e.outstanding()
	e.noteDue()
	_ = e.l.loginEventFired(e.completion)
	e.noteDue()
}

func (e *env) noteDue() {
	if e.fired && !e.cleaned && len(e.outstanding()) == 0 && !e.inFlight() {
		e.due = true
	}
}

func replyData(id, v int) []byte {
	switch v {
	case 1:
		return []byte{0xB0, byte(id), 0x01}
	case 2:
		return []byte{}
	}
	return nil
}

// respond delivers one client response (wire id) to the login connection.
func (e *env) respond(id, v int) {
	data := replyData(id, v)
	e.resolveIDs()
	var target *msg
	for _, m := range e.outstanding() {
		if m.id == id {
			target = m
		}
	}
	if target != nil && !e.fired {
		e.earlyResp = true
		target.early = true
	}
	e.snap = nil
	for _, m := range e.outstanding() {
		if m != target {
			e.snap = append(e.snap, m)
		}
	}
	before := make([]int, len(e.msgs))
	for i, m := range e.msgs {
		before[i] = len(m.inv)
	}
	nBefore := len(e.msgs)
	if target != nil {
		target.answered, target.answeredBy = true, id // the model answers it now: a chained send / completion sees it as answered
	}
	e.curResp[e.x.CurID()] = id
	e.deliver(wireResponse(id, v != 0, data))
	want := "nil"
	if v != 0 {
		want = bodyStr(data)
	}
	for i, m := range e.msgs {
		b := 0
		if i < nBefore {
			b = before[i]
		}
		d := len(m.inv) - b
		if d == 0 {
			continue
		}
		switch {
		case m == target:
			if d != 1 {
				e.fail("consumer-invoked-again", "response for outstanding id %d invoked its consumer %d times", id, d)
			}
		case d == 1 && !m.answered && (m.id == 0 || m.id == id):
			// registered concurrently with this response: it may or may not see it
			m.answered, m.answeredBy = true, id
		case m.id != 0 && m.id != id:
			e.fail("consumer-invoked-for-other-id", "response for id %d invoked the consumer of message id %d", id, m.id)
			continue
		default:
			e.fail("consumer-invoked-again", "response for id %d invoked the consumer of message #%d (id %d) again: %v", id, m.tag, m.id, m.inv)
			continue
		}
		if got := m.inv[len(m.inv)-1]; got != want {
			e.fail("consumer-got-wrong-body", "id %d: consumer saw %s, client sent %s", id, got, want)
		}
	}
	if target != nil && len(target.inv) == 0 {
		e.fail("consumer-not-invoked", "response for outstanding id %d never reached its consumer", id)
	}
	e.noteDue()
}

func (e *env) cleanup() {
	e.cleaned = true
	e.l.cleanup()
}

// drain answers whatever is still outstanding (a late client), a few rounds for chained sends.
func (e *env) drain() {
	e.resolveIDs()
	for round := 0; round < 3; round++ {
		for _, id := range e.outstandingIDs() {
			e.respond(id, 1)
		}
	}
}

// final checks the completion count against the model.
func (e *env) final() {
	e.resolveIDs()
	for _, m := range e.msgs {
		if m.id == 0 && !e.cleaned {
			e.fail("message-not-registered", "SendLoginPluginMessage #%d returned but no consumer was ever registered for it", m.tag)
		}
	}
	e.noteDue()
	switch {
	case e.completions > 1:
		e.fail("completion-more-than-once", "login completion ran %d times", e.completions)
	case e.completions == 0 && e.due && e.earlyResp:
		e.fail("completion-missing-after-early-response", "pre-login fired and every message was answered (one of them before the event fired), but completion never ran")
	case e.completions == 0 && e.due:
		e.fail("completion-missing", "pre-login fired and nothing is outstanding, but completion never ran")
	case e.completions == 1 && !e.due:
		e.fail("completion-not-due", "completion ran although fired=%v outstanding=%v", e.fired, e.outstandingIDs())
	}
	for _, m := range e.msgs {
		if len(m.inv) > 1 {
			e.fail("consumer-invoked-again", "consumer of message #%d (id %d) ran %d times: %v", m.tag, m.id, len(m.inv), m.inv)
		}
		// a registered message must reach the client exactly once (queued until the pre-login event
		// fired, written afterwards), otherwise it can never be answered; one the client already
		// answered by guessing its id is exempt
		if !e.cleaned && m.returned && !m.early {
			if n := e.deliveries(m); n != 1 {
				e.fail("message-lost-or-duplicated", "message #%d (id %d) is queued/written %d times; client conn: %s", m.tag, m.id, n, e.client.trace())
			}
		}
	}
}

func (e *env) invSummary() string {
	var s []string
	for _, m := range e.msgs {
		s = append(s, fmt.Sprintf("#%d:id%d:%v", m.tag, m.id, m.inv))
	}
	return strings.Join(s, " ")
}

// implKey is the canonical state of the real object (in-package access) + what of the model
// influences the future.
func (e *env) implKey() string {
	l := e.l
	byID := map[int]*msg{}
	for _, m := range e.msgs {
		byID[m.id] = m
	}
	var ids []string
	for id := range l.outstandingResponses {
		k := "?"
		if m := byID[id]; m != nil {
			k = fmt.Sprintf("%s%v", m.kind[:1], m.chainSent)
		}
		ids = append(ids, fmt.Sprintf("%d%s", id, k))
	}
	sort.Strings(ids)
	var q []string
	for i := 0; i < l.loginMessagesToSend.Len(); i++ {
		q = append(q, fmt.Sprint(l.loginMessagesToSend.At(i).ID))
	}
	return fmt.Sprintf("fired=%v cb=%v out=%v q=%v seq=%d | model out=%v due=%v early=%v done=%d cleaned=%v",
		l.isLoginEventFired, l.onAllMessagesHandled != nil, ids, q, l.sequenceCounter.Load(), e.outstandingIDs(), e.due, e.earlyResp, e.completions, e.cleaned)
}

func (e *env) clientMessageIDs() []int {
	var ids []int
	for _, p := range e.client.packets() {
		if m, ok := p.(*packet.LoginPluginMessage); ok {
			ids = append(ids, m.ID)
		}
	}
	return ids
}

// ------------------------------------------------------------------ relay environment

// rmsg is one backend fml:loginwrapper message relayed through the client.
type rmsg struct {
	backendID  int
	data       []byte
	clientID   int // discovered when the relay call returns
	started    bool
	returned   bool
	answered   bool
	answeredBy int
}

type relayEnv struct {
	*env
	backend   *kitConn
	handler   *backendLoginSessionHandler
	authSH    *authSessionHandler
	rmsgs     []*rmsg
	nAnswered int
}

func newRelayEnv(x *sched.X, yield bool) *relayEnv {
	e := newEnv(x, yield)
	backend := newKitConn("backend", version.Minecraft_1_20.Protocol)
	backend.yieldOnWrite = yield
	player := &connectedPlayer{MinecraftConn: e.client, log: logr.Discard()}
	// the state authSessionHandler.completeLoginProtocolPhaseAndInitialize leaves behind for a
	// pre-1.20.2 Modern Forge client: pre-login completion done, callback cleared, relay installed
	e.fire()
	e.l.clearOnAllMessagesHandled()
	relay := newModernForgeLoginRelay(e.l, player, &packet.ServerLoginSuccess{Username: "ForgePlayer"})
	player.mu.Lock()
	player.forgeLoginRelay = relay
	player.mu.Unlock()
	sc := &serverConnection{player: player, log: logr.Discard()}
	sc.mu.Lock()
	sc.connection = backend
	sc.mu.Unlock()
	deps := &sessionHandlerDeps{eventMgr: newKitEvents(), configProvider: &c13Cfg{cfg: &config.Config{}}}
	h := &backendLoginSessionHandler{serverConn: sc, requestCtx: &connRequestCxt{Context: context.Background(), response: make(chan *connResponse, 1)}, log: logr.Discard(), sessionHandlerDeps: deps}
	a := &authSessionHandler{sessionHandlerDeps: deps, log: logr.Discard(), inbound: e.l}
	e.deliver = func(p *packet.LoginPluginResponse) {
		a.HandlePacket(&proto.PacketContext{Direction: proto.ServerBound, Protocol: version.Minecraft_1_20.Protocol, PacketID: 0x02, Packet: p})
	}
	return &relayEnv{env: e, backend: backend, handler: h, authSH: a}
}

// backendMsg: the backend sends an fml:loginwrapper LoginPluginMessage (one backend thread).
func (r *relayEnv) backendMsg(op c13Op) {
	m := &rmsg{backendID: op.I, started: true}
	if op.V == 0 {
		m.data = []byte{0xC0, byte(op.I), byte(len(r.rmsgs) + 1)}
	}
	r.rmsgs = append(r.rmsgs, m)
	known := map[int]bool{}
	for _, id := range r.clientMessageIDs() {
		known[id] = true
	}
	r.handler.HandlePacket(&proto.PacketContext{Direction: proto.ClientBound, Protocol: version.Minecraft_1_20.Protocol, PacketID: 0x04,
		Packet: &packet.LoginPluginMessage{ID: op.I, Channel: ForgeLoginWrapperChannel, Data: m.data}})
	var fresh []*packet.LoginPluginMessage
	for _, p := range r.client.packets() {
		// (only relayed messages: an event handler's own message may reach the client at the same time)
		if pm, ok := p.(*packet.LoginPluginMessage); ok && !known[pm.ID] && pm.Channel == ForgeLoginWrapperChannel {
			fresh = append(fresh, pm)
		}
	}
	m.returned = true
	if len(fresh) != 1 {
		r.fail("relay-message-not-forwarded-once", "backend message id %d produced %d new client messages", op.I, len(fresh))
		return
	}
	m.clientID = fresh[0].ID
	if fresh[0].Channel != ForgeLoginWrapperChannel || (len(m.data) > 0 && !bytes.Equal(fresh[0].Data, m.data)) {
		r.fail("relay-message-altered", "backend sent %s %x, client got %s %x", ForgeLoginWrapperChannel, m.data, fresh[0].Channel, fresh[0].Data)
	}
	if m.answered && m.answeredBy != m.clientID {
		r.fail("relay-backend-answers-differ", "backend message %d was relayed as client id %d but answered with the reply for id %d", op.I, m.clientID, m.answeredBy)
	}
}

// relayedOnWire finds the relayed message (non-empty payloads carry their index) that has been
// written to the client under id.
func (r *relayEnv) relayedOnWire(id int) *rmsg {
	for _, p := range r.client.packets() {
		if pm, ok := p.(*packet.LoginPluginMessage); ok && pm.ID == id && len(pm.Data) == 3 && pm.Data[0] == 0xC0 {
			if i := int(pm.Data[2]) - 1; i >= 0 && i < len(r.rmsgs) {
				return r.rmsgs[i]
			}
		}
	}
	return nil
}

// relayWireID: the client id under which the n-th (1-based) relayed message is on the wire, or 0.
func (r *relayEnv) relayWireID(n int) int {
	for _, p := range r.client.packets() {
		if pm, ok := p.(*packet.LoginPluginMessage); ok && len(pm.Data) == 3 && pm.Data[0] == 0xC0 && int(pm.Data[2]) == n {
			return pm.ID
		}
	}
	return 0
}

func (r *relayEnv) routstanding() []int {
	var ids []int
	for _, m := range r.rmsgs {
		if m.returned && !m.answered {
			ids = append(ids, m.clientID)
		}
	}
	sort.Ints(ids)
	return ids
}

func respStr(id int, success bool, data []byte) string {
	d := ""
	if success {
		d = "x" + hex.EncodeToString(data)
	}
	return fmt.Sprintf("%d/%v/%s", id, success, d)
}

// clientReply: the client's read loop hands the reply to the real authSessionHandler.
func (r *relayEnv) clientReply(id, v int) {
	// the id may belong to an event handler's own message (same id space, same outstanding map): that
	// reply goes to the handler's consumer and the backend hears nothing of it
	r.resolveIDs()
	for _, m := range r.outstanding() {
		if m.id == id {
			before := r.backendGot()
			r.respond(id, v)
			if after := r.backendGot(); len(after) != len(before) {
				r.fail("relay-backend-got-handler-reply", "the reply for id %d belongs to an event handler's message, yet the backend received %v", id, after[len(before):])
			}
			return
		}
	}
	data := replyData(id, v)
	var target *rmsg
	for _, m := range r.rmsgs {
		if m.returned && !m.answered && m.clientID == id {
			target = m
		}
	}
	if target == nil {
		// not returned yet, but already observed on the wire under this id: the client's reply is
		// causally after the relayed message, so the backend must get its answer
		if m := r.relayedOnWire(id); m != nil && !m.answered {
			target = m
		}
	}
	if target != nil {
		target.answered, target.answeredBy = true, id
	}
	before := r.backendGot()
	r.authSH.HandlePacket(&proto.PacketContext{Direction: proto.ServerBound, Protocol: version.Minecraft_1_20.Protocol, PacketID: 0x02, Packet: wireResponse(id, v != 0, data)})
	after := r.backendGot()
	fresh := after[len(before):]
	switch {
	case target != nil:
		want := respStr(target.backendID, v != 0, data)
		if len(fresh) == 0 {
			r.fail("relay-backend-answer-missing", "client replied to relayed id %d but the backend got nothing (want %s)", id, want)
		} else if len(fresh) > 1 {
			r.fail("relay-backend-answered-more-than-once", "one client reply for id %d produced %v", id, fresh)
		} else if fresh[0] != want {
			r.fail("relay-backend-answers-differ", "client reply for id %d: backend received (id/success/data) %s, want %s", id, fresh[0], want)
		}
		r.nAnswered++
	case len(fresh) == 1:
		// a relay call overlapping this reply may already have registered the message
		ok := false
		for _, m := range r.rmsgs {
			if !m.answered && (!m.returned || m.clientID == id) && fresh[0] == respStr(m.backendID, v != 0, data) {
				m.answered, m.answeredBy, ok = true, id, true
				r.nAnswered++
				break
			}
		}
		if !ok {
			r.fail("relay-backend-answered-more-than-once", "client reply for id %d (not outstanding) made the backend receive %s", id, fresh[0])
		}
	case len(fresh) > 1:
		r.fail("relay-backend-answered-more-than-once", "client reply for id %d (not outstanding) made the backend receive %v", id, fresh)
	}
}

func (r *relayEnv) backendGot() []string {
	var got []string
	for _, p := range r.backend.packets() {
		if m, ok := p.(*packet.LoginPluginResponse); ok {
			got = append(got, respStr(m.ID, m.Success, m.Data))
		} else {
			got = append(got, fmt.Sprintf("unexpected %T", p))
		}
	}
	return got
}

func (r *relayEnv) rdrain() {
	for _, id := range r.routstanding() {
		r.clientReply(id, 1)
	}
	r.resolveIDs()
	for _, id := range r.outstandingIDs() {
		r.clientReply(id, 1)
	}
}

// check: totals at the end of a history / schedule.
func (r *relayEnv) check() {
	if got := r.backendGot(); len(got) != r.nAnswered {
		r.fail("relay-backend-answered-more-than-once", "%d client replies were for relayed messages, the backend received %d responses: %v", r.nAnswered, len(got), got)
	}
	seen := map[int]bool{}
	for _, id := range r.clientMessageIDs() {
		if seen[id] {
			r.fail("relay-client-id-reused", "two relayed messages reached the client with id %d: replies cannot be correlated", id)
		}
		seen[id] = true
	}
	if r.completions != 1 {
		r.fail("completion-more-than-once", "login completion ran %d times (relay replies must not re-run it)", r.completions)
	}
	r.final() // the event handlers' own messages: consumers at most once, each message on the wire once
}

func (r *relayEnv) relayKey() string {
	var s []string
	for _, m := range r.rmsgs {
		s = append(s, fmt.Sprintf("%d>%d:%v:%v", m.backendID, m.clientID, len(m.data) == 0, m.answered))
	}
	return r.implKey() + " relay=" + strings.Join(s, ",") + " backend=" + strings.Join(r.backendGot(), ",")
}

// ------------------------------------------------------------------ bfs drivers

// explore1 runs body as the only thread of a sched execution and returns its failures.
func explore1(body func(x *sched.X)) (string, string) {
	res := sched.Explore(sched.Options{Bound: 0}, body)
	keys := make([]string, 0, len(res.Failures))
	for k := range res.Failures {
		keys = append(keys, k)
	}
	if len(keys) == 0 {
		return "", ""
	}
	sort.Strings(keys)
	return keys[0], res.Failures[keys[0]].Desc
}

func runPrelogin(h []c13Op) bfs.Outcome { return runPreloginP(h, version.Minecraft_1_20.Protocol) }

func runPreloginLegacy(h []c13Op) bfs.Outcome {
	return runPreloginP(h, version.Minecraft_1_12_2.Protocol)
}

func runPreloginP(h []c13Op, protocol proto.Protocol) bfs.Outcome {
	var key, trace string
	terminal := false
	fk, fd := explore1(func(x *sched.X) {
		e := newEnvP(x, false, protocol)
		nInvalid := 0
		for _, op := range h {
			switch op.K {
			case "S":
				e.send("plain")
			case "SC":
				e.send("chain")
			case "SE":
				e.send("err")
			case "F":
				e.fire()
			case "R":
				e.respond(op.I, op.V)
			case "SX":
				e.sendInvalid(nInvalid)
				nInvalid++
			case "RU":
				e.respond(77, 1)
			case "R0":
				e.respond(0, 1) // ids start at 1: 0 is never assigned
			case "RN":
				e.respond(-1, 0)
			case "C":
				e.cleanup()
				terminal = true
			}
		}
		x.AtEnd(func() {
			e.final()
			key = e.implKey()
			trace = e.client.trace()
		})
	})
	if fk != "" {
		return bfs.Outcome{FailKey: fk, FailDesc: fd + "\nclient conn: " + trace}
	}
	return bfs.Outcome{Key: key, Terminal: terminal, Obs: key}
}

func preloginEnabled(h []c13Op, op c13Op) bool {
	sends, fired := 0, false
	for _, o := range h {
		switch o.K {
		case "S", "SE":
			sends++
		case "SC":
			sends += 2
		case "F":
			fired = true
		}
	}
	switch op.K {
	case "S", "SE":
		return sends+1 <= 4
	case "SC":
		return sends+2 <= 4
	case "F":
		return !fired
	}
	return true
}

func runRelay(h []c13Op) bfs.Outcome {
	var key string
	fk, fd := explore1(func(x *sched.X) {
		r := newRelayEnv(x, false)
		for _, op := range h {
			switch op.K {
			case "B":
				r.backendMsg(op)
			case "S":
				r.send("plain")
			case "R":
				r.clientReply(op.I, op.V)
			case "RU":
				r.clientReply(77, 1)
			case "R0":
				r.clientReply(0, 1)
			}
		}
		x.AtEnd(func() {
			r.check()
			key = r.relayKey()
		})
	})
	if fk != "" {
		return bfs.Outcome{FailKey: fk, FailDesc: fd}
	}
	return bfs.Outcome{Key: key, Obs: key}
}

func relayEnabled(h []c13Op, op c13Op) bool {
	if op.K != "B" && op.K != "S" {
		return true
	}
	n := 0
	for _, o := range h {
		if o.K == op.K {
			n++
		}
	}
	if op.K == "S" {
		return n < 1
	}
	return n < 3
}

// ------------------------------------------------------------------ sched scenarios

func scenarios() []schedrun.Scenario {
	return []schedrun.Scenario{
		// an event handler on another goroutine sends a message while the read loop processes responses
		{Name: "send-vs-responses", Quick: -1, Thorough: -1, Body: func(x *sched.X) {
			e := newEnv(x, true)
			e.send("plain") // queued
			e.fire()        // flushed to the client
			x.Go("handler", func() { e.send("plain") })
			x.Go("readloop", func() { e.respond(1, 1); e.respond(2, 0) })
			x.AtEnd(func() {
				e.drain() // a late client answers whatever is still outstanding
				e.final()
				x.Outcome(fmt.Sprintf("inv=%s done=%d client=%v", e.invSummary(), e.completions, e.clientMessageIDs()))
			})
		}},
		// pre-login handlers on two goroutines register messages while the login event fires
		{Name: "fire-vs-sends", Quick: 3, Thorough: -1, Body: func(x *sched.X) {
			e := newEnv(x, true)
			x.Go("handler1", func() { e.send("plain") })
			x.Go("handler2", func() { e.send("chain") })
			x.Go("login", func() { e.fire() })
			x.AtEnd(func() {
				e.drain()
				e.final()
				x.Outcome(fmt.Sprintf("client=%s done=%d", e.client.trace(), e.completions))
			})
		}},
		// a consumer that sends a follow-up message races with another handler's send
		{Name: "chained-consumer-vs-send", Quick: 3, Thorough: -1, Body: func(x *sched.X) {
			e := newEnv(x, true)
			e.send("chain")
			e.fire()
			x.Go("handler", func() { e.send("plain") })
			x.Go("readloop", func() { e.respond(1, 1); e.respond(2, 1); e.respond(3, 0) })
			x.AtEnd(func() {
				e.drain()
				e.final()
				x.Outcome(fmt.Sprintf("inv=%s done=%d", e.invSummary(), e.completions))
			})
		}},
		// the backend goroutine relays Forge messages while the client read loop delivers replies
		{Name: "relay-vs-replies", Quick: 3, Thorough: 5, Body: func(x *sched.X) {
			r := newRelayEnv(x, true)
			r.backendMsg(c13Op{K: "B", I: 5}) // client id 1
			x.Go("backend", func() { r.backendMsg(c13Op{K: "B", I: 6}); r.backendMsg(c13Op{K: "B", I: 5, V: 1}) })
			x.Go("readloop", func() { r.clientReply(1, 1); r.clientReply(2, 0); r.clientReply(3, 2) })
			x.AtEnd(func() {
				r.rdrain()
				r.check()
				if n := len(r.routstanding()); n != 0 || r.nAnswered != 3 {
					r.fail("relay-backend-answer-missing", "%d relayed messages answered, %d still outstanding after the client replied to all", r.nAnswered, n)
				}
				g := r.backendGot()
				sort.Strings(g)
				x.Outcome(strings.Join(g, ","))
			})
		}},
		// a consumer that returns an error: it has been answered all the same, completion still runs once
		{Name: "erroring-consumer-vs-send", Quick: -1, Thorough: -1, Body: func(x *sched.X) {
			e := newEnv(x, true)
			e.send("err")
			e.fire()
			x.Go("handler", func() { e.send("err") })
			x.Go("readloop", func() { e.respond(1, 1); e.respond(2, 0) })
			x.AtEnd(func() {
				e.drain()
				e.final()
				x.Outcome(fmt.Sprintf("inv=%s done=%d", e.invSummary(), e.completions))
			})
		}},
		// ---- causal clients: the responder answers a message only after it has OBSERVED it among the
		// packets written to the client; such a reply must reach exactly that consumer, and completion
		// must not run while an observed message is unanswered ----
		// direct-write path (login event already fired), reply to the new message first
		{Name: "causal-direct-write", Quick: -1, Thorough: -1, Body: func(x *sched.X) {
			e := newEnv(x, true)
			e.send("plain") // #1 queued
			e.fire()        // #1 on the wire, completion waits for it
			done := false
			x.Go("handler", func() { e.send("plain"); done = true }) // #2: written directly
			x.Go("client", func() {
				if id := e.awaitWire(2, func() bool { return done }); id != 0 {
					e.respond(id, 1)
				}
				e.respond(1, 1)
			})
			x.AtEnd(func() {
				e.drain()
				e.final()
				x.Outcome(fmt.Sprintf("inv=%s done=%d", e.invSummary(), e.completions))
			})
		}},
		// direct-write path, the client answers the OLDER message once it has seen the new one:
		// completion must wait for the new one
		{Name: "causal-direct-write-older-first", Quick: -1, Thorough: -1, Body: func(x *sched.X) {
			e := newEnv(x, true)
			e.send("plain")
			e.fire()
			done := false
			x.Go("handler", func() { e.send("plain"); done = true })
			x.Go("client", func() {
				id := e.awaitWire(2, func() bool { return done })
				e.respond(1, 0)
				if id != 0 {
					e.respond(id, 2)
				}
			})
			x.AtEnd(func() {
				e.drain()
				e.final()
				x.Outcome(fmt.Sprintf("inv=%s done=%d", e.invSummary(), e.completions))
			})
		}},
		// pre-login queued path: handlers register while the login event fires; the client answers
		// each message as soon as it sees it
		{Name: "causal-queued", Quick: 3, Thorough: -1, Body: func(x *sched.X) {
			e := newEnv(x, true)
			n := 0
			x.Go("handler1", func() { e.send("plain"); n++ })
			x.Go("login", func() { e.send("plain"); e.fire(); n++ })
			x.Go("client", func() {
				for tag := 1; tag <= 2; tag++ {
					if id := e.awaitWire(tag, func() bool { return n == 2 }); id != 0 {
						e.respond(id, 1)
					}
				}
			})
			x.AtEnd(func() {
				e.drain()
				e.final()
				x.Outcome(fmt.Sprintf("inv=%s done=%d client=%v", e.invSummary(), e.completions, e.clientMessageIDs()))
			})
		}},
		// forge relay path: the backend thread relays, the client replies to what it has seen
		{Name: "causal-relay", Quick: 3, Thorough: 5, Body: func(x *sched.X) {
			r := newRelayEnv(x, true)
			done := false
			x.Go("backend", func() { r.backendMsg(c13Op{K: "B", I: 5}); r.backendMsg(c13Op{K: "B", I: 6}); done = true })
			x.Go("client", func() {
				for n, v := range []int{1, 0} {
					for r.relayWireID(n+1) == 0 && !done {
						sched.Yield()
					}
					if id := r.relayWireID(n + 1); id != 0 {
						r.clientReply(id, v)
					}
				}
			})
			x.AtEnd(func() {
				r.rdrain()
				r.check()
				if n := len(r.routstanding()); n != 0 || r.nAnswered != 2 {
					r.fail("relay-backend-answer-missing", "%d relayed messages answered, %d still outstanding after the client replied to all", r.nAnswered, n)
				}
				g := r.backendGot()
				sort.Strings(g)
				x.Outcome(strings.Join(g, ","))
			})
		}},
		// relay traffic and an event handler's own message share the id space: the backend relays while a
		// handler sends; the client answers each message once it has seen it on the wire
		{Name: "causal-relay-vs-handler-send", Quick: 2, Thorough: 4, Body: func(x *sched.X) {
			r := newRelayEnv(x, true)
			bdone, hdone := false, false
			x.Go("backend", func() { r.backendMsg(c13Op{K: "B", I: 5}); bdone = true })
			x.Go("handler", func() { r.send("plain"); hdone = true })
			x.Go("client", func() {
				relayed, own := false, false
				for !(relayed && own) {
					progressed := false
					if id := r.relayWireID(1); id != 0 && !relayed {
						r.clientReply(id, 1)
						relayed, progressed = true, true
					}
					if id := r.wireID(1); id != 0 && !own {
						r.clientReply(id, 0)
						own, progressed = true, true
					}
					if !progressed {
						if bdone && hdone {
							break
						}
						sched.Yield()
					}
				}
			})
			x.AtEnd(func() {
				r.rdrain()
				r.check()
				if n := len(r.routstanding()); n != 0 || r.nAnswered != 1 {
					r.fail("relay-backend-answer-missing", "%d relayed messages answered, %d still outstanding after the client replied to all", r.nAnswered, n)
				}
				x.Outcome(fmt.Sprintf("backend=%v inv=%s ids=%v", r.backendGot(), r.invSummary(), r.clientMessageIDs()))
			})
		}},
		// cleanup (disconnect) races with responses: consumers still run at most once, completion at most once
		{Name: "response-vs-cleanup", Quick: -1, Thorough: -1, Body: func(x *sched.X) {
			e := newEnv(x, true)
			e.send("plain")
			e.send("plain")
			e.fire()
			e.snap = nil // responses below bypass the model: only the at-most-once counters are checked
			x.Go("readloop", func() {
				_ = e.l.handleLoginPluginResponse(wireResponse(1, true, []byte{1}))
				_ = e.l.handleLoginPluginResponse(wireResponse(2, true, []byte{2}))
			})
			x.Go("closer", func() { e.l.cleanup() })
			x.AtEnd(func() {
				for _, m := range e.msgs {
					if len(m.inv) > 1 {
						e.fail("consumer-invoked-again", "consumer of id %d ran %d times", m.id, len(m.inv))
					}
				}
				if e.completions > 1 {
					e.fail("completion-more-than-once", "login completion ran %d times", e.completions)
				}
				x.Outcome(fmt.Sprintf("inv=%s done=%d", e.invSummary(), e.completions))
			})
		}},
	}
}

// ------------------------------------------------------------------ entry

func TestVerif(t *testing.T) {
	vrt.Run(t, "C13", func(r *vrt.R) {
		// replay: bfs histories carry "history", sched schedules carry "choices"
		var probe struct {
			Scenario string  `json:"scenario"`
			History  []c13Op `json:"history"`
			Choices  []int   `json:"choices"`
		}
		if r.ReplayInto(&probe) && probe.History != nil {
			run := runPrelogin
			if strings.HasPrefix(probe.Scenario, "relay") {
				run = runRelay
			} else if strings.HasPrefix(probe.Scenario, "prelogin-legacy") {
				run = runPreloginLegacy
			}
			r.Eval(1)
			if out := run(probe.History); out.FailKey != "" {
				r.Violation(probe.Scenario+"/"+out.FailKey, out.FailDesc, bfs.ReplayData[c13Op]{Scenario: probe.Scenario, History: probe.History})
			}
			return
		}
		if r.Replay() != nil {
			schedrun.Run(r, scenarios())
			return
		}

		depth, rdepth := 6, 6
		if r.Thorough() {
			depth, rdepth = 8, 8
		}
		preOps := []c13Op{{K: "S"}, {K: "F"}, {K: "SE"}, {K: "R", I: 1, V: 1}, {K: "R", I: 2, V: 1}, {K: "SC"}, {K: "R", I: 1, V: 0}, {K: "R", I: 3, V: 2}, {K: "R", I: 2, V: 0}, {K: "RU"}, {K: "R", I: 4, V: 1}, {K: "C"}, {K: "SX"}, {K: "R0"}, {K: "RN"}}
		res := bfs.Explore(bfs.Config[c13Op]{Name: "prelogin", Ops: preOps, Depth: depth, Run: runPrelogin, Enabled: preloginEnabled,
			Shard: r.Shard, NShards: r.NShards, Deadline: r.DeadlineTime()})
		res.Merge(r, "prelogin")

		// the same alphabet on a 1.12.2 client: every send is refused, completion runs at the event
		legOps := []c13Op{{K: "S"}, {K: "F"}, {K: "SC"}, {K: "R", I: 1, V: 1}, {K: "RU"}, {K: "C"}}
		res1 := bfs.Explore(bfs.Config[c13Op]{Name: "prelogin-legacy", Ops: legOps, Depth: 4, Run: runPreloginLegacy, Enabled: preloginEnabled,
			Shard: r.Shard, NShards: r.NShards, Deadline: r.DeadlineTime()})
		res1.Merge(r, "prelogin-legacy")

		relOps := []c13Op{{K: "B", I: 5}, {K: "R", I: 1, V: 1}, {K: "B", I: 6, V: 1}, {K: "R", I: 2, V: 0}, {K: "R", I: 1, V: 2}, {K: "R", I: 2, V: 1}, {K: "R", I: 3, V: 1}, {K: "R", I: 1, V: 0}, {K: "RU"},
			{K: "S"}, {K: "R", I: 4, V: 1}, {K: "R", I: 3, V: 0}, {K: "R0"}}
		res2 := bfs.Explore(bfs.Config[c13Op]{Name: "relay", Ops: relOps, Depth: rdepth, Run: runRelay, Enabled: relayEnabled,
			Shard: r.Shard, NShards: r.NShards, Deadline: r.DeadlineTime()})
		res2.Merge(r, "relay")

		schedrun.Run(r, scenarios())
	})
}
