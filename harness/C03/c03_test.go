package util

import (
	"bytes"
	"encoding/binary"
	"encoding/hex"
	"fmt"
	"io"
	"math"
	"reflect"
	"runtime"
	"strings"
	"testing"
	"time"

	"go.minekube.com/common/minecraft/key"
	"go.minekube.com/gate/pkg/edition/java/profile"
	"go.minekube.com/gate/pkg/edition/java/proxy/zzverif/vrt"
	"go.minekube.com/gate/pkg/util/uuid"
)

// ---- readers ----

type chunkReader struct {
	b   []byte
	pos int
}

func (c *chunkReader) Read(p []byte) (int, error) {
	if len(p) == 0 {
		return 0, nil
	}
	if c.pos >= len(c.b) {
		return 0, io.EOF
	}
	p[0] = c.b[c.pos]
	c.pos++
	return 1, nil
}

type rdr interface {
	io.Reader
	left() int
}
type bytesRdr struct{ *bytes.Reader }

func (b bytesRdr) left() int     { return b.Len() }
func (c *chunkReader) left() int { return len(c.b) - c.pos }

var readerKinds = []string{"bytes.Reader", "chunk1"}

func mkReader(kind int, b []byte) rdr {
	if kind == 0 {
		return bytesRdr{bytes.NewReader(b)}
	}
	return &chunkReader{b: b}
}

// ---- reference encoders (independent of the code under test) ----

func refVarInt(v int32) []byte {
	u := uint32(v)
	var out []byte
	for {
		if u&^0x7F == 0 {
			return append(out, byte(u))
		}
		out = append(out, byte(u&0x7F)|0x80)
		u >>= 7
	}
}
func refBE(v uint64, n int) []byte {
	out := make([]byte, n)
	for i := 0; i < n; i++ {
		out[n-1-i] = byte(v >> (8 * i))
	}
	return out
}
func refLenPrefixed(b []byte) []byte { return append(refVarInt(int32(len(b))), b...) }
func refExtShort(v int) []byte {
	low := v & 0x7FFF
	high := (v & 0x7F8000) >> 15
	if high != 0 {
		low |= 0x8000
	}
	out := []byte{byte(low >> 8), byte(low)}
	if high != 0 {
		out = append(out, byte(high))
	}
	return out
}

// ---- harness ----

type H struct {
	r     *vrt.R
	group string
	seen  map[string]bool
}

func (h *H) vio(fn, kind, detail string) {
	h.r.Violation(fn+"/"+kind, fmt.Sprintf("%s: %s: %s", fn, kind, detail), map[string]string{"group": h.group})
}

// check runs one (primitive,value) case.
//
//	enc: bytes produced by the real encoder; ref: reference bytes (nil = skip byte comparison)
//	dec: real decoder; want: expected value
func (h *H) check(fn, label string, enc, ref []byte, dec func(io.Reader) (any, error), want any) {
	h.r.Eval(1)
	k := fn + "|" + label
	if !h.seen[k] {
		h.seen[k] = true
		if len(enc) > 1 {
			h.r.Nontrivial(1)
		}
	}
	h.r.Class(fn)
	if ref != nil && !bytes.Equal(enc, ref) {
		h.vio(fn, "encoding-differs-from-reference", fmt.Sprintf("%s: got %s want %s", label, hx(enc), hx(ref)))
	}
	trailer := []byte{0xA5, 0x5A, 0xC3}
	for kind := range readerKinds {
		for _, tr := range [][]byte{nil, trailer} {
			in := append(append([]byte{}, enc...), tr...)
			rd := mkReader(kind, in)
			var got any
			var err error
			if p, pv := vrt.Catch(func() { got, err = dec(rd) }); p {
				h.vio(fn, "panic", fmt.Sprintf("%s via %s: %v", label, readerKinds[kind], pv))
				continue
			}
			if err != nil {
				h.vio(fn, "roundtrip-error/"+readerKinds[kind], fmt.Sprintf("%s (trailer=%d): %v", label, len(tr), err))
				continue
			}
			if !reflect.DeepEqual(got, want) {
				h.vio(fn, "roundtrip-value/"+readerKinds[kind], fmt.Sprintf("%s (trailer=%d): got %s want %s", label, len(tr), short(got), short(want)))
			}
			if rd.left() != len(tr) {
				h.vio(fn, "consumed/"+readerKinds[kind], fmt.Sprintf("%s: %d bytes left, want %d (enc %d bytes)", label, rd.left(), len(tr), len(enc)))
			}
		}
		// strict prefixes
		for _, n := range prefixLens(len(enc)) {
			h.r.Eval(1)
			rd := mkReader(kind, enc[:n])
			var got any
			var err error
			if p, pv := vrt.Catch(func() { got, err = dec(rd) }); p {
				h.vio(fn, "panic-on-prefix", fmt.Sprintf("%s prefix %d/%d via %s: %v", label, n, len(enc), readerKinds[kind], pv))
				continue
			}
			if err == nil {
				h.vio(fn, "prefix-accepted/"+readerKinds[kind], fmt.Sprintf("%s: prefix %d of %d bytes decoded without error to %s", label, n, len(enc), short(got)))
			}
		}
	}
}

func prefixLens(n int) []int {
	var out []int
	if n <= 48 {
		for i := 0; i < n; i++ {
			out = append(out, i)
		}
		return out
	}
	m := map[int]bool{}
	for _, i := range []int{0, 1, 2, 3, 4, 5, 6, 8, n / 2, n - 3, n - 2, n - 1} {
		if i >= 0 && i < n && !m[i] {
			m[i] = true
			out = append(out, i)
		}
	}
	return out
}

// reject: the decoder must return an error for in, without panic and without a large allocation.
func (h *H) reject(fn, label string, in []byte, dec func(io.Reader) (any, error)) {
	for kind := range readerKinds {
		h.r.Eval(1)
		h.r.Class(fn + "/hostile")
		rd := mkReader(kind, in)
		var err error
		var got any
		var ms0, ms1 runtime.MemStats
		runtime.ReadMemStats(&ms0)
		p, pv := vrt.Catch(func() { got, err = dec(rd) })
		runtime.ReadMemStats(&ms1)
		if p {
			h.vio(fn, "panic-on-hostile-length", fmt.Sprintf("%s (%s): %v", label, hx(in), pv))
			continue
		}
		if err == nil {
			h.vio(fn, "hostile-length-accepted/"+readerKinds[kind], fmt.Sprintf("%s (%s) decoded to %s", label, hx(in), short(got)))
		}
		if d := ms1.TotalAlloc - ms0.TotalAlloc; d > 4<<20 {
			h.vio(fn, "alloc-before-reject", fmt.Sprintf("%s (%s): %d bytes allocated", label, hx(in), d))
		}
	}
}

func hx(b []byte) string {
	if len(b) > 24 {
		return hex.EncodeToString(b[:24]) + fmt.Sprintf("…(%d)", len(b))
	}
	return hex.EncodeToString(b)
}
func short(v any) string {
	s := fmt.Sprintf("%v", v)
	if len(s) > 80 {
		s = s[:80] + "…"
	}
	return s
}

func enc(f func(io.Writer) error) []byte {
	var b bytes.Buffer
	if err := f(&b); err != nil {
		return nil
	}
	return b.Bytes()
}

// plainWriter hides bytes.Buffer's WriteByte so that the non-ByteWriter path is exercised too.
type plainWriter struct{ b *bytes.Buffer }

func (p plainWriter) Write(x []byte) (int, error) { return p.b.Write(x) }

func encPlain(f func(io.Writer) error) []byte {
	var b bytes.Buffer
	if err := f(plainWriter{&b}); err != nil {
		return nil
	}
	return b.Bytes()
}

func varIntAlphabet(thorough bool) []int32 {
	m := map[int32]bool{}
	lim := int32(1 << 15)
	for v := -lim; v <= lim; v++ {
		m[v] = true
	}
	for k := 0; k < 32; k++ {
		p := int32(1) << uint(k)
		for _, d := range []int32{-1, 0, 1} {
			m[p+d] = true
			m[-(p + d)] = true
		}
	}
	m[math.MaxInt32] = true
	m[math.MinInt32] = true
	out := make([]int32, 0, len(m))
	for v := range m {
		out = append(out, v)
	}
	return out
}

func u64Alphabet() []uint64 {
	m := map[uint64]bool{0: true, math.MaxUint64: true, 0x0102030405060708: true, 0x8000000000000000: true}
	for k := 0; k < 64; k++ {
		p := uint64(1) << uint(k)
		m[p], m[p-1], m[p+1] = true, true, true
		m[^p] = true
	}
	out := []uint64{}
	for v := range m {
		out = append(out, v)
	}
	return out
}

func content(n int, kind int) []byte {
	b := make([]byte, n)
	for i := range b {
		switch kind {
		case 0:
			b[i] = 'a' + byte(i%26)
		case 1:
			b[i] = byte(i*131 + 7)
		default:
			b[i] = 0
		}
	}
	return b
}

func utf8String(n int, kind int) string {
	if kind == 0 {
		return string(content(n, 0))
	}
	// multi-byte runes: é (2), € (3), 😀 (4)
	rs := []string{"é", "€", "😀", "a"}
	var sb strings.Builder
	for i := 0; sb.Len()+4 <= n; i++ {
		sb.WriteString(rs[i%4])
	}
	for sb.Len() < n {
		sb.WriteByte('z')
	}
	return sb.String()
}

func TestVerif(t *testing.T) {
	vrt.Run(t, "C03", func(r *vrt.R) {
		groups := map[string]func(h *H){
			"varint": gVarInt, "fixed": gFixed, "string": gString, "bytes": gBytes, "bytes17": gBytes17,
			"extshort": gExtShort, "uuid": gUUID, "props": gProps, "utf": gUTF, "key": gKey, "arrays": gArrays,
		}
		names := []string{"varint", "fixed", "string", "bytes", "bytes17", "extshort", "uuid", "props", "utf", "key", "arrays"}
		var rp struct{ Group string }
		if r.ReplayInto(&rp) {
			h := &H{r: r, group: rp.Group, seen: map[string]bool{}}
			groups[rp.Group](h)
			return
		}
		for i, n := range names {
			if !r.Mine(i) {
				continue
			}
			h := &H{r: r, group: n, seen: map[string]bool{}}
			groups[n](h)
		}
		r.Sample(map[string]any{"primitive": "VarInt", "value": -1, "encoding": hx(refVarInt(-1)), "prefixes_tested": 4, "readers": readerKinds})
		r.Sample(map[string]any{"primitive": "Bytes17", "len": 300, "length_prefix": hx(refExtShort(300))})
	})
}

func gVarInt(h *H) {
	for _, v := range varIntAlphabet(h.r.Thorough()) {
		v := v
		e := enc(func(w io.Writer) error { return WriteVarInt(w, int(v)) })
		e2 := encPlain(func(w io.Writer) error { return WriteVarInt(w, int(v)) })
		if !bytes.Equal(e, e2) {
			h.vio("WriteVarInt", "bytewriter-vs-writer", fmt.Sprint(v))
		}
		h.check("VarInt", fmt.Sprint(v), e, refVarInt(v), func(rd io.Reader) (any, error) { return ReadVarInt(rd) }, int(v))
		// ReadVarIntReturnN: n must equal the encoding length
		for kind := range readerKinds {
			got, n, err := ReadVarIntReturnN(mkReader(kind, e))
			if err != nil || got != int(v) || n != len(e) {
				h.vio("ReadVarIntReturnN", "n-or-value/"+readerKinds[kind], fmt.Sprintf("v=%d got=%d n=%d len=%d err=%v", v, got, n, len(e), err))
			}
		}
	}
	// over-long varints must be rejected (6 continuation bytes), never loop forever
	for _, in := range [][]byte{{0x80, 0x80, 0x80, 0x80, 0x80, 0x00}, {0xFF, 0xFF, 0xFF, 0xFF, 0xFF, 0xFF, 0x01}, bytes.Repeat([]byte{0x80}, 64)} {
		h.reject("VarInt", "over-long", in, func(rd io.Reader) (any, error) { return ReadVarInt(rd) })
	}
}

func gFixed(h *H) {
	for _, v := range u64Alphabet() {
		v := v
		h.check("Uint8", fmt.Sprint(uint8(v)), enc(func(w io.Writer) error { return WriteUint8(w, uint8(v)) }), refBE(v&0xFF, 1), func(rd io.Reader) (any, error) { return ReadUint8(rd) }, uint8(v))
		h.check("Int8", fmt.Sprint(int8(v)), enc(func(w io.Writer) error { return WriteInt8(w, int8(v)) }), refBE(v&0xFF, 1), func(rd io.Reader) (any, error) { return ReadInt8(rd) }, int8(v))
		h.check("Byte", fmt.Sprint(byte(v)), enc(func(w io.Writer) error { return WriteByte(w, byte(v)) }), refBE(v&0xFF, 1), func(rd io.Reader) (any, error) { return ReadByte(rd) }, byte(v))
		h.check("Uint16", fmt.Sprint(uint16(v)), enc(func(w io.Writer) error { return WriteUint16(w, uint16(v)) }), refBE(v&0xFFFF, 2), func(rd io.Reader) (any, error) { return ReadUint16(rd) }, uint16(v))
		h.check("Int16", fmt.Sprint(int16(v)), enc(func(w io.Writer) error { return WriteInt16(w, int16(v)) }), refBE(v&0xFFFF, 2), func(rd io.Reader) (any, error) { return ReadInt16(rd) }, int16(v))
		h.check("Uint32", fmt.Sprint(uint32(v)), enc(func(w io.Writer) error { return WriteUint32(w, uint32(v)) }), refBE(v&0xFFFFFFFF, 4), func(rd io.Reader) (any, error) { return ReadUint32(rd) }, uint32(v))
		h.check("Int32", fmt.Sprint(int32(v)), enc(func(w io.Writer) error { return WriteInt32(w, int32(v)) }), refBE(v&0xFFFFFFFF, 4), func(rd io.Reader) (any, error) { return ReadInt32(rd) }, int32(v))
		h.check("Int", fmt.Sprint(int32(v)), enc(func(w io.Writer) error { return WriteInt(w, int(int32(v))) }), refBE(v&0xFFFFFFFF, 4), func(rd io.Reader) (any, error) { return ReadInt(rd) }, int(int32(v)))
		h.check("Uint64", fmt.Sprint(v), enc(func(w io.Writer) error { return WriteUint64(w, v) }), refBE(v, 8), func(rd io.Reader) (any, error) { return ReadUint64(rd) }, v)
		h.check("Int64", fmt.Sprint(int64(v)), enc(func(w io.Writer) error { return WriteInt64(w, int64(v)) }), refBE(v, 8), func(rd io.Reader) (any, error) { return ReadInt64(rd) }, int64(v))
		f32 := math.Float32frombits(uint32(v))
		if f32 == f32 { // NaN != NaN under DeepEqual
			h.check("Float32", fmt.Sprintf("bits=%x", uint32(v)), enc(func(w io.Writer) error { return WriteFloat32(w, f32) }), refBE(v&0xFFFFFFFF, 4), func(rd io.Reader) (any, error) { return ReadFloat32(rd) }, f32)
		}
		f64 := math.Float64frombits(v)
		if f64 == f64 {
			h.check("Float64", fmt.Sprintf("bits=%x", v), enc(func(w io.Writer) error { return WriteFloat64(w, f64) }), refBE(v, 8), func(rd io.Reader) (any, error) { return ReadFloat64(rd) }, f64)
		}
		ms := int64(v) % (1 << 50)
		h.check("UnixMilli", fmt.Sprint(ms), enc(func(w io.Writer) error { return WriteInt64(w, ms) }), refBE(uint64(ms), 8), func(rd io.Reader) (any, error) { return ReadUnixMilli(rd) }, time.UnixMilli(ms))
	}
	for _, b := range []bool{false, true} {
		b := b
		x := uint64(0)
		if b {
			x = 1
		}
		h.check("Bool", fmt.Sprint(b), enc(func(w io.Writer) error { return WriteBool(w, b) }), refBE(x, 1), func(rd io.Reader) (any, error) { return ReadBool(rd) }, b)
	}
}

func lengthAlphabet(limits ...int) []int {
	m := map[int]bool{}
	for i := 0; i <= 300; i++ {
		m[i] = true
	}
	for _, l := range append(limits, 16383, 16384, 32767, 32768) {
		for _, d := range []int{-1, 0, 1} {
			if l+d >= 0 {
				m[l+d] = true
			}
		}
	}
	out := []int{}
	for v := range m {
		out = append(out, v)
	}
	return out
}

func gString(h *H) {
	for _, n := range lengthAlphabet(DefaultMaxStringSize) {
		for kind := 0; kind < 2; kind++ {
			s := utf8String(n, kind)
			if len(s) != n {
				continue
			}
			e := enc(func(w io.Writer) error { return WriteString(w, s) })
			h.check("String", fmt.Sprintf("len=%d kind=%d", n, kind), e, refLenPrefixed([]byte(s)), func(rd io.Reader) (any, error) { return ReadString(rd) }, s)
		}
	}
	// ReadStringMax: the cap is max*4 bytes; cap and cap+1
	for _, max := range []int{0, 1, 16, 255} {
		for _, d := range []int{-1, 0, 1} {
			n := max*4 + d
			if n < 0 {
				continue
			}
			s := utf8String(n, 0)
			e := refLenPrefixed([]byte(s))
			max := max
			if n <= max*4 {
				h.check("StringMax", fmt.Sprintf("max=%d len=%d", max, n), e, nil, func(rd io.Reader) (any, error) { return ReadStringMax(rd, max) }, s)
			} else {
				h.reject("StringMax", fmt.Sprintf("max=%d len=%d", max, n), e, func(rd io.Reader) (any, error) { return ReadStringMax(rd, max) })
			}
		}
	}
	for _, l := range []int32{-1, -2, math.MinInt32, math.MaxInt32, 1 << 30, DefaultMaxStringSize*4 + 1} {
		in := append(refVarInt(l), 'x')
		h.reject("String", fmt.Sprintf("length-prefix=%d", l), in, func(rd io.Reader) (any, error) { return ReadString(rd) })
	}
}

func gBytes(h *H) {
	for _, n := range lengthAlphabet(DefaultMaxStringSize) {
		for kind := 1; kind < 3; kind++ {
			b := content(n, kind)
			e := enc(func(w io.Writer) error { return WriteBytes(w, b) })
			if n <= DefaultMaxStringSize {
				h.check("Bytes", fmt.Sprintf("len=%d kind=%d", n, kind), e, refLenPrefixed(b), func(rd io.Reader) (any, error) { return ReadBytes(rd) }, b)
			} else {
				h.reject("Bytes", fmt.Sprintf("len=%d", n), e, func(rd io.Reader) (any, error) { return ReadBytes(rd) })
			}
		}
	}
	for _, max := range []int{0, 1, 16, 256} {
		for _, d := range []int{-1, 0, 1} {
			n := max + d
			if n < 0 {
				continue
			}
			b := content(n, 1)
			e := refLenPrefixed(b)
			max := max
			if n <= max {
				h.check("BytesLen", fmt.Sprintf("max=%d len=%d", max, n), e, nil, func(rd io.Reader) (any, error) { return ReadBytesLen(rd, max) }, b)
			} else {
				h.reject("BytesLen", fmt.Sprintf("max=%d len=%d", max, n), e, func(rd io.Reader) (any, error) { return ReadBytesLen(rd, max) })
			}
		}
	}
	for _, l := range []int32{-1, math.MinInt32, math.MaxInt32, 1 << 30} {
		in := append(refVarInt(l), 'x')
		h.reject("Bytes", fmt.Sprintf("length-prefix=%d", l), in, func(rd io.Reader) (any, error) { return ReadBytes(rd) })
	}
}

func gBytes17(h *H) {
	lens := lengthAlphabet(math.MaxInt16, 65535, 65536, 70000)
	if h.r.Thorough() {
		lens = append(lens, ForgeMaxArrayLength-1, ForgeMaxArrayLength)
	}
	for _, n := range lens {
		for _, ext := range []bool{false, true} {
			b := content(n, 1)
			var buf bytes.Buffer
			err := WriteBytes17(&buf, b, ext)
			okLen := (ext && n <= ForgeMaxArrayLength) || (!ext && n <= math.MaxInt16)
			if !okLen {
				if err == nil {
					h.vio("WriteBytes17", "oversize-accepted", fmt.Sprintf("len=%d ext=%v", n, ext))
				}
				continue
			}
			if err != nil {
				h.vio("WriteBytes17", "error", fmt.Sprintf("len=%d ext=%v: %v", n, ext, err))
				continue
			}
			ref := append(refExtShort(n), b...)
			h.check("Bytes17", fmt.Sprintf("len=%d ext=%v", n, ext), buf.Bytes(), ref, func(rd io.Reader) (any, error) { return ReadBytes17(rd) }, b)
		}
	}
}

func gExtShort(h *H) {
	var vals []int
	if h.r.Thorough() {
		for v := 0; v <= 0x7FFFFF; v++ {
			vals = append(vals, v)
		}
	} else {
		for v := 0; v <= 70000; v++ {
			vals = append(vals, v)
		}
		for k := 8; k <= 23; k++ {
			p := 1 << uint(k)
			vals = append(vals, p-1, p, p+1)
		}
		vals = append(vals, 0x7FFFFF)
	}
	for _, v := range vals {
		if v > 0x7FFFFF {
			continue
		}
		v := v
		e := enc(func(w io.Writer) error { return WriteExtendedForgeShort(w, v) })
		ref := refExtShort(v)
		// fast path: byte compare + decode via bytes.Reader; full check for boundary values only
		if v < 600 || v&(v-1) == 0 || (v+1)&v == 0 || v == 0x7FFFFF || v%4099 == 0 {
			h.check("ExtendedForgeShort", fmt.Sprint(v), e, ref, func(rd io.Reader) (any, error) { return ReadExtendedForgeShort(rd) }, v)
			continue
		}
		h.r.Eval(1)
		if !bytes.Equal(e, ref) {
			h.vio("ExtendedForgeShort", "encoding-differs-from-reference", fmt.Sprintf("%d: got %s want %s", v, hx(e), hx(ref)))
		}
		got, err := ReadExtendedForgeShort(bytes.NewReader(ref))
		if err != nil || got != v {
			h.vio("ExtendedForgeShort", "decode-of-reference-encoding", fmt.Sprintf("%d: got %d err %v", v, got, err))
		}
	}
}

func gUUID(h *H) {
	ids := []uuid.UUID{{}, {0xFF, 0xFF, 0xFF, 0xFF, 0xFF, 0xFF, 0xFF, 0xFF, 0xFF, 0xFF, 0xFF, 0xFF, 0xFF, 0xFF, 0xFF, 0xFF}}
	for i := 0; i < 16; i++ {
		var a, b uuid.UUID
		a[i] = 0x80
		b[i] = 0x7F
		for j := range b {
			if j != i {
				b[j] = 0xFF
			}
		}
		ids = append(ids, a, b)
	}
	ids = append(ids, uuid.UUID{1, 2, 3, 4, 5, 6, 7, 8, 9, 10, 11, 12, 13, 14, 15, 16})
	for _, id := range ids {
		id := id
		h.check("UUID", id.String(), enc(func(w io.Writer) error { return WriteUUID(w, id) }), id[:], func(rd io.Reader) (any, error) { return ReadUUID(rd) }, id)
		h.check("UUIDIntArray", id.String(), enc(func(w io.Writer) error { return WriteUUIDIntArray(w, id) }), id[:], func(rd io.Reader) (any, error) { return ReadUUIDIntArray(rd) }, id)
	}
}

func refProps(ps []profile.Property) []byte {
	out := refVarInt(int32(len(ps)))
	for _, p := range ps {
		out = append(out, refLenPrefixed([]byte(p.Name))...)
		out = append(out, refLenPrefixed([]byte(p.Value))...)
		if p.Signature != "" {
			out = append(out, 1)
			out = append(out, refLenPrefixed([]byte(p.Signature))...)
		} else {
			out = append(out, 0)
		}
	}
	return out
}

func gProps(h *H) {
	entries := []profile.Property{
		{Name: "textures", Value: "dmFsdWU=", Signature: "c2ln"},
		{Name: "textures", Value: "dmFsdWU="},
		{Name: "", Value: ""},
		{Name: "é€", Value: utf8String(200, 1), Signature: utf8String(129, 0)},
	}
	lists := [][]profile.Property{{}}
	for _, a := range entries {
		lists = append(lists, []profile.Property{a})
		for _, b := range entries {
			lists = append(lists, []profile.Property{a, b})
		}
	}
	for i, l := range lists {
		l := l
		e := enc(func(w io.Writer) error { return WriteProperties(w, l) })
		h.check("Properties", fmt.Sprintf("list#%d(n=%d)", i, len(l)), e, refProps(l), func(rd io.Reader) (any, error) { return ReadProperties(rd) }, l)
	}
	for _, l := range []int32{-1, -5, math.MinInt32, math.MaxInt32, 1 << 28} {
		h.reject("Properties", fmt.Sprintf("count=%d", l), append(refVarInt(l), 0), func(rd io.Reader) (any, error) { return ReadProperties(rd) })
	}
}

func gUTF(h *H) {
	for _, n := range lengthAlphabet(65534, 65535) {
		if n > 65535 {
			continue
		}
		s := utf8String(n, n%2)
		if len(s) != n {
			s = utf8String(n, 0)
		}
		e := enc(func(w io.Writer) error { return WriteUTF(w, s) })
		h.check("UTF", fmt.Sprintf("len=%d", n), e, append(refBE(uint64(n), 2), s...), func(rd io.Reader) (any, error) { return ReadUTF(rd) }, s)
	}
}

func gKey(h *H) {
	good := []string{"minecraft:brand", "a:b", "velocity:player_info", "ns.x-y_z:path/to.some-thing_1", "minecraft:" + strings.Repeat("a", 200)}
	for _, s := range good {
		k := parseIdentifierKey(s)
		e := enc(func(w io.Writer) error { return WriteKey(w, k) })
		if e == nil {
			h.vio("WriteKey", "valid-key-rejected", s)
			continue
		}
		h.r.Eval(1)
		h.r.Class("Key")
		h.r.Nontrivial(1)
		if !bytes.Equal(e, refLenPrefixed([]byte(s))) {
			h.vio("Key", "encoding-differs-from-reference", s)
		}
		for kind := range readerKinds {
			rd := mkReader(kind, e)
			got, err := ReadKey(rd)
			if err != nil || got.String() != s || rd.left() != 0 {
				h.vio("Key", "roundtrip/"+readerKinds[kind], fmt.Sprintf("%s: got %v err %v left %d", s, got, err, rd.left()))
			}
			for n := 0; n < len(e); n++ {
				if _, err := ReadKey(mkReader(kind, e[:n])); err == nil {
					h.vio("Key", "prefix-accepted/"+readerKinds[kind], fmt.Sprintf("%s prefix %d", s, n))
				}
				h.r.Eval(1)
			}
		}
		// minimal key
		em := enc(func(w io.Writer) error { return WriteMinimalKey(w, k) })
		want := s
		if strings.HasPrefix(s, "minecraft:") {
			want = strings.TrimPrefix(s, "minecraft:")
		}
		if !bytes.Equal(em, refLenPrefixed([]byte(want))) {
			h.vio("MinimalKey", "encoding-differs-from-reference", s)
		}
	}
	// key arrays 0..3
	for n := 0; n <= 3; n++ {
		var ks []key.Key
		ref := refVarInt(int32(n))
		for i := 0; i < n; i++ {
			ks = append(ks, parseIdentifierKey(good[i]))
			ref = append(ref, refLenPrefixed([]byte(good[i]))...)
		}
		e := enc(func(w io.Writer) error { return WriteKeyArray(w, ks) })
		h.r.Eval(1)
		if !bytes.Equal(e, ref) {
			h.vio("KeyArray", "encoding-differs-from-reference", fmt.Sprint(n))
		}
		for kind := range readerKinds {
			rd := mkReader(kind, e)
			got, err := ReadKeyArray(rd)
			if err != nil || len(got) != n || rd.left() != 0 {
				h.vio("KeyArray", "roundtrip/"+readerKinds[kind], fmt.Sprintf("n=%d err=%v", n, err))
				continue
			}
			for i := range got {
				if got[i].String() != good[i] {
					h.vio("KeyArray", "roundtrip-value", fmt.Sprintf("n=%d i=%d", n, i))
				}
			}
			for p := 0; p < len(e); p++ {
				if _, err := ReadKeyArray(mkReader(kind, e[:p])); err == nil {
					h.vio("KeyArray", "prefix-accepted/"+readerKinds[kind], fmt.Sprintf("n=%d prefix %d", n, p))
				}
			}
		}
	}
	bad := []string{"Upper:case", "a:b c", "..:x", "a:b:c", "a:\x00", "é:x"}
	for _, s := range bad {
		h.r.Eval(1)
		if _, err := ReadKey(bytes.NewReader(refLenPrefixed([]byte(s)))); err == nil {
			h.vio("ReadKey", "invalid-key-accepted", fmt.Sprintf("%q", s))
		}
	}
	for _, l := range []int32{-1, math.MinInt32, math.MaxInt32} {
		h.reject("KeyArray", fmt.Sprintf("count=%d", l), append(refVarInt(l), 1, 'a'), func(rd io.Reader) (any, error) { return ReadKeyArray(rd) })
	}
}

func gArrays(h *H) {
	strs := []string{"", "a", utf8String(130, 1), "MC|Brand"}
	for n := 0; n <= 3; n++ {
		a := append([]string{}, strs[:n]...)
		ref := refVarInt(int32(n))
		for _, s := range a {
			ref = append(ref, refLenPrefixed([]byte(s))...)
		}
		h.check("StringArray", fmt.Sprintf("n=%d", n), enc(func(w io.Writer) error { return WriteStrings(w, a) }), ref, func(rd io.Reader) (any, error) { return ReadStringArray(rd) }, a)
	}
	ints := []int{0, -1, 300, math.MaxInt32, math.MinInt32}
	for n := 0; n <= 5; n++ {
		a := append([]int{}, ints[:n]...)
		ref := refVarInt(int32(n))
		for _, v := range a {
			ref = append(ref, refVarInt(int32(v))...)
		}
		h.check("VarIntArray", fmt.Sprintf("n=%d", n), enc(func(w io.Writer) error { return WriteVarIntArray(w, a) }), ref, func(rd io.Reader) (any, error) { return ReadVarIntArray(rd) }, a)
		h.check("IntArray", fmt.Sprintf("n=%d", n), ref, nil, func(rd io.Reader) (any, error) { return ReadIntArray(rd) }, a)
	}
	for _, l := range []int32{-1, math.MinInt32, math.MaxInt32, 1 << 28} {
		in := append(refVarInt(l), 1)
		h.reject("StringArray", fmt.Sprintf("count=%d", l), in, func(rd io.Reader) (any, error) { return ReadStringArray(rd) })
		h.reject("VarIntArray", fmt.Sprintf("count=%d", l), in, func(rd io.Reader) (any, error) { return ReadVarIntArray(rd) })
		h.reject("IntArray", fmt.Sprintf("count=%d", l), in, func(rd io.Reader) (any, error) { return ReadIntArray(rd) })
	}
	_ = binary.BigEndian
}
