package util

import (
	"bytes"
	"encoding/binary"
	"encoding/hex"
	"errors"
	"fmt"
	"io"
	"math"
	"reflect"
	"runtime"
	"strings"
	"testing"
	"time"

	"go.minekube.com/common/minecraft/key"
	"go.minekube.com/gate/pkg/edition/java/profile"
	"go.minekube.com/gate/pkg/edition/java/proxy/zzverif/vrt"
	"go.minekube.com/gate/pkg/util/uuid"
)

// ---- readers ----
//
// Reader kinds (every one a legal io.Reader):
//
//	0 bytes.Reader          io.ByteReader, every Read is full, EOF on a separate call
//	1 chunk1                plain io.Reader, 1 byte per Read, EOF on a separate call
//	2 byte+chunk3+dataEOF   io.ByteReader whose Read returns at most 3 bytes and hands the LAST bytes out
//	                        together with io.EOF (like testing/iotest.DataErrReader over a bufio.Reader)
//	3 chunk2+dataEOF        plain io.Reader, 2 bytes per Read, last bytes together with io.EOF
//
// and, for truncated input only, two readers whose stream ends with a NON-EOF error (a broken connection):
//
//	4 chunk1/boom           kind 1 ending with errBoom
//	5 byte+chunk3/boom      kind 2 ending with errBoom (delivered together with the last bytes)

var errBoom = errors.New("harness: connection reset")

type chunkReader struct {
	b       []byte
	pos     int
	max     int   // bytes per Read
	dataEOF bool  // the last bytes come with the end error attached
	endErr  error // io.EOF unless set
}

func (c *chunkReader) end() error {
	if c.endErr != nil {
		return c.endErr
	}
	return io.EOF
}

func (c *chunkReader) Read(p []byte) (int, error) {
	if len(p) == 0 {
		return 0, nil
	}
	if c.pos >= len(c.b) {
		return 0, c.end()
	}
	n := min(c.max, len(p), len(c.b)-c.pos)
	copy(p, c.b[c.pos:c.pos+n])
	c.pos += n
	if c.dataEOF && c.pos == len(c.b) {
		return n, c.end()
	}
	return n, nil
}

// byteChunkReader adds ReadByte, so that the io.ByteReader paths meet short reads as well.
type byteChunkReader struct{ chunkReader }

func (c *byteChunkReader) ReadByte() (byte, error) {
	if c.pos >= len(c.b) {
		return 0, c.end()
	}
	c.pos++
	return c.b[c.pos-1], nil
}

type rdr interface {
	io.Reader
	left() int
}
type bytesRdr struct{ *bytes.Reader }

func (b bytesRdr) left() int     { return b.Len() }
func (c *chunkReader) left() int { return len(c.b) - c.pos }

var readerKinds = []string{"bytes.Reader", "chunk1", "byte+chunk3+dataEOF", "chunk2+dataEOF", "chunk1/boom", "byte+chunk3/boom"}

const (
	fullKinds   = 4 // kinds that deliver the whole input and end with io.EOF
	prefixKinds = 6 // truncated input additionally ends with a non-EOF error
)

func mkReader(kind int, b []byte) rdr {
	switch kind {
	case 0:
		return bytesRdr{bytes.NewReader(b)}
	case 1:
		return &chunkReader{b: b, max: 1}
	case 2:
		return &byteChunkReader{chunkReader{b: b, max: 3, dataEOF: true}}
	case 3:
		return &chunkReader{b: b, max: 2, dataEOF: true}
	case 4:
		return &chunkReader{b: b, max: 1, endErr: errBoom}
	default:
		return &byteChunkReader{chunkReader{b: b, max: 3, dataEOF: true, endErr: errBoom}}
	}
}

// ---- writers ----

// plainWriter hides bytes.Buffer's WriteByte so that the non-ByteWriter path is exercised too.
type plainWriter struct{ b *bytes.Buffer }

func (p plainWriter) Write(x []byte) (int, error) { return p.b.Write(x) }

// failOnceWriter accepts `at` bytes, fails the Write that would cross that offset (after taking the bytes up
// to it, as a connection does) and works again afterwards: an encoder that drops ONE error return of its
// writer reports success although the bytes on the wire are not the value's encoding.
type failOnceWriter struct {
	at, n  int
	failed bool
}

func (f *failOnceWriter) Write(p []byte) (int, error) {
	if !f.failed && f.n+len(p) > f.at {
		k := f.at - f.n
		f.n += k
		f.failed = true
		return k, errBoom
	}
	f.n += len(p)
	return len(p), nil
}

type failOnceByteWriter struct{ failOnceWriter }

func (f *failOnceByteWriter) WriteByte(b byte) error {
	_, err := f.Write([]byte{b})
	return err
}

// ---- reference encoders (independent of the code under test) ----

func refVarInt(v int32) []byte {
	u := uint32(v)
	var out []byte
	for {
		if u&^0x7F == 0 {
			return append(out, byte(u))
		}
		out = append(out, byte(u&0x7F)|0x80)
		u >>= 7
	}
}
func refBE(v uint64, n int) []byte {
	out := make([]byte, n)
	for i := 0; i < n; i++ {
		out[n-1-i] = byte(v >> (8 * i))
	}
	return out
}
func refLenPrefixed(b []byte) []byte { return append(refVarInt(int32(len(b))), b...) }
func refExtShort(v int) []byte {
	low := v & 0x7FFF
	high := (v & 0x7F8000) >> 15
	if high != 0 {
		low |= 0x8000
	}
	out := []byte{byte(low >> 8), byte(low)}
	if high != 0 {
		out = append(out, byte(high))
	}
	return out
}

// ---- harness ----

type H struct {
	r     *vrt.R
	group string
	seen  map[string]bool
}

func (h *H) vio(fn, kind, detail string) {
	h.r.Violation(fn+"/"+kind, fmt.Sprintf("%s: %s: %s", fn, kind, detail), map[string]string{"group": h.group})
}

// check runs one (primitive,value) case.
//
//	enc: bytes produced by the real encoder; ref: reference bytes (nil = skip byte comparison)
//	dec: real decoder; want: expected value
func (h *H) check(fn, label string, enc, ref []byte, dec func(io.Reader) (any, error), want any) {
	h.r.Eval(1)
	k := fn + "|" + label
	if !h.seen[k] {
		h.seen[k] = true
		if len(enc) > 1 {
			h.r.Nontrivial(1)
		}
	}
	h.r.Class(fn)
	if ref != nil && !bytes.Equal(enc, ref) {
		h.vio(fn, "encoding-differs-from-reference", fmt.Sprintf("%s: got %s want %s", label, hx(enc), hx(ref)))
	}
	trailer := []byte{0xA5, 0x5A, 0xC3}
	for kind := 0; kind < prefixKinds; kind++ {
		for _, tr := range [][]byte{nil, trailer} {
			if kind >= fullKinds {
				break // these end with a non-EOF error: truncated input only
			}
			in := append(append([]byte{}, enc...), tr...)
			rd := mkReader(kind, in)
			var got any
			var err error
			if p, pv := vrt.Catch(func() { got, err = dec(rd) }); p {
				h.vio(fn, "panic", fmt.Sprintf("%s via %s: %v", label, readerKinds[kind], pv))
				continue
			}
			if err != nil {
				h.vio(fn, "roundtrip-error/"+readerKinds[kind], fmt.Sprintf("%s (trailer=%d): %v", label, len(tr), err))
				continue
			}
			if !reflect.DeepEqual(got, want) {
				h.vio(fn, "roundtrip-value/"+readerKinds[kind], fmt.Sprintf("%s (trailer=%d): got %s want %s", label, len(tr), short(got), short(want)))
			}
			if rd.left() != len(tr) {
				h.vio(fn, "consumed/"+readerKinds[kind], fmt.Sprintf("%s: %d bytes left, want %d (enc %d bytes)", label, rd.left(), len(tr), len(enc)))
			}
		}
		// strict prefixes
		for _, n := range prefixLens(len(enc)) {
			h.r.Eval(1)
			rd := mkReader(kind, enc[:n])
			var got any
			var err error
			if p, pv := vrt.Catch(func() { got, err = dec(rd) }); p {
				h.vio(fn, "panic-on-prefix", fmt.Sprintf("%s prefix %d/%d via %s: %v", label, n, len(enc), readerKinds[kind], pv))
				continue
			}
			if err == nil {
				h.vio(fn, "prefix-accepted/"+readerKinds[kind], fmt.Sprintf("%s: prefix %d of %d bytes decoded without error to %s", label, n, len(enc), short(got)))
			}
		}
	}
}

func prefixLens(n int) []int {
	var out []int
	if n <= 48 {
		for i := 0; i < n; i++ {
			out = append(out, i)
		}
		return out
	}
	m := map[int]bool{}
	for _, i := range []int{0, 1, 2, 3, 4, 5, 6, 8, n / 2, n - 3, n - 2, n - 1} {
		if i >= 0 && i < n && !m[i] {
			m[i] = true
			out = append(out, i)
		}
	}
	return out
}

// reject: the decoder must return an error for in, without panic and without a large allocation.
func (h *H) reject(fn, label string, in []byte, dec func(io.Reader) (any, error)) {
	for kind := range readerKinds {
		h.r.Eval(1)
		h.r.Class(fn + "/hostile")
		rd := mkReader(kind, in)
		var err error
		var got any
		var ms0, ms1 runtime.MemStats
		runtime.ReadMemStats(&ms0)
		p, pv := vrt.Catch(func() { got, err = dec(rd) })
		runtime.ReadMemStats(&ms1)
		if p {
			h.vio(fn, "panic-on-hostile-length", fmt.Sprintf("%s (%s): %v", label, hx(in), pv))
			continue
		}
		if err == nil {
			h.vio(fn, "hostile-length-accepted/"+readerKinds[kind], fmt.Sprintf("%s (%s) decoded to %s", label, hx(in), short(got)))
		}
		if d := ms1.TotalAlloc - ms0.TotalAlloc; d > 4<<20 {
			h.vio(fn, "alloc-before-reject", fmt.Sprintf("%s (%s): %d bytes allocated", label, hx(in), d))
		}
	}
}

func hx(b []byte) string {
	if len(b) > 24 {
		return hex.EncodeToString(b[:24]) + fmt.Sprintf("…(%d)", len(b))
	}
	return hex.EncodeToString(b)
}
func short(v any) string {
	s := fmt.Sprintf("%v", v)
	if len(s) > 80 {
		s = s[:80] + "…"
	}
	return s
}

func enc(f func(io.Writer) error) []byte {
	var b bytes.Buffer
	if err := f(&b); err != nil {
		return nil
	}
	return b.Bytes()
}

func encPlain(f func(io.Writer) error) []byte {
	var b bytes.Buffer
	if err := f(plainWriter{&b}); err != nil {
		return nil
	}
	return b.Bytes()
}

// failPoints: byte offsets at which the writer is made to fail once.
func failPoints(n int) []int {
	if n <= 48 {
		out := make([]int, n)
		for i := range out {
			out[i] = i
		}
		return out
	}
	return []int{0, 1, 2, 3, 4, 5, n / 2, n - 2, n - 1}
}

// checkE is check for a value written by the real encoder f. On top of check it drives the writer dimension:
//   - f must produce the same bytes through an io.ByteWriter (bytes.Buffer) and a plain io.Writer;
//   - when the writer fails once at any byte offset of the encoding, f must report an error: returning nil
//     there means "written", but what is on the wire does not decode back to the value.
func (h *H) checkE(fn, label string, f func(io.Writer) error, ref []byte, dec func(io.Reader) (any, error), want any) {
	var b1, b2 bytes.Buffer
	if err := f(&b1); err != nil {
		h.vio(fn, "encode-error", fmt.Sprintf("%s: %v", label, err))
		return
	}
	if err := f(plainWriter{&b2}); err != nil || !bytes.Equal(b1.Bytes(), b2.Bytes()) {
		h.vio(fn, "bytewriter-vs-writer", fmt.Sprintf("%s: io.ByteWriter gives %s, plain io.Writer gives %s (err %v)", label, hx(b1.Bytes()), hx(b2.Bytes()), err))
	}
	e := b1.Bytes()
	for _, at := range failPoints(len(e)) {
		for variant := 0; variant < 2; variant++ {
			h.r.Eval(1)
			var w io.Writer
			name := "io.Writer"
			if variant == 0 {
				w = &failOnceWriter{at: at}
			} else {
				w, name = &failOnceByteWriter{failOnceWriter{at: at}}, "io.ByteWriter"
			}
			var err error
			if p, pv := vrt.Catch(func() { err = f(w) }); p {
				h.vio(fn, "panic-on-write-error", fmt.Sprintf("%s: writer (%s) failing at byte %d/%d: %v", label, name, at, len(e), pv))
			} else if err == nil {
				h.vio(fn, "write-error-swallowed", fmt.Sprintf("%s: the writer (%s) failed at byte %d of %d but the encoder returned nil", label, name, at, len(e)))
			}
		}
	}
	h.r.Class(fn + "/writer-fails-once")
	h.check(fn, label, e, ref, dec, want)
}

func varIntAlphabet(thorough bool) []int32 {
	m := map[int32]bool{}
	lim := int32(1 << 15)
	for v := -lim; v <= lim; v++ {
		m[v] = true
	}
	for k := 0; k < 32; k++ {
		p := int32(1) << uint(k)
		for _, d := range []int32{-1, 0, 1} {
			m[p+d] = true
			m[-(p + d)] = true
		}
	}
	m[math.MaxInt32] = true
	m[math.MinInt32] = true
	out := make([]int32, 0, len(m))
	for v := range m {
		out = append(out, v)
	}
	return out
}

func u64Alphabet() []uint64 {
	m := map[uint64]bool{0: true, math.MaxUint64: true, 0x0102030405060708: true, 0x8000000000000000: true}
	for k := 0; k < 64; k++ {
		p := uint64(1) << uint(k)
		m[p], m[p-1], m[p+1] = true, true, true
		m[^p] = true
	}
	out := []uint64{}
	for v := range m {
		out = append(out, v)
	}
	return out
}

func content(n int, kind int) []byte {
	b := make([]byte, n)
	for i := range b {
		switch kind {
		case 0:
			b[i] = 'a' + byte(i%26)
		case 1:
			b[i] = byte(i*131 + 7)
		default:
			b[i] = 0
		}
	}
	return b
}

func utf8String(n int, kind int) string {
	if kind == 0 {
		return string(content(n, 0))
	}
	if kind == 2 {
		// valid UTF-8 a text-minded decoder might "clean up": NUL, BOM, the last code point, a noncharacter, a
		// combining sequence; padded with NULs, so most lengths END in NUL
		rs := []string{"\x00", "\uFEFF", "\U0010FFFF", "\uFFFF", "e\u0301", " "}
		var sb strings.Builder
		for i := 0; sb.Len()+4 <= n; i++ {
			sb.WriteString(rs[i%len(rs)])
		}
		for sb.Len() < n {
			sb.WriteByte(0)
		}
		return sb.String()
	}
	// multi-byte runes: é (2), € (3), 😀 (4)
	rs := []string{"é", "€", "😀", "a"}
	var sb strings.Builder
	for i := 0; sb.Len()+4 <= n; i++ {
		sb.WriteString(rs[i%4])
	}
	for sb.Len() < n {
		sb.WriteByte('z')
	}
	return sb.String()
}

func TestVerif(t *testing.T) {
	vrt.Run(t, "C03", func(r *vrt.R) {
		groups := map[string]func(h *H){
			"varint": gVarInt, "fixed": gFixed, "string": gString, "bytes": gBytes, "bytes17": gBytes17,
			"extshort": gExtShort, "uuid": gUUID, "props": gProps, "utf": gUTF, "key": gKey, "arrays": gArrays, "pwrap": gPWrap,
		}
		names := []string{"varint", "fixed", "string", "bytes", "bytes17", "extshort", "uuid", "props", "utf", "key", "arrays", "pwrap"}
		var rp struct{ Group string }
		if r.ReplayInto(&rp) {
			h := &H{r: r, group: rp.Group, seen: map[string]bool{}}
			groups[rp.Group](h)
			return
		}
		for i, n := range names {
			if !r.Mine(i) {
				continue
			}
			h := &H{r: r, group: n, seen: map[string]bool{}}
			groups[n](h)
		}
		r.Sample(map[string]any{"primitive": "VarInt", "value": -1, "encoding": hx(refVarInt(-1)), "prefixes_tested": 5, "readers": readerKinds, "writers": []string{"bytes.Buffer (io.ByteWriter)", "plain io.Writer", "fails once at byte k (plain / ByteWriter)"}})
		r.Sample(map[string]any{"primitive": "Bytes17", "len": 300, "length_prefix": hx(refExtShort(300))})
	})
}

func gVarInt(h *H) {
	for _, v := range varIntAlphabet(h.r.Thorough()) {
		v := v
		e := enc(func(w io.Writer) error { return WriteVarInt(w, int(v)) })
		h.checkE("VarInt", fmt.Sprint(v), func(w io.Writer) error { return WriteVarInt(w, int(v)) }, refVarInt(v), func(rd io.Reader) (any, error) { return ReadVarInt(rd) }, int(v))
		// ReadVarIntReturnN: n must equal the encoding length
		for kind := range readerKinds {
			got, n, err := ReadVarIntReturnN(mkReader(kind, e))
			if err != nil || got != int(v) || n != len(e) {
				h.vio("ReadVarIntReturnN", "n-or-value/"+readerKinds[kind], fmt.Sprintf("v=%d got=%d n=%d len=%d err=%v", v, got, n, len(e), err))
			}
		}
		// WriteVarIntN / WriteUint8N: the returned count is the number of bytes written (the frame encoder adds them up)
		for variant := 0; variant < 2; variant++ {
			var b bytes.Buffer
			var w io.Writer = &b
			if variant == 1 {
				w = plainWriter{&b}
			}
			if n, err := WriteVarIntN(w, int(v)); err != nil || n != b.Len() || !bytes.Equal(b.Bytes(), refVarInt(v)) {
				h.vio("WriteVarIntN", "n-or-bytes", fmt.Sprintf("v=%d variant=%d n=%d written=%s err=%v", v, variant, n, hx(b.Bytes()), err))
			}
		}
	}
	// over-long varints must be rejected (6 continuation bytes), never loop forever
	for _, in := range [][]byte{{0x80, 0x80, 0x80, 0x80, 0x80, 0x00}, {0xFF, 0xFF, 0xFF, 0xFF, 0xFF, 0xFF, 0x01}, bytes.Repeat([]byte{0x80}, 64)} {
		h.reject("VarInt", "over-long", in, func(rd io.Reader) (any, error) { return ReadVarInt(rd) })
	}
}

func gFixed(h *H) {
	for _, v := range u64Alphabet() {
		v := v
		h.checkE("Uint8", fmt.Sprint(uint8(v)), func(w io.Writer) error { return WriteUint8(w, uint8(v)) }, refBE(v&0xFF, 1), func(rd io.Reader) (any, error) { return ReadUint8(rd) }, uint8(v))
		h.checkE("Int8", fmt.Sprint(int8(v)), func(w io.Writer) error { return WriteInt8(w, int8(v)) }, refBE(v&0xFF, 1), func(rd io.Reader) (any, error) { return ReadInt8(rd) }, int8(v))
		h.checkE("Byte", fmt.Sprint(byte(v)), func(w io.Writer) error { return WriteByte(w, byte(v)) }, refBE(v&0xFF, 1), func(rd io.Reader) (any, error) { return ReadByte(rd) }, byte(v))
		h.checkE("Uint16", fmt.Sprint(uint16(v)), func(w io.Writer) error { return WriteUint16(w, uint16(v)) }, refBE(v&0xFFFF, 2), func(rd io.Reader) (any, error) { return ReadUint16(rd) }, uint16(v))
		h.checkE("Int16", fmt.Sprint(int16(v)), func(w io.Writer) error { return WriteInt16(w, int16(v)) }, refBE(v&0xFFFF, 2), func(rd io.Reader) (any, error) { return ReadInt16(rd) }, int16(v))
		h.checkE("Uint32", fmt.Sprint(uint32(v)), func(w io.Writer) error { return WriteUint32(w, uint32(v)) }, refBE(v&0xFFFFFFFF, 4), func(rd io.Reader) (any, error) { return ReadUint32(rd) }, uint32(v))
		h.checkE("Int32", fmt.Sprint(int32(v)), func(w io.Writer) error { return WriteInt32(w, int32(v)) }, refBE(v&0xFFFFFFFF, 4), func(rd io.Reader) (any, error) { return ReadInt32(rd) }, int32(v))
		h.checkE("Int", fmt.Sprint(int32(v)), func(w io.Writer) error { return WriteInt(w, int(int32(v))) }, refBE(v&0xFFFFFFFF, 4), func(rd io.Reader) (any, error) { return ReadInt(rd) }, int(int32(v)))
		h.checkE("Uint64", fmt.Sprint(v), func(w io.Writer) error { return WriteUint64(w, v) }, refBE(v, 8), func(rd io.Reader) (any, error) { return ReadUint64(rd) }, v)
		h.checkE("Int64", fmt.Sprint(int64(v)), func(w io.Writer) error { return WriteInt64(w, int64(v)) }, refBE(v, 8), func(rd io.Reader) (any, error) { return ReadInt64(rd) }, int64(v))
		f32 := math.Float32frombits(uint32(v))
		if f32 == f32 { // NaN != NaN under DeepEqual
			h.checkE("Float32", fmt.Sprintf("bits=%x", uint32(v)), func(w io.Writer) error { return WriteFloat32(w, f32) }, refBE(v&0xFFFFFFFF, 4), func(rd io.Reader) (any, error) { return ReadFloat32(rd) }, f32)
		}
		if f32 != f32 {
			h.checkE("Float32", fmt.Sprintf("NaN bits=%x", uint32(v)), func(w io.Writer) error { return WriteFloat32(w, f32) }, refBE(v&0xFFFFFFFF, 4), func(rd io.Reader) (any, error) {
				f, err := ReadFloat32(rd)
				return math.Float32bits(f), err
			}, uint32(v))
		}
		f64 := math.Float64frombits(v)
		if f64 != f64 {
			h.checkE("Float64", fmt.Sprintf("NaN bits=%x", v), func(w io.Writer) error { return WriteFloat64(w, f64) }, refBE(v, 8), func(rd io.Reader) (any, error) {
				f, err := ReadFloat64(rd)
				return math.Float64bits(f), err
			}, v)
		}
		if f64 == f64 {
			h.checkE("Float64", fmt.Sprintf("bits=%x", v), func(w io.Writer) error { return WriteFloat64(w, f64) }, refBE(v, 8), func(rd io.Reader) (any, error) { return ReadFloat64(rd) }, f64)
		}
		ms := int64(v) % (1 << 50)
		h.checkE("UnixMilli", fmt.Sprint(ms), func(w io.Writer) error { return WriteInt64(w, ms) }, refBE(uint64(ms), 8), func(rd io.Reader) (any, error) { return ReadUnixMilli(rd) }, time.UnixMilli(ms))
	}
	for _, b := range []bool{false, true} {
		b := b
		x := uint64(0)
		if b {
			x = 1
		}
		h.checkE("Bool", fmt.Sprint(b), func(w io.Writer) error { return WriteBool(w, b) }, refBE(x, 1), func(rd io.Reader) (any, error) { return ReadBool(rd) }, b)
	}
}

func lengthAlphabet(limits ...int) []int {
	m := map[int]bool{}
	for i := 0; i <= 300; i++ {
		m[i] = true
	}
	for _, l := range append(limits, 16383, 16384, 32767, 32768) {
		for _, d := range []int{-1, 0, 1} {
			if l+d >= 0 {
				m[l+d] = true
			}
		}
	}
	out := []int{}
	for v := range m {
		out = append(out, v)
	}
	return out
}

func gString(h *H) {
	for _, n := range lengthAlphabet(DefaultMaxStringSize) {
		for kind := 0; kind < 3; kind++ {
			s := utf8String(n, kind)
			if len(s) != n {
				continue
			}
			h.checkE("String", fmt.Sprintf("len=%d kind=%d", n, kind), func(w io.Writer) error { return WriteString(w, s) }, refLenPrefixed([]byte(s)), func(rd io.Reader) (any, error) { return ReadString(rd) }, s)
		}
	}
	// ReadStringMax: the cap is max*4 bytes; cap and cap+1
	for _, max := range []int{0, 1, 16, 255} {
		for _, d := range []int{-1, 0, 1} {
			n := max*4 + d
			if n < 0 {
				continue
			}
			s := utf8String(n, 0)
			e := refLenPrefixed([]byte(s))
			max := max
			if n <= max*4 {
				h.check("StringMax", fmt.Sprintf("max=%d len=%d", max, n), e, nil, func(rd io.Reader) (any, error) { return ReadStringMax(rd, max) }, s)
			} else {
				h.reject("StringMax", fmt.Sprintf("max=%d len=%d", max, n), e, func(rd io.Reader) (any, error) { return ReadStringMax(rd, max) })
			}
		}
	}
	// the cap counts CHARACTERS: exactly max characters of 4 bytes each is the longest legitimate string
	for _, max := range []int{1, 16, 255, 32767} {
		max := max
		s := strings.Repeat("😀", max)
		h.check("StringMax", fmt.Sprintf("max=%d chars of 4 bytes", max), refLenPrefixed([]byte(s)), nil, func(rd io.Reader) (any, error) { return ReadStringMax(rd, max) }, s)
	}
	for _, l := range []int32{-1, -2, math.MinInt32, math.MaxInt32, 1 << 30, DefaultMaxStringSize*4 + 1} {
		in := append(refVarInt(l), 'x')
		h.reject("String", fmt.Sprintf("length-prefix=%d", l), in, func(rd io.Reader) (any, error) { return ReadString(rd) })
	}
	// the default cap (DefaultMaxStringSize characters = x4 bytes) with the body PRESENT: a header followed by
	// one byte is rejected for being truncated whatever the cap is, so only a complete body pins the cap itself
	for _, d := range []int{-1, 0, 1} {
		n := DefaultMaxStringSize*4 + d
		s := utf8String(n, 0)
		if d <= 0 {
			h.checkE("String", fmt.Sprintf("len=cap%+d", d), func(w io.Writer) error { return WriteString(w, s) }, refLenPrefixed([]byte(s)), func(rd io.Reader) (any, error) { return ReadString(rd) }, s)
		} else {
			h.reject("String", fmt.Sprintf("len=cap%+d with body", d), refLenPrefixed([]byte(s)), func(rd io.Reader) (any, error) { return ReadString(rd) })
		}
	}
	// not length-prefixed (legacy brand / Velocity hello): reads to the end of the input, so truncation is not
	// detectable; only the inverse is asserted
	for _, n := range []int{0, 1, 300, 70000} {
		b := content(n, 1)
		for kind := 0; kind < fullKinds; kind++ {
			h.r.Eval(2)
			h.r.Class("RawBytes")
			e := enc(func(w io.Writer) error { return WriteRawBytes(w, b) })
			if got, err := ReadRawBytes(mkReader(kind, e)); err != nil || !bytes.Equal(got, b) || !bytes.Equal(e, b) {
				h.vio("RawBytes", "roundtrip/"+readerKinds[kind], fmt.Sprintf("len=%d: got %s err %v", n, hx(got), err))
			}
			if got, err := ReadStringWithoutLen(mkReader(kind, e)); err != nil || got != string(b) {
				h.vio("StringWithoutLen", "roundtrip/"+readerKinds[kind], fmt.Sprintf("len=%d: got %d bytes err %v", n, len(got), err))
			}
		}
	}
}

func gBytes(h *H) {
	for _, n := range lengthAlphabet(DefaultMaxStringSize) {
		for kind := 1; kind < 3; kind++ {
			b := content(n, kind)
			e := enc(func(w io.Writer) error { return WriteBytes(w, b) })
			if n <= DefaultMaxStringSize {
				h.checkE("Bytes", fmt.Sprintf("len=%d kind=%d", n, kind), func(w io.Writer) error { return WriteBytes(w, b) }, refLenPrefixed(b), func(rd io.Reader) (any, error) { return ReadBytes(rd) }, b)
			} else {
				h.reject("Bytes", fmt.Sprintf("len=%d", n), e, func(rd io.Reader) (any, error) { return ReadBytes(rd) })
			}
		}
	}
	for _, max := range []int{0, 1, 16, 256} {
		for _, d := range []int{-1, 0, 1} {
			n := max + d
			if n < 0 {
				continue
			}
			b := content(n, 1)
			e := refLenPrefixed(b)
			max := max
			if n <= max {
				h.check("BytesLen", fmt.Sprintf("max=%d len=%d", max, n), e, nil, func(rd io.Reader) (any, error) { return ReadBytesLen(rd, max) }, b)
			} else {
				h.reject("BytesLen", fmt.Sprintf("max=%d len=%d", max, n), e, func(rd io.Reader) (any, error) { return ReadBytesLen(rd, max) })
			}
		}
	}
	for _, l := range []int32{-1, math.MinInt32, math.MaxInt32, 1 << 30} {
		in := append(refVarInt(l), 'x')
		h.reject("Bytes", fmt.Sprintf("length-prefix=%d", l), in, func(rd io.Reader) (any, error) { return ReadBytes(rd) })
	}
}

func gBytes17(h *H) {
	lens := lengthAlphabet(math.MaxInt16, 65535, 65536, 70000)
	lens = append(lens, ForgeMaxArrayLength, ForgeMaxArrayLength+1)
	if h.r.Thorough() {
		lens = append(lens, ForgeMaxArrayLength-1)
	}
	for _, n := range lens {
		for _, ext := range []bool{false, true} {
			b := content(n, 1)
			var buf bytes.Buffer
			err := WriteBytes17(&buf, b, ext)
			okLen := (ext && n <= ForgeMaxArrayLength) || (!ext && n <= math.MaxInt16)
			if !okLen {
				if err == nil {
					h.vio("WriteBytes17", "oversize-accepted", fmt.Sprintf("len=%d ext=%v", n, ext))
				}
				if ext {
					// the reader's side of the same limit, body present
					h.reject("Bytes17", fmt.Sprintf("len=%d with body", n), append(refExtShort(n), b...), func(rd io.Reader) (any, error) { return ReadBytes17(rd) })
				}
				continue
			}
			if err != nil {
				h.vio("WriteBytes17", "error", fmt.Sprintf("len=%d ext=%v: %v", n, ext, err))
				continue
			}
			ref := append(refExtShort(n), b...)
			h.checkE("Bytes17", fmt.Sprintf("len=%d ext=%v", n, ext), func(w io.Writer) error { return WriteBytes17(w, b, ext) }, ref, func(rd io.Reader) (any, error) { return ReadBytes17(rd) }, b)
		}
	}
	// length prefixes above the Forge limit (the 3-byte form reaches 2^23-1) followed by one byte
	for _, n := range []int{ForgeMaxArrayLength + 1, 1 << 21, 1<<22 + 5, 0x7FFFFF} {
		h.reject("Bytes17", fmt.Sprintf("length-prefix=%d", n), append(refExtShort(n), 'x'), func(rd io.Reader) (any, error) { return ReadBytes17(rd) })
	}
}

func gExtShort(h *H) {
	var vals []int
	if h.r.Thorough() {
		for v := 0; v <= 0x7FFFFF; v++ {
			vals = append(vals, v)
		}
	} else {
		for v := 0; v <= 70000; v++ {
			vals = append(vals, v)
		}
		for k := 8; k <= 23; k++ {
			p := 1 << uint(k)
			vals = append(vals, p-1, p, p+1)
		}
		vals = append(vals, 0x7FFFFF)
	}
	for _, v := range vals {
		if v > 0x7FFFFF {
			continue
		}
		v := v
		e := enc(func(w io.Writer) error { return WriteExtendedForgeShort(w, v) })
		ref := refExtShort(v)
		// fast path: byte compare + decode via bytes.Reader; full check for boundary values only
		if v < 600 || v&(v-1) == 0 || (v+1)&v == 0 || v == 0x7FFFFF || v%4099 == 0 {
			h.checkE("ExtendedForgeShort", fmt.Sprint(v), func(w io.Writer) error { return WriteExtendedForgeShort(w, v) }, ref, func(rd io.Reader) (any, error) { return ReadExtendedForgeShort(rd) }, v)
			continue
		}
		h.r.Eval(1)
		if !bytes.Equal(e, ref) {
			h.vio("ExtendedForgeShort", "encoding-differs-from-reference", fmt.Sprintf("%d: got %s want %s", v, hx(e), hx(ref)))
		}
		got, err := ReadExtendedForgeShort(bytes.NewReader(ref))
		if err != nil || got != v {
			h.vio("ExtendedForgeShort", "decode-of-reference-encoding", fmt.Sprintf("%d: got %d err %v", v, got, err))
		}
	}
}

func gUUID(h *H) {
	ids := []uuid.UUID{{}, {0xFF, 0xFF, 0xFF, 0xFF, 0xFF, 0xFF, 0xFF, 0xFF, 0xFF, 0xFF, 0xFF, 0xFF, 0xFF, 0xFF, 0xFF, 0xFF}}
	for i := 0; i < 16; i++ {
		var a, b uuid.UUID
		a[i] = 0x80
		b[i] = 0x7F
		for j := range b {
			if j != i {
				b[j] = 0xFF
			}
		}
		ids = append(ids, a, b)
	}
	ids = append(ids, uuid.UUID{1, 2, 3, 4, 5, 6, 7, 8, 9, 10, 11, 12, 13, 14, 15, 16})
	for _, id := range ids {
		id := id
		h.checkE("UUID", id.String(), func(w io.Writer) error { return WriteUUID(w, id) }, id[:], func(rd io.Reader) (any, error) { return ReadUUID(rd) }, id)
		h.checkE("UUIDIntArray", id.String(), func(w io.Writer) error { return WriteUUIDIntArray(w, id) }, id[:], func(rd io.Reader) (any, error) { return ReadUUIDIntArray(rd) }, id)
	}
}

func refProps(ps []profile.Property) []byte {
	out := refVarInt(int32(len(ps)))
	for _, p := range ps {
		out = append(out, refLenPrefixed([]byte(p.Name))...)
		out = append(out, refLenPrefixed([]byte(p.Value))...)
		if p.Signature != "" {
			out = append(out, 1)
			out = append(out, refLenPrefixed([]byte(p.Signature))...)
		} else {
			out = append(out, 0)
		}
	}
	return out
}

func gProps(h *H) {
	entries := []profile.Property{
		{Name: "textures", Value: "dmFsdWU=", Signature: "c2ln"},
		{Name: "textures", Value: "dmFsdWU="},
		{Name: "", Value: ""},
		{Name: "é€", Value: utf8String(200, 1), Signature: utf8String(129, 0)},
	}
	lists := [][]profile.Property{{}}
	for _, a := range entries {
		lists = append(lists, []profile.Property{a})
		for _, b := range entries {
			lists = append(lists, []profile.Property{a, b})
			for _, c := range entries {
				lists = append(lists, []profile.Property{a, b, c})
			}
		}
	}
	// more entries than the decoder pre-allocates for (MaxPreAllocSize): count-1, count, count+1
	for _, n := range []int{MaxPreAllocSize - 1, MaxPreAllocSize, MaxPreAllocSize + 1} {
		l := make([]profile.Property, n)
		for i := range l {
			l[i] = profile.Property{Name: "n", Value: fmt.Sprint(i % 7)}
			if i%3 == 0 {
				l[i].Signature = "s"
			}
		}
		lists = append(lists, l)
	}
	for i, l := range lists {
		l := l
		h.checkE("Properties", fmt.Sprintf("list#%d(n=%d)", i, len(l)), func(w io.Writer) error { return WriteProperties(w, l) }, refProps(l), func(rd io.Reader) (any, error) { return ReadProperties(rd) }, l)
	}
	for _, l := range []int32{-1, -5, math.MinInt32, math.MaxInt32, 1 << 28} {
		h.reject("Properties", fmt.Sprintf("count=%d", l), append(refVarInt(l), 0), func(rd io.Reader) (any, error) { return ReadProperties(rd) })
	}
}

func gUTF(h *H) {
	for _, n := range lengthAlphabet(65534, 65535) {
		if n > 65535 {
			continue
		}
		s := utf8String(n, n%3)
		if len(s) != n {
			s = utf8String(n, 0)
		}
		h.checkE("UTF", fmt.Sprintf("len=%d", n), func(w io.Writer) error { return WriteUTF(w, s) }, append(refBE(uint64(n), 2), s...), func(rd io.Reader) (any, error) { return ReadUTF(rd) }, s)
	}
	// The length prefix is an unsigned short: a longer string has no encoding. The encoder must refuse it (as
	// java.io.DataOutput.writeUTF and WriteBytes17 do); if it reports success, what it wrote must decode back.
	for _, n := range []int{65536, 65537, 70000, 131072 + 5} {
		h.r.Eval(1)
		h.r.Class("UTF/oversize")
		s := utf8String(n, 0)
		var b bytes.Buffer
		if err := WriteUTF(&b, s); err != nil {
			continue
		}
		rd := bytesRdr{bytes.NewReader(b.Bytes())}
		got, err := ReadUTF(rd)
		if err != nil || got != s || rd.left() != 0 {
			h.vio("WriteUTF", "oversize-accepted", fmt.Sprintf("a %d-byte string was written without error as %s; reading it back gives %d bytes, err %v, %d bytes left over", n, hx(b.Bytes()), len(got), err, rd.left()))
		}
	}
}

func keyStrings(ks []key.Key) []string {
	out := make([]string, 0, len(ks))
	for _, k := range ks {
		out = append(out, k.String())
	}
	return out
}

func gKey(h *H) {
	good := []string{"minecraft:brand", "a:b", "velocity:player_info", "ns.x-y_z:path/to.some-thing_1", "minecraft:" + strings.Repeat("a", 200)}
	decKey := func(rd io.Reader) (any, error) {
		k, err := ReadKey(rd)
		if err != nil {
			return nil, err
		}
		return k.String(), nil
	}
	decMinimal := func(rd io.Reader) (any, error) {
		k, err := ReadMinimalKey(rd)
		if err != nil {
			return nil, err
		}
		return k.String(), nil
	}
	decArray := func(rd io.Reader) (any, error) {
		ks, err := ReadKeyArray(rd)
		if err != nil {
			return nil, err
		}
		return keyStrings(ks), nil
	}
	for _, s := range good {
		k := parseIdentifierKey(s)
		if e := enc(func(w io.Writer) error { return WriteKey(w, k) }); e == nil {
			h.vio("WriteKey", "valid-key-rejected", s)
			continue
		}
		h.checkE("Key", s, func(w io.Writer) error { return WriteKey(w, k) }, refLenPrefixed([]byte(s)), decKey, s)
		// minimal key: the default namespace is left out on the wire and comes back on reading
		want := s
		if strings.HasPrefix(s, "minecraft:") {
			want = strings.TrimPrefix(s, "minecraft:")
		}
		h.checkE("MinimalKey", s, func(w io.Writer) error { return WriteMinimalKey(w, k) }, refLenPrefixed([]byte(want)), decMinimal, s)
	}
	// key arrays 0..3 and around the decoder's pre-allocation clamp
	for _, n := range []int{0, 1, 2, 3, MaxPreAllocSize - 1, MaxPreAllocSize, MaxPreAllocSize + 1} {
		var ks []key.Key
		names := []string{}
		ref := refVarInt(int32(n))
		for i := 0; i < n; i++ {
			name := good[i%4]
			ks = append(ks, parseIdentifierKey(name))
			names = append(names, name)
			ref = append(ref, refLenPrefixed([]byte(name))...)
		}
		h.checkE("KeyArray", fmt.Sprintf("n=%d", n), func(w io.Writer) error { return WriteKeyArray(w, ks) }, ref, decArray, names)
	}
	bad := []string{"Upper:case", "a:b c", "..:x", "a:b:c", "a:\x00", "é:x"}
	for _, s := range bad {
		h.r.Eval(2)
		h.r.Class("Key/invalid")
		if _, err := ReadKey(bytes.NewReader(refLenPrefixed([]byte(s)))); err == nil {
			h.vio("ReadKey", "invalid-key-accepted", fmt.Sprintf("%q", s))
		}
		// the writer may refuse such a key; if it writes it, the reader must take it back
		k := parseIdentifierKey(s)
		if e := enc(func(w io.Writer) error { return WriteKey(w, k) }); e != nil {
			if got, err := ReadKey(bytes.NewReader(e)); err != nil || got.String() != k.String() {
				h.vio("Key", "written-key-not-read-back", fmt.Sprintf("%q: WriteKey wrote %s, ReadKey: %v", s, hx(e), err))
			}
		}
	}
	for _, l := range []int32{-1, math.MinInt32, math.MaxInt32} {
		h.reject("KeyArray", fmt.Sprintf("count=%d", l), append(refVarInt(l), 1, 'a'), func(rd io.Reader) (any, error) { return ReadKeyArray(rd) })
	}
}

func gArrays(h *H) {
	strs := []string{"", "a", utf8String(130, 1), "MC|Brand"}
	for n := 0; n <= 3; n++ {
		a := append([]string{}, strs[:n]...)
		ref := refVarInt(int32(n))
		for _, s := range a {
			ref = append(ref, refLenPrefixed([]byte(s))...)
		}
		h.checkE("StringArray", fmt.Sprintf("n=%d", n), func(w io.Writer) error { return WriteStrings(w, a) }, ref, func(rd io.Reader) (any, error) { return ReadStringArray(rd) }, a)
	}
	ints := []int{0, -1, 300, math.MaxInt32, math.MinInt32}
	for n := 0; n <= 5; n++ {
		a := append([]int{}, ints[:n]...)
		ref := refVarInt(int32(n))
		for _, v := range a {
			ref = append(ref, refVarInt(int32(v))...)
		}
		h.checkE("VarIntArray", fmt.Sprintf("n=%d", n), func(w io.Writer) error { return WriteVarIntArray(w, a) }, ref, func(rd io.Reader) (any, error) { return ReadVarIntArray(rd) }, a)
		h.check("IntArray", fmt.Sprintf("n=%d", n), ref, nil, func(rd io.Reader) (any, error) { return ReadIntArray(rd) }, a)
	}
	// more elements than the decoders pre-allocate for (MaxPreAllocSize): count-1, count, count+1
	for _, n := range []int{MaxPreAllocSize - 1, MaxPreAllocSize, MaxPreAllocSize + 1} {
		sa := make([]string, n)
		ia := make([]int, n)
		refS, refI := refVarInt(int32(n)), refVarInt(int32(n))
		for i := range sa {
			if i%5 == 1 {
				sa[i] = "x"
			}
			ia[i] = i*37 - 1000
			refS = append(refS, refLenPrefixed([]byte(sa[i]))...)
			refI = append(refI, refVarInt(int32(ia[i]))...)
		}
		h.checkE("StringArray", fmt.Sprintf("n=%d", n), func(w io.Writer) error { return WriteStrings(w, sa) }, refS, func(rd io.Reader) (any, error) { return ReadStringArray(rd) }, sa)
		h.checkE("VarIntArray", fmt.Sprintf("n=%d", n), func(w io.Writer) error { return WriteVarIntArray(w, ia) }, refI, func(rd io.Reader) (any, error) { return ReadVarIntArray(rd) }, ia)
		h.check("IntArray", fmt.Sprintf("n=%d", n), refI, nil, func(rd io.Reader) (any, error) { return ReadIntArray(rd) }, ia)
	}
	for _, l := range []int32{-1, math.MinInt32, math.MaxInt32, 1 << 28} {
		in := append(refVarInt(l), 1)
		h.reject("StringArray", fmt.Sprintf("count=%d", l), in, func(rd io.Reader) (any, error) { return ReadStringArray(rd) })
		h.reject("VarIntArray", fmt.Sprintf("count=%d", l), in, func(rd io.Reader) (any, error) { return ReadVarIntArray(rd) })
		h.reject("IntArray", fmt.Sprintf("count=%d", l), in, func(rd io.Reader) (any, error) { return ReadIntArray(rd) })
	}
	_ = binary.BigEndian
}

// gPWrap: the panicking wrappers (PanicWriter / PanicReader and the PWrite*/PRead* functions) are the entry
// points most packet codecs use. Same contract, with "error" spelled as a panic that RecoverFunc turns back
// into an error: inverse, exact consumption, truncated input reported, failing writer reported.
func gPWrap(h *H) {
	type pcase struct {
		name, label string
		w           func(*PWriter)
		r           func(*PReader) any
		want        any
		ref         []byte
	}
	var cases []pcase
	add := func(name, label string, ref []byte, want any, w func(*PWriter), r func(*PReader) any) {
		cases = append(cases, pcase{name, label, w, r, want, ref})
	}
	for _, v := range []int{0, 1, -1, 127, 128, 300, 1 << 21, math.MaxInt32, math.MinInt32} {
		add("P.VarInt", fmt.Sprint(v), refVarInt(int32(v)), v, func(w *PWriter) { w.VarInt(v) }, func(r *PReader) any { var x int; r.VarInt(&x); return x })
		add("P.Int", fmt.Sprint(v), refBE(uint64(uint32(v)), 4), v, func(w *PWriter) { w.Int(v) }, func(r *PReader) any { var x int; r.Int(&x); return x })
		add("P.IntVal", fmt.Sprint(v), refBE(uint64(uint32(v)), 4), v, func(w *PWriter) { w.Int(v) }, func(r *PReader) any { return PReadIntVal(r.r) })
		i64 := int64(v) * 0x100000001
		add("P.Int64", fmt.Sprint(i64), refBE(uint64(i64), 8), i64, func(w *PWriter) { w.Int64(i64) }, func(r *PReader) any { var x int64; r.Int64(&x); return x })
		add("P.Int64Val", fmt.Sprint(i64), refBE(uint64(i64), 8), i64, func(w *PWriter) { w.Int64(i64) }, func(r *PReader) any { return PReadInt64Val(r.r) })
		f := math.Float32frombits(uint32(v))
		if f == f {
			add("P.Float32", fmt.Sprintf("bits=%x", uint32(v)), refBE(uint64(uint32(v)), 4), f, func(w *PWriter) { w.Float32(f) }, func(r *PReader) any { var x float32; r.Float32(&x); return x })
		}
		b := byte(v)
		add("P.Byte", fmt.Sprint(b), []byte{b}, b, func(w *PWriter) { w.Byte(b) }, func(r *PReader) any { var x byte; r.Byte(&x); return x })
		add("P.ByteVal", fmt.Sprint(b), []byte{b}, b, func(w *PWriter) { w.Byte(b) }, func(r *PReader) any { return PReadByteVal(r.r) })
		add("P.Uint8", fmt.Sprint(b), []byte{b}, b, func(w *PWriter) { w.Byte(b) }, func(r *PReader) any { var x uint8; r.Uint8(&x); return x })
	}
	for _, b := range []bool{false, true} {
		x := byte(0)
		if b {
			x = 1
		}
		add("P.Bool", fmt.Sprint(b), []byte{x}, b, func(w *PWriter) { w.Bool(b) }, func(r *PReader) any { var v bool; r.Bool(&v); return v })
		add("P.Ok", fmt.Sprint(b), []byte{x}, b, func(w *PWriter) { w.Bool(b) }, func(r *PReader) any { return r.Ok() })
		add("P.BoolVal", fmt.Sprint(b), []byte{x}, b, func(w *PWriter) { w.Bool(b) }, func(r *PReader) any { return PReadBoolVal(r.r) })
	}
	for _, n := range []int{0, 1, 5, 127, 128, 300} {
		str := utf8String(n, n%2)
		raw := content(n, 1)
		add("P.String", fmt.Sprintf("len=%d", n), refLenPrefixed([]byte(str)), str, func(w *PWriter) { w.String(str) }, func(r *PReader) any { var x string; r.String(&x); return x })
		add("P.StringVal", fmt.Sprintf("len=%d", n), refLenPrefixed([]byte(str)), str, func(w *PWriter) { w.String(str) }, func(r *PReader) any { return PReadStringVal(r.r) })
		add("P.StringMax", fmt.Sprintf("len=%d", n), refLenPrefixed([]byte(str)), str, func(w *PWriter) { w.String(str) }, func(r *PReader) any { var x string; r.StringMax(&x, 75); return x })
		add("P.Bytes", fmt.Sprintf("len=%d", n), refLenPrefixed(raw), raw, func(w *PWriter) { w.Bytes(raw) }, func(r *PReader) any { var x []byte; r.Bytes(&x); return x })
		add("P.BytesVal", fmt.Sprintf("len=%d", n), refLenPrefixed(raw), raw, func(w *PWriter) { w.Bytes(raw) }, func(r *PReader) any { return PReadBytesVal(r.r) })
	}
	strs := []string{"", "a", utf8String(130, 1), "MC|Brand"}
	for n := 0; n <= 4; n++ {
		a := append([]string{}, strs[:n]...)
		ref := refVarInt(int32(n))
		for _, s := range a {
			ref = append(ref, refLenPrefixed([]byte(s))...)
		}
		add("P.Strings", fmt.Sprintf("n=%d", n), ref, a, func(w *PWriter) { w.Strings(a) }, func(r *PReader) any { var x []string; r.Strings(&x); return x })
	}
	for _, s := range []string{"minecraft:brand", "a:b", "velocity:player_info"} {
		k := parseIdentifierKey(s)
		min := strings.TrimPrefix(s, "minecraft:")
		add("P.Key", s, refLenPrefixed([]byte(s)), s, func(w *PWriter) { w.Key(k) }, func(r *PReader) any { var x key.Key; r.Key(&x); return x.String() })
		add("P.MinimalKey", s, refLenPrefixed([]byte(min)), s, func(w *PWriter) { w.MinimalKey(k) }, func(r *PReader) any { var x key.Key; r.MinimalKey(&x); return x.String() })
	}
	for _, c := range cases {
		c := c
		h.checkE(c.name, c.label,
			func(w io.Writer) error { return RecoverFunc(func() error { c.w(PanicWriter(w)); return nil }) },
			c.ref,
			func(rd io.Reader) (v any, err error) {
				err = RecoverFunc(func() error { v = c.r(PanicReader(rd)); return nil })
				return
			}, c.want)
	}
	// a string above the given maximum is refused through the wrapper as well
	over := refLenPrefixed([]byte(utf8String(75*4+1, 0)))
	h.reject("P.StringMax", "len=max*4+1", over, func(rd io.Reader) (v any, err error) {
		err = RecoverFunc(func() error { var x string; PanicReader(rd).StringMax(&x, 75); v = x; return nil })
		return
	})
}
