package proxy

// Minimal in-package fixture for /verif C19/C20: a recording netmc.MinecraftConn.

import (
	"context"
	"errors"
	"net"

	"go.minekube.com/gate/pkg/edition/java/netmc"
	"go.minekube.com/gate/pkg/edition/java/proto/state"
	"go.minekube.com/gate/pkg/edition/java/proxy/phase"
	"go.minekube.com/gate/pkg/gate/proto"
)

type g8Conn struct {
	ctx      context.Context
	cancel   context.CancelFunc
	protocol proto.Protocol
	remote   net.Addr
	connType phase.ConnectionType
	st       *state.Registry
	handler  netmc.SessionHandler
	handlers []string // log of SetActiveSessionHandler calls: "<state>:<type>"
	written  []proto.Packet
	closed   int
}

func newG8Conn(p proto.Protocol, remote net.Addr) *g8Conn {
	ctx, cancel := context.WithCancel(context.Background())
	return &g8Conn{ctx: ctx, cancel: cancel, protocol: p, remote: remote, st: state.Login}
}

func (c *g8Conn) Context() context.Context { return c.ctx }
func (c *g8Conn) Close() error {
	c.closed++
	c.cancel()
	return nil
}
func (c *g8Conn) State() *state.Registry   { return c.st }
func (c *g8Conn) Protocol() proto.Protocol { return c.protocol }
func (c *g8Conn) RemoteAddr() net.Addr     { return c.remote }
func (c *g8Conn) LocalAddr() net.Addr      { return &net.TCPAddr{IP: net.IPv4(10, 0, 0, 1), Port: 25565} }
func (c *g8Conn) Type() phase.ConnectionType {
	if c.connType != nil {
		return c.connType
	}
	return phase.Vanilla
}
func (c *g8Conn) SetType(t phase.ConnectionType)                          { c.connType = t }
func (c *g8Conn) ActiveSessionHandler() netmc.SessionHandler              { return c.handler }
func (c *g8Conn) SwitchSessionHandler(*state.Registry) bool               { return true }
func (c *g8Conn) AddSessionHandler(*state.Registry, netmc.SessionHandler) {}
func (c *g8Conn) SetActiveSessionHandler(s *state.Registry, h netmc.SessionHandler) {
	// recorded only: Activated() of the real follow-up handlers starts goroutines the harness does not own
	c.st = s
	c.handler = h
	c.handlers = append(c.handlers, s.String())
}
func (c *g8Conn) SetAutoReading(bool)               {}
func (c *g8Conn) SetOutboundState(*state.Registry)  {}
func (c *g8Conn) SetProtocol(p proto.Protocol)      { c.protocol = p }
func (c *g8Conn) SetState(s *state.Registry)        { c.st = s }
func (c *g8Conn) SetCompressionThreshold(int) error { return nil }
func (c *g8Conn) EnableEncryption([]byte) error     { return nil }
func (c *g8Conn) WritePacket(p proto.Packet) error {
	if c.ctx.Err() != nil {
		return netmc.ErrClosedConn
	}
	c.written = append(c.written, p)
	return nil
}
func (c *g8Conn) Write([]byte) error                { return errors.New("g8Conn: raw write not expected") }
func (c *g8Conn) BufferPacket(p proto.Packet) error { return c.WritePacket(p) }
func (c *g8Conn) BufferPayload([]byte) error        { return errors.New("g8Conn: raw payload not expected") }
func (c *g8Conn) Flush() error                      { return nil }
func (c *g8Conn) Reader() netmc.Reader              { return nil }
func (c *g8Conn) Writer() netmc.Writer              { return nil }
func (c *g8Conn) EnablePlayPacketQueue()            {}

var _ netmc.MinecraftConn = (*g8Conn)(nil)
