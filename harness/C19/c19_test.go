package proxy

// C19 — the backend handshake address keeps the player's host first; legacy / BungeeGuard
// forwarding data is well-formed.
//
// Engine C: full product of client server-addresses x client protocols (connection type derived
// by the real handshakeConnectionType, plus forced Vanilla / LegacyForge) x forwarding modes x
// address hooks x profile property lists x player IPs x backend addresses x BungeeGuard secrets
// through the real serverConnection.startHandshake; the ServerAddress of the Handshake packet
// written to a recording backend connection is judged by an independent reference:
// first-NUL-part rule, and a BungeeCord-style parser (Spigot's HandshakeListener: split on NUL,
// 3 or 4 parts, IP, undashed UUID, Gson Property[]).

import (
	"context"
	"encoding/json"
	"errors"
	"fmt"
	"net"
	"net/netip"
	"strconv"
	"strings"
	"testing"

	"github.com/go-logr/logr"
	"github.com/robinbraemer/event"

	"go.minekube.com/gate/pkg/edition/java/config"
	"go.minekube.com/gate/pkg/edition/java/lite"
	"go.minekube.com/gate/pkg/edition/java/profile"
	"go.minekube.com/gate/pkg/edition/java/proto/packet"
	"go.minekube.com/gate/pkg/edition/java/proto/state"
	"go.minekube.com/gate/pkg/edition/java/proto/version"
	"go.minekube.com/gate/pkg/edition/java/proxy/phase"
	"go.minekube.com/gate/pkg/edition/java/proxy/zzverif/vrt"
	"go.minekube.com/gate/pkg/gate/proto"
	"go.minekube.com/gate/pkg/util/netutil"
	"go.minekube.com/gate/pkg/util/uuid"
)

type hsCase struct {
	Host    int `json:"host"`
	Proto   int `json:"proto"`
	Type    int `json:"type"` // 0 = derived from the handshake, 1 = forced Vanilla, 2 = forced LegacyForge
	Mode    int `json:"mode"`
	Hook    int `json:"hook"`
	Props   int `json:"props"`
	IP      int `json:"ip"`
	Backend int `json:"backend"`
	Secret  int `json:"secret"`
	ID      int `json:"id,omitempty"` // index into c19IDs
	// VH: 0 = the virtual host is a well-formed host:port address (a client address containing ':' is bracketed);
	// 1 = the net.Addr the REAL handshakeSessionHandler stores for the client's Handshake{ServerAddress, Port}
	VH   int `json:"vh,omitempty"`
	Port int `json:"port,omitempty"` // index into c19Ports: the port of the client's handshake
}

var (
	c19Hosts = []string{
		"play.example.org",
		"play.example.org\x00FML\x00",
		"play.example.org\x00FML2\x00",
		"play.example.org\x00FML3\x00",
		"play.example.org\x00FORGE",
		"play.example.org\x00FORGE2",
		"play.example.org\x00extra\x00parts",
		"play.example.org\x00FML\x00\x00more",
		"play.example.org.",
		"PLAY.Example.ORG",
		"192.0.2.10",
		"2001:db8::1",
		"play.example.org///198.51.100.1:1234///1700000000",
		"play.example.org///198.51.100.1:1234///1700000000\x00FML\x00",  // Forge client behind TCPShield (lite.TCPShieldRealIP format)
		"play.example.org///198.51.100.1:1234///1700000000\x00FML2\x00", // modern Forge behind TCPShield
		"Play.Example.org.///198.51.100.1:1234///1700000000\x00FORGE",
		"bücher.example",
		"a",
		"\x00FML\x00",
		"",
	}
	c19Protos = []*proto.Version{version.Minecraft_1_7_6, version.Minecraft_1_8, version.Minecraft_1_12_2, version.Minecraft_1_16_4, version.Minecraft_1_20, version.Minecraft_1_20_2, version.Minecraft_1_21_4}
	c19Modes  = []config.ForwardingMode{config.NoneForwardingMode, config.LegacyForwardingMode, config.BungeeGuardForwardingMode, config.VelocityForwardingMode}
	c19Hooks  = []string{"none", "server:identity", "server:append", "backend:identity", "backend:append", "backend:error", "server:identity+backend:append"}
	c19Props  = [][]profile.Property{
		nil,
		{},
		{{Name: "textures", Value: "ewogICJ0aW1lc3RhbXAiIDogMTcwMH0=", Signature: "c2lnbmF0dXJl"}},
		{{Name: "te\"xt\\ures", Value: "vä✓lue <&> \u2028"}, {Name: "second", Value: "", Signature: "sig\"2"}},
		// a real Mojang profile: ~1.2 KiB base64 value, 684-character signature (the address exceeds 2 KiB)
		{{Name: "textures", Value: strings.Repeat("ewogICJ0aW1lc3RhbXAi", 60), Signature: strings.Repeat("c2lnbmF0dXJl+/=A", 43)[:684]}},
		// several properties, repeated names, ~20 KiB in total
		{{Name: "textures", Value: strings.Repeat("QUJD", 4000), Signature: strings.Repeat("U0lH", 170)}, {Name: "textures", Value: "second-with-the-same-name"}, {Name: "forgeClient", Value: "true"}, {Name: "p4", Value: strings.Repeat("x", 3000)}, {Name: "p5", Value: ""}},
	}
	c19IPs      = []net.Addr{&net.TCPAddr{IP: net.IPv4(203, 0, 113, 7), Port: 50123}, &net.TCPAddr{IP: net.ParseIP("2001:db8::8a2e:370:7334"), Port: 50124}, netutil.NewAddr("198.51.100.9:40000", "tcp"), netutil.NewAddr("[2001:db8::77]:40001", "tcp")}
	c19IPHosts  = []string{"203.0.113.7", "2001:db8::8a2e:370:7334", "198.51.100.9", "2001:db8::77"}
	c19Ports    = []int{25565, 19132, 1, 65535, 0}
	c19Backends = []string{"127.0.0.1:25566", "backend.internal:25565", "[2001:db8::2]:25565"}
	c19Secrets  = []string{"tok3n", "s\"e\\c✓ret"}
	c19ID       = uuid.UUID{0x12, 0x34, 0x56, 0x78, 0x9a, 0xbc, 0x4d, 0xef, 0x80, 0x12, 0x34, 0x56, 0x78, 0x9a, 0xbc, 0xde}
	// ids whose undashed form has leading zeros / zero groups (an integer-style formatter would drop them)
	c19IDs     = []uuid.UUID{c19ID, {0x00, 0x00, 0x0a, 0xbc, 0x00, 0x00, 0x30, 0x01, 0x80, 0x00, 0x00, 0x00, 0x00, 0x00, 0x00, 0x07}, {0xff, 0xff, 0xff, 0xff, 0xff, 0xff, 0x4f, 0xff, 0xbf, 0xff, 0xff, 0xff, 0xff, 0xff, 0xff, 0xff}}
	errC19Hook = errors.New("backend addresser failed")
)

type hookServerInfo struct {
	name   string
	addr   net.Addr
	append bool
	got    *string
}

func (h *hookServerInfo) Name() string   { return h.name }
func (h *hookServerInfo) Addr() net.Addr { return h.addr }
func (h *hookServerInfo) HandshakeAddr(def string, _ Player) string {
	*h.got = def
	if h.append {
		return def + "\x00hookdata"
	}
	return def
}

type hookBackend struct {
	mode string
	got  *string
}

func (h *hookBackend) BackendHandshakeAddr(def string, _ Player, _ RegisteredServer) (string, error) {
	*h.got = def
	switch h.mode {
	case "append":
		return def + "\x00fg-data", nil
	case "error":
		return "", errC19Hook
	}
	return def, nil
}

func ctName(ct phase.ConnectionType) string {
	switch ct {
	case phase.Vanilla:
		return "vanilla"
	case phase.Undetermined17:
		return "undetermined-1.7"
	case phase.LegacyForge:
		return "legacy-forge"
	case phase.ModernForge:
		return "modern-forge"
	}
	return "other"
}

// refUndashed: 32 lower-case hex digits, every byte two digits.
func refUndashed(id uuid.UUID) string {
	const hexd = "0123456789abcdef"
	b := make([]byte, 0, 32)
	for _, x := range id {
		b = append(b, hexd[x>>4], hexd[x&15])
	}
	return string(b)
}

// refRouteHost is the host a downstream proxy routes on, written from the statement: the first NUL part without a
// TCPShield "///ip///timestamp" suffix. Leading/trailing dots are a don't-care (the statement does not mention
// them): both sides are compared with them removed.
func refRouteHost(addr string) string {
	h := firstPart(addr)
	if i := strings.Index(h, "///"); i >= 0 {
		h = h[:i]
	}
	return strings.Trim(h, ".")
}

func firstPart(s string) string { return strings.SplitN(s, "\x00", 2)[0] }

func (c hsCase) String() string {
	return fmt.Sprintf("client address %q (%s, type %d) mode=%s hook=%s props#%d ip=%s backend=%s", c19Hosts[c.Host], c19Protos[c.Proto], c.Type, c19Modes[c.Mode], c19Hooks[c.Hook], c.Props, c19IPHosts[c.IP], c19Backends[c.Backend])
}

// javaSplitNUL is String.split("\00"): trailing empty strings are dropped.
func javaSplitNUL(s string) []string {
	parts := strings.Split(s, "\x00")
	for len(parts) > 0 && parts[len(parts)-1] == "" {
		parts = parts[:len(parts)-1]
	}
	return parts
}

type bungeeProp struct {
	Name      string `json:"name"`
	Value     string `json:"value"`
	Signature string `json:"signature"`
}

func check(r *vrt.R, c hsCase) {
	r.Eval(1)
	clientAddr := c19Hosts[c.Host]
	pv := c19Protos[c.Proto]
	hs := &packet.Handshake{ProtocolVersion: int(pv.Protocol), ServerAddress: clientAddr, Port: c19Ports[c.Port], NextStatus: 2}
	var ct phase.ConnectionType
	switch c.Type {
	case 0:
		ct = handshakeConnectionType(hs)
	case 1:
		ct = phase.Vanilla
	case 2:
		ct = phase.LegacyForge
	}
	r.Class("conn-type:" + ctName(ct))
	// the virtual host as a well-formed host:port address (IPv6 literals bracketed)
	portStr := strconv.Itoa(c19Ports[c.Port])
	vh := clientAddr + ":" + portStr
	if strings.Contains(clientAddr, ":") && c.VH == 0 {
		vh = net.JoinHostPort(clientAddr, portStr)
	}

	cfg := &config.Config{Forwarding: config.Forwarding{Mode: c19Modes[c.Mode], BungeeGuardSecret: c19Secrets[c.Secret], VelocitySecret: "v"}}
	p := &Proxy{cfg: cfg, event: event.Nop}
	deps := &sessionHandlerDeps{proxy: p, configProvider: p, eventMgr: event.Nop}
	client := newG8Conn(pv.Protocol, c19IPs[c.IP])
	client.connType = ct
	var props []profile.Property
	if c19Props[c.Props] != nil {
		props = append(make([]profile.Property, 0, len(c19Props[c.Props])), c19Props[c.Props]...)
	}
	var vhAddr net.Addr = netutil.NewAddr(vh, "tcp")
	if c.VH == 1 {
		// run the real handshake handler and take the virtual host it hands to the login phase
		hc := newG8Conn(pv.Protocol, c19IPs[c.IP])
		hc.st = state.Handshake
		var lh *initialLoginSessionHandler
		if pn, v := vrt.Catch(func() {
			newHandshakeSessionHandler(hc, deps).HandlePacket(&proto.PacketContext{Direction: proto.ServerBound, Protocol: pv.Protocol, Packet: hs, PacketID: 0})
			lh, _ = hc.handler.(*initialLoginSessionHandler)
		}); pn {
			r.Violation("handshake-handler/panic", fmt.Sprintf("%s: %v", c, v), c)
			return
		}
		if lh == nil {
			r.Class("handshake-refused-before-login(e.g. velocity mode below 1.13)")
			return
		}
		vhAddr = lh.inbound.VirtualHost()
		r.Class("virtual-host-from-the-real-handshake-handler")
	}
	player := &connectedPlayer{
		MinecraftConn:      client,
		sessionHandlerDeps: deps,
		log:                logr.Discard(),
		profile:            &profile.GameProfile{ID: c19IDs[c.ID], Name: "Steve", Properties: props},
		virtualHost:        vhAddr,
	}
	// two backend connections of the SAME player in a row (server switch / fallback): the second
	// address must be as well-formed as the first and name the second backend
	for round := 0; round < 2; round++ {
		if !oneRound(r, c, round, player, p, ct, clientAddr, pv) {
			return
		}
	}
}

func oneRound(r *vrt.R, c hsCase, round int, player *connectedPlayer, p *Proxy, ct phase.ConnectionType, clientAddr string, pv *proto.Version) bool {
	beIdx := (c.Backend + round) % len(c19Backends)
	backendAddr := netutil.NewAddr(c19Backends[beIdx], "tcp")
	hook := c19Hooks[c.Hook]
	var gotServer, gotBackend string
	var info ServerInfo = NewServerInfo("backend", backendAddr)
	serverHook := strings.HasPrefix(hook, "server:")
	if serverHook {
		info = &hookServerInfo{name: "backend", addr: backendAddr, append: strings.HasPrefix(hook, "server:append"), got: &gotServer}
	}
	if i := strings.Index(hook, "backend:"); i >= 0 {
		p.SetBackendHandshakeAddresser(&hookBackend{mode: hook[i+len("backend:"):], got: &gotBackend})
	}
	target := newRegisteredServer(info)
	backend := newG8Conn(pv.Protocol, &net.TCPAddr{IP: net.IPv4(127, 0, 0, 1), Port: 25566})
	sc := &serverConnection{server: target, player: player, log: logr.Discard(), connection: backend}

	resultChan := make(chan *connResponse, 1)
	resultChan <- &connResponse{} // startHandshake blocks on the login result after writing
	var err error
	if pn, v := vrt.Catch(func() { _, err = sc.startHandshake(func() {}, resultChan) }); pn {
		r.Violation("startHandshake/panic", fmt.Sprintf("%s: %v", c, v), c)
		return false
	}
	forwarding := (c19Modes[c.Mode] == config.LegacyForwardingMode || c19Modes[c.Mode] == config.BungeeGuardForwardingMode) && !serverHook
	wantErr := !forwarding && strings.Contains(hook, "backend:error")
	if wantErr {
		r.Class("hook-error")
		if !errors.Is(err, errC19Hook) || len(backend.written) != 0 {
			r.Violation("hook-error/not-propagated", fmt.Sprintf("%s: err=%v, packets written=%d", c, err, len(backend.written)), c)
		}
		return false
	}
	if err != nil {
		r.Violation("startHandshake/error", fmt.Sprintf("%s: %v", c, err), c)
		return false
	}
	var sent *packet.Handshake
	for _, w := range backend.written {
		if h, ok := w.(*packet.Handshake); ok {
			if sent != nil {
				r.Violation("startHandshake/two-handshakes", c.String(), c)
			}
			sent = h
		}
	}
	if sent == nil {
		r.Violation("startHandshake/no-handshake", fmt.Sprintf("%s: wrote %v", c, backend.written), c)
		return false
	}
	addr := sent.ServerAddress

	if !forwarding {
		r.Class("host-first")
		if clientAddr == "" {
			r.Class("empty-client-host(not asserted: statement silent)")
			return false
		}
		want := firstPart(clientAddr)
		if got := firstPart(addr); got != want && c.VH == 1 && got == want+":"+strconv.Itoa(c19Ports[c.Port]) {
			r.Violation("host-first/port-glued-to-host-containing-colon", fmt.Sprintf("%s: the handshake handler stores the virtual host %q; the backend handshake address %q starts with %q, the player's host is %q", c, player.virtualHost.String(), addr, got, want), c)
			return false
		} else if got != want {
			r.Violation("host-first/"+ctName(ct), fmt.Sprintf("%s: backend handshake address %q starts with %q, the player's host is %q", c, addr, got, want), c)
			return false
		}
		// "so a downstream proxy routing on it sees the same host": what the real host extraction of a downstream
		// Gate (lite.ClearVirtualHost) makes of the address the backend receives
		if got, wantHost := strings.Trim(lite.ClearVirtualHost(addr), "."), refRouteHost(clientAddr); got != wantHost {
			r.Violation("host-first/downstream-route-host", fmt.Sprintf("%s (connection #%d): a downstream proxy extracts host %q from %q, the player's host is %q", c, round+1, got, addr, wantHost), c)
			return false
		}
		if strings.Contains(clientAddr, "///") && strings.Contains(clientAddr, "\x00") {
			r.Class("host:tcpshield+forge-marker")
		}
		if strings.Contains(clientAddr, "\x00") || hook != "none" {
			r.Nontrivial(1)
		}
		return true
	}

	// legacy / BungeeGuard forwarding, parsed like a BungeeCord backend
	r.Class("forwarding:" + string(c19Modes[c.Mode]))
	if round == 1 {
		r.Class("forwarding:second-connection-of-the-same-player")
	}
	parts := javaSplitNUL(addr)
	if len(parts) != 4 {
		r.Violation("forwarding/part-count", fmt.Sprintf("%s: address %q splits into %d parts, a BungeeCord backend needs host, ip, uuid, properties", c, addr, len(parts)), c)
		return false
	}
	if parts[0] != c19Backends[beIdx] && parts[0] != netutil.HostStr(c19Backends[beIdx]) {
		r.Violation("forwarding/backend-address", fmt.Sprintf("%s (connection #%d to %s): first part %q is not the backend address", c, round+1, c19Backends[beIdx], parts[0]), c)
	}
	if ip, e := netip.ParseAddr(parts[1]); e != nil || ip.String() != c19IPHosts[c.IP] {
		r.Violation("forwarding/player-ip", fmt.Sprintf("%s: second part %q is not the player's IP", c, parts[1]), c)
	}
	if len(parts[2]) != 32 || strings.ToLower(parts[2]) != refUndashed(c19IDs[c.ID]) {
		r.Violation("forwarding/uuid", fmt.Sprintf("%s: third part %q is not the undashed UUID", c, parts[2]), c)
	} else if _, e := strconv.ParseUint(parts[2][:16], 16, 64); e != nil {
		r.Violation("forwarding/uuid", fmt.Sprintf("%s: third part %q is not hex", c, parts[2]), c)
	}
	var list []bungeeProp
	dec := json.NewDecoder(strings.NewReader(parts[3]))
	if e := dec.Decode(&list); e != nil {
		r.Violation("forwarding/properties-json", fmt.Sprintf("%s: fourth part %q is not a JSON property array: %v", c, parts[3], e), c)
		return false
	}
	if dec.More() {
		r.Violation("forwarding/properties-json", fmt.Sprintf("%s: trailing data after the JSON property array in %q", c, parts[3]), c)
	}
	if strings.TrimSpace(parts[3]) == "null" {
		r.Class("properties-json-null(gson yields no profile properties)")
	}
	want := append([]profile.Property{}, c19Props[c.Props]...)
	forge := ct == phase.LegacyForge || ct == phase.ModernForge
	rest := list
	ok := len(rest) >= len(want)
	for i := 0; ok && i < len(want); i++ {
		ok = rest[i].Name == want[i].Name && rest[i].Value == want[i].Value && rest[i].Signature == want[i].Signature
	}
	if ok {
		rest = rest[len(want):]
		if forge && len(rest) > 0 && rest[0].Name == "extraData" {
			r.Class("forge-extraData-property")
			rest = rest[1:] // BungeeForge marker for Forge clients
		}
		if c19Modes[c.Mode] == config.BungeeGuardForwardingMode {
			ok = len(rest) == 1 && rest[0].Name == "bungeeguard-token" && rest[0].Value == c19Secrets[c.Secret] && rest[0].Signature == ""
		} else {
			ok = len(rest) == 0
		}
	}
	if !ok {
		r.Violation("forwarding/properties", fmt.Sprintf("%s (connection #%d): property list %q parsed as %+v; want the player's %+v%s", c, round+1, parts[3], list, want, map[bool]string{true: " + bungeeguard-token", false: ""}[c19Modes[c.Mode] == config.BungeeGuardForwardingMode]), c)
	}
	for _, pr := range list {
		if pr.Name == "bungeeguard-token" && c19Modes[c.Mode] != config.BungeeGuardForwardingMode {
			r.Violation("forwarding/token-in-legacy-mode", c.String(), c)
		}
	}
	// the player's own profile must not be changed by building the address
	if len(player.profile.Properties) != len(c19Props[c.Props]) {
		r.Violation("forwarding/profile-mutated", fmt.Sprintf("%s: the player's profile now has %d properties", c, len(player.profile.Properties)), c)
	}
	r.Nontrivial(1)
	return true
}

func TestVerif(t *testing.T) {
	vrt.Run(t, "C19", func(r *vrt.R) {
		var rc hsCase
		if r.ReplayInto(&rc) {
			check(r, rc)
			return
		}
		_ = context.Background
		n := 0
		for hi := range c19Hosts {
			for pi := range c19Protos {
				for ty := 0; ty < 3; ty++ {
					if ty == 2 && c19Protos[pi].Protocol > version.Minecraft_1_12_2.Protocol {
						continue // LegacyForge exists up to 1.12.2
					}
					for mi := range c19Modes {
						for ki := range c19Hooks {
							n++
							if !r.Mine(n) {
								continue
							}
							if r.Expired() {
								return
							}
							for pr := range c19Props {
								for ip := range c19IPs {
									for be := range c19Backends {
										for se := range c19Secrets {
											if se > 0 && c19Modes[mi] != config.BungeeGuardForwardingMode {
												continue
											}
											for id := range c19IDs {
												for po := range c19Ports {
													nz := 0
													for _, v := range []int{pr, ip, be, se, id, po} {
														if v > 0 {
															nz++
														}
													}
													if r.Quick() && nz > 1 {
														continue // quick: <=1 deviation among props/ip/backend/secret/uuid
													}
													check(r, hsCase{Host: hi, Proto: pi, Type: ty, Mode: mi, Hook: ki, Props: pr, IP: ip, Backend: be, Secret: se, ID: id, Port: po})
													// the virtual host as the REAL handshake handler stores it: for every port, and for addresses containing ':'
													if (nz == 0 && strings.Contains(c19Hosts[hi], ":")) || (po > 0 && pr+ip+be+se+id == 0) {
														check(r, hsCase{Host: hi, Proto: pi, Type: ty, Mode: mi, Hook: ki, VH: 1, Port: po})
													}
												}
											}
										}
									}
								}
							}
						}
					}
				}
			}
		}
		r.Sample(map[string]any{"client_addresses": len(c19Hosts), "protocols": len(c19Protos), "modes": len(c19Modes), "hooks": c19Hooks, "property_lists": len(c19Props), "player_ips": len(c19IPs), "backend_addresses": len(c19Backends), "uuids": len(c19IDs), "client_ports": c19Ports, "backend_connections_per_player": 2})
	})
}
