package c04

import (
	"fmt"
	"reflect"
	"testing"

	"go.minekube.com/gate/pkg/edition/java/proxy/zzverif/pktgen"
	"go.minekube.com/gate/pkg/edition/java/proxy/zzverif/vrt"
)

func dump(t reflect.Type, ind string, seen map[reflect.Type]bool) {
	if t.Kind() == reflect.Ptr || t.Kind() == reflect.Slice || t.Kind() == reflect.Array {
		dump(t.Elem(), ind, seen)
		return
	}
	if t.Kind() == reflect.Map {
		dump(t.Key(), ind, seen)
		dump(t.Elem(), ind, seen)
		return
	}
	if t.Kind() != reflect.Struct || seen[t] {
		return
	}
	seen[t] = true
	for i := 0; i < t.NumField(); i++ {
		f := t.Field(i)
		fmt.Printf("%s%s %s (%s) exported=%v\n", ind, f.Name, f.Type, f.Type.Kind(), f.IsExported())
		dump(f.Type, ind+"    ", seen)
	}
}

func TestVerif(t *testing.T) {
	vrt.Run(t, "C04", func(r *vrt.R) {
		cells := pktgen.Cells()
		types := map[reflect.Type]int{}
		var order []reflect.Type
		for _, c := range cells {
			if types[c.Type] == 0 {
				order = append(order, c.Type)
			}
			types[c.Type]++
		}
		fmt.Println("cells", len(cells), "types", len(types))
		for _, ty := range order {
			fmt.Printf("== %s cells=%d\n", ty, types[ty])
			dump(ty, "  ", map[reflect.Type]bool{})
		}
		r.Eval(1)
	})
}
