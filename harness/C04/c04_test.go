package c04

import (
	"bytes"
	"encoding/hex"
	"fmt"
	"reflect"
	"sort"
	"strings"
	"testing"
	"time"

	"go.minekube.com/gate/pkg/edition/java/proto/state/states"
	"go.minekube.com/gate/pkg/edition/java/proto/version"
	"go.minekube.com/gate/pkg/edition/java/proxy/zzverif/pktgen"
	"go.minekube.com/gate/pkg/edition/java/proxy/zzverif/vrt"
	"go.minekube.com/gate/pkg/gate/proto"
)

type replay struct {
	Cell string      `json:"cell"`
	Spec pktgen.Spec `json:"spec"`
	What string      `json:"what"`
	// Graph: a command-graph value of the graph pass (graphs_test.go) instead of a generator spec
	Graph *graphCase `json:"graph,omitempty"`
}

type H struct {
	r          *vrt.R
	notedPanic map[string]bool
}

func hx(b []byte) string {
	if len(b) > 96 {
		return fmt.Sprintf("%s…(%d bytes)", hex.EncodeToString(b[:96]), len(b))
	}
	return hex.EncodeToString(b)
}

// encode runs Encode with a fresh context; panics are reported separately from errors.
func encode(c pktgen.Cell, p proto.Packet) (out []byte, err error, panicked any) {
	var buf bytes.Buffer
	pn, pv := vrt.Catch(func() { err = p.Encode(c.Ctx(), &buf) })
	if pn {
		return nil, nil, pv
	}
	return buf.Bytes(), err, nil
}

// decode runs Decode the way codec.Decoder does: panics carrying an error are errors.
func decode(c pktgen.Cell, data []byte) (p proto.Packet, left int, err error, panicked any) {
	p = c.New()
	rd := bytes.NewReader(data)
	pn, pv := vrt.Catch(func() { err = p.Decode(c.Ctx(), rd) })
	if pn {
		if e, ok := pv.(error); ok {
			return p, rd.Len(), e, nil
		}
		return p, rd.Len(), nil, pv
	}
	return p, rd.Len(), err, nil
}

func classOfLabel(l string) string {
	if i := strings.Index(l, "="); i >= 0 {
		l = l[i+1:]
	}
	if strings.HasPrefix(l, "actions:set") {
		return "actions:subset"
	}
	if strings.HasPrefix(l, "holder:") || strings.HasPrefix(l, "comp:") {
		return "component:" + l[strings.Index(l, ":")+1:]
	}
	if len(l) > 0 && (l[0] == '-' || (l[0] >= '0' && l[0] <= '9')) {
		return "int:" + l
	}
	return l
}

func (h *H) runCase(g *pktgen.Gen, cs pktgen.Case) {
	r := h.r
	c := g.Cell
	tn := pktgen.TypeName(c.Type)
	r.Eval(1)
	label := func() string { return c.String() + " " + g.Label(cs.Spec) }
	vio := func(key, detail string) {
		r.Violation(key, fmt.Sprintf("%s\n  %s", label(), detail), replay{Cell: c.String(), Spec: cs.Spec, What: key})
	}
	x := cs.Build()
	if why := pktgen.Invalid(c, x); why != "" {
		r.Class("constraint-skipped/" + tn)
		r.AddExtra("constraint_skipped", 1)
		return
	}
	na := pktgen.NotApplicable(c, x)
	enc1, err, pv := encode(c, x)
	if pv != nil {
		// Encode panicking on a value with a required part missing is outside C04 (the statement is
		// about values the protocol permits); listed once per type for the report.
		r.Class("encode-panic(required field absent)/" + tn)
		r.AddExtra("encode_panics", 1)
		if !h.notedPanic[tn] {
			h.notedPanic[tn] = true
			r.Note(fmt.Sprintf("Encode panics instead of returning an error (not a C04 violation): %s %s: %v", tn, g.Label(cs.Spec), pv))
		}
		return
	}
	if err != nil {
		legit := false
		for _, m := range pktgen.LegitEncodeRejections {
			if strings.Contains(err.Error(), m) {
				legit = true
				break
			}
		}
		if legit {
			r.Class("encode-rejected(documented constraint)/" + tn)
			r.AddExtra("encode_rejected", 1)
			return
		}
		key := tn + "/encode-rejects-permitted-value"
		if strings.Contains(err.Error(), "snbt") || strings.Contains(err.Error(), "binary tag") {
			key = "chat.ComponentHolder(nbt)/encode-rejects-permitted-value"
		}
		vio(key, fmt.Sprintf("Encode returned an error for a value the protocol permits: %v", err))
		return
	}
	r.AddExtra("cases_encoded", 1)
	if len(enc1) > 0 {
		r.Nontrivial(1)
	}
	y, left, err, pv := decode(c, enc1)
	if pv != nil {
		vio(tn+"/decode-panic", fmt.Sprintf("Decode panicked with non-error %v on own encoding %s", pv, hx(enc1)))
		return
	}
	if err != nil {
		vio(tn+"/decode-error", fmt.Sprintf("Decode of own encoding failed: %v\n  encoding: %s", err, hx(enc1)))
		return
	}
	if left != 0 {
		vio(tn+"/decoder-left-bytes", fmt.Sprintf("%d of %d bytes left unread; encoding: %s", left, len(enc1), hx(enc1)))
	}
	enc2, err, pv := encode(c, y)
	switch {
	case pv != nil:
		vio(tn+"/reencode-panic", fmt.Sprintf("re-encoding the decoded packet panicked: %v", pv))
	case err != nil:
		vio(tn+"/reencode-error", fmt.Sprintf("re-encoding the decoded packet failed: %v", err))
	case !bytes.Equal(pktgen.MaskEncoding(c, x, enc1), pktgen.MaskEncoding(c, x, enc2)):
		same := false
		if pktgen.HasMap(c.Type) && len(enc1) == len(enc2) {
			// map iteration order: accept iff the second encoding decodes to the same value
			if z, l2, e2, p2 := decode(c, enc2); e2 == nil && p2 == nil && l2 == 0 && len(pktgen.DiffPackets(tn, y, z)) == 0 {
				same = true
				r.Class("reencode-equal-modulo-map-order")
			}
		}
		if !same {
			off := 0
			for off < len(enc1) && off < len(enc2) && enc1[off] == enc2[off] {
				off++
			}
			vio(tn+"/reencode-differs", fmt.Sprintf("first difference at offset %d (len %d vs %d)\n  first:  %s\n  second: %s",
				off, len(enc1), len(enc2), hx(enc1), hx(enc2)))
		}
	}
	// onWire re-encodes the whole packet a few times; in the element-count cases (127/128 elements, alternately the
	// rich and the alt element) the elements of equal parity are identical values at identically encoded positions, so
	// the answer is computed once per (field, index parities) instead of once per element
	wireMemo := map[string]bool{}
	for _, d := range pktgen.DiffPackets(tn, x, y) {
		if na[d.Path.Norm()] {
			r.Class("field-not-applicable-in-this-mode")
			continue
		}
		mk := d.Path.Norm()
		for _, st := range d.Path {
			if st.Index >= 2 {
				mk += fmt.Sprintf("|%d", st.Index%2)
			} else {
				mk += fmt.Sprintf("|%d", st.Index)
			}
		}
		ow, seen := wireMemo[mk]
		if !seen {
			ow = h.onWire(g, cs, x, enc1, d.Path)
			wireMemo[mk] = ow
		}
		if !ow {
			r.Class("field-not-on-wire-in-this-version")
			continue
		}
		key := tn + "." + d.Path.Norm() + "/value-differs"
		if pktgen.IsComponentPath(g, d.Path) && !strings.HasPrefix(d.A, "<nil") && !strings.HasPrefix(d.B, "<nil") {
			// one key per wire representation, not per packet field: all go through ComponentHolder
			key = "chat.ComponentHolder(json)/value-differs"
			if c.Protocol.GreaterEqual(version.Minecraft_1_20_3) && !(c.State.State == states.LoginState) {
				key = "chat.ComponentHolder(nbt)/value-differs"
			}
		}
		vio(key, fmt.Sprintf("field %s: original %s, decoded %s\n  encoding: %s", d.Path, d.A, d.B, hx(enc1)))
	}
}

// onWire: does changing the value at path change the encoding of this packet?
func (h *H) onWire(g *pktgen.Gen, cs pktgen.Case, x proto.Packet, enc1 []byte, path pktgen.Path) bool {
	al := g.AlphabetAt(path)
	if al == nil {
		return true
	}
	canon := func(pk proto.Packet, b []byte) []byte {
		b = pktgen.MaskEncoding(g.Cell, pk, b)
		// map iteration order (packet maps, JSON->NBT compound order): compare as byte multisets
		b = append([]byte(nil), b...)
		sort.Slice(b, func(i, j int) bool { return b[i] < b[j] })
		return b
	}
	ref := canon(x, enc1)
	// four values are enough to tell "not on the wire" from "on the wire": sparse, rich, alt, last
	if len(al) > 4 {
		al = []pktgen.Val{al[0], al[1], al[2], al[len(al)-1]}
	}
	for _, val := range al {
		y := cs.Build()
		ok := true
		if pn, _ := vrt.Catch(func() { g.SetAt(reflect.ValueOf(y), path, val.Make()) }); pn {
			ok = false
		}
		if !ok {
			continue
		}
		enc, err, pv := encode(g.Cell, y)
		if err != nil || pv != nil {
			continue
		}
		if !bytes.Equal(canon(y, enc), ref) {
			return true
		}
	}
	return false
}

func TestVerif(t *testing.T) {
	vrt.Run(t, "C04", func(r *vrt.R) {
		h := &H{r: r, notedPanic: map[string]bool{}}
		pktgen.Thorough = r.Thorough()
		var rp replay
		if r.ReplayInto(&rp) {
			c, ok := pktgen.FindCell(rp.Cell)
			if !ok {
				t.Fatalf("replay: unknown cell %s", rp.Cell)
			}
			if rp.Graph != nil {
				h.runGraph(c, rp.Graph)
				return
			}
			g := pktgen.NewGen(c)
			h.runCase(g, g.CaseFor(rp.Spec))
			return
		}
		depth := 1
		if r.Thorough() {
			depth = 2
		}
		// first, so that the thorough tier's soft deadline (spent on depth-2 deviations) never cuts it short
		h.graphPass()
		cells := pktgen.Cells()
		types := map[string]bool{}
		slowNoted := 0
		for i, c := range cells {
			if !r.Mine(i) {
				continue
			}
			if r.Expired() {
				break
			}
			g := pktgen.NewGen(c)
			tn := pktgen.TypeName(c.Type)
			types[tn] = true
			r.AddExtra("cells", 1)
			n := 0
			g.Enumerate(depth, func(cs pktgen.Case) bool {
				n++
				if n%512 == 0 && r.Expired() {
					return false
				}
				r.Class("type:" + tn)
				for _, d := range cs.Spec.Devs {
					_ = d
				}
				if len(cs.Spec.Devs) > 0 {
					lbl := g.Label(pktgen.Spec{Devs: cs.Spec.Devs[len(cs.Spec.Devs)-1:]})
					lbl = strings.TrimSuffix(strings.TrimPrefix(lbl, "{"), "}")
					r.Class("val:" + classOfLabel(lbl))
				}
				t0 := time.Now()
				h.runCase(g, cs)
				if d := time.Since(t0); d > 3*time.Second && slowNoted < 5 {
					slowNoted++
					r.Note(fmt.Sprintf("slow case (%.1fs): %s %s", d.Seconds(), c.String(), g.Label(cs.Spec)))
				}
				if n == 3 {
					r.Sample(map[string]string{"cell": c.String(), "case": g.Label(cs.Spec)})
				}
				return true
			})
		}
		r.Extra("deviation_depth", fmt.Sprint(depth))
	})
}
