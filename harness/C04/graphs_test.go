package c04

// Command graphs as VALUES of packet.AvailableCommands (added after seeded/C04-3 was missed).
//
// The reflection-driven generator builds command graphs through the brigodier builders, which can only
// produce trees plus redirects to nodes that hang somewhere in the tree. The wire format is more general: a
// flat node array whose children lists and redirect targets are plain indices, so a node may be reachable
// ONLY through a redirect edge, nodes may share children, children edges may form cycles, a node may redirect
// to itself, to the root or to a leaf. Every such graph is a value the decoder hands to the proxy and the
// proxy has to encode again (it forwards and rewrites this packet).
//
// Generator: every small node-index graph is written as wire bytes by an own encoder (nothing shared with the
// code under test) and DECODED into a packet value p. Whatever the decoder accepts is a value; what it rejects
// is C05's business and only counted. The statement of C04 is then applied to p:
//
//	e1 = Encode(p); q = Decode(e1) consumes all of e1; Encode(q) == e1 (identical bytes);
//	q carries the same values as p: the two graphs are isomorphic (names, kinds, parsers, executable /
//	restricted / suggestion flags, ordered children, redirect structure - pktgen.DumpTree).
//
// Wherever the same graph can also be BUILT through the brigodier API (no redirect cycle, one root, no root as a
// child) that value goes through the same oracle: it does not depend on the decoder, so a flag or an edge that
// Decode and Encode drop symmetrically shows up as a difference between the built and the decoded graph. A few
// hand-written API graphs with redirects to DETACHED nodes (the shape of seeded/C04-3's demo) come on top.
//
// Not asserted: that e1 equals the generator's wire bytes. The order in which a graph's nodes are numbered is
// the encoder's choice, the statement only fixes it from the proxy's own encoding onwards (counted as a class).

import (
	"bytes"
	"fmt"

	"go.minekube.com/brigodier"

	"go.minekube.com/gate/pkg/edition/java/proto/packet"
	"go.minekube.com/gate/pkg/edition/java/proto/util"
	"go.minekube.com/gate/pkg/edition/java/proto/version"
	"go.minekube.com/gate/pkg/edition/java/proxy/zzverif/pktgen"
)

// wnode is one node of a wire graph.
type wnode struct {
	Typ      byte   `json:"typ"` // 0 root, 1 literal, 2 argument (brigadier:bool)
	Children []int  `json:"children"`
	Redirect int    `json:"redirect"` // -1: none
	Exec     bool   `json:"exec,omitempty"`
	Name     string `json:"name,omitempty"`
}

type graphCase struct {
	Nodes []wnode `json:"nodes,omitempty"`
	Root  int     `json:"root"`
	API   string  `json:"api,omitempty"` // name of an API-built graph instead of Nodes
}

func (g *graphCase) String() string {
	if g.API != "" {
		return "api-graph{" + g.API + "}"
	}
	s := fmt.Sprintf("wire-graph{root=%d", g.Root)
	for i, n := range g.Nodes {
		s += fmt.Sprintf(" #%d:%s", i, [...]string{"root", "lit", "arg"}[n.Typ])
		if n.Typ != 0 {
			s += "(" + n.Name + ")"
		}
		if n.Exec {
			s += "!"
		}
		s += fmt.Sprint(n.Children)
		if n.Redirect >= 0 {
			s += fmt.Sprintf("->%d", n.Redirect)
		}
	}
	return s + "}"
}

func (g *graphCase) wire(c pktgen.Cell) []byte {
	var b bytes.Buffer
	_ = util.WriteVarInt(&b, len(g.Nodes))
	for _, n := range g.Nodes {
		flags := n.Typ
		if n.Exec {
			flags |= 0x04
		}
		if n.Redirect >= 0 {
			flags |= 0x08
		}
		b.WriteByte(flags)
		_ = util.WriteVarInt(&b, len(n.Children))
		for _, ch := range n.Children {
			_ = util.WriteVarInt(&b, ch)
		}
		if n.Redirect >= 0 {
			_ = util.WriteVarInt(&b, n.Redirect)
		}
		if n.Typ != 0 {
			_ = util.WriteString(&b, n.Name)
		}
		if n.Typ == 2 {
			if c.Protocol.GreaterEqual(version.Minecraft_1_19) {
				_ = util.WriteVarInt(&b, 0) // brigadier:bool
			} else {
				_ = util.WriteString(&b, "brigadier:bool")
			}
		}
	}
	_ = util.WriteVarInt(&b, g.Root)
	return b.Bytes()
}

// bfsNumbered: are the nodes numbered the way a breadth-first walk from node 0 = root over (children in listed
// order, then the redirect target) meets them, all of them reachable? Only used for the evidence class.
func (g *graphCase) bfsNumbered() bool {
	if g.Root != 0 {
		return false
	}
	seen := map[int]bool{}
	next := 0
	queue := []int{0}
	for len(queue) > 0 {
		i := queue[0]
		queue = queue[1:]
		if seen[i] {
			continue
		}
		if i != next {
			return false
		}
		seen[i] = true
		next++
		queue = append(queue, g.Nodes[i].Children...)
		if g.Nodes[i].Redirect >= 0 {
			queue = append(queue, g.Nodes[i].Redirect)
		}
	}
	return next == len(g.Nodes)
}

func subsets(idx []int) [][]int {
	var out [][]int
	for mask := 0; mask < 1<<len(idx); mask++ {
		l := []int{}
		for i, v := range idx {
			if mask&(1<<i) != 0 {
				l = append(l, v)
			}
		}
		out = append(out, l)
	}
	return out
}

func upto(n int) []int {
	out := make([]int, n)
	for i := range out {
		out[i] = i
	}
	return out
}

var graphNames = []string{"", "a", "b", "c"}

// product calls fn with every combination of one shape per node.
func product(choices [][]wnode, fn func([]wnode) bool) bool {
	n := len(choices)
	idx := make([]int, n)
	for {
		nodes := make([]wnode, n)
		for i := range nodes {
			nodes[i] = choices[i][idx[i]]
		}
		if !fn(nodes) {
			return false
		}
		k := n - 1
		for k >= 0 {
			idx[k]++
			if idx[k] < len(choices[k]) {
				break
			}
			idx[k] = 0
			k--
		}
		if k < 0 {
			return true
		}
	}
}

// fullGraphs: node 0 is the root with every children subset; every other node is a literal or an argument,
// executable or not, with every children subset of ALL indices (root included, itself included) and the
// redirect absent or pointing at any index (root, itself, a leaf, a node nobody lists as a child).
func fullGraphs(n int, fn func(*graphCase) bool) bool {
	choices := make([][]wnode, n)
	for _, ch := range subsets(upto(n)) {
		choices[0] = append(choices[0], wnode{Typ: 0, Children: ch, Redirect: -1})
	}
	for i := 1; i < n; i++ {
		for _, typ := range []byte{1, 2} {
			for _, ch := range subsets(upto(n)) {
				for red := -1; red < n; red++ {
					for _, ex := range []bool{false, true} {
						choices[i] = append(choices[i], wnode{Typ: typ, Children: ch, Redirect: red, Exec: ex, Name: graphNames[i]})
					}
				}
			}
		}
	}
	return product(choices, func(nodes []wnode) bool { return fn(&graphCase{Nodes: nodes, Root: 0}) })
}

// redirectFamily: the 3-node graphs around "node 1 redirects somewhere", in every numbering of the three nodes
// (6 permutations, so the root also sits at index 1 and 2 and redirects point forwards and backwards).
func redirectFamily(fn func(*graphCase) bool) bool {
	var c0, c1, c2 []wnode
	for _, ch := range subsets(upto(3)) {
		c0 = append(c0, wnode{Typ: 0, Children: ch, Redirect: -1})
	}
	for red := -1; red < 3; red++ {
		for _, ex := range []bool{false, true} {
			c1 = append(c1, wnode{Typ: 1, Children: []int{}, Redirect: red, Exec: ex, Name: "a"})
		}
	}
	for _, typ := range []byte{1, 2} {
		for _, ch := range [][]int{{}, {1}} {
			for _, red := range []int{-1, 0} {
				for _, ex := range []bool{false, true} {
					c2 = append(c2, wnode{Typ: typ, Children: ch, Redirect: red, Exec: ex, Name: "b"})
				}
			}
		}
	}
	perms := [][3]int{{0, 1, 2}, {0, 2, 1}, {1, 0, 2}, {1, 2, 0}, {2, 0, 1}, {2, 1, 0}}
	return product([][]wnode{c0, c1, c2}, func(nodes []wnode) bool {
		for _, p := range perms {
			out := make([]wnode, 3)
			for i, nd := range nodes {
				m := nd
				m.Children = make([]int, len(nd.Children))
				for k, ch := range nd.Children {
					m.Children[k] = p[ch]
				}
				if nd.Redirect >= 0 {
					m.Redirect = p[nd.Redirect]
				}
				out[p[i]] = m
			}
			if !fn(&graphCase{Nodes: out, Root: p[0]}) {
				return false
			}
		}
		return true
	})
}

// fourNodeGraphs (thorough): literals only, executable by index parity.
func fourNodeGraphs(fn func(*graphCase) bool) bool {
	choices := make([][]wnode, 4)
	for _, ch := range subsets([]int{1, 2, 3}) {
		choices[0] = append(choices[0], wnode{Typ: 0, Children: ch, Redirect: -1})
	}
	for i := 1; i < 4; i++ {
		for _, ch := range subsets([]int{1, 2, 3}) {
			for red := -1; red < 4; red++ {
				choices[i] = append(choices[i], wnode{Typ: 1, Children: ch, Redirect: red, Exec: i%2 == 1, Name: graphNames[i]})
			}
		}
	}
	return product(choices, func(nodes []wnode) bool { return fn(&graphCase{Nodes: nodes, Root: 0}) })
}

// apiGraphs: graphs built through the brigodier API whose redirect targets are not attached to the tree.
var apiGraphs = map[string]func() *brigodier.RootCommandNode{
	"alias->detached-leaf": func() *brigodier.RootCommandNode {
		hidden := brigodier.Literal("hidden").Executes(packet.PlaceholderCommand).Build()
		r := &brigodier.RootCommandNode{}
		r.AddChild(brigodier.Literal("other").Build())
		r.AddChild(brigodier.Literal("alias").Redirect(hidden).Build())
		return r
	},
	"alias->detached-with-children": func() *brigodier.RootCommandNode {
		hidden := brigodier.Literal("hidden").Executes(packet.PlaceholderCommand).
			Then(brigodier.Argument("amount", brigodier.Int).Executes(packet.PlaceholderCommand)).Build()
		r := &brigodier.RootCommandNode{}
		r.AddChild(brigodier.Literal("other").Executes(packet.PlaceholderCommand).Build())
		r.AddChild(brigodier.Literal("alias").Redirect(hidden).Build())
		return r
	},
	"alias->detached->detached": func() *brigodier.RootCommandNode {
		h2 := brigodier.Argument("h2", brigodier.Bool).Executes(packet.PlaceholderCommand).Build()
		h1 := brigodier.Literal("h1").Redirect(h2).Build()
		r := &brigodier.RootCommandNode{}
		r.AddChild(brigodier.Literal("alias").Redirect(h1).Build())
		return r
	},
	"two-aliases->same-detached": func() *brigodier.RootCommandNode {
		hidden := brigodier.Literal("hidden").Then(brigodier.Literal("sub").Executes(packet.PlaceholderCommand)).Build()
		r := &brigodier.RootCommandNode{}
		r.AddChild(brigodier.Literal("x").Redirect(hidden).Build())
		r.AddChild(brigodier.Literal("y").Redirect(hidden).Build())
		return r
	},
	"nested-alias->detached": func() *brigodier.RootCommandNode {
		hidden := brigodier.Literal("hidden").Executes(packet.PlaceholderCommand).Build()
		r := &brigodier.RootCommandNode{}
		r.AddChild(brigodier.Literal("cmd").Then(brigodier.Argument("arg", brigodier.String).Redirect(hidden)).Build())
		return r
	},
	"detached-redirects-back-into-tree": func() *brigodier.RootCommandNode {
		r := &brigodier.RootCommandNode{}
		other := brigodier.Literal("other").Executes(packet.PlaceholderCommand).Build()
		hidden := brigodier.Literal("hidden").Redirect(other).Build()
		r.AddChild(other)
		r.AddChild(brigodier.Literal("alias").Redirect(hidden).Build())
		return r
	},
}

var apiGraphNames = []string{"alias->detached-leaf", "alias->detached-with-children", "alias->detached->detached",
	"two-aliases->same-detached", "nested-alias->detached", "detached-redirects-back-into-tree"}

// build constructs the graph through the brigodier API (builders for the nodes, AddChild for the edges), so that
// the value does not depend on the decoder under test. Not every wire graph can be built that way: a redirect
// target must exist before the redirecting node is built (no redirect cycles, no self-redirect), only node 0 may
// be a root, and a root cannot be listed as a child.
func (g *graphCase) build() *brigodier.RootCommandNode {
	n := len(g.Nodes)
	if g.Root != 0 || g.Nodes[0].Typ != 0 {
		return nil
	}
	for i, nd := range g.Nodes {
		if i > 0 && nd.Typ == 0 {
			return nil
		}
		for _, ch := range nd.Children {
			if g.Nodes[ch].Typ == 0 {
				return nil
			}
		}
	}
	built := make([]brigodier.CommandNode, n)
	root := &brigodier.RootCommandNode{}
	built[0] = root
	for left, progress := n-1, true; left > 0; {
		if !progress {
			return nil // redirect cycle
		}
		progress = false
		for i := 1; i < n; i++ {
			nd := g.Nodes[i]
			if built[i] != nil || (nd.Redirect >= 0 && built[nd.Redirect] == nil) {
				continue
			}
			if nd.Typ == 1 {
				b := brigodier.Literal(nd.Name)
				if nd.Exec {
					b.Executes(packet.PlaceholderCommand)
				}
				if nd.Redirect >= 0 {
					b.Redirect(built[nd.Redirect])
				}
				built[i] = b.Build()
			} else {
				b := brigodier.Argument(nd.Name, brigodier.Bool)
				if nd.Exec {
					b.Executes(packet.PlaceholderCommand)
				}
				if nd.Redirect >= 0 {
					b.Redirect(built[nd.Redirect])
				}
				built[i] = b.Build()
			}
			left--
			progress = true
		}
	}
	for i, nd := range g.Nodes {
		for _, ch := range nd.Children {
			built[i].AddChild(built[ch])
		}
	}
	return root
}

// runGraph applies the statement to the graph value(s) of one case in one cell.
func (h *H) runGraph(c pktgen.Cell, g *graphCase) {
	r := h.r
	if g.API != "" {
		r.Class("graph:api-built, redirect to a detached node")
		h.graphOracle(c, g, "api", &packet.AvailableCommands{RootNode: apiGraphs[g.API]()}, nil)
		return
	}
	wire := g.wire(c)
	r.Eval(1)
	if y, left, err, pv := decode(c, wire); pv != nil || err != nil || left != 0 {
		r.Class("graph:wire graph not accepted by the decoder (C05's domain)")
	} else {
		r.Class(fmt.Sprintf("graph:wire graph of %d node(s) accepted", len(g.Nodes)))
		h.graphOracle(c, g, "decoded-from-wire", y.(*packet.AvailableCommands), wire)
	}
	if root := g.build(); root != nil {
		r.Class(fmt.Sprintf("graph:same graph of %d node(s) built through the API", len(g.Nodes)))
		h.graphOracle(c, g, "built-through-api", &packet.AvailableCommands{RootNode: root}, nil)
	}
}

// graphOracle: Encode(p) = e1; Decode(e1) = q consumes everything and is the same graph; Encode(q) == e1.
func (h *H) graphOracle(c pktgen.Cell, g *graphCase, how string, p *packet.AvailableCommands, wire []byte) {
	r := h.r
	const tn = "packet.AvailableCommands"
	r.Eval(1)
	vio := func(key, detail string) {
		r.Violation(tn+"/graph/"+key, fmt.Sprintf("%s %s (value %s)\n  %s", c.String(), g.String(), how, detail),
			replay{Cell: c.String(), What: key, Graph: g})
	}
	r.Nontrivial(1)
	dumpP := pktgen.DumpTree(p.RootNode)
	e1, err, pv := encode(c, p)
	if pv != nil || err != nil {
		vio("encode-fails", fmt.Sprintf("Encode of the graph failed: err=%v panic=%v\n  graph:\n%s", err, pv, dumpP))
		return
	}
	y, left, err, pv := decode(c, e1)
	if pv != nil || err != nil {
		vio("decode-of-own-encoding-fails", fmt.Sprintf("err=%v panic=%v\n  encoding: %s\n  graph:\n%s", err, pv, hx(e1), dumpP))
		return
	}
	if left != 0 {
		vio("decoder-left-bytes", fmt.Sprintf("%d of %d bytes left unread; encoding: %s", left, len(e1), hx(e1)))
	}
	q := y.(*packet.AvailableCommands)
	if dumpQ := pktgen.DumpTree(q.RootNode); dumpQ != dumpP {
		in := ""
		if wire != nil {
			in = "\n  generator's wire bytes: " + hx(wire)
		}
		vio("value-differs", fmt.Sprintf("the graph decoded from the proxy's encoding is not the graph that was encoded%s\n  encoding: %s\n  encoded graph:\n%s  decoded graph:\n%s",
			in, hx(e1), dumpP, dumpQ))
	}
	e2, err, pv := encode(c, q)
	switch {
	case pv != nil || err != nil:
		vio("reencode-fails", fmt.Sprintf("err=%v panic=%v", err, pv))
	case !bytes.Equal(e1, e2):
		vio("reencode-differs", fmt.Sprintf("first:  %s\n  second: %s\n  graph:\n%s", hx(e1), hx(e2), dumpP))
	}
	if wire != nil && g.bfsNumbered() {
		if bytes.Equal(wire, e1) {
			r.Class("graph:breadth-first numbered wire graph reproduced byte for byte (not asserted)")
		} else {
			r.Class("graph:breadth-first numbered wire graph re-encoded differently (not asserted)")
		}
	}
}

// graphPass enumerates the graph values over the AvailableCommands cells: the full enumeration in the first
// cell that writes parser names (< 1.19) and in the newest cell (parser ids), the redirect family, the <=2-node
// graphs and the API graphs in every cell.
func (h *H) graphPass() {
	r := h.r
	var cells []pktgen.Cell
	for _, c := range pktgen.Cells() {
		if pktgen.TypeName(c.Type) == "packet.AvailableCommands" {
			cells = append(cells, c)
		}
	}
	if len(cells) == 0 {
		r.Note("no AvailableCommands cell in the registry")
		return
	}
	fullIn := map[int]bool{0: true, len(cells) - 1: true}
	i := 0
	emit := func(c pktgen.Cell) func(g *graphCase) bool {
		return func(g *graphCase) bool {
			i++
			if !r.Mine(i) {
				return true
			}
			if i&1023 == 0 && r.Expired() {
				return false
			}
			h.runGraph(c, g)
			return true
		}
	}
	for ci, c := range cells {
		r.AddExtra("graph_cells", 1)
		e := emit(c)
		for _, name := range apiGraphNames {
			if !e(&graphCase{API: name}) {
				return
			}
		}
		if !fullGraphs(1, e) || !fullGraphs(2, e) || !redirectFamily(e) {
			return
		}
		if fullIn[ci] {
			if !fullGraphs(3, e) {
				return
			}
			if r.Thorough() && !fourNodeGraphs(e) {
				return
			}
		}
	}
	if r.Shard == 0 {
		r.Extra("graph_values_all_shards", int64(i))
	}
}
