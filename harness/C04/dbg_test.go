package c04

import (
	"fmt"
	"os"
	"testing"

	"github.com/Tnze/go-mc/nbt"
	"go.minekube.com/gate/pkg/edition/java/proto/nbtconv"
	"go.minekube.com/gate/pkg/edition/java/proxy/zzverif/pktgen"
)

func TestDbg2(t *testing.T) {
	if os.Getenv("G2_DBG") == "" {
		t.Skip()
	}
	c, _ := pktgen.FindCell("Play/ClientBound/769/0x6c/title.Text")
	g := pktgen.NewGen(c)
	g.Enumerate(1, func(cs pktgen.Case) bool {
		l := g.Label(cs.Spec)
		x := cs.Build()
		enc, err, pv := encode(c, x)
		_, left, derr, dpv := decode(c, enc)
		if len(enc) > 40 { enc = enc[:40] }
		fmt.Printf("%s: enc=%x err=%v pv=%v | left=%d derr=%v dpv=%v\n", l, enc, err, pv, left, derr, dpv)
		return true
	})
}

func TestDbg(t *testing.T) {
	if os.Getenv("G2_DBG") == "" {
		t.Skip()
	}
	for _, j := range []string{`{"text":"a\nb"}`, `{"text":"q\"q"}`, `{"text":"b\\s"}`, `{"text":"tab\there"}`, `{"text":"it's"}`, `{"text":"ä€😀"}`, `{"text":""}`, `{"text":"yes"}`, `{"text":"null"}`, `{"text":"1e3"}`, `{"text":"a: b"}`, `{"text":"~"}`, `{"text":" x "}`, `{"text":"0x10"}`, `{"text":"1b"}`, `{"text":"true"}`, `{"text":"#c"}`, `{"text":"a,b"}`, `{"text":"{}"}`, `{"text":"","extra":[{"text":"x"}]}`} {
		bt, err := nbtconv.JsonToBinaryTag([]byte(j))
		if err != nil {
			fmt.Println(j, "-> J2B err", err)
			continue
		}
		back, err := nbtconv.BinaryTagToJSON(&bt)
		fmt.Printf("%s -> snbt %s -> %s %v\n", j, nbt.RawMessage(bt).String(), back, err)
	}
}
