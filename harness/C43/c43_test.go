package proxy

import (
	"encoding/json"
	"fmt"
	"strings"
	"testing"
	"testing/synctest"

	"github.com/robinbraemer/event"
	"go.minekube.com/gate/pkg/edition/java/auth"
	"go.minekube.com/gate/pkg/edition/java/config"
	"go.minekube.com/gate/pkg/edition/java/proto/version"
	"go.minekube.com/gate/pkg/edition/java/proxy/zzverif/bfs"
	"go.minekube.com/gate/pkg/edition/java/proxy/zzverif/e2e"
	"go.minekube.com/gate/pkg/edition/java/proxy/zzverif/vrt"
	"go.minekube.com/gate/pkg/util/uuid"
)

var c43Auth auth.Authenticator

type c43Op string

const (
	opRequest  c43Op = "request"
	opPing     c43Op = "ping8"
	opPingOdd  c43Op = "ping-other"
	opUnknown  c43Op = "unknown-id"
	opReqTrail c43Op = "request+trailing"
	opReqPing  c43Op = "request+ping-one-segment"
)

var c43Ops = []c43Op{opRequest, opPing, opPingOdd, opUnknown, opReqTrail, opReqPing}

func handshakeBytes(protocol int32, next int32) []byte {
	p := e2e.PutVarInt(nil, 0) // packet id
	p = e2e.PutVarInt(p, protocol)
	host := "mc.example.com"
	p = e2e.PutVarInt(p, int32(len(host)))
	p = append(p, host...)
	p = append(p, 0x63, 0xDD) // port 25565
	p = e2e.PutVarInt(p, next)
	return e2e.Frame(p, -1)
}

var pingPayload8 = []byte{0x01, 0x11, 0x22, 0x33, 0x44, 0x55, 0x66, 0x77, 0x88}

func opBytes(o c43Op) []byte {
	switch o {
	case opRequest:
		return e2e.Frame([]byte{0x00}, -1)
	case opPing:
		return e2e.Frame(pingPayload8, -1)
	case opPingOdd:
		return e2e.Frame([]byte{0x01, 0x7F, 0xFF, 0x00, 0x80, 0x01, 0x02, 0x03, 0xFE}, -1)
	case opUnknown:
		return e2e.Frame([]byte{0x05, 0xAA, 0xBB}, -1)
	case opReqTrail:
		return e2e.Frame(append([]byte{0x00, 0x04}, "Jeb_"...), -1)
	case opReqPing:
		return append(e2e.Frame([]byte{0x00}, -1), e2e.Frame(pingPayload8, -1)...)
	}
	panic(o)
}

type statusJSON struct {
	Version struct {
		Protocol int    `json:"protocol"`
		Name     string `json:"name"`
	} `json:"version"`
	Players struct {
		Online int `json:"online"`
		Max    int `json:"max"`
	} `json:"players"`
}

func supportedByList(p int32) bool {
	for _, v := range version.SupportedVersions {
		if int32(v.Protocol) == p {
			return true
		}
	}
	return false
}

type c43Case struct {
	Protocol int32
	Players  int
	History  []c43Op
}

// runC43 drives one history inside a bubble; returns (state key, failKey, failDesc).
func runC43(t *testing.T, c c43Case) (key, failKey, failDesc string) {
	synctest.Test(t, func(t *testing.T) {
		cfg := config.DefaultConfig
		cfg.OnlineMode = false
		cfg.Servers = map[string]string{}
		cfg.Try = nil
		cfg.ForcedHosts = map[string][]string{}
		cfg.Quota.Connections.Enabled = false
		cfg.Quota.Logins.Enabled = false
		p, err := New(Options{Config: &cfg, EventMgr: event.New(), Authenticator: c43Auth})
		if err != nil {
			t.Fatal(err)
		}
		if err := p.init(); err != nil {
			t.Fatal(err)
		}
		for i := 0; i < c.Players; i++ {
			id := uuid.New()
			p.playerIDs[id] = &connectedPlayer{}
		}
		conn := e2e.NewConn("10.0.0.1:25565", "203.0.113.9:40000")
		go p.HandleConn(conn)
		synctest.Wait()
		conn.Inject(handshakeBytes(c.Protocol, 1))
		synctest.Wait()
		df := e2e.NewDeframer()
		// reference automaton
		gotRequest, closed := false, false
		responses := 0
		fail := func(k, f string, a ...any) {
			if failKey == "" {
				failKey, failDesc = k, fmt.Sprintf(f, a...)
			}
		}
		takeFrames := func() [][]byte {
			df.Feed(conn.Take())
			var out [][]byte
			for {
				f, err := df.Next()
				if err != nil {
					fail("malformed-frame", "proxy wrote a malformed frame: %v", err)
					return out
				}
				if f == nil {
					return out
				}
				out = append(out, f)
			}
		}
		if fr := takeFrames(); len(fr) != 0 || conn.ClosedByProxy() {
			fail("after-handshake", "after the handshake the proxy wrote %d frames, closed=%v", len(fr), conn.ClosedByProxy())
		}
		checkResponse := func(step int, f []byte) {
			id, data, err := e2e.SplitID(f)
			if err != nil || id != 0 {
				fail("response-id", "step %d: expected status response (id 0), got id %d err %v", step, id, err)
				return
			}
			l, n := e2e.GetVarInt(data)
			if n <= 0 || int(l) != len(data)-n {
				fail("response-string", "step %d: status response is not exactly one string (len %d, body %d)", step, l, len(data)-n)
				return
			}
			var sj statusJSON
			if err := json.Unmarshal(data[n:], &sj); err != nil {
				fail("response-json", "step %d: %v", step, err)
				return
			}
			want := int(version.MaximumVersion.Protocol)
			if supportedByList(c.Protocol) {
				want = int(c.Protocol)
			}
			if sj.Version.Protocol != want {
				fail("advertised-protocol", "client protocol %d (in supported list: %v): response advertises %d, want %d", c.Protocol, supportedByList(c.Protocol), sj.Version.Protocol, want)
			}
			if sj.Players.Online != p.PlayerCount() {
				fail("player-count", "response says %d online, PlayerCount()=%d", sj.Players.Online, p.PlayerCount())
			}
		}
		for i, o := range c.History {
			if failKey != "" {
				break
			}
			conn.Inject(opBytes(o))
			synctest.Wait()
			frames := takeFrames()
			nowClosed := conn.ClosedByProxy()
			if closed {
				if len(frames) != 0 {
					fail("write-after-close", "step %d %s: %d frames written after the connection was closed", i, o, len(frames))
				}
				continue
			}
			parts := []c43Op{o}
			if o == opReqPing {
				parts = []c43Op{opRequest, opPing}
			}
			fi := 0
			for _, part := range parts {
				if closed {
					break
				}
				switch part {
				case opRequest:
					if !gotRequest {
						gotRequest = true
						if fi >= len(frames) {
							fail("no-response", "step %d %s: no status response was written", i, o)
							break
						}
						checkResponse(i, frames[fi])
						fi++
						responses++
					} else {
						closed = true // repeated request closes
					}
				case opReqTrail:
					// either treated as a request (one response) or as garbage (close): both satisfy the statement
					if !gotRequest && fi < len(frames) {
						gotRequest = true
						checkResponse(i, frames[fi])
						fi++
						responses++
					} else {
						closed = true
					}
				case opPing, opPingOdd:
					if gotRequest {
						want := opBytes(part)
						wf := e2e.NewDeframer()
						wf.Feed(want)
						wp, _ := wf.Next()
						if fi >= len(frames) {
							fail("no-pong", "step %d %s: ping after request was not answered", i, o)
						} else if string(frames[fi]) != string(wp) {
							fail("pong-differs", "step %d %s: pong payload %x differs from ping %x", i, o, frames[fi], wp)
						}
						fi++
					} else {
						fi = len(frames) // unspecified whether a ping without request is echoed
					}
					closed = true
				case opUnknown:
					closed = true
				}
			}
			if fi < len(frames) {
				fail("extra-frames", "step %d %s: %d unexpected extra frame(s), first %x", i, o, len(frames)-fi, frames[fi])
			}
			if closed != nowClosed {
				fail("closure", "step %d %s (history %v): connection closed=%v, want %v", i, o, c.History, nowClosed, closed)
			}
		}
		if responses > 1 {
			fail("multiple-responses", "%d status responses", responses)
		}
		key = fmt.Sprintf("req=%v closed=%v", gotRequest, closed)
		// tear down so that every goroutine of the bubble exits
		conn.PeerClose()
		synctest.Wait()
		_ = conn.Close()
		p.Shutdown(nil)
		synctest.Wait()
	})
	return
}

func protoClass(p int32) string {
	switch {
	case supportedByList(p):
		return "supported"
	case p < 0:
		return "negative"
	default:
		return "unsupported-positive"
	}
}

func TestVerif(t *testing.T) {
	var err error
	c43Auth, err = auth.New(auth.Options{})
	if err != nil {
		t.Fatal(err)
	}
	vrt.Run(t, "C43", func(r *vrt.R) {
		var rc c43Case
		if r.ReplayInto(&rc) {
			_, fk, fd := runC43(t, rc)
			r.Eval(1)
			if fk != "" {
				r.Violation(fk, fd, rc)
			}
			return
		}
		var protos []int32
		for _, v := range version.SupportedVersions {
			protos = append(protos, int32(v.Protocol))
		}
		protos = append(protos, 0, 3, 109, 9999, 1<<30, -1, -2, -5)
		depth := 3
		if r.Thorough() {
			depth = 4
		}
		idx := 0
		for _, pr := range protos {
			for players := 0; players <= 2; players++ {
				idx++
				if !r.Mine(idx) {
					continue
				}
				// full depth for boundary protocols, depth 2 for the bulk of supported versions
				d := depth
				if supportedByList(pr) && pr != int32(version.MinimumVersion.Protocol) && pr != int32(version.MaximumVersion.Protocol) && pr != 47 && pr != 765 {
					d = 2
				}
				if players > 0 && d > 2 {
					d = 2
				}
				pr, players := pr, players
				res := bfs.Explore(bfs.Config[c43Op]{
					Name: fmt.Sprintf("proto=%d players=%d", pr, players), Ops: c43Ops, Depth: d, Deadline: r.DeadlineTime(),
					Run: func(h []c43Op) bfs.Outcome {
						k, fk, fd := runC43(t, c43Case{Protocol: pr, Players: players, History: h})
						r.Class("protocol:" + protoClass(pr))
						return bfs.Outcome{Key: "", Terminal: false, FailKey: fk, FailDesc: fd, Obs: k}
					},
				})
				// report with replayable cases
				r.Eval(res.Transitions)
				r.States(res.States)
				r.Transitions(res.Transitions)
				r.Traces(res.Transitions)
				for _, k := range res.StateKeys {
					r.Distinct(fmt.Sprintf("%d|%d|%s", pr, players, k))
				}
				if !res.Exhaustive {
					r.NotExhaustive(res.Reason)
				}
				for k, f := range res.Failures {
					r.Violation(k, fmt.Sprintf("protocol %d, %d players, history %v (seen %d×)\n%s", pr, players, f.History, f.Count, f.Desc), c43Case{Protocol: pr, Players: players, History: f.History})
				}
				if res.Sample != nil && players == 0 && (pr == 47 || pr == 9999) {
					r.Sample(map[string]any{"protocol": pr, "players": players, "history": strings.Trim(fmt.Sprint(res.Sample), "[]"), "states": res.States, "transitions": res.Transitions})
				}
			}
		}
	})
}
