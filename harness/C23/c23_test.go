package proxy

// C23 - the command tree sent to a player only shows proxy commands it may use.
//
// Engine enum: every proxy command tree of the bounded family below x every backend tree variant is
// pushed through the REAL backendPlaySessionHandler.handleAvailableCommands (which calls filterNode)
// with a recording player connection; the AvailableCommands packet the player receives is inspected
// as an object graph AND re-read from its real wire encoding by an independent mini parser.
//
// Reference (written from the statement, not from filterNode): a proxy node is usable iff its own
// requirement passes for the player; it is visible iff it and all its ancestors are usable.

import (
	"bytes"
	"context"
	"encoding/binary"
	"fmt"
	"os"
	"sort"
	"strings"
	"testing"

	"go.minekube.com/brigodier"

	"go.minekube.com/gate/pkg/command"
	"go.minekube.com/gate/pkg/edition/java/config"
	"go.minekube.com/gate/pkg/edition/java/proto/packet"
	"go.minekube.com/gate/pkg/edition/java/proto/state"
	"go.minekube.com/gate/pkg/edition/java/proto/version"
	"go.minekube.com/gate/pkg/edition/java/proxy/bungeecord"
	"go.minekube.com/gate/pkg/edition/java/proxy/zzverif/vrt"
	"go.minekube.com/gate/pkg/gate/proto"

	"github.com/go-logr/logr"
)

// ---------- case description ----------

type nspec struct {
	Parent int    `json:"p"` // -1 = child of the proxy root
	Kind   string `json:"k"` // "l" literal, "a" argument
	Name   string `json:"n"`
	Req    string `json:"r"` // "n" no requirement, "y" requires a permission the player has, "d" one it lacks
	Redir  int    `json:"t"` // -1 none, -2 the proxy root, >=0 node index
	// Alias: a second top-level literal that SHARES the child node objects of node 0 (what
	// command.Manager.RegisterWithAliases builds): the proxy tree is a DAG, not a tree.
	Alias bool `json:"alias,omitempty"`
	// Fork: the redirect is a FORK with a redirect modifier (brigadier's "execute as ..." style) instead of a plain one.
	Fork bool `json:"fork,omitempty"`
	// NoExec: the node has no executor of its own (a pure group node); it is then recognised by name + parent.
	NoExec bool `json:"noexec,omitempty"`
}

// Prior: what happened on the SAME Proxy before the merge that is checked.
//
//	""                        nothing (fresh proxy)
//	"privileged-player-first" another player who passes every requirement received its merged tree first
//	"restricted-player-first" the checked player is the privileged one; a player lacking "deny" merged first
//	"same-player-revoked"     the checked player itself merged first while it still held every permission
type caseSpec struct {
	Proxy   []nspec `json:"proxy"`
	Backend int     `json:"backend"`
	Prior   string  `json:"prior,omitempty"`
}

var priors = []string{"privileged-player-first", "restricted-player-first", "same-player-revoked"}

// c23HoldsDeny: the player whose tree is being checked also holds the permission "deny" (then every node is usable).
var c23HoldsDeny bool

func (c caseSpec) String() string {
	var sb strings.Builder
	for i, n := range c.Proxy {
		fmt.Fprintf(&sb, "%d:%s%s/%s", i, n.Kind, n.Name, n.Req)
		if n.Alias {
			sb.WriteString("=alias(0)")
		}
		if n.NoExec {
			sb.WriteString("(group)")
		}
		if n.Parent >= 0 {
			fmt.Fprintf(&sb, "^%d", n.Parent)
		}
		if n.Redir != -1 {
			fmt.Fprintf(&sb, "->%d", n.Redir)
			if n.Fork {
				sb.WriteString("(fork)")
			}
		}
		sb.WriteByte(' ')
	}
	fmt.Fprintf(&sb, "| backend#%d", c.Backend)
	if c.Prior != "" {
		fmt.Fprintf(&sb, " | prior=%s", c.Prior)
	}
	return sb.String()
}

func usable(s []nspec, i int) bool { return s[i].Req != "d" || c23HoldsDeny }
func visible(s []nspec, i int) bool {
	for ; i >= 0; i = s[i].Parent {
		if !usable(s, i) {
			return false
		}
	}
	return true
}

// cyclic reports whether following children and redirect edges from the redirect target of some
// node leads back to that node (so a naive recursive copy never terminates).
func cyclic(s []nspec) bool {
	for i, n := range s {
		if n.Redir == -1 {
			continue
		}
		// reachable set from the target
		seen := map[int]bool{}
		var stack []int
		push := func(t int) {
			if t == -2 {
				for j, m := range s {
					if m.Parent == -1 && !seen[j] {
						seen[j] = true
						stack = append(stack, j)
					}
				}
				return
			}
			if !seen[t] {
				seen[t] = true
				stack = append(stack, t)
			}
		}
		push(n.Redir)
		for len(stack) > 0 {
			c := stack[len(stack)-1]
			stack = stack[:len(stack)-1]
			for j, m := range s {
				if m.Parent == c {
					push(j)
				}
			}
			if s[c].Redir != -1 {
				push(s[c].Redir)
			}
		}
		if seen[i] {
			return true
		}
	}
	return false
}

// ---------- enumeration ----------

// subtrees returns every subtree rooted at a top-level literal `name`: children ⊆ {literal x,
// argument y}, each child optionally with one literal grandchild z; every node's requirement ranges
// over reqs. Indices are relative (root of the subtree = 0).
func subtrees(name string, reqs []string) [][]nspec {
	var out [][]nspec
	type childShape struct {
		kind, name string
		grand      bool
	}
	var shapes [][]childShape
	for _, x := range []int{0, 1, 2} { // x: absent, leaf, with grandchild
		for _, y := range []int{0, 1, 2} {
			var sh []childShape
			if x > 0 {
				sh = append(sh, childShape{"l", "x", x == 2})
			}
			if y > 0 {
				sh = append(sh, childShape{"a", "y", y == 2})
			}
			shapes = append(shapes, sh)
		}
	}
	for _, sh := range shapes {
		base := []nspec{{Parent: -1, Kind: "l", Name: name, Redir: -1}}
		for _, c := range sh {
			base = append(base, nspec{Parent: 0, Kind: c.kind, Name: c.name, Redir: -1})
			if c.grand {
				base = append(base, nspec{Parent: len(base) - 1, Kind: "l", Name: "z", Redir: -1})
			}
		}
		// all requirement assignments
		n := len(base)
		total := 1
		for i := 0; i < n; i++ {
			total *= len(reqs)
		}
		for a := 0; a < total; a++ {
			t := append([]nspec(nil), base...)
			v := a
			for i := 0; i < n; i++ {
				t[i].Req = reqs[v%len(reqs)]
				v /= len(reqs)
			}
			out = append(out, t)
		}
	}
	return out
}

func join(a, b []nspec) []nspec {
	out := append([]nspec(nil), a...)
	off := len(a)
	for _, n := range b {
		if n.Parent >= 0 {
			n.Parent += off
		}
		if n.Redir >= 0 {
			n.Redir += off
		}
		out = append(out, n)
	}
	return out
}

func hasChildren(s []nspec, i int) bool {
	for _, n := range s {
		if n.Parent == i {
			return true
		}
	}
	return false
}

const nBackends = 8

// forEachProxyTree calls f for every proxy tree of the tier's family.
func forEachProxyTree(thorough bool, f func(t []nspec)) {
	reqsA := []string{"n", "d"}
	if thorough {
		reqsA = []string{"n", "y", "d"}
	}
	A := subtrees("a", reqsA)
	Bfull := subtrees("b", reqsA)
	// 0 and 1 top-level commands
	f(nil)
	for _, a := range A {
		f(a)
	}
	// 2 top-level commands
	for _, a := range A {
		for _, b := range Bfull {
			if !thorough && len(b) > 2 {
				continue // quick: second command is a leaf or has one leaf child
			}
			f(join(a, b))
		}
	}
	// redirects: one redirecting childless node; targets = root, every other node.
	// The redirecting node always has a requirement closure ("y" or "d") so that an unbounded
	// recursion through it is observable in-process (see reqRec).
	small := subtrees("a", []string{"n", "d"})
	extra := [][]nspec{nil, {{Parent: -1, Kind: "l", Name: "b", Req: "n", Redir: -1}}, {{Parent: -1, Kind: "l", Name: "b", Req: "d", Redir: -1}},
		{{Parent: -1, Kind: "l", Name: "b", Req: "n", Redir: -1}, {Parent: 0, Kind: "l", Name: "x", Req: "n", Redir: -1}}}
	for _, a := range small {
		for _, e := range extra {
			base := join(a, e)
			for i := range base {
				if hasChildren(base, i) {
					continue
				}
				for tgt := -2; tgt < len(base); tgt++ {
					if tgt == -1 || tgt == i {
						continue
					}
					for _, rq := range []string{"y", "d"} {
						t := append([]nspec(nil), base...)
						t[i].Redir = tgt
						t[i].Req = rq
						f(t)
						if thorough || len(e) == 0 {
							// the same redirect as a fork with a modifier (quick: only without a second command)
							tf := append([]nspec(nil), t...)
							tf[i].Fork = true
							f(tf)
						}
						if thorough {
							// a second redirect from another childless node (no redirect chains through redirecting nodes)
							for j := i + 1; j < len(t); j++ {
								if hasChildren(t, j) || tgt == j {
									continue
								}
								for tgt2 := -2; tgt2 < len(t); tgt2++ {
									if tgt2 == -1 || tgt2 == j || tgt2 == i {
										continue
									}
									t2 := append([]nspec(nil), t...)
									t2[j].Redir = tgt2
									if t2[j].Req == "n" {
										t2[j].Req = "y"
									}
									f(t2)
								}
							}
						}
					}
				}
			}
		}
	}
}

// ---------- building real trees ----------

var c23Modifier = brigodier.ModifierFunc(func(c *brigodier.CommandContext) (context.Context, error) { return c, nil })

type markCmd struct{ idx int }

func (m *markCmd) Run(*brigodier.CommandContext) error { return nil }

type recursionSentinel struct{ node int }

const reqEvalLimit = 200 // requirement evaluations of ONE node during ONE merge; a terminating copy needs <= #redirects+1

type reqRec struct {
	evals    []int
	wrongSrc bool
	player   *connectedPlayer
}

func (r *reqRec) requirement(i int, perm string) brigodier.RequireFn {
	return command.Requires(func(c *command.RequiresContext) bool {
		r.evals[i]++
		if r.evals[i] > reqEvalLimit {
			panic(recursionSentinel{i})
		}
		if c.Source == nil {
			r.wrongSrc = true
			return false
		}
		if p, ok := c.Source.(*connectedPlayer); !ok || p != r.player {
			r.wrongSrc = true
		}
		return c.Source.HasPermission(perm)
	})
}

func buildProxyTree(root *brigodier.RootCommandNode, s []nspec, rec *reqRec) []brigodier.CommandNode {
	nodes := make([]brigodier.CommandNode, len(s))
	rec.evals = make([]int, len(s))
	mk := func(i int, redirect brigodier.CommandNode) brigodier.CommandNode {
		n := s[i]
		var req brigodier.RequireFn
		switch n.Req {
		case "y":
			req = rec.requirement(i, "allow")
		case "d":
			req = rec.requirement(i, "deny")
		}
		if n.Kind == "l" {
			var b brigodier.LiteralNodeBuilder = brigodier.Literal(n.Name)
			if !n.NoExec {
				b = b.Executes(&markCmd{i})
			}
			if req != nil {
				b = b.Requires(req)
			}
			if redirect != nil && n.Fork {
				b = b.Fork(redirect, c23Modifier)
			} else if redirect != nil {
				b = b.Redirect(redirect)
			}
			return b.Build()
		}
		var b brigodier.ArgumentNodeBuilder = brigodier.Argument(n.Name, brigodier.Bool)
		if !n.NoExec {
			b = b.Executes(&markCmd{i})
		}
		if req != nil {
			b = b.Requires(req)
		}
		if redirect != nil && n.Fork {
			b = b.Fork(redirect, c23Modifier)
		} else if redirect != nil {
			b = b.Redirect(redirect)
		}
		return b.Build()
	}
	attach := func(i int) {
		if s[i].Parent == -1 {
			root.AddChild(nodes[i])
		} else {
			nodes[s[i].Parent].AddChild(nodes[i])
		}
	}
	for i := range s {
		if s[i].Redir == -1 {
			nodes[i] = mk(i, nil)
			attach(i)
		}
	}
	for i := range s {
		if s[i].Redir != -1 {
			var tgt brigodier.CommandNode = root
			if s[i].Redir >= 0 {
				tgt = nodes[s[i].Redir]
				if tgt == nil {
					panic("harness: redirect target not built (redirect chains are not enumerated)")
				}
			}
			nodes[i] = mk(i, tgt)
			attach(i)
		}
	}
	for i := range s {
		if s[i].Alias {
			// shallow copy as in command.Manager.shallowCopy: the alias gets the SAME child objects
			nodes[0].ChildrenOrdered().Range(func(_ string, c brigodier.CommandNode) bool { nodes[i].AddChild(c); return true })
		}
	}
	return nodes
}

type backendTree struct {
	root *brigodier.RootCommandNode
	tops []brigodier.CommandNode
	all  map[brigodier.CommandNode]bool
}

func lit(name string, children ...brigodier.CommandNode) brigodier.CommandNode {
	n := brigodier.Literal(name).Executes(packet.PlaceholderCommand).Build()
	for _, c := range children {
		n.AddChild(c)
	}
	return n
}

func arg(name string, children ...brigodier.CommandNode) brigodier.CommandNode {
	n := brigodier.Argument(name, brigodier.Bool).Executes(packet.PlaceholderCommand).Build()
	for _, c := range children {
		n.AddChild(c)
	}
	return n
}

func buildBackend(v int) *backendTree {
	bt := &backendTree{root: &brigodier.RootCommandNode{}, all: map[brigodier.CommandNode]bool{}}
	switch v {
	case 0:
	case 1:
		bt.tops = []brigodier.CommandNode{lit("a")}
	case 2:
		bt.tops = []brigodier.CommandNode{lit("c")}
	case 3:
		bt.tops = []brigodier.CommandNode{lit("a", lit("q")), lit("c")}
	case 4:
		bt.tops = []brigodier.CommandNode{lit("c", lit("x")), lit("a", lit("q"))}
	case 5:
		bt.tops = []brigodier.CommandNode{lit("a", lit("x", lit("w"))), lit("b", lit("x")), lit("c")}
	case 6:
		// vanilla-shaped: an argument node with a child, and "execute run" redirecting to the backend ROOT (which the
		// merge mutates by adding the proxy nodes)
		run := brigodier.Literal("run").Redirect(bt.root).Build()
		bt.tops = []brigodier.CommandNode{lit("execute", run), lit("c", arg("y", lit("z")))}
	case 7:
		// a backend node redirecting to the backend node "a" that a usable proxy command replaces, and an argument
		// child under a name ("b") the proxy may also replace
		a := lit("a", lit("q"))
		bt.tops = []brigodier.CommandNode{a, brigodier.Literal("d").Redirect(a).Build(), lit("b", arg("x"))}
	default:
		panic("backend variant")
	}
	for _, t := range bt.tops {
		bt.root.AddChild(t)
	}
	var walk func(n brigodier.CommandNode)
	walk = func(n brigodier.CommandNode) {
		bt.all[n] = true
		n.ChildrenOrdered().Range(func(_ string, c brigodier.CommandNode) bool { walk(c); return true })
	}
	for _, t := range bt.tops {
		walk(t)
	}
	return bt
}

func snapshot(n brigodier.CommandNode) string {
	var sb strings.Builder
	var walk func(n brigodier.CommandNode)
	walk = func(n brigodier.CommandNode) {
		fmt.Fprintf(&sb, "%p:%T:%s:cmd=%v:req=%v:redir=%p{", n, n, n.Name(), n.Command() != nil, n.Requirement() != nil, n.Redirect())
		n.ChildrenOrdered().Range(func(_ string, c brigodier.CommandNode) bool { walk(c); return true })
		names := make([]string, 0, len(n.Children()))
		for k, c := range n.Children() {
			names = append(names, fmt.Sprintf("%s=%p", k, c))
		}
		sort.Strings(names)
		fmt.Fprintf(&sb, "}map%v", names)
	}
	walk(n)
	return sb.String()
}

// ---------- independent wire reader ----------

type wireNode struct {
	flags    byte
	children []int
	redirect int
	name     string
}

func readVarInt(b *bytes.Reader) (int, error) {
	v, err := binary.ReadUvarint(b) // Minecraft VarInt of a non-negative int32 == unsigned LEB128
	return int(v), err
}
func readStr(b *bytes.Reader) (string, error) {
	n, err := readVarInt(b)
	if err != nil {
		return "", err
	}
	buf := make([]byte, n)
	if _, err := b.Read(buf); err != nil && n > 0 {
		return "", err
	}
	return string(buf), nil
}

func parseWire(data []byte) ([]wireNode, int, error) {
	b := bytes.NewReader(data)
	n, err := readVarInt(b)
	if err != nil {
		return nil, 0, err
	}
	nodes := make([]wireNode, n)
	for i := range nodes {
		w := &nodes[i]
		w.redirect = -1
		if w.flags, err = b.ReadByte(); err != nil {
			return nil, 0, err
		}
		nc, err := readVarInt(b)
		if err != nil {
			return nil, 0, err
		}
		for k := 0; k < nc; k++ {
			c, err := readVarInt(b)
			if err != nil {
				return nil, 0, err
			}
			w.children = append(w.children, c)
		}
		if w.flags&0x08 != 0 {
			if w.redirect, err = readVarInt(b); err != nil {
				return nil, 0, err
			}
		}
		switch w.flags & 0x03 {
		case 1:
			if w.name, err = readStr(b); err != nil {
				return nil, 0, err
			}
		case 2:
			if w.name, err = readStr(b); err != nil {
				return nil, 0, err
			}
			id, err := readVarInt(b) // parser id; every argument of this harness is brigadier:bool (id 0, no properties)
			if err != nil || id != 0 {
				return nil, 0, fmt.Errorf("argument parser id %d err %v", id, err)
			}
			if w.flags&0x10 != 0 {
				if _, err = readStr(b); err != nil {
					return nil, 0, err
				}
			}
		}
	}
	rootIdx, err := readVarInt(b)
	if err != nil {
		return nil, 0, err
	}
	if b.Len() != 0 {
		return nil, 0, fmt.Errorf("%d trailing bytes", b.Len())
	}
	for _, w := range nodes {
		for _, c := range w.children {
			if c < 0 || c >= len(nodes) {
				return nil, 0, fmt.Errorf("child index %d out of range", c)
			}
		}
		if w.redirect >= len(nodes) {
			return nil, 0, fmt.Errorf("redirect index %d out of range", w.redirect)
		}
	}
	if rootIdx < 0 || rootIdx >= len(nodes) {
		return nil, 0, fmt.Errorf("root index out of range")
	}
	return nodes, rootIdx, nil
}

// canonWire / canonObj print the graph reachable from the root (children in wire/registration order,
// then redirect) with back references by first-visit number, so both views are comparable.
func canonWire(nodes []wireNode, root int) string {
	var sb strings.Builder
	seen := map[int]int{}
	var walk func(i int)
	walk = func(i int) {
		if k, ok := seen[i]; ok {
			fmt.Fprintf(&sb, "^%d", k)
			return
		}
		seen[i] = len(seen)
		w := nodes[i]
		fmt.Fprintf(&sb, "%d%s(", w.flags&0x03, w.name)
		for _, c := range w.children {
			walk(c)
			sb.WriteByte(',')
		}
		sb.WriteByte(')')
		if w.redirect >= 0 {
			sb.WriteString("->")
			walk(w.redirect)
		}
	}
	walk(root)
	return sb.String()
}

func canonObj(root brigodier.CommandNode) string {
	var sb strings.Builder
	seen := map[brigodier.CommandNode]int{}
	var walk func(n brigodier.CommandNode)
	walk = func(n brigodier.CommandNode) {
		if k, ok := seen[n]; ok {
			fmt.Fprintf(&sb, "^%d", k)
			return
		}
		seen[n] = len(seen)
		kind := 0
		switch n.(type) {
		case *brigodier.LiteralCommandNode:
			kind = 1
		case *brigodier.ArgumentCommandNode:
			kind = 2
		}
		fmt.Fprintf(&sb, "%d%s(", kind, n.Name())
		n.ChildrenOrdered().Range(func(_ string, c brigodier.CommandNode) bool {
			walk(c)
			sb.WriteByte(',')
			return true
		})
		sb.WriteByte(')')
		if n.Redirect() != nil {
			sb.WriteString("->")
			walk(n.Redirect())
		}
	}
	walk(root)
	return sb.String()
}

// ---------- one case ----------

type fail struct{ key, desc string }

func runCase(cs caseSpec) (fails []fail, classes []string) {
	s := cs.Proxy
	bad := func(key, f string, a ...any) {
		fails = append(fails, fail{key, fmt.Sprintf(f, a...) + "\ncase: " + cs.String()})
	}

	client := newVConn("client", version.Minecraft_1_20_3.Protocol, state.Play)
	cfg := &config.Config{AnnounceProxyCommands: true}
	mgr := &detEvent{}
	perms := map[string]bool{"allow": true}
	player, px := newVPlayer(client, cfg, mgr, perms)
	rec := &reqRec{player: player}
	proxyNodes := buildProxyTree(&px.command.Root, s, rec)
	c23HoldsDeny = cs.Prior == "restricted-player-first"
	if c23HoldsDeny {
		perms["deny"] = true
	}
	if cs.Prior != "" {
		// an earlier merge on the same Proxy (own backend tree, own connection); only "it must not panic" is
		// asserted about it, the subject is what the LATER merge hands to the checked player
		first := player
		switch cs.Prior {
		case "privileged-player-first":
			first, _ = newVPlayer(newVConn("client0", version.Minecraft_1_20_3.Protocol, state.Play), cfg, mgr, map[string]bool{"allow": true, "deny": true})
			first.sessionHandlerDeps = player.sessionHandlerDeps // the SAME proxy
		case "restricted-player-first":
			first, _ = newVPlayer(newVConn("client0", version.Minecraft_1_20_3.Protocol, state.Play), cfg, mgr, map[string]bool{"allow": true})
			first.sessionHandlerDeps = player.sessionHandlerDeps
		case "same-player-revoked":
			perms["deny"] = true
		default:
			panic("prior " + cs.Prior)
		}
		rec.player = first
		sc0 := &serverConnection{player: first, log: logr.Discard()}
		sc0.connection = newVConn("backend0", version.Minecraft_1_20_3.Protocol, state.Play)
		h0 := &backendPlaySessionHandler{serverConn: sc0, bungeeCordMessageResponder: bungeecord.NopMessageResponder, log: logr.Discard()}
		if panicked, pv := vrt.Catch(func() {
			h0.handleAvailableCommands(&packet.AvailableCommands{RootNode: buildBackend(cs.Backend).root})
		}); panicked {
			bad("panic", "the prior merge (%s) panicked: %v", cs.Prior, pv)
			return fails, []string{"outcome:panic"}
		}
		if cs.Prior == "same-player-revoked" {
			delete(perms, "deny")
			client.packets = nil
		}
		rec.player = player
		rec.wrongSrc = false
		for i := range rec.evals {
			rec.evals[i] = 0
		}
	}
	isProxyOriginal := map[brigodier.CommandNode]int{}
	for i, n := range proxyNodes {
		isProxyOriginal[n] = i
	}
	proxySnap := snapshot(&px.command.Root)

	bt := buildBackend(cs.Backend)
	before := map[brigodier.CommandNode]string{}
	for _, t := range bt.tops {
		before[t] = snapshot(t)
	}

	sc := &serverConnection{player: player, log: logr.Discard()}
	sc.connection = newVConn("backend", version.Minecraft_1_20_3.Protocol, state.Play)
	h := &backendPlaySessionHandler{serverConn: sc, bungeeCordMessageResponder: bungeecord.NopMessageResponder, log: logr.Discard()}
	pkt := &packet.AvailableCommands{RootNode: bt.root}

	panicked, pv := vrt.Catch(func() { h.handleAvailableCommands(pkt) })
	if panicked {
		if rs, ok := pv.(recursionSentinel); ok {
			bad("redirect-cycle/unbounded-recursion", "filterNode re-evaluated the requirement of proxy node %d more than %d times while merging ONE tree of %d nodes: "+
				"the copy recursion follows a redirect back into a node it is already copying and never terminates (in production: fatal stack overflow, the whole proxy dies)", rs.node, reqEvalLimit, len(s))
			return fails, []string{"outcome:unbounded-recursion"}
		}
		bad("panic", "handleAvailableCommands panicked: %v", pv)
		return fails, []string{"outcome:panic"}
	}
	if rec.wrongSrc {
		bad("requirement-evaluated-for-wrong-source", "a requirement was evaluated with a command source that is not the receiving player")
	}
	if snapshot(&px.command.Root) != proxySnap {
		bad("proxy-dispatcher-mutated", "merging into a player's tree changed the proxy's own command dispatcher")
	}

	// what did the player receive?
	var got *packet.AvailableCommands
	for _, p := range client.packets {
		if ac, ok := p.(*packet.AvailableCommands); ok {
			if got != nil {
				bad("sent-twice", "player received more than one AvailableCommands packet")
			}
			got = ac
		}
	}
	if got == nil {
		return fails, []string{"outcome:nothing-sent"}
	}
	root := got.RootNode

	// wire view == object view
	var buf bytes.Buffer
	if err := got.Encode(&proto.PacketContext{Protocol: version.Minecraft_1_20_3.Protocol, Direction: proto.ClientBound}, &buf); err != nil {
		bad("encode-error", "AvailableCommands written to the player does not encode: %v", err)
	} else if wn, wr, err := parseWire(buf.Bytes()); err != nil {
		bad("wire-unparseable", "independent reader rejects the encoded packet: %v", err)
	} else if a, b := canonWire(wn, wr), canonObj(root); a != b {
		bad("wire-differs-from-tree", "wire graph %s != object graph %s", a, b)
	}

	// expected top-level names
	visTop := map[string]int{}
	for i, n := range s {
		if n.Parent == -1 && visible(s, i) {
			visTop[n.Name] = i
		}
	}
	// 1. backend nodes: kept unchanged unless replaced by a received proxy node of the same name
	var keptOrder []string
	for _, t := range bt.tops {
		cur := root.Children()[t.Name()]
		if _, shadow := visTop[t.Name()]; shadow {
			if cur == t {
				bad("backend-node-not-replaced", "backend node %q is still in the tree although the player may use the proxy command of the same name", t.Name())
			}
			classes = append(classes, "shadowed-backend-node")
			continue
		}
		keptOrder = append(keptOrder, t.Name())
		if cur != t {
			bad("backend-node-lost", "backend node %q (no usable proxy command of that name) is no longer the root's child (now %v)", t.Name(), cur)
			continue
		}
		if snapshot(t) != before[t] {
			bad("backend-node-changed", "backend node %q was modified:\n before %s\n after  %s", t.Name(), before[t], snapshot(t))
		}
	}
	var gotKept []string
	root.ChildrenOrdered().Range(func(name string, n brigodier.CommandNode) bool {
		if bt.all[n] {
			gotKept = append(gotKept, name)
		}
		return true
	})
	if fmt.Sprint(gotKept) != fmt.Sprint(keptOrder) {
		bad("backend-order-changed", "kept backend nodes appear as %v, were %v", gotKept, keptOrder)
	}
	// Children()/ChildrenOrdered()/Literals() of the root must agree (the encoder mixes them)
	if len(root.Children()) != len(root.ChildrenOrdered().Keys()) {
		bad("root-maps-inconsistent", "root.Children() has %d entries, ChildrenOrdered() %d", len(root.Children()), len(root.ChildrenOrdered().Keys()))
	}

	// 2. every received node that is not a backend node must be a usable proxy node (at any depth, through redirects)
	seen := map[brigodier.CommandNode]bool{}
	nodeIdx := map[brigodier.CommandNode]int{}
	// identify: which proxy node is c a copy of? By its marker command, or - for group nodes without an executor -
	// by name under the expected parent.
	identify := func(c brigodier.CommandNode, parentSpec int) (int, bool) {
		if m, ok := c.Command().(*markCmd); ok {
			nodeIdx[c] = m.idx
			return m.idx, true
		}
		if c.Command() == nil {
			for j, sp := range s {
				if sp.NoExec && sp.Parent == parentSpec && sp.Name == c.Name() {
					nodeIdx[c] = j
					return j, true
				}
			}
		}
		return 0, false
	}
	var walk func(n brigodier.CommandNode, path string)
	walkChildren := func(n brigodier.CommandNode, specIdx int, path string) {
		present := map[int]bool{}
		if specIdx >= 0 && s[specIdx].Alias {
			specIdx = 0 // an alias shows (its own filtered view of) the children of node 0
		}
		n.ChildrenOrdered().Range(func(_ string, c brigodier.CommandNode) bool {
			if bt.all[c] {
				if specIdx != -1 {
					bad("backend-node-under-proxy-node", "%s: proxy node has backend child %q (merged instead of replaced)", path, c.Name())
				}
				return true
			}
			ci, ok := identify(c, specIdx)
			if !ok {
				bad("unknown-node", "%s: child %q is neither a backend node nor a copy of a proxy node", path, c.Name())
				return true
			}
			if s[ci].Parent != specIdx {
				bad("proxy-node-misplaced", "%s: proxy node %d (%s) appears under the wrong parent", path, ci, s[ci].Name)
			}
			present[ci] = true
			walk(c, path+"/"+c.Name())
			return true
		})
		for j, c := range s {
			if c.Parent == specIdx && usable(s, j) && !present[j] && (specIdx != -1 || visTop[c.Name] == j) {
				bad("missing-permitted-node", "%s: proxy node %d (%s) which the player may use was not merged", path, j, c.Name)
			}
		}
	}
	walk = func(n brigodier.CommandNode, path string) {
		if seen[n] {
			return
		}
		seen[n] = true
		if _, isRoot := n.(*brigodier.RootCommandNode); isRoot {
			walkChildren(n, -1, path)
			return
		}
		ni, known := nodeIdx[n]
		if !known {
			ni = n.Command().(*markCmd).idx // redirect targets always carry a marker
		}
		m := &markCmd{ni}
		sp := s[m.idx]
		if n.Name() != sp.Name || (sp.Kind == "l") != isLiteral(n) || (n.Command() == nil) != sp.NoExec {
			bad("proxy-node-altered", "%s: node %d received as %T %q, is %s %q", path, m.idx, n, n.Name(), sp.Kind, sp.Name)
		}
		if !usable(s, m.idx) {
			bad("received-forbidden-node", "%s: player received proxy node %d (%s) whose requirement it does NOT pass", path, m.idx, sp.Name)
		}
		walkChildren(n, m.idx, path)
		if rd := n.Redirect(); rd != nil {
			switch {
			case sp.Redir == -1:
				bad("spurious-redirect", "%s: node %d has a redirect the proxy node does not have", path, m.idx)
			case sp.Redir == -2:
				if _, ok := rd.(*brigodier.RootCommandNode); !ok {
					bad("redirect-target-wrong", "%s: redirect should lead to a root node, leads to %T %q", path, rd, rd.Name())
				} else if rd == brigodier.CommandNode(&player.proxy.command.Root) {
					// the proxy's own unfiltered root would expose every forbidden node
					walk(rd, path+"=>root")
				} else {
					walk(rd, path+"=>root")
				}
			default:
				rm, ok := rd.Command().(*markCmd)
				if !ok || rm.idx != sp.Redir {
					bad("redirect-target-wrong", "%s: redirect leads to %q, not to (a copy of) proxy node %d", path, rd.Name(), sp.Redir)
				} else {
					walk(rd, path+"=>"+rd.Name())
				}
			}
			classes = append(classes, "redirect-received")
		}
	}
	// the root level: proxy nodes among the root's children
	root.ChildrenOrdered().Range(func(name string, n brigodier.CommandNode) bool {
		if bt.all[n] {
			return true
		}
		ti, ok := identify(n, -1)
		if !ok {
			bad("unknown-node", "root child %q is neither a backend node nor a copy of a proxy node", name)
			return true
		}
		if s[ti].Parent != -1 {
			bad("proxy-node-misplaced", "nested proxy node %d (%s) appears at top level", ti, s[ti].Name)
		}
		walk(n, "/"+name)
		return true
	})
	for name, i := range visTop {
		if n := root.Children()[name]; n == nil || bt.all[n] {
			bad("missing-permitted-node", "top-level proxy command %d (%s) which the player may use was not merged", i, name)
		}
	}
	classes = append(classes, "outcome:sent")
	return fails, classes
}

func isLiteral(n brigodier.CommandNode) bool { _, ok := n.(*brigodier.LiteralCommandNode); return ok }

func caseClasses(cs caseSpec) []string {
	s := cs.Proxy
	cl := []string{fmt.Sprintf("backend#%d", cs.Backend)}
	if cs.Prior != "" {
		cl = append(cl, "prior:"+cs.Prior)
	}
	for _, n := range s {
		if n.Alias {
			cl = append(cl, "alias-shares-children")
		}
		if n.NoExec {
			cl = append(cl, "group-node-without-executor")
			break
		}
	}
	tops, denTop, denNested, hidden, redirs := 0, 0, 0, 0, 0
	for i, n := range s {
		if n.Parent == -1 {
			tops++
			if n.Req == "d" {
				denTop++
			}
		} else if n.Req == "d" {
			denNested++
		}
		if usable(s, i) && !visible(s, i) {
			hidden++
		}
		if n.Redir != -1 {
			redirs++
			switch {
			case n.Redir == -2:
				cl = append(cl, "redirect->root")
			case s[n.Redir].Parent == -1:
				cl = append(cl, "redirect->top-level")
			default:
				cl = append(cl, "redirect->nested")
			}
			if n.Redir >= 0 && !usable(s, n.Redir) {
				cl = append(cl, "redirect->forbidden-target")
			}
			if n.Redir >= 0 && usable(s, n.Redir) && !visible(s, n.Redir) {
				cl = append(cl, "redirect->usable-target-under-forbidden-parent")
			}
		}
	}
	cl = append(cl, fmt.Sprintf("top-level=%d", tops), fmt.Sprintf("redirects=%d", redirs))
	if denTop > 0 {
		cl = append(cl, "forbidden-top-level")
	}
	if denNested > 0 {
		cl = append(cl, "forbidden-nested")
	}
	if hidden > 0 {
		cl = append(cl, "usable-node-under-forbidden-parent")
	}
	if cyclic(s) {
		cl = append(cl, "redirect-cycle")
	}
	return cl
}

// forEachExtraCase: dimensions beyond "one fresh proxy, one tree-shaped dispatcher".
func forEachExtraCase(thorough bool, f func(cs caseSpec)) {
	reqs := []string{"n", "d"}
	if thorough {
		reqs = []string{"n", "y", "d"}
	}
	// (1) alias DAG: every single-command tree a{...} plus a top-level alias b sharing a's child objects,
	// the alias having its own requirement; every backend variant.
	for _, a := range subtrees("a", reqs) {
		for _, rq := range reqs {
			t := append(append([]nspec(nil), a...), nspec{Parent: -1, Kind: "l", Name: "b", Req: rq, Redir: -1, Alias: true})
			for b := 0; b < nBackends; b++ {
				f(caseSpec{Proxy: t, Backend: b})
			}
		}
	}
	// (3) group nodes: every tree of the family WITHOUT redirects in which some node has children, with every such
	// node being a pure group (no executor of its own - "has an executor" is the other optional attribute a node
	// builder copies besides requirement and redirect); every backend variant.
	forEachProxyTree(thorough, func(t []nspec) {
		grp := append([]nspec(nil), t...)
		any := false
		for i := range grp {
			if grp[i].Redir != -1 {
				return
			}
			if hasChildren(grp, i) {
				grp[i].NoExec = true
				any = true
			}
		}
		if !any {
			return
		}
		for b := 0; b < nBackends; b++ {
			f(caseSpec{Proxy: grp, Backend: b})
		}
	})
	// (2) an earlier merge on the same Proxy: every tree of the tier's family with <= 4 (thorough: 5) nodes,
	// backend variants 0 and 5, every prior.
	maxNodes := 4
	if thorough {
		maxNodes = 5
	}
	forEachProxyTree(thorough, func(t []nspec) {
		if len(t) == 0 || len(t) > maxNodes {
			return
		}
		for _, pr := range priors {
			for _, b := range []int{0, 5} {
				f(caseSpec{Proxy: t, Backend: b, Prior: pr})
			}
		}
	})
}

func TestVerif(t *testing.T) {
	vrt.Run(t, "C23", func(r *vrt.R) {
		report := func(cs caseSpec) {
			fails, classes := runCase(cs)
			r.Eval(1)
			for _, c := range caseClasses(cs) {
				r.Class(c)
			}
			for _, c := range classes {
				r.Class(c)
			}
			for _, f := range fails {
				r.Violation(f.key, f.desc, cs)
			}
		}
		var rp caseSpec
		if r.ReplayInto(&rp) {
			report(rp)
			return
		}
		idx := 0
		stop := false
		forEachProxyTree(r.Thorough(), func(tr []nspec) {
			if stop {
				return
			}
			for b := 0; b < nBackends; b++ {
				idx++
				if !r.Mine(idx) {
					continue
				}
				if idx%512 == 0 && r.Expired() {
					stop = true
					return
				}
				cs := caseSpec{Proxy: tr, Backend: b}
				report(cs)
				// non-trivial: the filter has something to hide and something to show
				den, vis := false, false
				for i := range tr {
					den = den || !usable(tr, i)
					vis = vis || visible(tr, i)
				}
				if den && vis {
					r.Nontrivial(1)
				}
				if idx%9973 == 0 {
					r.Sample(cs.String())
				}
			}
		})
		if os.Getenv("VERIF_SKIP_NEW") != "" { // mutant bookkeeping only: shows that a mutant is caught by the added dimensions alone
			r.NotExhaustive("VERIF_SKIP_NEW set: alias/prior-merge cases skipped")
			return
		}
		forEachExtraCase(r.Thorough(), func(cs caseSpec) {
			idx++
			if stop || !r.Mine(idx) {
				return
			}
			if idx%512 == 0 && r.Expired() {
				stop = true
				return
			}
			report(cs)
			c23HoldsDeny = cs.Prior == "restricted-player-first"
			den, vis := false, false
			for i := range cs.Proxy {
				den = den || !usable(cs.Proxy, i)
				vis = vis || visible(cs.Proxy, i)
			}
			if den && vis {
				r.Nontrivial(1)
			}
			if idx%4999 == 0 {
				r.Sample(cs.String())
			}
		})
	})
}
