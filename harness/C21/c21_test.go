package proxy

// C21 - secure-chat packets keep client order and conserve acknowledgements.
//
// Engine bfs x sched on the REAL chatQueue / ChatState / chatHandler / clientPlaySessionHandler:
//   * bfs enumerates client packet sequences over {chat(off), command without signatures(off, outcome),
//     signed command(off, outcome), unsigned command(outcome), ack(off)}, each optionally followed by
//     "the queue drains before the next client packet" (the coarse completion orders);
//   * every sequence is executed under the controlled scheduler: the chat queue uses `go` + futures
//     (mutexes, no channels), so with proxy, netmc and internal/future instrumented every spawned
//     goroutine (command-result goroutine, packet writers) is a scheduler thread and every mutex/atomic
//     operation a scheduling point; all schedules within the preemption bound are explored.
// Reference model: two integers (acks the client sent, acks the backend received) + the client order.

import (
	"encoding/json"
	"fmt"
	"os"
	"sort"
	"strconv"
	"strings"
	"testing"
	"time"

	"github.com/go-logr/logr"
	"github.com/robinbraemer/event"
	"go.minekube.com/brigodier"

	"go.minekube.com/gate/pkg/command"
	"go.minekube.com/gate/pkg/edition/java/config"
	"go.minekube.com/gate/pkg/edition/java/proto/packet/chat"
	"go.minekube.com/gate/pkg/edition/java/proto/state"
	"go.minekube.com/gate/pkg/edition/java/proto/version"
	"go.minekube.com/gate/pkg/edition/java/proxy/zzverif/bfs"
	"go.minekube.com/gate/pkg/edition/java/proxy/zzverif/sched"
	"go.minekube.com/gate/pkg/edition/java/proxy/zzverif/schedrun"
	"go.minekube.com/gate/pkg/edition/java/proxy/zzverif/vrt"
	"go.minekube.com/gate/pkg/gate/proto"
)

// cqOp is one client packet. Text form: kind[:outcome]:offset[+d]  e.g. "chat:3", "cmd:run:0+d", "ack:21".
type cqOp string

type cqParsed struct {
	kind  string // chat | mchat / smchat (unsigned / signed chat whose text the PlayerChatEvent rewrites) | cmd (SessionPlayerCommand without signatures) | sig (with signatures) | ucmd (UnsignedPlayerCommand) | ack | spoof (NOT a client packet: the proxy injects a chat message through Player.SpoofChatInput)
	out   string // fwd (unknown to the proxy -> forwarded) | run (proxy command, consumed) | deny | mod (event rewrites) | ef (event sets forward)
	off   int
	drain bool
}

func (o cqOp) parse() cqParsed {
	s := string(o)
	p := cqParsed{}
	if strings.HasSuffix(s, "+d") {
		p.drain = true
		s = strings.TrimSuffix(s, "+d")
	}
	f := strings.Split(s, ":")
	p.kind = f[0]
	switch p.kind {
	case "chat", "ack", "mchat", "smchat":
		p.off, _ = strconv.Atoi(f[1])
	case "spoof":
	case "ucmd":
		p.out = f[1]
	default:
		p.out = f[1]
		p.off, _ = strconv.Atoi(f[2])
	}
	return p
}

// ackContribution = what the client acknowledged with this packet.
func (p cqParsed) ackContribution() int {
	if p.kind == "ucmd" || p.kind == "spoof" {
		return 0
	}
	return p.off
}

var cqT0 = time.Unix(1_700_000_000, 0)

func (p cqParsed) packet(i int) proto.Packet {
	switch p.kind {
	case "chat":
		return &chat.SessionPlayerChat{Message: fmt.Sprintf("m %d", i), Timestamp: cqT0, LastSeenMessages: chat.LastSeenMessages{Offset: p.off}}
	case "mchat":
		return &chat.SessionPlayerChat{Message: fmt.Sprintf("modc %d", i), Timestamp: cqT0, LastSeenMessages: chat.LastSeenMessages{Offset: p.off}}
	case "smchat": // SIGNED chat message that the event rewrites: force => disconnect (history ends), no force => forwarded rewritten
		return &chat.SessionPlayerChat{Message: fmt.Sprintf("modc %d", i), Signed: true, Signature: make([]byte, 256), Salt: 7, Timestamp: cqT0, LastSeenMessages: chat.LastSeenMessages{Offset: p.off}}
	case "cmd":
		return &chat.SessionPlayerCommand{Command: fmt.Sprintf("%s %d", p.out, i), Timestamp: cqT0, LastSeenMessages: chat.LastSeenMessages{Offset: p.off}}
	case "sig":
		return &chat.SessionPlayerCommand{Command: fmt.Sprintf("%s %d", p.out, i), Timestamp: cqT0, Salt: 7,
			ArgumentSignatures: chat.ArgumentSignatures{Entries: []chat.ArgumentSignature{{Name: "msg", Signature: make([]byte, 256)}}},
			LastSeenMessages:   chat.LastSeenMessages{Offset: p.off}}
	case "ucmd":
		return &chat.UnsignedPlayerCommand{SessionPlayerCommand: chat.SessionPlayerCommand{Command: fmt.Sprintf("%s %d", p.out, i), Timestamp: cqT0}}
	case "ack":
		return &chat.ChatAcknowledgement{Offset: p.off}
	}
	panic("kind " + p.kind)
}

// ---------- world ----------

type cqWorld struct {
	protocol  proto.Protocol
	player    *connectedPlayer
	client    *vconn
	backend   *vconn
	h         *clientPlaySessionHandler
	ops       []cqParsed
	cum       []int // cumulative client acknowledgements after packet i
	clientAck int   // acknowledged by the client so far (packets handed to the proxy)
	fedAll    bool
	force     bool // forceKeyAuthentication
}

func newCQWorld(protocol proto.Protocol, hist []cqOp) *cqWorld {
	return newCQWorldCfg(protocol, true, hist)
}

func newCQWorldCfg(protocol proto.Protocol, force bool, hist []cqOp) *cqWorld {
	w := &cqWorld{protocol: protocol, force: force}
	w.client = newVConn("client", protocol, state.Play)
	w.backend = newVConn("backend", protocol, state.Play)
	mgr := &detEvent{}
	event.Subscribe(mgr, 0, func(e *CommandExecuteEvent) {
		c := e.Command()
		switch {
		case strings.HasPrefix(c, "deny"):
			e.SetAllowed(false)
		case strings.HasPrefix(c, "mod"):
			e.SetCommand("r" + strings.TrimPrefix(c, "mod"))
		case strings.HasPrefix(c, "ef"):
			e.SetForward(true)
		}
	})
	event.Subscribe(mgr, 0, func(e *PlayerChatEvent) {
		if m := e.Message(); strings.HasPrefix(m, "modc") {
			e.SetMessage("r" + strings.TrimPrefix(m, "modc"))
		}
	})
	cfg := &config.Config{ForceKeyAuthentication: force}
	var px *Proxy
	w.player, px = newVPlayer(w.client, cfg, mgr, nil)
	px.Command().Register(brigodier.Literal("run").Then(brigodier.Argument("i", brigodier.Int).Executes(command.Command(func(*command.Context) error { return nil }))))
	sc := &serverConnection{player: w.player, log: logr.Discard()}
	sc.connection = w.backend
	w.player.connectedServer_ = sc
	w.h = newClientPlaySessionHandler(w.player)
	sum := 0
	for _, o := range hist {
		p := o.parse()
		w.ops = append(w.ops, p)
		sum += p.ackContribution()
		w.cum = append(w.cum, sum)
	}
	return w
}

// backendAck = acknowledgements the backend has received so far: explicit ChatAcknowledgement
// offsets plus the offsets carried by forwarded chat / command packets.
func (w *cqWorld) backendAck() int {
	n := 0
	for _, p := range w.backend.packets {
		switch t := p.(type) {
		case *chat.ChatAcknowledgement:
			n += t.Offset
		case *chat.SessionPlayerChat:
			n += t.LastSeenMessages.Offset
		case *chat.SessionPlayerCommand:
			n += t.LastSeenMessages.Offset
		}
	}
	return n
}

// drain parks the client thread until everything queued so far has been written.
func (w *cqWorld) drain() {
	cq := w.player.chatQueue
	cq.internalLock.Lock()
	head := cq.head
	cq.internalLock.Unlock()
	done := false
	head.ThenAccept(func(any) { done = true })
	for !done {
		sched.Yield()
	}
}

func idxOf(s string) int {
	f := strings.Fields(s)
	if len(f) < 2 {
		return -1
	}
	i, err := strconv.Atoi(f[len(f)-1])
	if err != nil {
		return -1
	}
	return i
}

// body is one execution under the scheduler.
func (w *cqWorld) body(x *sched.X) {
	x.OnPoint(func() {
		if b := w.backendAck(); b > w.clientAck {
			x.Fail("backend-ack-exceeds-client", "backend has received %d acknowledgements, the client acknowledged only %d so far; backend stream %s", b, w.clientAck, w.stream())
		}
	})
	x.AtEnd(func() { w.finalCheck(x) })
	for i, p := range w.ops {
		w.clientAck += p.ackContribution()
		if p.kind == "spoof" {
			if err := w.player.SpoofChatInput(fmt.Sprintf("s %d", i)); err != nil {
				x.Fail("spoof-error", "SpoofChatInput: %v", err)
			}
		} else {
			w.h.HandlePacket(&proto.PacketContext{Direction: proto.ServerBound, Protocol: w.protocol, Packet: p.packet(i), Payload: []byte{0}})
		}
		if p.drain {
			w.drain()
		}
	}
	w.fedAll = true
}

func (w *cqWorld) stream() string {
	var parts []string
	for _, p := range w.backend.packets {
		switch t := p.(type) {
		case *chat.ChatAcknowledgement:
			parts = append(parts, fmt.Sprintf("Ack(%d)", t.Offset))
		case *chat.SessionPlayerChat:
			parts = append(parts, fmt.Sprintf("Chat(%q,off=%d)", t.Message, t.LastSeenMessages.Offset))
		case *chat.SessionPlayerCommand:
			parts = append(parts, fmt.Sprintf("Cmd(%q,off=%d,signed=%v)", t.Command, t.LastSeenMessages.Offset, t.Signed()))
		case *chat.UnsignedPlayerCommand:
			parts = append(parts, fmt.Sprintf("UnsignedCmd(%q)", t.Command))
		default:
			parts = append(parts, fmt.Sprintf("%T", p))
		}
	}
	return "[" + strings.Join(parts, " ") + "]"
}

func (w *cqWorld) disconnected() bool { return w.client.ctx.Err() != nil }

// lossyBefore: with forceKeyAuthentication off, is there a signed command at or before client packet idx whose
// handling has no packet to carry its last-seen update (consumed by a proxy command, denied by the event, or -
// for 1.20.5+ where rewritten commands become UnsignedPlayerCommand - rewritten)? Returns the violation key.
func (w *cqWorld) lossyBefore(idx int) string {
	if w.force {
		return ""
	}
	for i := 0; i <= idx && i < len(w.ops); i++ {
		if o := w.ops[i]; o.kind == "sig" && (o.out == "deny" || o.out == "run" || (o.out == "mod" && w.protocol.GreaterEqual(version.Minecraft_1_20_5))) {
			return "signed-command-" + o.out + "-without-force-drops-acks"
		}
	}
	return ""
}

func (w *cqWorld) finalCheck(x *sched.X) {
	desc := func() string {
		var cl []string
		for i, p := range w.ops {
			cl = append(cl, fmt.Sprintf("%d:%s:%s:%d(cum %d)", i, p.kind, p.out, p.off, w.cum[i]))
		}
		return fmt.Sprintf("client %v\nbackend %s", cl, w.stream())
	}
	if !w.fedAll {
		x.Fail("client-thread-did-not-finish", "the client read loop did not get through the history")
		return
	}
	disc := w.disconnected()
	backendAck, lastIdx, missed := 0, -1, false
	for _, pk := range w.backend.packets {
		idx, off, carries := -1, 0, false
		switch t := pk.(type) {
		case *chat.ChatAcknowledgement:
			backendAck += t.Offset
			if t.Offset < 0 {
				x.Fail("negative-ack", "backend received ChatAcknowledgement(%d)\n%s", t.Offset, desc())
			}
			continue
		case *chat.SessionPlayerChat:
			idx, off, carries = idxOf(t.Message), t.LastSeenMessages.Offset, true
		case *chat.SessionPlayerCommand:
			idx, off, carries = idxOf(t.Command), t.LastSeenMessages.Offset, true
		case *chat.UnsignedPlayerCommand:
			idx = idxOf(t.Command)
		default:
			x.Fail("unexpected-backend-packet", "%T\n%s", pk, desc())
			continue
		}
		if idx < 0 || idx >= len(w.ops) {
			x.Fail("unattributable-packet", "backend packet cannot be attributed to a client packet\n%s", desc())
			continue
		}
		if idx <= lastIdx {
			x.Fail("order", "backend received the packet of client packet %d after that of client packet %d\n%s", idx, lastIdx, desc())
		}
		lastIdx = idx
		org := w.ops[idx]
		if org.kind == "ucmd" && carries {
			x.Fail("unsigned-command-carries-last-seen", "client packet %d was an UnsignedPlayerCommand (no last-seen update); the backend received %T with offset %d\n%s", idx, pk, off, desc())
		}
		if org.kind == "spoof" {
			// proxy-made packet: takes its place in the order; whatever offset it carries counts (never-exceeds is
			// checked at every point), but it is not a forwarded client packet, so no catch-up is demanded of it
			backendAck += off
			continue
		}
		if carries {
			backendAck += off
			if backendAck != w.cum[idx] && !disc {
				missed = true
				if k := w.lossyBefore(idx); k != "" {
					// one root cause with its own identity: without forceKeyAuthentication a signed command that the
					// proxy consumes / a plugin denies (or, for 1.20.5+, rewrites) is dropped together with the
					// acknowledgements it carries
					x.Fail(k, "after forwarding client packet %d (%s %s off=%d) the backend has received %d acknowledgements but the client had acknowledged %d: the acknowledgements carried by an earlier signed command were dropped\n%s",
						idx, org.kind, org.out, org.off, backendAck, w.cum[idx], desc())
					continue
				}
				x.Fail("no-catch-up@"+strings.TrimSuffix(org.kind+"-"+org.out, "-"), "after forwarding client packet %d (%s %s off=%d), which carries a last-seen update, the backend has received %d acknowledgements but the client had acknowledged %d\n%s",
					idx, org.kind, org.out, org.off, backendAck, w.cum[idx], desc())
			}
		}
	}
	total := 0
	if len(w.cum) > 0 {
		total = w.cum[len(w.cum)-1]
	}
	lag := total - backendAck
	if lag < 0 {
		x.Fail("backend-ack-exceeds-client", "at quiescence the backend received %d acknowledgements, the client acknowledged %d\n%s", backendAck, total, desc())
	}
	if k := w.lossyBefore(len(w.ops) - 1); lag >= 40 && !disc && !missed && k != "" {
		x.Fail(k, "at quiescence the backend lags the client by %d acknowledgements (client %d, backend %d)\n%s", lag, total, backendAck, desc())
	} else if lag >= 40 && !disc && !missed { // a missed catch-up was already reported with its own key
		x.Fail("lag>=40", "at quiescence the backend lags the client by %d acknowledgements (client %d, backend %d)\n%s", lag, total, backendAck, desc())
	}
	x.Outcome(fmt.Sprintf("delayed=%d lag=%d disc=%v", w.player.chatQueue.chatState.delayedAckCount.Load(), lag, disc))
}

// ---------- bfs x sched ----------

type cqFamily struct {
	name     string
	protocol proto.Protocol
	packets  []string
	noforce  bool // forceKeyAuthentication: false
}

func cqFamilies(thorough bool) []cqFamily {
	f := []cqFamily{
		{"1.20.3", version.Minecraft_1_20_3.Protocol, []string{
			"chat:0", "chat:1", "chat:3", "ack:0", "ack:1", "ack:19", "ack:21", "ack:40",
			"cmd:fwd:0", "cmd:fwd:3", "cmd:run:0", "cmd:run:3", "cmd:deny:0", "cmd:deny:3", "cmd:mod:0", "cmd:mod:3", "cmd:ef:3",
			"sig:fwd:1", "sig:deny:1", "mchat:1", "spoof", "smchat:1"}, false},
		{"1.21", version.Minecraft_1_21.Protocol, []string{
			"chat:0", "chat:1", "chat:3", "ack:0", "ack:1", "ack:19", "ack:21", "ack:40",
			"ucmd:fwd", "ucmd:run", "ucmd:deny", "ucmd:mod", "ucmd:ef",
			"sig:fwd:1", "sig:run:1", "mchat:3", "spoof"}, false},
		// forceKeyAuthentication off: a signed command that is denied / consumed / rewritten does NOT disconnect,
		// the history goes on
		{"1.20.3-noforce", version.Minecraft_1_20_3.Protocol, []string{
			"chat:1", "ack:19", "ack:21", "sig:fwd:1", "sig:deny:1", "sig:run:1", "sig:mod:1", "cmd:run:3", "smchat:1"}, true},
		{"1.21-noforce", version.Minecraft_1_21.Protocol, []string{
			"chat:1", "ack:19", "ack:21", "sig:fwd:1", "sig:deny:1", "sig:run:1", "sig:mod:1", "ucmd:run"}, true},
	}
	if thorough {
		f[0].packets = append(f[0].packets, "sig:run:1", "sig:mod:1", "sig:fwd:0", "cmd:ef:0")
		f[1].packets = append(f[1].packets, "sig:deny:1", "sig:mod:1")
		f[2].packets = append(f[2].packets, "ack:40", "mchat:1", "cmd:mod:3", "sig:fwd:0")
		f[3].packets = append(f[3].packets, "ack:40", "mchat:1", "ucmd:mod", "sig:fwd:0")
	}
	if os.Getenv("VERIF_SKIP_NEW") != "" { // mutant bookkeeping only: the enumeration before the no-force / rewritten-chat / spoof dimensions
		f = f[:2]
		for i := range f {
			var keep []string
			for _, p := range f[i].packets {
				if !strings.HasPrefix(p, "mchat") && !strings.HasPrefix(p, "smchat") && p != "spoof" && p != "ack:0" {
					keep = append(keep, p)
				}
			}
			f[i].packets = keep
		}
	}
	return f
}

func (f cqFamily) ops() []cqOp {
	var ops []cqOp
	for _, p := range f.packets {
		ops = append(ops, cqOp(p))
	}
	for _, p := range f.packets {
		ops = append(ops, cqOp(p+"+d"))
	}
	return ops
}

// boundFor: preemption bound as a function of the history length.
func boundFor(thorough bool, n int) int {
	if thorough {
		switch {
		case n <= 2:
			return 2
		case n <= 4:
			return 1
		}
		return 0
	}
	switch {
	case n <= 1:
		return 2
	case n <= 3:
		return 1
	}
	return 0
}

type cqStats struct{ schedules, decisions int64 }

func runCQHistory(r *vrt.R, fam cqFamily, st *cqStats, fixedBound int) func(h []cqOp) bfs.Outcome {
	return func(h []cqOp) bfs.Outcome {
		if r.Expired() { // soft deadline: do not start another exploration
			return bfs.Outcome{Terminal: true, Key: "incomplete:" + fmt.Sprint(h)}
		}
		bound := fixedBound
		if bound == -2 {
			bound = boundFor(r.Thorough(), len(h))
		}
		res := sched.Explore(sched.Options{Bound: bound, Deadline: r.DeadlineTime()}, func(x *sched.X) {
			newCQWorldCfg(fam.protocol, !fam.noforce, h).body(x)
		})
		st.schedules += res.Executions
		st.decisions += res.Decisions
		var out bfs.Outcome
		if len(res.Failures) > 0 {
			keys := make([]string, 0, len(res.Failures))
			for k := range res.Failures {
				keys = append(keys, k)
			}
			sort.Strings(keys)
			pick := keys[0]
			for _, k := range keys {
				if strings.HasPrefix(k, "panic:") { // a panic is the root cause; hangs / unfinished client thread follow from it
					pick = k
					break
				}
			}
			f := res.Failures[pick]
			out.FailKey = pick
			if strings.HasPrefix(pick, "panic:") {
				// stable identity: which thread (main = client read loop, tN = a queue goroutine) panicked is schedule dependent
				if parts := strings.SplitN(pick, ":", 3); len(parts) == 3 {
					out.FailKey = "panic:" + parts[2]
				}
			}
			out.FailDesc = fmt.Sprintf("player %s, preemption bound %d, schedule %v (%d of %d schedules)\n%s", fam.name, bound, f.Choices, res.FailCount[pick], res.Executions, f.Desc)
			return out
		}
		if !res.Exhaustive {
			out.Terminal = true
			out.Key = "incomplete:" + fmt.Sprint(h)
			return out
		}
		outs := make([]string, 0, len(res.Outcomes))
		for o := range res.Outcomes {
			outs = append(outs, o)
		}
		sort.Strings(outs)
		out.Key = strings.Join(outs, " | ")
		out.Obs = out.Key
		out.Terminal = strings.Contains(out.Key, "disc=true")
		return out
	}
}

// deep scenarios: fixed sequences explored with a higher preemption bound.
func cqDeepScenarios() []schedrun.Scenario {
	mk := func(name string, protocol proto.Protocol, q, t int, hist ...cqOp) schedrun.Scenario {
		return schedrun.Scenario{Name: name, Quick: q, Thorough: t, Body: func(x *sched.X) { newCQWorld(protocol, hist).body(x) }}
	}
	p1, p2 := version.Minecraft_1_20_3.Protocol, version.Minecraft_1_21.Protocol
	return []schedrun.Scenario{
		mk("deep:ack19-consumed-cmd-chat", p1, 2, 3, "ack:19", "cmd:run:3", "chat:1"),
		mk("deep:chat-fwdcmd-ack21-ack21-chat", p1, 2, 2, "chat:1", "cmd:fwd:3", "ack:21", "ack:21", "chat:3"),
		mk("deep:denied-cmd-between-chats", p1, 2, 3, "chat:3", "cmd:deny:3", "chat:1"),
		mk("deep:unsigned-cmd-keeps-held-acks", p2, 2, 3, "ack:19", "ucmd:fwd", "ucmd:run", "chat:1"),
		mk("deep:signed-cmd-after-acks", p2, 2, 3, "ack:21", "ack:19", "sig:fwd:1", "chat:0"),
		// a spoofed (proxy-made) chat leaves the quiescent state unchanged, so the BFS never EXTENDS a history that
		// ends in one: what follows a spoofed packet without a drain in between is explored here
		mk("deep:spoof-between-chats", p1, 2, 3, "chat:1", "spoof", "chat:3"),
		mk("deep:acks-spoof-chat", p2, 2, 3, "ack:19", "spoof", "chat:1", "spoof"),
		mk("deep:rewritten-chat-between-acks", p1, 2, 3, "ack:19", "mchat:1", "ack:21", "chat:0"),
		// quantifier audit: offset 0 is the edge of "non-negative offsets" (an ack:0 leaves the quiescent state unchanged,
		// so the BFS only ever has it LAST); the exact protocol versions of the two gates the code distinguishes
		// (1.19.3 = first session-chat version, 1.20.5 = first version with UnsignedPlayerCommand)
		mk("deep:zero-ack-between-acks", p1, 2, 3, "ack:19", "ack:0", "ack:21", "chat:1"),
		mk("deep:1.19.3:ack19-consumed-cmd-chat", version.Minecraft_1_19_3.Protocol, 2, 3, "ack:19", "cmd:run:3", "cmd:mod:0", "chat:1"),
		mk("deep:1.20.5:unsigned-cmd-keeps-held-acks", version.Minecraft_1_20_5.Protocol, 2, 3, "ack:19", "ucmd:fwd", "ucmd:run", "sig:fwd:1"),
	}
}

func TestVerif(t *testing.T) {
	vrt.Run(t, "C21", func(r *vrt.R) {
		fams := cqFamilies(r.Thorough())
		if raw := r.Replay(); raw != nil {
			var probe struct {
				Scenario string `json:"scenario"`
			}
			_ = json.Unmarshal(raw, &probe)
			if strings.HasPrefix(probe.Scenario, "bfs:") {
				var rd bfs.ReplayData[cqOp]
				r.ReplayInto(&rd)
				for _, fam := range fams {
					if "bfs:"+fam.name == rd.Scenario {
						out := runCQHistory(r, fam, &cqStats{}, -2)(rd.History)
						r.Eval(1)
						if out.FailKey != "" {
							r.Violation(rd.Scenario+"/"+out.FailKey, fmt.Sprintf("history %v\n%s", rd.History, out.FailDesc), rd)
						}
					}
				}
				return
			}
			schedrun.Run(r, cqDeepScenarios())
			return
		}
		depth := 4
		if r.Thorough() {
			depth = 6
		}
		// the small no-force families first: under the soft deadline each family gets an equal share of what is LEFT,
		// so what they do not use goes to the two large families
		sort.SliceStable(fams, func(i, j int) bool { return fams[i].noforce && !fams[j].noforce })
		for fi, fam := range fams {
			st := &cqStats{}
			// under the soft deadline every family (and the deep scenarios after them) gets its share of what is left
			dl := r.DeadlineTime()
			if !dl.IsZero() {
				if left := time.Until(dl); left > 0 {
					dl = time.Now().Add(left * 9 / 10 / time.Duration(len(fams)-fi)) // the deep scenarios need seconds: 10% is kept for them
				}
			}
			res := bfs.Explore(bfs.Config[cqOp]{Name: "bfs:" + fam.name, Ops: fam.ops(), Depth: depth, Run: runCQHistory(r, fam, st, -2),
				Enabled: func(h []cqOp, op cqOp) bool { return true },
				Shard:   r.Shard, NShards: r.NShards, Deadline: dl})
			res.Merge(r, "bfs:"+fam.name)
			r.AddExtra("schedules", st.schedules)
			r.AddExtra("scheduling_decisions", st.decisions)
			for o, n := range res.Outcomes {
				if strings.Contains(o, "|") {
					r.ClassN("schedule-dependent-final-state", n)
				}
				if strings.Contains(o, "disc=true") {
					r.ClassN("ended-in-disconnect", n)
				}
				if !strings.Contains(o, "delayed=0 ") {
					r.ClassN("acks-held-at-quiescence", n)
				}
			}
		}
		deep := cqDeepScenarios()
		if os.Getenv("VERIF_SKIP_NEW") != "" {
			deep = deep[:5]
		}
		schedrun.Run(r, deep)
	})
}
