package proxy

import (
	"context"
	"fmt"
	"sort"
	"strings"
	"testing"
	"testing/synctest"
	"time"

	"go.minekube.com/common/minecraft/component"
	"go.minekube.com/gate/pkg/edition/java/proto/packet"
	"go.minekube.com/gate/pkg/edition/java/proto/state"
	"go.minekube.com/gate/pkg/edition/java/proto/state/states"
	"go.minekube.com/gate/pkg/edition/java/proto/version"
	"go.minekube.com/gate/pkg/edition/java/proxy/zzverif/bfs"
	"go.minekube.com/gate/pkg/edition/java/proxy/zzverif/vrt"
	"go.minekube.com/gate/pkg/gate/proto"
)

// event alphabet
type c16Ev struct {
	Kind   string // connect | connect-while-inflight | connect-current | kick-play | close-play
	Target string // server for connect
	Answer string // accept | refuse | disc-login | close-login | disc-after-login | silent
}

func (e c16Ev) String() string {
	return strings.TrimSuffix(fmt.Sprintf("%s(%s,%s)", e.Kind, e.Target, e.Answer), "(,)")
}

type c16Case struct {
	Protocol int
	History  []c16Ev
	Try      []string // try list of the world (default a,b)
}

type connectResult struct {
	target string
	status ConnectionStatus
	err    error
	done   bool
	ok     bool // ConnectWithIndication's verdict
}

type c16Run struct {
	t        *testing.T
	w        *kWorld
	cl       *kPeer
	protocol proto.Protocol
	player   *connectedPlayer
	results  []*connectResult
	current  string // model: name of the expected current server ("" unknown/none, "?" don't care)
	failKey  string
	failDesc string
}

func (r *c16Run) fail(k, f string, a ...any) {
	if r.failKey == "" {
		r.failKey, r.failDesc = k, fmt.Sprintf(f, a...)
	}
}

// connect issues a request. plain=true uses Connect (the caller handles errors; used where the returned
// status is asserted), plain=false uses ConnectWithIndication (the proxy's built-in failure handling).
func (r *c16Run) connect(target string, plain bool) *connectResult {
	res := &connectResult{target: target}
	r.results = append(r.results, res)
	srv := r.w.p.Server(target)
	go func() {
		ctx, cancel := context.WithTimeout(context.Background(), 5*time.Second)
		defer cancel()
		if plain {
			cr, err := r.player.CreateConnectionRequest(srv).Connect(ctx)
			if err == nil && cr != nil {
				res.status = cr.Status()
				res.ok = cr.Status() == SuccessConnectionStatus
			}
			res.err = err
		} else {
			res.ok = r.player.CreateConnectionRequest(srv).ConnectWithIndication(ctx)
		}
		res.done = true
	}()
	synctest.Wait()
	return res
}

func (r *c16Run) disconnectPacket(b *kPeer, st *state.Registry, s states.State) {
	b.sendPacket(st, proto.ClientBound, packet.NewDisconnect(&component.Text{Content: "scripted kick"}, r.protocol, s))
}

// openBackends lists backend connections the proxy has not closed, as "server#n".
func (r *c16Run) openBackends() []string {
	var out []string
	for _, s := range r.w.servers {
		for _, b := range s.conns {
			if !b.conn.ClosedByProxy() {
				out = append(out, b.name)
			}
		}
	}
	sort.Strings(out)
	return out
}

func (r *c16Run) listedOn() []string {
	var out []string
	for _, rs := range r.w.p.Servers() {
		found := false
		rs.Players().Range(func(p Player) bool {
			if p.ID() == r.player.ID() {
				found = true
			}
			return true
		})
		if found {
			out = append(out, rs.ServerInfo().Name())
		}
	}
	sort.Strings(out)
	return out
}

// checkQuiescent evaluates the invariants that must hold whenever no attempt is in progress.
func (r *c16Run) checkQuiescent(step string) {
	if r.failKey != "" {
		return
	}
	clientOpen := !r.cl.conn.ClosedByProxy()
	cur := r.player.CurrentServer()
	curName := ""
	if cur != nil {
		curName = cur.Server().ServerInfo().Name()
	}
	open := r.openBackends()
	if r.player.connectionInFlight() != nil {
		r.fail("inflight-left-behind", "%s: an in-flight connection is still registered at quiescence (open backends %v)", step, open)
		return
	}
	if !clientOpen {
		// player gone: every backend connection must be closed and the player listed nowhere
		if len(open) != 0 {
			r.fail("backend-leak-after-disconnect", "%s: player disconnected but backend connections %v stay open", step, open)
		}
		if l := r.listedOn(); len(l) != 0 {
			r.fail("listed-after-disconnect", "%s: player disconnected but still listed on %v", step, l)
		}
		return
	}
	if curName == "" {
		r.fail("no-current-server", "%s: player is connected to the proxy but has no current server (open backends %v, dials %v)", step, open, r.w.dialLog)
		return
	}
	// exactly one open backend connection: the current one
	if len(open) != 1 || !strings.HasPrefix(open[0], curName+"#") {
		r.fail("backend-connections", "%s: current server %q but open backend connections are %v", step, curName, open)
	}
	if l := r.listedOn(); len(l) != 1 || l[0] != curName {
		r.fail("server-player-lists", "%s: current server %q but player is listed on %v", step, curName, l)
	}
	if r.current != "?" && r.current != curName {
		r.fail("wrong-current-server", "%s: expected the player on %q, is on %q", step, r.current, curName)
	}
}

func (r *c16Run) settle() {
	synctest.Wait()
	time.Sleep(400 * time.Millisecond)
	synctest.Wait()
}

// resolveFallbacks accepts any backend connection the proxy dialled on its own (fallback after a failure).
func (r *c16Run) resolveFallbacks(known map[*kPeer]bool) {
	for i := 0; i < 4; i++ {
		progressed := false
		for _, s := range r.w.servers {
			for _, b := range s.conns {
				if known[b] || b.conn.ClosedByProxy() {
					continue
				}
				known[b] = true
				progressed = true
				if err := r.w.backendAccept(r.cl, b, r.protocol, "Switcher", -1, 100+len(known)); err != nil {
					r.fail("fallback-setup", "fallback backend %s: %v", b.name, err)
					return
				}
				r.settle()
			}
		}
		if !progressed {
			return
		}
	}
}

func (r *c16Run) apply(i int, ev c16Ev, known map[*kPeer]bool) {
	step := fmt.Sprintf("step %d %v", i, ev)
	prev := ""
	if cs := r.player.CurrentServer(); cs != nil {
		prev = cs.Server().ServerInfo().Name()
	}
	switch ev.Kind {
	case "connect-current":
		if prev == "" {
			return
		}
		dials := len(r.w.dialLog)
		r.cl.take()
		res := r.connect(prev, true)
		r.settle()
		if !res.done || res.status != AlreadyConnectedConnectionStatus || res.err != nil {
			r.fail("already-connected-status", "%s: request to the current server returned done=%v status=%d err=%v", step, res.done, res.status, res.err)
		}
		if len(r.w.dialLog) != dials {
			r.fail("already-connected-dialled", "%s: request to the current server dialled a backend", step)
		}
		if fr := r.cl.take(); len(fr) != 0 {
			r.fail("already-connected-wrote", "%s: request to the current server wrote %d packets to the client", step, len(fr))
		}
	case "kick-play", "close-play":
		if prev == "" {
			return
		}
		b := r.w.servers[prev].last()
		if ev.Answer == "fallback-refuse" {
			for n, s := range r.w.servers {
				if n != prev {
					s.mode = "refuse"
				}
			}
			defer func() {
				for _, s := range r.w.servers {
					s.mode = "accept"
				}
			}()
		}
		if ev.Kind == "kick-play" {
			r.disconnectPacket(b, state.Play, states.PlayState)
		} else {
			b.conn.PeerClose()
		}
		r.settle()
		r.current = "?" // fallback choice is C17's business; consistency is checked below
		r.resolveFallbacks(known)
	case "connect-denied", "connect-redirected":
		target := ev.Target
		if target == prev || prev == "" {
			return
		}
		dest := target
		r.w.onPreConnect = func(e *ServerPreConnectEvent) {
			if ev.Kind == "connect-denied" {
				e.Deny()
			} else {
				e.Allow(r.w.p.Server(ev.Answer))
			}
		}
		defer func() { r.w.onPreConnect = nil }()
		if ev.Kind == "connect-redirected" {
			dest = ev.Answer
		}
		dials := len(r.w.dialLog)
		if ev.Kind == "connect-redirected" && dest == prev {
			// the event redirects the request onto the server the player is already on: the EFFECTIVE
			// destination decides, so this is "already connected" - no dial, nothing written, nothing in flight
			r.cl.take()
			res := r.connect(target, true)
			r.settle()
			if !res.done || res.status != AlreadyConnectedConnectionStatus || res.err != nil {
				r.fail("redirected-to-current-status", "%s: a request redirected by the pre-connect event onto the current server returned done=%v status=%d err=%v", step, res.done, res.status, res.err)
			}
			if len(r.w.dialLog) != dials {
				r.fail("redirected-to-current-dialled", "%s: a request redirected onto the current server dialled %v", step, r.w.dialLog[dials:])
			}
			if fr := r.cl.take(); len(fr) != 0 {
				r.fail("redirected-to-current-wrote", "%s: a request redirected onto the current server wrote %d packets to the client", step, len(fr))
			}
			return
		}
		res := r.connect(target, true)
		r.settle()
		if ev.Kind == "connect-denied" {
			if !res.done || res.err != nil || res.status != CanceledConnectionStatus {
				r.fail("denied-request-result", "%s: a request denied by the pre-connect event returned done=%v status=%d err=%v", step, res.done, res.status, res.err)
			}
			if len(r.w.dialLog) != dials {
				r.fail("denied-request-dialled", "%s: a denied request dialled %v", step, r.w.dialLog[dials:])
			}
		} else {
			srv := r.w.servers[dest]
			b := srv.last()
			if len(r.w.dialLog) != dials+1 || b == nil || known[b] {
				r.fail("redirected-request-dial", "%s: redirected request dialled %v, want exactly %s", step, r.w.dialLog[dials:], dest)
				return
			}
			known[b] = true
			if err := r.w.backendAccept(r.cl, b, r.protocol, "Switcher", -1, 60+i); err != nil {
				r.fail("switch-setup", "%s: %v", step, err)
				return
			}
			r.settle()
			if !res.done || res.err != nil || res.status != SuccessConnectionStatus {
				r.fail("redirected-request-result", "%s: returned done=%v status=%d err=%v", step, res.done, res.status, res.err)
			}
			r.current = dest
		}
	case "connect", "connect-while-inflight":
		target := ev.Target
		if target == prev {
			return // covered by connect-current
		}
		srv := r.w.servers[target]
		switch ev.Answer {
		case "refuse":
			srv.mode = "refuse"
		case "silent-dial":
			srv.mode = "hang"
		default:
			srv.mode = "accept"
		}
		before := len(srv.conns)
		res := r.connect(target, false)
		var second *connectResult
		if ev.Kind == "connect-while-inflight" {
			// a second request at a quiescent point while the first is in flight
			if ev.Answer == "refuse" {
				return
			}
			other := "c"
			if target == "c" {
				other = "b"
			}
			if other == prev {
				other = "a"
			}
			dials := len(r.w.dialLog)
			second = r.connect(other, true)
			r.settle()
			if !second.done || second.status != InProgressConnectionStatus || second.err != nil {
				r.fail("in-progress-status", "%s: second request while one is in flight returned done=%v status=%d err=%v", step, second.done, second.status, second.err)
			}
			if len(r.w.dialLog) != dials {
				r.fail("in-progress-dialled", "%s: second request while one is in flight dialled %v", step, r.w.dialLog[dials:])
			}
		}
		// at most one attempt in flight: open backends = current (if any) + at most one more
		if open := r.openBackends(); len(open) > 2 {
			r.fail("two-attempts-in-flight", "%s: open backend connections %v", step, open)
		}
		var b *kPeer
		if len(srv.conns) > before {
			b = srv.conns[len(srv.conns)-1]
			known[b] = true
		}
		expectStay := true // failure before the destination's login success keeps the previous server
		switch ev.Answer {
		case "accept":
			if b == nil {
				r.fail("not-dialled", "%s: backend %s was not dialled (result done=%v ok=%v)", step, target, res.done, res.ok)
				return
			}
			if err := r.w.backendAccept(r.cl, b, r.protocol, "Switcher", -1, 50+i); err != nil {
				r.fail("switch-setup", "%s: %v", step, err)
				return
			}
			r.settle()
			if !res.done || !res.ok {
				r.fail("switch-result", "%s: healthy backend accepted but the request returned done=%v ok=%v", step, res.done, res.ok)
			}
			r.current = target
			expectStay = false
		case "refuse":
			r.settle()
			if !res.done || res.ok {
				r.fail("refuse-result", "%s: dial refused but request returned done=%v ok=%v", step, res.done, res.ok)
			}
		case "disc-login":
			b.backendExpectLogin(r.protocol)
			r.disconnectPacket(b, state.Login, states.LoginState)
			r.settle()
			if !res.done || res.ok {
				r.fail("disc-login-result", "%s: backend disconnected in login but request returned done=%v ok=%v", step, res.done, res.ok)
			}
		case "close-login":
			b.backendExpectLogin(r.protocol)
			b.conn.PeerClose()
			r.settle()
			if !res.done || res.ok {
				r.fail("close-login-result", "%s: backend closed in login but request returned done=%v ok=%v", step, res.done, res.ok)
			}
		case "disc-after-login":
			b.backendExpectLogin(r.protocol)
			b.backendLoginSuccess("Switcher")
			synctest.Wait()
			if kitConfigPhase(r.protocol) {
				r.ackStartUpdate()
				r.disconnectPacket(b, state.Config, states.ConfigState)
				expectStay = false // the configuration-phase flow has already left the previous server
				r.current = "?"
			} else {
				r.disconnectPacket(b, state.Play, states.PlayState)
			}
			r.settle()
			r.resolveFallbacks(known) // the built-in handling may redirect to a fallback inside the request
			r.settle()
			if !res.done || res.ok {
				r.fail("disc-after-login-result", "%s: request returned done=%v ok=%v", step, res.done, res.ok)
			}
		case "silent":
			b.backendExpectLogin(r.protocol)
			time.Sleep(6 * time.Second)
			r.settle()
			if !res.done || res.ok {
				r.fail("timeout-result", "%s: silent backend but request returned done=%v ok=%v", step, res.done, res.ok)
			}
		case "silent-after-login":
			b.backendExpectLogin(r.protocol)
			b.backendLoginSuccess("Switcher")
			synctest.Wait()
			if kitConfigPhase(r.protocol) {
				r.ackStartUpdate()
				b.backendFinishConfig()
				synctest.Wait()
				r.cl.take()
				r.cl.clientFinishConfig()
				synctest.Wait()
				expectStay = false // the configuration-phase flow has already left the previous server
				r.current = "?"
			}
			b.take()
			time.Sleep(6 * time.Second) // the request deadline passes while the backend stays silent before JoinGame
			r.settle()
			r.resolveFallbacks(known)
			r.settle()
			if !res.done || res.ok {
				r.fail("timeout-after-login-result", "%s: backend silent after login success but request returned done=%v ok=%v", step, res.done, res.ok)
			}
			// the abandoned attempt must be torn down: its connection closed, and a JoinGame that arrives late must not move the player
			if !b.conn.ClosedByProxy() {
				r.fail("timed-out-attempt-conn-open", "%s: the attempt timed out but its backend connection %s is still open", step, b.name)
			}
			before := ""
			if cs := r.player.CurrentServer(); cs != nil {
				before = cs.Server().ServerInfo().Name()
			}
			b.backendJoinGame(77)
			r.settle()
			after := ""
			if cs := r.player.CurrentServer(); cs != nil {
				after = cs.Server().ServerInfo().Name()
			}
			if before != after && !r.cl.conn.ClosedByProxy() {
				r.fail("late-joingame-moved-player", "%s: a JoinGame from the timed-out attempt changed the current server from %q to %q", step, before, after)
			}
		case "silent-dial":
			time.Sleep(6 * time.Second)
			r.settle()
			if !res.done || res.ok {
				r.fail("dial-timeout-result", "%s: hanging dial but request returned done=%v ok=%v", step, res.done, res.ok)
			}
		}
		if expectStay && prev != "" && r.current != "?" {
			r.current = prev
		}
		if b != nil && ev.Answer != "accept" {
			// a failed attempt's backend connection must not stay open
			if !b.conn.ClosedByProxy() && !kitConfigPhase(r.protocol) {
				r.fail("failed-attempt-conn-open", "%s: failed attempt's backend connection %s is still open", step, b.name)
			}
		}
		r.resolveFallbacks(known)
		srv.mode = "accept"
	}
	r.settle()
	r.checkQuiescent(step)
}

// ackStartUpdate lets a client that is in play acknowledge the proxy's request to re-enter configuration.
func (r *c16Run) ackStartUpdate() {
	for _, f := range r.cl.take() {
		if id, ok := state.Play.ClientBound.ProtocolRegistry(r.protocol).PacketID(&cfgStartUpdate); ok {
			if len(f) > 0 && int(f[0]) == int(id) && len(f) == 1 {
				r.cl.sendPacket(state.Play, proto.ServerBound, &cfgFinishedUpdate)
				synctest.Wait()
			}
		}
	}
}

func runC16(t *testing.T, c c16Case) (key, fk, fd string) {
	synctest.Test(t, func(t *testing.T) {
		try := c.Try
		if len(try) == 0 {
			try = []string{"a", "b"}
		}
		w := newKWorld(t, kOpts{Servers: []string{"a", "b", "c"}, Try: try, ClientThreshold: 256})
		r := &c16Run{t: t, w: w, protocol: proto.Protocol(c.Protocol), current: "a"}
		cl, be, err := w.joinInitial(r.protocol, "Switcher", -1)
		r.cl = cl
		defer func() { w.close(cl) }()
		if err != nil {
			fk, fd = "setup", err.Error()
			return
		}
		known := map[*kPeer]bool{be: true}
		pl := w.p.playerByName("Switcher")
		if pl == nil {
			fk, fd = "setup", "player not registered after join"
			return
		}
		r.player = pl
		r.settle()
		r.checkQuiescent("after initial join")
		for i, ev := range c.History {
			if r.failKey != "" || cl.conn.ClosedByProxy() {
				break
			}
			r.apply(i, ev, known)
		}
		fk, fd = r.failKey, r.failDesc
		cur := "-"
		if cs := r.player.CurrentServer(); cs != nil {
			cur = cs.Server().ServerInfo().Name()
		}
		key = fmt.Sprintf("cur=%s client-open=%v open=%v", cur, !cl.conn.ClosedByProxy(), r.openBackends())
	})
	return
}

func TestVerif(t *testing.T) {
	vrt.Run(t, "C16", func(r *vrt.R) {
		var rc c16Case
		if r.ReplayInto(&rc) {
			r.Eval(1)
			if _, k, d := runC16(t, rc); k != "" {
				r.Violation(k, d, rc)
			}
			return
		}
		var evs []c16Ev
		for _, tgt := range []string{"b", "c", "a"} {
			for _, ans := range []string{"accept", "refuse", "disc-login", "close-login", "disc-after-login", "silent", "silent-after-login", "silent-dial"} {
				evs = append(evs, c16Ev{Kind: "connect", Target: tgt, Answer: ans})
			}
		}
		evs = append(evs,
			c16Ev{Kind: "connect-while-inflight", Target: "b", Answer: "accept"},
			c16Ev{Kind: "connect-while-inflight", Target: "c", Answer: "disc-login"},
			c16Ev{Kind: "connect-current"},
			c16Ev{Kind: "connect-denied", Target: "b"},
			c16Ev{Kind: "connect-redirected", Target: "b", Answer: "c"},
			c16Ev{Kind: "connect-redirected", Target: "b", Answer: "a"},
			c16Ev{Kind: "connect-redirected", Target: "c", Answer: "b"},
			c16Ev{Kind: "kick-play", Answer: "fallback-refuse"},
			c16Ev{Kind: "kick-play"},
			c16Ev{Kind: "close-play"},
		)
		depth := 2
		if r.Thorough() {
			depth = 3
		}
		for _, pr := range []proto.Protocol{version.Minecraft_1_12_2.Protocol, version.Minecraft_1_20.Protocol, version.Minecraft_1_21_4.Protocol} {
			pr := pr
			res := bfs.Explore(bfs.Config[c16Ev]{
				Name: fmt.Sprintf("proto=%d", pr), Ops: evs, Depth: depth, Shard: r.Shard, NShards: r.NShards, Deadline: r.DeadlineTime(),
				Run: func(h []c16Ev) bfs.Outcome {
					k, fk, fd := runC16(t, c16Case{Protocol: int(pr), History: h})
					r.Class("last-event:" + h[len(h)-1].Kind + "/" + h[len(h)-1].Answer)
					return bfs.Outcome{Key: "", FailKey: fk, FailDesc: fd, Obs: k}
				},
			})
			r.Eval(res.Transitions)
			r.States(res.States)
			r.Transitions(res.Transitions)
			r.Traces(res.Transitions)
			for o := range res.Outcomes {
				r.Distinct(fmt.Sprintf("%d|%s", pr, o))
			}
			if !res.Exhaustive {
				r.NotExhaustive(res.Reason)
			}
			for k, f := range res.Failures {
				r.Violation(k, fmt.Sprintf("protocol %d, history %v (seen %d×)\n%s", pr, f.History, f.Count, f.Desc), c16Case{Protocol: int(pr), History: f.History})
			}
			// world with try list [a]: after a kick no fallback is left -> the player must be disconnected cleanly
			small := []c16Ev{{Kind: "kick-play"}, {Kind: "close-play"}, {Kind: "connect", Target: "b", Answer: "accept"}, {Kind: "connect", Target: "b", Answer: "refuse"}, {Kind: "connect", Target: "b", Answer: "disc-after-login"}}
			res2 := bfs.Explore(bfs.Config[c16Ev]{
				Name: fmt.Sprintf("proto=%d try=[a]", pr), Ops: small, Depth: 2, Shard: r.Shard, NShards: r.NShards, Deadline: r.DeadlineTime(),
				Run: func(h []c16Ev) bfs.Outcome {
					k, fk, fd := runC16(t, c16Case{Protocol: int(pr), History: h, Try: []string{"a"}})
					r.Class("try=[a]/last-event:" + h[len(h)-1].Kind + "/" + h[len(h)-1].Answer)
					return bfs.Outcome{Key: "", FailKey: fk, FailDesc: fd, Obs: k}
				},
			})
			r.Eval(res2.Transitions)
			r.States(res2.States)
			r.Transitions(res2.Transitions)
			r.Traces(res2.Transitions)
			for o := range res2.Outcomes {
				r.Distinct(fmt.Sprintf("%d|try-a|%s", pr, o))
			}
			if !res2.Exhaustive {
				r.NotExhaustive(res2.Reason)
			}
			for k, f := range res2.Failures {
				r.Violation(k, fmt.Sprintf("protocol %d, try list [a], history %v (seen %d×)\n%s", pr, f.History, f.Count, f.Desc), c16Case{Protocol: int(pr), History: f.History, Try: []string{"a"}})
			}
			if res.Sample == nil {
				for _, f := range []c16Ev{evs[0]} {
					res.Sample = []c16Ev{f, evs[len(evs)-2]}
				}
			}
			if res.Sample != nil {
				r.Sample(map[string]any{"protocol": pr, "history": fmt.Sprint(res.Sample), "states": res.States, "transitions": res.Transitions, "distinct_outcomes": len(res.Outcomes)})
			}
		}
	})
}
