package proxy

import (
	"context"
	"errors"
	"fmt"
	"net"
	"testing"

	"github.com/go-logr/logr"
	"github.com/robinbraemer/event"
	"go.minekube.com/gate/pkg/edition/java/auth"
	"go.minekube.com/gate/pkg/edition/java/config"
	liteconfig "go.minekube.com/gate/pkg/edition/java/lite/config"
	"go.minekube.com/gate/pkg/edition/java/netmc"
	"go.minekube.com/gate/pkg/edition/java/profile"
	"go.minekube.com/gate/pkg/edition/java/proto/packet"
	"go.minekube.com/gate/pkg/edition/java/proto/state"
	"go.minekube.com/gate/pkg/edition/java/proto/version"
	"go.minekube.com/gate/pkg/edition/java/proxy/phase"
	"go.minekube.com/gate/pkg/edition/java/proxy/zzverif/sched"
	"go.minekube.com/gate/pkg/edition/java/proxy/zzverif/schedrun"
	"go.minekube.com/gate/pkg/edition/java/proxy/zzverif/vrt"
	"go.minekube.com/gate/pkg/gate/proto"
	"go.minekube.com/gate/pkg/util/netutil"
	"go.minekube.com/gate/pkg/util/uuid"
)

type sConn struct {
	netmc.MinecraftConn
	ctx    context.Context
	cancel context.CancelFunc
	wrote  int
}

func (c *sConn) Context() context.Context          { return c.ctx }
func (c *sConn) Close() error                      { c.cancel(); return nil }
func (c *sConn) Protocol() proto.Protocol          { return version.Minecraft_1_19_4.Protocol }
func (c *sConn) State() *state.Registry            { return state.Play }
func (c *sConn) Type() phase.ConnectionType        { return phase.Vanilla }
func (c *sConn) RemoteAddr() net.Addr              { return netutil.NewAddr("203.0.113.7:50000", "tcp") }
func (c *sConn) WritePacket(p proto.Packet) error  { c.wrote++; return nil }
func (c *sConn) BufferPacket(p proto.Packet) error { c.wrote++; return nil }
func (c *sConn) Flush() error                      { return nil }

type sEvents struct{ event.Manager }

func (s *sEvents) Fire(e event.Event) {}
func (s *sEvents) FireParallel(e event.Event, after ...event.HandlerFunc) {
	for _, f := range after {
		f(e)
	}
}
func (s *sEvents) HasSubscriber(e ...event.Event) bool { return false }

type sCfg struct{ cfg *config.Config }

func (t *sCfg) config() *config.Config { return t.cfg }

// sServer is a ServerInfo whose dialer marks the attempt, yields to the scheduler and refuses.
type sServer struct {
	name    string
	addr    net.Addr
	world   *sWorld
}

type sWorld struct {
	x        *sched.X
	dialling int
	maxDial  int
	dials    []string
}

func (s *sServer) Name() string   { return s.name }
func (s *sServer) Addr() net.Addr { return s.addr }
func (s *sServer) Dial(ctx context.Context, player Player) (net.Conn, error) {
	w := s.world
	w.dialling++
	if w.dialling > w.maxDial {
		w.maxDial = w.dialling
	}
	w.dials = append(w.dials, s.name)
	if w.dialling > 1 {
		w.x.Fail("two-attempts-dialling", "%d connection attempts are dialling at once for one player (dials so far %v)", w.dialling, w.dials)
	}
	sched.Point("dial", nil) // the dial takes time: other threads may run
	w.dialling--
	if s.name == "k" {
		// server k models a backend that KICKS the player while it is connecting: the backend's session handler
		// (its own goroutine in production) ends the attempt through connectedPlayer.handleKickEvent, which clears the
		// in-flight slot with setInFlightConnection(nil) - BEFORE the requesting goroutine has returned from
		// internalConnect and run its deferred resetIfInFlightIs. From here on the attempt is over (it no longer counts
		// as dialling) and a newer request may claim the slot; the late deferred cleanup must leave that claim alone.
		player.(*connectedPlayer).setInFlightConnection(nil)
		sched.Point("attempt-ended-by-backend-handler", nil)
	}
	return nil, errors.New("connection refused (scripted)")
}

var sAuth auth.Authenticator

func sBuild(x *sched.X) (*Proxy, *connectedPlayer, *sWorld) {
	w := &sWorld{x: x}
	cfg := &config.Config{Servers: map[string]string{}, Try: []string{"a"}, ForcedHosts: map[string][]string{}, Lite: liteconfig.Config{Enabled: false}, ConnectionTimeout: 5000}
	ev := &sEvents{}
	p := &Proxy{log: logr.Discard(), cfg: cfg, event: ev, servers: make(map[string]*registeredServer), configServers: make(map[string]bool), authenticator: sAuth,
		playerNames: map[string]*connectedPlayer{}, playerIDs: map[uuid.UUID]*connectedPlayer{}}
	for i, n := range []string{"a", "b", "c", "k"} {
		if _, err := p.Register(&sServer{name: n, addr: netutil.NewAddr(fmt.Sprintf("10.9.0.%d:25565", i+1), "tcp"), world: w}); err != nil {
			panic(err)
		}
	}
	ctx, cancel := context.WithCancel(context.Background())
	conn := &sConn{ctx: ctx, cancel: cancel}
	deps := &sessionHandlerDeps{proxy: p, eventMgr: ev, configProvider: &sCfg{cfg}, authenticator: sAuth, registrar: p}
	pl := newConnectedPlayer(conn, &profile.GameProfile{ID: uuid.New(), Name: "racer"}, netutil.NewAddr("mc.example.com:25565", "tcp"), packet.LoginHandshakeIntent, false, nil, deps)
	return p, pl, w
}

func TestVerif(t *testing.T) {
	var err error
	sAuth, err = auth.New(auth.Options{})
	if err != nil {
		t.Fatal(err)
	}
	vrt.Run(t, "C16", func(r *vrt.R) {
		mk := func(targets ...string) func(x *sched.X) {
			return func(x *sched.X) {
				p, pl, w := sBuild(x)
				statuses := make([]string, len(targets))
				for i, tgt := range targets {
					i, tgt := i, tgt
					x.Go("req-"+tgt, func() {
						res, err := pl.CreateConnectionRequest(p.Server(tgt)).Connect(context.Background())
						switch {
						case err != nil:
							statuses[i] = "err"
						case res.Status() == InProgressConnectionStatus:
							statuses[i] = "in-progress"
						default:
							statuses[i] = fmt.Sprint(res.Status())
						}
					})
				}
				x.AtEnd(func() {
					if pl.connectionInFlight() != nil {
						x.Fail("inflight-left-behind", "an in-flight connection is still registered after all requests returned")
					}
					x.Outcome(fmt.Sprintf("%v dials=%d max=%d", statuses, len(w.dials), w.maxDial))
				})
			}
		}
		schedrun.Run(r, []schedrun.Scenario{
			{Name: "two-requests-different-servers", Quick: 2, Thorough: -1, Body: mk("b", "c")},
			{Name: "two-requests-same-server", Quick: 2, Thorough: -1, Body: mk("b", "b")},
			{Name: "three-requests", Quick: 2, Thorough: 3, Body: mk("a", "b", "c")},
			// round-4 seed C16-4: the late deferred cleanup of a finished attempt (slot already cleared by the kick
			// handler) races with a retry to the SAME server and a third request
			{Name: "late-cleanup-vs-retry-same-server", Quick: 2, Thorough: 3, Body: mk("k", "k", "c")},
			{Name: "late-cleanup-vs-retry-other-server", Quick: 2, Thorough: 3, Body: mk("k", "b", "c")},
		})
	})
}
