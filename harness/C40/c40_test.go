package geyser

// C40 — Bedrock players get valid, stable Java identities.
//
// Engine enum. Part "names": every gamertag of <= n symbols over a 16-symbol nasty alphabet plus
// boundary lengths, times every username format of a format alphabet, through the REAL
// Integration.onGameProfile (format -> normalisation -> profile) and through javaCompatibleUsername
// directly. Part "uuids": BedrockData.JavaUuid over a dense XUID range plus arithmetic neighbours.
// Oracle = the predicates of the statement (no reference implementation is needed for a range check):
// name is 1..16 chars of [A-Za-z0-9_]; UUID is RFC 4122 (variant 10xx, version 1..5), a function of the
// XUID only, and injective on everything enumerated.

import (
	"bytes"
	"context"
	"errors"
	"fmt"
	"io"
	"math"
	"net"
	"net/http"
	"slices"
	"strings"
	"testing"

	"github.com/go-logr/logr"

	bconfig "go.minekube.com/gate/pkg/edition/bedrock/config"
	"go.minekube.com/gate/pkg/edition/bedrock/geyser/floodgate"
	"go.minekube.com/gate/pkg/edition/java/profile"
	"go.minekube.com/gate/pkg/edition/java/proto/packet"
	"go.minekube.com/gate/pkg/edition/java/proxy"
	"go.minekube.com/gate/pkg/edition/java/proxy/zzverif/vrt"
	"go.minekube.com/gate/pkg/gate/proto"
	"go.minekube.com/gate/pkg/util/uuid"
)

type c40Inbound struct{ ctx context.Context }

func (f *c40Inbound) Protocol() proto.Protocol                { return 0 }
func (f *c40Inbound) VirtualHost() net.Addr                   { return nil }
func (f *c40Inbound) HandshakeIntent() packet.HandshakeIntent { return packet.LoginHandshakeIntent }
func (f *c40Inbound) RemoteAddr() net.Addr                    { return nil }
func (f *c40Inbound) Active() bool                            { return true }
func (f *c40Inbound) Context() context.Context                { return f.ctx }

// c40Net stands in for the GeyserMC skin API. No real network. mode (rev9): 0 refuse the connection,
// 1 answer 200 with a skin, 2 answer 404, 3 answer 200 with something that is not the expected JSON.
type c40Net struct{ mode int }

var c40NetModes = []string{"refused", "skin-found", "http-404", "garbage-body"}

func (n *c40Net) RoundTrip(req *http.Request) (*http.Response, error) {
	resp := func(code int, body string) (*http.Response, error) {
		return &http.Response{StatusCode: code, Status: http.StatusText(code), Proto: "HTTP/1.1", ProtoMajor: 1, ProtoMinor: 1,
			Header: http.Header{"Content-Type": []string{"application/json"}}, Body: io.NopCloser(strings.NewReader(body)), Request: req}, nil
	}
	switch n.mode {
	case 1:
		return resp(200, `{"hash":"ab","is_steve":false,"signature":"c2ln","texture_id":"tid","value":"dmFsdWU="}`)
	case 2:
		return resp(404, `{"message":"not found"}`)
	case 3:
		return resp(200, `["name", "Notch", {"id": "069a79f4-44e9-4726-a5be-fca90e38aaf5"}`)
	}
	return nil, errors.New("network disabled in verification harness")
}

// LinkedPlayer values of the Floodgate record (rev9): absent, Floodgate's "null", and two linked Java accounts
// (name;java uuid;bedrock uuid). The Java identity of a Bedrock player must not depend on them.
var c40Linked = []string{"", "null",
	"JavaName;069a79f4-44e9-4726-a5be-fca90e38aaf5;00000000-0000-0000-0009-01f0e0d0c0b0",
	"Other_Java;853c80ef-3c37-49fd-aa49-938b674adae6;00000000-0000-0000-0009-01f0e0d0c0b1"}

const c40Variants = 32 // linked(4) x net mode(4) x online flag(2)

// symbols: one representative per class that a normaliser could mishandle.
var c40Symbols = []string{
	"a", "Z", "0", "_", // the four allowed classes
	" ", ".", "-", "%", // ASCII punctuation incl. the fmt verb introducer
	"\x00", "\xff", // NUL, a byte that is not valid UTF-8
	"é", "€", "😀", // 2-, 3-, 4-byte runes
	"Ａ", "٣", // U+FF21 fullwidth A (unicode letter), U+0663 arabic-indic 3 (unicode digit)
	"İ", // İ: changes length under case mapping
}

var c40Formats = []string{
	"", "%s", ".%s", "_%s", "%s_bedrock_player_long", "*%s", "%s%s", "%d", "%", "plain", "%20s", "%-20s", "%q", "%x",
	"%%%s", "%v\x00", "é%s", "%.3s", "%[2]s", "%*s",
}

var c40Xuids = []int64{1, 2, 2535405290989773, -1, math.MaxInt64, 1 << 32, 1<<32 + 1}

const c40Original = "!original profile name!" // what the event falls back to when the applied name is empty

type c40 struct {
	r     *vrt.R
	i     *Integration
	net   *c40Net
	byX   map[int64]uuid.UUID
	byID  map[uuid.UUID]int64
	seenN map[string]bool
}

type c40case struct {
	Part     string
	Gamertag []byte // bytes: the string may be invalid UTF-8, JSON would mangle it
	Format   string
	Xuid     int64
	Var      int // rev9: linked player x skin API behaviour x online flag, see profileCase
}

func nameDefect(name string) string {
	if len(name) < 1 {
		return "empty"
	}
	n := 0
	for _, r := range name {
		n++
		ok := r >= 'a' && r <= 'z' || r >= 'A' && r <= 'Z' || r >= '0' && r <= '9' || r == '_'
		if !ok {
			return fmt.Sprintf("illegal character %q", r)
		}
	}
	if n > 16 || len(name) > 16 {
		return fmt.Sprintf("too long (%d chars, %d bytes)", n, len(name))
	}
	return ""
}

func uuidDefect(id uuid.UUID) string {
	if id[8]&0xC0 != 0x80 {
		return fmt.Sprintf("variant bits %02b, want 10 (RFC 4122)", id[8]>>6)
	}
	if v := id[6] >> 4; v < 1 || v > 5 {
		return fmt.Sprintf("version %d, RFC 4122 defines 1..5", v)
	}
	return ""
}

func (c *c40) vio(key string, cs c40case, detail string) {
	c.r.Violation(key, fmt.Sprintf("%s: gamertag=%q format=%q xuid=%d variant=%d (linked=%q skin-api=%s): %s", key, cs.Gamertag, cs.Format, cs.Xuid, cs.Var, c40Linked[cs.Var%4], c40NetModes[cs.Var/4%4], detail), cs)
}

// profileCase drives the real onGameProfile for one (gamertag, format, xuid).
func (c *c40) profileCase(cs c40case) {
	c.r.Eval(1)
	c.i.config.UsernameFormat = cs.Format
	linked, net, online := cs.Var%4, cs.Var/4%4, cs.Var/16%2 == 1
	c.net.mode = net
	c.r.Class("linked-player:" + []string{"empty", "null", "java-account-1", "java-account-2"}[linked])
	c.r.Class("skin-api:" + c40NetModes[net])
	bd := &floodgate.BedrockData{Username: string(cs.Gamertag), Xuid: cs.Xuid, Version: "v", Language: "en_US",
		LinkedPlayer: c40Linked[linked], Proxy: online, DeviceOS: floodgate.DeviceOSFromID(cs.Var % 16), IP: fmt.Sprintf("203.0.113.%d", cs.Var)}
	gc := &GeyserConnection{BedrockData: bd, closeCb: func() {}, Conn: nopConn{}}
	gc.Context = withBedrockContext(context.Background(), gc)
	e := proxy.NewGameProfileRequestEvent(&c40Inbound{ctx: gc.Context}, profile.GameProfile{Name: c40Original}, online)
	if p, pv := vrt.Catch(func() { c.i.onGameProfile(e) }); p {
		c.vio("onGameProfile/panic", cs, fmt.Sprint(pv))
		return
	}
	gp := e.GameProfile()
	if d := nameDefect(gp.Name); d != "" {
		c.vio("onGameProfile/name-"+defectKind(d), cs, fmt.Sprintf("profile name %q: %s", gp.Name, d))
	}
	if !c.seenN[gp.Name] {
		c.seenN[gp.Name] = true
		c.r.Distinct("name:" + gp.Name)
	}
	if d := uuidDefect(gp.ID); d != "" {
		c.vio("onGameProfile/uuid-not-rfc4122", cs, fmt.Sprintf("profile id %s: %s", gp.ID, d))
	}
	if prev, ok := c.byX[cs.Xuid]; ok && prev != gp.ID {
		c.vio("onGameProfile/uuid-unstable", cs, fmt.Sprintf("same XUID gave %s earlier and %s now", prev, gp.ID))
	}
	c.byX[cs.Xuid] = gp.ID
	if px, ok := c.byID[gp.ID]; ok && px != cs.Xuid {
		c.vio("onGameProfile/uuid-collision", cs, fmt.Sprintf("XUID %d and XUID %d both map to %s", px, cs.Xuid, gp.ID))
	}
	c.byID[gp.ID] = cs.Xuid
}

func defectKind(d string) string {
	switch d[0] {
	case 'e':
		return "empty"
	case 'i':
		return "illegal-character"
	}
	return "too-long"
}

// directCase calls javaCompatibleUsername on the raw string.
func (c *c40) directCase(cs c40case) {
	c.r.Eval(1)
	var a, b string
	if p, pv := vrt.Catch(func() {
		a = javaCompatibleUsername(string(cs.Gamertag))
		b = javaCompatibleUsername(string(cs.Gamertag))
	}); p {
		c.vio("javaCompatibleUsername/panic", cs, fmt.Sprint(pv))
		return
	}
	if d := nameDefect(a); d != "" {
		c.vio("javaCompatibleUsername/name-"+defectKind(d), cs, fmt.Sprintf("result %q: %s", a, d))
	}
	if a != b {
		c.vio("javaCompatibleUsername/unstable", cs, fmt.Sprintf("%q then %q", a, b))
	}
}

type nopConn struct{ net.Conn }

func (nopConn) Close() error { return nil }

func classOf(s string) string {
	switch {
	case s == "":
		return "gamertag:empty"
	case len(s) > 16:
		return "gamertag:longer-than-16-bytes"
	}
	for i := 0; i < len(s); i++ {
		c := s[i]
		if !(c >= 'a' && c <= 'z' || c >= 'A' && c <= 'Z' || c >= '0' && c <= '9' || c == '_') {
			if c >= 0x80 {
				return "gamertag:non-ascii"
			}
			return "gamertag:ascii-illegal"
		}
	}
	return "gamertag:already-valid"
}

// gamertags enumerates every string of <= n symbols, then the boundary-length forms.
func gamertags(n int, f func(idx int, s string)) int {
	idx := 0
	var rec func(prefix string, left int)
	rec = func(prefix string, left int) {
		f(idx, prefix)
		idx++
		if left == 0 {
			return
		}
		for _, s := range c40Symbols {
			rec(prefix+s, left-1)
		}
	}
	rec("", n)
	rep := func(s string, k int) string { return string(bytes.Repeat([]byte(s), k)) }
	for _, L := range []int{15, 16, 17, 40} {
		for _, s := range c40Symbols {
			for _, g := range []string{rep(s, L), rep("a", L-1) + s, s + rep("a", L-1), rep("a", L-2) + s + "b"} {
				f(idx, g)
				idx++
			}
		}
	}
	return idx
}

func TestVerif(t *testing.T) {
	vrt.Run(t, "C40", func(r *vrt.R) {
		pm := NewProfileManager()
		net := &c40Net{}
		pm.client = &http.Client{Transport: net}
		c := &c40{r: r, net: net, byX: map[int64]uuid.UUID{}, byID: map[uuid.UUID]int64{}, seenN: map[string]bool{},
			i: &Integration{log: logr.Discard(), config: &bconfig.Config{}, profileManager: pm}}

		var rp c40case
		if r.ReplayInto(&rp) {
			switch rp.Part {
			case "profile":
				// stability/collision need the history: replay the XUID neighbourhood first
				for _, x := range c40Xuids {
					for v := 0; v < c40Variants; v++ {
						c.profileCase(c40case{Part: "profile", Gamertag: []byte("other"), Format: "%s", Xuid: x, Var: v})
					}
				}
				c.profileCase(rp)
			case "direct":
				c.directCase(rp)
			default:
				c.uuids(true)
			}
			return
		}

		depth := 3
		if r.Thorough() {
			depth = 5
		}
		xuids := c40Xuids
		total := gamertags(depth, func(idx int, g string) {
			if !r.Mine(idx) || r.Expired() {
				return
			}
			r.Class(classOf(g))
			c.directCase(c40case{Part: "direct", Gamertag: []byte(g)})
			for fi, f := range c40Formats {
				c.profileCase(c40case{Part: "profile", Gamertag: []byte(g), Format: f, Xuid: xuids[(idx+fi)%len(xuids)], Var: (idx*3 + fi*5 + idx/7) % c40Variants})
			}
			r.Nontrivial(1)
		})
		if r.Shard == 0 {
			r.Extra("gamertags", total)
			r.Extra("formats", len(c40Formats))
			r.Extra("symbols", len(c40Symbols))
		}
		// the UUID part needs a global view: one shard does it
		if r.Shard == r.NShards-1 {
			c.uuids(false)
		}
		if r.Shard != 0 {
			return
		}
		r.Sample(map[string]any{"gamertag": "a b", "format": ".%s", "profile_name": javaCompatibleUsername(fmt.Sprintf(".%s", "a b"))})
		r.Sample(map[string]any{"gamertag": "😀\xff", "format": "%20s", "profile_name": javaCompatibleUsername(fmt.Sprintf("%20s", "😀\xff"))})
	})
}

// uuids checks JavaUuid on a dense range plus arithmetic neighbours of a smaller range.
func (c *c40) uuids(replay bool) {
	r := c.r
	dense := int64(1) << 20
	if r.Thorough() {
		dense = 1 << 24
	}
	const nb = 1 << 12
	type rec struct {
		id uuid.UUID
		x  int64
	}
	all := make([]rec, 0, int(dense)+8*nb+64)
	cs := func(x int64) c40case { return c40case{Part: "uuid", Xuid: x} }
	one := func(x int64) {
		r.Eval(1)
		var id, id2 uuid.UUID
		var err, err2 error
		if p, pv := vrt.Catch(func() {
			id, err = (&floodgate.BedrockData{Xuid: x}).JavaUuid()
			// same XUID, every other field different: the UUID must be a function of the XUID only
			id2, err2 = (&floodgate.BedrockData{Xuid: x, Username: "Other Name", Version: "2", LinkedPlayer: "x", Proxy: true, IP: "1.2.3.4"}).JavaUuid()
		}); p {
			c.vio("JavaUuid/panic", cs(x), fmt.Sprint(pv))
			return
		}
		if err != nil || err2 != nil {
			c.vio("JavaUuid/error", cs(x), fmt.Sprint(err, err2))
			return
		}
		if d := uuidDefect(id); d != "" {
			c.vio("JavaUuid/not-rfc4122", cs(x), fmt.Sprintf("%s: %s", id, d))
		}
		if id != id2 {
			c.vio("JavaUuid/unstable", cs(x), fmt.Sprintf("%s vs %s for the same XUID with different other fields", id, id2))
		}
		all = append(all, rec{id, x})
	}
	seen := map[int64]bool{}
	extra := func(x int64) {
		if (x >= 1 && x <= dense) || seen[x] {
			return
		}
		seen[x] = true
		one(x)
	}
	for x := int64(1); x <= dense; x++ {
		one(x)
		if x&0xFFFF == 0 && r.Expired() {
			return
		}
	}
	r.ClassN("xuid:dense-range", int(dense))
	for x := int64(1); x <= nb; x++ {
		extra(x + 1<<32)
		extra(x << 32)
		extra(-x)
		extra(math.MaxInt64 - x)
		extra(math.MinInt64 + x)
		extra(x + 1<<53)
		extra(x * 1000000007)
	}
	// quantifier audit ("all XUIDs"): every decimal length 1..19 at both ends of its range with both signs
	// (a mapping that looks at a bounded number of digits), x + 2^k for every bit width k (a mapping that
	// looks at the low k bits; the partner x is in the dense range), and the neighbourhood of a real-world
	// 16-digit XUID
	pow10 := int64(1)
	for d := 1; d <= 19; d++ {
		for k := int64(0); k < 128; k++ {
			extra(pow10 + k)
			extra(-(pow10 + k))
			if d < 19 {
				extra(pow10*10 - 1 - k)
				extra(-(pow10*10 - 1 - k))
			}
		}
		if d < 19 {
			pow10 *= 10
		}
	}
	for k := uint(21); k <= 62; k++ {
		for x := int64(1); x <= 64; x++ {
			extra(x + 1<<k)
			extra(-(x + 1<<k))
		}
	}
	for k := int64(-2048); k <= 2048; k++ {
		extra(2535405290989773 + k)
	}
	for _, x := range []int64{0, math.MaxInt64, math.MinInt64, 2535405290989773, 1 << 31, 1<<31 - 1, 1 << 32, 1 << 63 >> 1} {
		extra(x)
	}
	r.ClassN("xuid:arithmetic-neighbours", len(seen))
	slices.SortFunc(all, func(a, b rec) int { return bytes.Compare(a.id[:], b.id[:]) })
	for i := 1; i < len(all); i++ {
		if all[i].id == all[i-1].id && all[i].x != all[i-1].x {
			c.vio("JavaUuid/collision", cs(all[i].x), fmt.Sprintf("XUID %d and XUID %d both map to %s", all[i-1].x, all[i].x, all[i].id))
		}
	}
	r.Nontrivial(len(all))
	if !replay {
		r.Extra("xuids_pairwise_distinct", len(all))
		r.Sample(map[string]any{"xuid": all[0].x, "uuid": all[0].id.String()})
	}
}
