package auth

// C09: the server id sent to the session server equals Minecraft's reference digest
// (SHA-1(secret || key) read as a signed two's-complement big integer, lowercase hex, no leading
// zeros, '-' when negative).
//
// Engine enum. Two parts:
//   A. twosComplement (unexported helper) against math/big on all 1-2 byte strings and on
//      structured 20-byte strings (boundary bytes at both ends, three fills).
//   B. GenerateServerID on the real authenticator for every secret of length 0..2 (quick) /
//      0..3 (thorough) x a set of keys, against an independent reference built from
//      sha1.Sum + big.Int. SHA-1 is not invertible, so digest *shapes* cannot be chosen; instead
//      the shape class of every enumerated digest is counted and the classes that matter for the
//      formatting (negative, k leading zero nibbles, carry depth of the negation) must all be hit.

import (
	"bytes"
	"context"
	"crypto/rand"
	"crypto/rsa"
	"crypto/sha1"
	"crypto/x509"
	"encoding/hex"
	"errors"
	"fmt"
	"io"
	"math/big"
	"net/http"
	"net/url"
	"strings"
	"sync"
	"testing"

	"go.minekube.com/gate/pkg/edition/java/proxy/zzverif/vrt"
)

// fixed RSA-1024 test key (PKCS#1 DER, hex); generated once for /verif, not a secret.
const testKeyHex = "3082025c02010002818100ae0f1616ae03abfa8ba860b537214cbcbbd61727dd9724b4dbb863fce0be99f30d02cd32813d26e0216c58080796b53ef0052a7563caf149311bff13655fbb7664e8584744a849c9f585eda4b8cbbe46ad5d499e65c3af7bab51ab75c42b80da0663a242148f79fcec6d49a61899a6e72f44b2da001493288b4dbfb455e7dad30203010001028180443047d481be9180d97690d05d752fb55e96ec426366a36c3109c72e19b3c1e6fc69650f0c9f72dbea6c21fe9f4e74d9dfb8fe5db7c71908b5f304564a681b2d8cb47a1e003115a73da8c934d4237945a9984e81834fafffb51d64a3b48ff63df9904ea1384e442f5c98b05b4707bb17067163e026826a4a211836e62441eef5024100da58f371b1cabb0df47b87b77aa3222f1e214eaf0a04bda2759a4f1250fdaf2574ea43015f3d806cc3488a02a43b6b7be58b17e5907e8e2b04a38179ad900d3d024100cc12ff67987cfd794f5e0e586ff9c30ff021f33078815370c5ca7cd91874d1ca6d34f30332aba9f7ee507267521905b67bdc26cd6cf16ba6b09d4f8f64f9294f024100b47f13bfc8d96e07fb32a2de69e2b13f8208c6a2ac057f3ded39c263c1cff41962acc4f73d63f9e5ef08e80d86f617c433dce7c43dce6077ef3dbaaa7b6fb98102405aecdbff3c61f44de89eefa557bee0ba6933b737117a0dc3615d26e35392392708215f653d5e5f0ca8920f67199d2c7e721154f89261bea5366be0d6f31650e102406e1b0b6be900a90a794a148d375536b2246cbc265ef119e614618ebdfd2007c3094f71ba2a0d4d3f17533c4d032d417a0a33473c880064da74660f8a2bcba378"

var two160 = new(big.Int).Lsh(big.NewInt(1), 160)

// refServerID is the reference: Java's `new BigInteger(digest).toString(16)`.
func refServerID(secret, key []byte) (string, [20]byte) {
	buf := make([]byte, 0, len(secret)+len(key))
	buf = append(append(buf, secret...), key...)
	d := sha1.Sum(buf)
	n := new(big.Int).SetBytes(d[:])
	if d[0] >= 0x80 {
		n.Sub(n, two160)
	}
	return n.Text(16), d
}

// refTwos is (2^(8n) - x) mod 2^(8n) as n big-endian bytes.
func refTwos(p []byte) []byte {
	mod := new(big.Int).Lsh(big.NewInt(1), uint(8*len(p)))
	n := new(big.Int).SetBytes(p)
	n.Sub(mod, n)
	n.Mod(n, mod)
	return n.FillBytes(make([]byte, len(p)))
}

type c09Replay struct {
	Kind   string `json:"kind"` // "id", "twos", "wire" or "concurrent"
	Secret string `json:"secret,omitempty"`
	Key    string `json:"key,omitempty"`
	Input  string `json:"input,omitempty"`
	URLFn  string `json:"urlfn,omitempty"` // wire: default | custom | custom-query | reset
	IP     string `json:"ip,omitempty"`
}

// ---- C: the id as it is SENT to the session server (hasJoined request) ----

// captureRT is the scripted session server: it records the raw request URL, nothing leaves the process.
type captureRT struct{ urls []string }

func (c *captureRT) RoundTrip(req *http.Request) (*http.Response, error) {
	c.urls = append(c.urls, req.URL.String())
	return &http.Response{StatusCode: 204, Status: "204", Proto: "HTTP/1.1", ProtoMajor: 1, ProtoMinor: 1,
		Header: http.Header{}, Body: io.NopCloser(strings.NewReader("")), Request: req}, nil
}

// refQueryParam is an independent application/x-www-form-urlencoded reader (what the session
// server does with the query string): split on '&' and '=', '+' is a space, %XX is a byte.
func refQueryParam(rawURL, name string) ([]string, error) {
	i := strings.IndexByte(rawURL, '?')
	if i < 0 {
		return nil, nil
	}
	q := rawURL[i+1:]
	if j := strings.IndexByte(q, '#'); j >= 0 {
		q = q[:j]
	}
	dec := func(s string) (string, error) {
		var b []byte
		for k := 0; k < len(s); k++ {
			switch {
			case s[k] == '+':
				b = append(b, ' ')
			case s[k] == '%':
				if k+2 >= len(s) {
					return "", errors.New("truncated escape")
				}
				v, err := hex.DecodeString(s[k+1 : k+3])
				if err != nil {
					return "", err
				}
				b = append(b, v[0])
				k += 2
			default:
				b = append(b, s[k])
			}
		}
		return string(b), nil
	}
	var out []string
	for _, kv := range strings.Split(q, "&") {
		k, v, _ := strings.Cut(kv, "=")
		dk, err := dec(k)
		if err != nil {
			return nil, err
		}
		if dk != name {
			continue
		}
		dv, err := dec(v)
		if err != nil {
			return nil, err
		}
		out = append(out, dv)
	}
	return out, nil
}

var wireURLFns = []string{"default", "custom", "custom-query", "reset"} // + "generated": default URL, key generated by New

// newWireAuth builds the REAL authenticator through auth.New over the scripted session server.
func newWireAuth(priv *rsa.PrivateKey, urlfn string, rt *captureRT) (Authenticator, error) {
	o := Options{PrivateKey: priv, Client: &http.Client{Transport: rt}}
	if urlfn == "generated" {
		o.PrivateKey = nil
	}
	switch urlfn {
	case "custom", "reset":
		u, _ := url.Parse("http://session.invalid/session/minecraft/hasJoined")
		o.HasJoinedURLFn = CustomHasJoinedURL(u)
	case "custom-query":
		u, _ := url.Parse("http://session.invalid/has-joined?tenant=a%26b")
		o.HasJoinedURLFn = CustomHasJoinedURL(u)
	}
	a, err := New(o)
	if err == nil && urlfn == "reset" {
		a.SetHasJoinedURLFn(nil) // back to the default Mojang endpoint
	}
	return a, err
}

// checkWire: what a vanilla client does (encrypt the secret with the key the proxy announced), then
// what the login handler does (DecryptSharedSecret -> GenerateServerID -> AuthenticateJoin), then
// what the session server sees (serverId parameter of the request).
func checkWire(r *vrt.R, a Authenticator, rt *captureRT, secret []byte, urlfn, ip string, count bool) {
	r.Eval(1)
	pubDER := append([]byte(nil), a.PublicKey()...)
	rp := c09Replay{Kind: "wire", Secret: hex.EncodeToString(secret), URLFn: urlfn, IP: ip}
	want, d := refServerID(secret, pubDER)
	pk, err := x509.ParsePKIXPublicKey(pubDER)
	if err != nil {
		r.Violation("wire/public-key-not-pkix", fmt.Sprintf("PublicKey() %x: %v", pubDER, err), rp)
		return
	}
	enc, err := rsa.EncryptPKCS1v15(rand.Reader, pk.(*rsa.PublicKey), secret)
	if err != nil {
		panic(err)
	}
	var serverID string
	var resp Response
	if p, v := vrt.Catch(func() {
		var dec []byte
		dec, err = a.DecryptSharedSecret(enc)
		if err != nil {
			return
		}
		if !bytes.Equal(dec, secret) {
			err = fmt.Errorf("DecryptSharedSecret returned %x for %x", dec, secret)
			return
		}
		serverID, err = a.GenerateServerID(dec)
		if err != nil {
			return
		}
		rt.urls = rt.urls[:0]
		resp, err = a.AuthenticateJoin(context.Background(), serverID, "Notch", ip)
	}); p {
		r.Violation("wire/panic", fmt.Sprintf("secret=%x urlfn=%s: %v", secret, urlfn, v), rp)
		return
	}
	if err != nil || resp == nil {
		r.Violation("wire/login-steps-failed", fmt.Sprintf("secret=%x urlfn=%s: %v", secret, urlfn, err), rp)
		return
	}
	if !bytes.Equal(a.PublicKey(), pubDER) {
		r.Violation("wire/public-key-changed", fmt.Sprintf("secret=%x: PublicKey() changed from %x to %x", secret, pubDER, a.PublicKey()), rp)
	}
	if len(rt.urls) != 1 {
		r.Violation("wire/request-count", fmt.Sprintf("secret=%x urlfn=%s: %d requests %v", secret, urlfn, len(rt.urls), rt.urls), rp)
		return
	}
	got, perr := refQueryParam(rt.urls[0], "serverId")
	neg, lz, carry := shape(d)
	if count {
		r.Class("wire:urlfn-" + urlfn)
		if neg {
			class(r, "wire:negative")
			if carry > 0 {
				class(r, "wire:negative-carry")
			}
		}
		if lz > 0 {
			class(r, "wire:leading-zero")
		}
		if neg || lz > 0 {
			r.Nontrivial(1)
		}
	}
	if perr != nil || len(got) != 1 || got[0] != want {
		kind := "non-negative"
		if neg {
			kind = "negative"
		}
		r.Violation("hasJoined-request/"+kind+"-serverId-differs-from-java", fmt.Sprintf("secret=%x sha1=%x urlfn=%s: request %q carries serverId %q (err %v), GenerateServerID returned %q, Java BigInteger(digest).toString(16) = %q", secret, d, urlfn, rt.urls[0], got, perr, serverID, want), rp)
		return
	}
	if u, _ := refQueryParam(rt.urls[0], "username"); len(u) != 1 || u[0] != "Notch" {
		r.Violation("hasJoined-request/username", fmt.Sprintf("request %q", rt.urls[0]), rp)
	}
}

// checkConcurrent: the authenticator is one object shared by all logins. Supplementary (free-running
// goroutines, not an exhaustive schedule search): every id computed while other goroutines compute
// theirs on the same authenticator must still be the reference digest.
func checkConcurrent(r *vrt.R, a Authenticator, key []byte) {
	// Tight loops of nothing but GenerateServerID, released together, with short (16-byte) and long (2 KiB: a wide
	// window inside the hasher) secrets; the reference is computed afterwards, outside the parallel phase.
	const workers, per, rounds = 8, 4000, 3
	type res struct {
		got string
		err error
	}
	for round := 0; round < rounds; round++ {
		secrets := make([][][]byte, workers)
		results := make([][]res, workers)
		for w := range secrets {
			secrets[w] = make([][]byte, per)
			results[w] = make([]res, per)
			for i := range secrets[w] {
				s := []byte{byte(w), byte(i >> 8), byte(i), 0x5a, byte(w * 31), byte(round), 0xff, byte(i * 7), 1, 2, 3, 4, 5, 6, 7, byte(w)}
				if i%2 == 1 {
					s = append(s, bytes.Repeat([]byte{byte(i), byte(w)}, 1024)...)
				}
				secrets[w][i] = s
			}
		}
		start := make(chan struct{})
		var wg sync.WaitGroup
		for w := 0; w < workers; w++ {
			wg.Add(1)
			go func(w int) {
				defer wg.Done()
				<-start
				for i, s := range secrets[w] {
					var got string
					var err error
					if pn, v := vrt.Catch(func() { got, err = a.GenerateServerID(s) }); pn {
						err = fmt.Errorf("panic: %v", v)
					}
					results[w][i] = res{got, err}
				}
			}(w)
		}
		close(start)
		wg.Wait()
		r.Eval(workers * per)
		r.ClassN("concurrent:ids-on-shared-authenticator", workers*per)
		for w := range results {
			for i, rs := range results[w] {
				want, _ := refServerID(secrets[w][i], key)
				if rs.err != nil || rs.got != want {
					got := rs.got
					if rs.err != nil {
						got = rs.err.Error()
					}
					r.Violation("GenerateServerID/concurrent-logins-differ-from-java", fmt.Sprintf("%d goroutines on one authenticator: secret=%x... (%d bytes) got %q want %q (sequentially the same call is checked by part B)", workers, secrets[w][i][:16], len(secrets[w][i]), got, want), c09Replay{Kind: "concurrent"})
					return
				}
			}
		}
	}
}

func checkTwos(r *vrt.R, in []byte) {
	r.Eval(1)
	want := refTwos(in)
	cp := append([]byte(nil), in...)
	var got []byte
	if p, v := vrt.Catch(func() { got = twosComplement(cp) }); p {
		r.Violation("twosComplement/panic", fmt.Sprintf("twosComplement(%x) panicked: %v", in, v), c09Replay{Kind: "twos", Input: hex.EncodeToString(in)})
		return
	}
	if hex.EncodeToString(got) != hex.EncodeToString(want) {
		r.Violation("twosComplement/differs-from-bigint", fmt.Sprintf("twosComplement(%x) = %x, math/big says %x", in, got, want), c09Replay{Kind: "twos", Input: hex.EncodeToString(in)})
	}
}

// shape classifies a digest by what the formatter has to get right.
func shape(d [20]byte) (neg bool, lz int, carry int) {
	neg = d[0] >= 0x80
	mag := d[:]
	if neg {
		mag = refTwos(d[:])
		for i := 19; i >= 0 && d[i] == 0; i-- {
			carry++
		}
	}
	for _, c := range hex.EncodeToString(mag) {
		if c != '0' {
			break
		}
		lz++
	}
	return
}

var hitClasses = map[string]int{}

func class(r *vrt.R, c string) { hitClasses[c]++; r.Class(c) }

func checkID(r *vrt.R, a *authenticator, secret, key []byte, count bool) {
	r.Eval(1)
	want, d := refServerID(secret, key)
	var got string
	var err error
	if p, v := vrt.Catch(func() { got, err = a.GenerateServerID(secret) }); p {
		r.Violation("GenerateServerID/panic", fmt.Sprintf("secret=%x key=%x: panic %v", secret, key, v), c09Replay{Kind: "id", Secret: hex.EncodeToString(secret), Key: hex.EncodeToString(key)})
		return
	}
	neg, lz, carry := shape(d)
	if count {
		if neg {
			class(r, "digest:negative")
			c := carry
			if c > 2 {
				c = 2
			}
			class(r, fmt.Sprintf("digest:negation-carry-through-%d-bytes", c))
		} else {
			class(r, "digest:non-negative")
		}
		l := lz
		if l > 4 {
			l = 4
		}
		class(r, fmt.Sprintf("digest:leading-zero-nibbles-%d", l))
		if neg || lz > 0 {
			r.Nontrivial(1)
		}
	}
	if err != nil || got != want {
		kind := "non-negative"
		if neg {
			kind = "negative"
		}
		if lz > 0 {
			kind += "-leading-zeros"
		}
		r.Violation("GenerateServerID/"+kind+"-differs-from-java", fmt.Sprintf("secret=%x key=%x sha1=%x: got %q err=%v, Java BigInteger(digest).toString(16) = %q", secret, key, d, got, err, want),
			c09Replay{Kind: "id", Secret: hex.EncodeToString(secret), Key: hex.EncodeToString(key)})
	}
}

func mustHex(s string) []byte {
	b, err := hex.DecodeString(s)
	if err != nil {
		panic(err)
	}
	return b
}

func TestVerif(t *testing.T) {
	vrt.Run(t, "C09", func(r *vrt.R) {
		// the real constructor path: public key = PKIX DER of the fixed RSA key
		priv, err := x509.ParsePKCS1PrivateKey(mustHex(testKeyHex))
		if err != nil {
			t.Fatal(err)
		}
		realA, err := New(Options{PrivateKey: priv})
		if err != nil {
			t.Fatal(err)
		}
		realKey := append([]byte(nil), realA.PublicKey()...)

		var rp c09Replay
		if r.ReplayInto(&rp) {
			switch rp.Kind {
			case "twos":
				checkTwos(r, mustHex(rp.Input))
			case "id":
				k := mustHex(rp.Key)
				checkID(r, &authenticator{public: k}, mustHex(rp.Secret), k, false)
			case "wire":
				rt := &captureRT{}
				a, err := newWireAuth(priv, rp.URLFn, rt)
				if err != nil {
					t.Fatal(err)
				}
				checkWire(r, a, rt, mustHex(rp.Secret), rp.URLFn, rp.IP, false)
			case "concurrent":
				for i := 0; i < 5 && r.NViolations() == 0; i++ {
					checkConcurrent(r, realA, realKey)
				}
			}
			return
		}

		// ---- A: twosComplement ----
		if r.Mine(0) {
			for a := 0; a < 256; a++ {
				checkTwos(r, []byte{byte(a)})
				for b := 0; b < 256; b++ {
					checkTwos(r, []byte{byte(a), byte(b)})
				}
			}
			r.ClassN("twosComplement:all-1-2-byte-strings", 256+65536)
			edge := []byte{0x00, 0x01, 0x7F, 0x80, 0xFF}
			n := 0
			for _, fill := range []byte{0x00, 0xFF, 0x5A} {
				for _, a := range edge {
					for _, b := range edge {
						for _, c := range edge {
							for _, d := range edge {
								p := make([]byte, 20)
								for i := range p {
									p[i] = fill
								}
								p[0], p[1], p[18], p[19] = a, b, c, d
								checkTwos(r, p)
								n++
							}
						}
					}
				}
			}
			r.ClassN("twosComplement:structured-20-byte", n)
			// carries across ALL bytes: 0x80 00..00, ff..ff, 00..00, 00..01 for every length 1..20
			for l := 1; l <= 20; l++ {
				for _, mk := range []func([]byte){
					func(p []byte) { p[0] = 0x80 },
					func(p []byte) {
						for i := range p {
							p[i] = 0xFF
						}
					},
					func(p []byte) {},
					func(p []byte) { p[len(p)-1] = 1 },
					func(p []byte) { p[0] = 0xFF },
				} {
					p := make([]byte, l)
					mk(p)
					checkTwos(r, p)
					r.Class("twosComplement:full-carry-chains")
				}
			}
		}

		// ---- B: GenerateServerID ----
		// published reference vectors (wiki.vg): key empty, secret = ASCII name
		if r.Mine(1) {
			a := &authenticator{public: nil}
			for name, want := range map[string]string{
				"Notch": "4ed1f46bbe04bc756bcb17c0c7ce3e4632f06a48",
				"jeb_":  "-7c9d5b0044c130109a5d7b5fb5c317c02b4e28c1",
				"simon": "88e16a1019277b15d58faf0541e11910eb756f6",
			} {
				r.Eval(1)
				r.Class("published-vectors")
				if ref, _ := refServerID([]byte(name), nil); ref != want {
					t.Fatalf("reference implementation disagrees with the published vector for %s: %s", name, ref)
				}
				got, err := a.GenerateServerID([]byte(name))
				if err != nil || got != want {
					r.Violation("GenerateServerID/published-vector", fmt.Sprintf("sha1(%q) -> %q err=%v, want %q", name, got, err, want), c09Replay{Kind: "id", Secret: hex.EncodeToString([]byte(name))})
				}
			}
		}

		// ---- B2: secrets of realistic and block-boundary lengths (vanilla sends 16 bytes), long keys ----
		if r.Mine(2) {
			longKeys := [][]byte{realKey, nil, bytes.Repeat([]byte{0x30, 0x82, 0x01, 0x22}, 74)[:294], bytes.Repeat([]byte{0xA5}, 550), bytes.Repeat([]byte{0x00, 0xFF, 0x80}, 400)}
			fills := []func(i, l int) byte{
				func(i, l int) byte { return 0x00 },
				func(i, l int) byte { return 0xFF },
				func(i, l int) byte { return byte(i + 1) },
				func(i, l int) byte { return byte(0x80 >> uint(i%8)) },
				func(i, l int) byte { // only the last byte set: a truncated secret looks like the all-zero one
					if i == l-1 {
						return 0x01
					}
					return 0
				},
			}
			n := 0
			for _, key := range longKeys {
				a := &authenticator{public: key}
				for _, l := range []int{4, 8, 15, 16, 17, 20, 24, 31, 32, 33, 55, 56, 57, 63, 64, 65, 100, 119, 120, 128, 255, 256, 1000, 4096} {
					for _, f := range fills {
						sec := make([]byte, l)
						for i := range sec {
							sec[i] = f(i, l)
						}
						checkID(r, a, sec, key, false)
						n++
					}
				}
				// every 16-byte secret whose last two bytes vary (the length vanilla uses)
				for x := 0; x < 65536; x += 1 {
					sec := []byte{0, 0, 0, 0, 0, 0, 0, 0, 0xC0, 0xFF, 0xEE, 0, 0, 0, byte(x >> 8), byte(x)}
					checkID(r, a, sec, key, false)
					n++
					if len(key) > 200 && x >= 4096 {
						break
					}
				}
			}
			r.ClassN("secret-lengths-4..4096-and-16-byte-secrets", n)
		}

		// ---- C: client encrypts -> DecryptSharedSecret -> GenerateServerID -> AuthenticateJoin -> request URL ----
		if r.Mine(3) {
			for _, urlfn := range wireURLFns {
				rt := &captureRT{}
				a, err := newWireAuth(priv, urlfn, rt)
				if err != nil {
					t.Fatal(err)
				}
				nsec := 4096
				if urlfn != "default" {
					nsec = 512
				}
				for x := 0; x < nsec; x++ {
					sec := []byte{0, 0x10, 0x20, 0x30, 0x40, 0x50, 0x60, 0x70, 0x80, 0x90, 0xA0, 0xB0, 0xC0, 0xD0, byte(x >> 8), byte(x)}
					ip := ""
					if x%2 == 1 {
						ip = "203.0.113.7"
					}
					checkWire(r, a, rt, sec, urlfn, ip, true)
				}
				for _, sec := range [][]byte{{0x01}, {0x00, 0x01}, bytes.Repeat([]byte{0}, 16), bytes.Repeat([]byte{0xFF}, 16), bytes.Repeat([]byte{0x7}, 32), bytes.Repeat([]byte{0x9}, 100)} {
					checkWire(r, a, rt, sec, urlfn, "", false)
				}
			}
			// a key generated by New itself (Options.PrivateKey unset): the digest must be over exactly the bytes PublicKey() announces
			for i := 0; i < 2; i++ {
				rt := &captureRT{}
				a, err := newWireAuth(priv, "generated", rt)
				if err != nil {
					t.Fatal(err)
				}
				if bytes.Equal(a.PublicKey(), realKey) {
					t.Fatal("New without a private key returned the fixed test key")
				}
				for x := 0; x < 64; x++ {
					checkWire(r, a, rt, []byte{byte(x), 1, 2, 3, 4, 5, 6, 7, 8, 9, 10, 11, 12, 13, 14, 15}, "generated", "", false)
				}
				r.Class("wire:generated-key")
			}
			if r.NShards <= 1 {
				for _, c := range []string{"wire:negative", "wire:negative-carry", "wire:leading-zero"} {
					if hitClasses[c] == 0 {
						r.NotExhaustive("digest shape class never produced on the request path: " + c)
					}
				}
			}
			// ---- D (supplementary): concurrent logins on the shared authenticator ----
			checkConcurrent(r, realA, realKey)
		}

		keys := [][]byte{realKey, nil, {0x00}, {0xFF}, []byte("k"), {0x30, 0x81, 0x9f}, []byte(strings.Repeat("\x00", 64)), []byte(strings.Repeat("\xff", 162))}
		maxLen := 2
		lenKeys := map[int]int{0: len(keys), 1: len(keys), 2: len(keys)}
		if r.Thorough() {
			maxLen = 3
			lenKeys[3] = 2 // all 2^24 three-byte secrets for the real key and the empty key
		}
		item := 4
		for ki, key := range keys {
			a := &authenticator{public: key}
			if ki == 0 {
				a = realA.(*authenticator)
			}
			for l := 0; l <= maxLen; l++ {
				if ki >= lenKeys[l] {
					continue
				}
				if l == 0 {
					if r.Mine(item) {
						checkID(r, a, nil, key, true)
						checkID(r, a, []byte{}, key, false)
					}
					item++
					continue
				}
				// work items = first byte of the secret
				for b0 := 0; b0 < 256; b0++ {
					item++
					if !r.Mine(item) {
						continue
					}
					if r.Expired() {
						return
					}
					s := make([]byte, l)
					s[0] = byte(b0)
					enumTail(s, 1, func() { checkID(r, a, s, key, true) })
				}
			}
		}
		if r.NShards <= 1 {
			for _, c := range []string{"digest:negative", "digest:non-negative", "digest:negation-carry-through-0-bytes", "digest:negation-carry-through-1-bytes", "digest:negation-carry-through-2-bytes",
				"digest:leading-zero-nibbles-0", "digest:leading-zero-nibbles-1", "digest:leading-zero-nibbles-2", "digest:leading-zero-nibbles-3", "digest:leading-zero-nibbles-4"} {
				if hitClasses[c] == 0 {
					r.NotExhaustive("digest shape class never produced by the enumerated inputs: " + c)
				}
			}
		}
		r.Extra("keys", len(keys))
		r.Extra("max_secret_len", maxLen)
	})
}

func enumTail(s []byte, pos int, f func()) {
	if pos == len(s) {
		f()
		return
	}
	for b := 0; b < 256; b++ {
		s[pos] = byte(b)
		enumTail(s, pos+1, f)
	}
}
