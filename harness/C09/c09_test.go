package auth

// C09: the server id sent to the session server equals Minecraft's reference digest
// (SHA-1(secret || key) read as a signed two's-complement big integer, lowercase hex, no leading
// zeros, '-' when negative).
//
// Engine enum. Two parts:
//   A. twosComplement (unexported helper) against math/big on all 1-2 byte strings and on
//      structured 20-byte strings (boundary bytes at both ends, three fills).
//   B. GenerateServerID on the real authenticator for every secret of length 0..2 (quick) /
//      0..3 (thorough) x a set of keys, against an independent reference built from
//      sha1.Sum + big.Int. SHA-1 is not invertible, so digest *shapes* cannot be chosen; instead
//      the shape class of every enumerated digest is counted and the classes that matter for the
//      formatting (negative, k leading zero nibbles, carry depth of the negation) must all be hit.

import (
	"crypto/sha1"
	"crypto/x509"
	"encoding/hex"
	"fmt"
	"math/big"
	"strings"
	"testing"

	"go.minekube.com/gate/pkg/edition/java/proxy/zzverif/vrt"
)

// fixed RSA-1024 test key (PKCS#1 DER, hex); generated once for /verif, not a secret.
const testKeyHex = "3082025c02010002818100ae0f1616ae03abfa8ba860b537214cbcbbd61727dd9724b4dbb863fce0be99f30d02cd32813d26e0216c58080796b53ef0052a7563caf149311bff13655fbb7664e8584744a849c9f585eda4b8cbbe46ad5d499e65c3af7bab51ab75c42b80da0663a242148f79fcec6d49a61899a6e72f44b2da001493288b4dbfb455e7dad30203010001028180443047d481be9180d97690d05d752fb55e96ec426366a36c3109c72e19b3c1e6fc69650f0c9f72dbea6c21fe9f4e74d9dfb8fe5db7c71908b5f304564a681b2d8cb47a1e003115a73da8c934d4237945a9984e81834fafffb51d64a3b48ff63df9904ea1384e442f5c98b05b4707bb17067163e026826a4a211836e62441eef5024100da58f371b1cabb0df47b87b77aa3222f1e214eaf0a04bda2759a4f1250fdaf2574ea43015f3d806cc3488a02a43b6b7be58b17e5907e8e2b04a38179ad900d3d024100cc12ff67987cfd794f5e0e586ff9c30ff021f33078815370c5ca7cd91874d1ca6d34f30332aba9f7ee507267521905b67bdc26cd6cf16ba6b09d4f8f64f9294f024100b47f13bfc8d96e07fb32a2de69e2b13f8208c6a2ac057f3ded39c263c1cff41962acc4f73d63f9e5ef08e80d86f617c433dce7c43dce6077ef3dbaaa7b6fb98102405aecdbff3c61f44de89eefa557bee0ba6933b737117a0dc3615d26e35392392708215f653d5e5f0ca8920f67199d2c7e721154f89261bea5366be0d6f31650e102406e1b0b6be900a90a794a148d375536b2246cbc265ef119e614618ebdfd2007c3094f71ba2a0d4d3f17533c4d032d417a0a33473c880064da74660f8a2bcba378"

var two160 = new(big.Int).Lsh(big.NewInt(1), 160)

// refServerID is the reference: Java's `new BigInteger(digest).toString(16)`.
func refServerID(secret, key []byte) (string, [20]byte) {
	buf := make([]byte, 0, len(secret)+len(key))
	buf = append(append(buf, secret...), key...)
	d := sha1.Sum(buf)
	n := new(big.Int).SetBytes(d[:])
	if d[0] >= 0x80 {
		n.Sub(n, two160)
	}
	return n.Text(16), d
}

// refTwos is (2^(8n) - x) mod 2^(8n) as n big-endian bytes.
func refTwos(p []byte) []byte {
	mod := new(big.Int).Lsh(big.NewInt(1), uint(8*len(p)))
	n := new(big.Int).SetBytes(p)
	n.Sub(mod, n)
	n.Mod(n, mod)
	return n.FillBytes(make([]byte, len(p)))
}

type c09Replay struct {
	Kind   string `json:"kind"` // "id" or "twos"
	Secret string `json:"secret,omitempty"`
	Key    string `json:"key,omitempty"`
	Input  string `json:"input,omitempty"`
}

func checkTwos(r *vrt.R, in []byte) {
	r.Eval(1)
	want := refTwos(in)
	cp := append([]byte(nil), in...)
	var got []byte
	if p, v := vrt.Catch(func() { got = twosComplement(cp) }); p {
		r.Violation("twosComplement/panic", fmt.Sprintf("twosComplement(%x) panicked: %v", in, v), c09Replay{Kind: "twos", Input: hex.EncodeToString(in)})
		return
	}
	if hex.EncodeToString(got) != hex.EncodeToString(want) {
		r.Violation("twosComplement/differs-from-bigint", fmt.Sprintf("twosComplement(%x) = %x, math/big says %x", in, got, want), c09Replay{Kind: "twos", Input: hex.EncodeToString(in)})
	}
}

// shape classifies a digest by what the formatter has to get right.
func shape(d [20]byte) (neg bool, lz int, carry int) {
	neg = d[0] >= 0x80
	mag := d[:]
	if neg {
		mag = refTwos(d[:])
		for i := 19; i >= 0 && d[i] == 0; i-- {
			carry++
		}
	}
	for _, c := range hex.EncodeToString(mag) {
		if c != '0' {
			break
		}
		lz++
	}
	return
}

var hitClasses = map[string]int{}

func class(r *vrt.R, c string) { hitClasses[c]++; r.Class(c) }

func checkID(r *vrt.R, a *authenticator, secret, key []byte, count bool) {
	r.Eval(1)
	want, d := refServerID(secret, key)
	var got string
	var err error
	if p, v := vrt.Catch(func() { got, err = a.GenerateServerID(secret) }); p {
		r.Violation("GenerateServerID/panic", fmt.Sprintf("secret=%x key=%x: panic %v", secret, key, v), c09Replay{Kind: "id", Secret: hex.EncodeToString(secret), Key: hex.EncodeToString(key)})
		return
	}
	neg, lz, carry := shape(d)
	if count {
		if neg {
			class(r, "digest:negative")
			c := carry
			if c > 2 {
				c = 2
			}
			class(r, fmt.Sprintf("digest:negation-carry-through-%d-bytes", c))
		} else {
			class(r, "digest:non-negative")
		}
		l := lz
		if l > 4 {
			l = 4
		}
		class(r, fmt.Sprintf("digest:leading-zero-nibbles-%d", l))
		if neg || lz > 0 {
			r.Nontrivial(1)
		}
	}
	if err != nil || got != want {
		kind := "non-negative"
		if neg {
			kind = "negative"
		}
		if lz > 0 {
			kind += "-leading-zeros"
		}
		r.Violation("GenerateServerID/"+kind+"-differs-from-java", fmt.Sprintf("secret=%x key=%x sha1=%x: got %q err=%v, Java BigInteger(digest).toString(16) = %q", secret, key, d, got, err, want),
			c09Replay{Kind: "id", Secret: hex.EncodeToString(secret), Key: hex.EncodeToString(key)})
	}
}

func mustHex(s string) []byte {
	b, err := hex.DecodeString(s)
	if err != nil {
		panic(err)
	}
	return b
}

func TestVerif(t *testing.T) {
	vrt.Run(t, "C09", func(r *vrt.R) {
		// the real constructor path: public key = PKIX DER of the fixed RSA key
		priv, err := x509.ParsePKCS1PrivateKey(mustHex(testKeyHex))
		if err != nil {
			t.Fatal(err)
		}
		realA, err := New(Options{PrivateKey: priv})
		if err != nil {
			t.Fatal(err)
		}
		realKey := append([]byte(nil), realA.PublicKey()...)

		var rp c09Replay
		if r.ReplayInto(&rp) {
			switch rp.Kind {
			case "twos":
				checkTwos(r, mustHex(rp.Input))
			case "id":
				k := mustHex(rp.Key)
				checkID(r, &authenticator{public: k}, mustHex(rp.Secret), k, false)
			}
			return
		}

		// ---- A: twosComplement ----
		if r.Mine(0) {
			for a := 0; a < 256; a++ {
				checkTwos(r, []byte{byte(a)})
				for b := 0; b < 256; b++ {
					checkTwos(r, []byte{byte(a), byte(b)})
				}
			}
			r.ClassN("twosComplement:all-1-2-byte-strings", 256+65536)
			edge := []byte{0x00, 0x01, 0x7F, 0x80, 0xFF}
			n := 0
			for _, fill := range []byte{0x00, 0xFF, 0x5A} {
				for _, a := range edge {
					for _, b := range edge {
						for _, c := range edge {
							for _, d := range edge {
								p := make([]byte, 20)
								for i := range p {
									p[i] = fill
								}
								p[0], p[1], p[18], p[19] = a, b, c, d
								checkTwos(r, p)
								n++
							}
						}
					}
				}
			}
			r.ClassN("twosComplement:structured-20-byte", n)
			// carries across ALL bytes: 0x80 00..00, ff..ff, 00..00, 00..01 for every length 1..20
			for l := 1; l <= 20; l++ {
				for _, mk := range []func([]byte){
					func(p []byte) { p[0] = 0x80 },
					func(p []byte) {
						for i := range p {
							p[i] = 0xFF
						}
					},
					func(p []byte) {},
					func(p []byte) { p[len(p)-1] = 1 },
					func(p []byte) { p[0] = 0xFF },
				} {
					p := make([]byte, l)
					mk(p)
					checkTwos(r, p)
					r.Class("twosComplement:full-carry-chains")
				}
			}
		}

		// ---- B: GenerateServerID ----
		// published reference vectors (wiki.vg): key empty, secret = ASCII name
		if r.Mine(1) {
			a := &authenticator{public: nil}
			for name, want := range map[string]string{
				"Notch": "4ed1f46bbe04bc756bcb17c0c7ce3e4632f06a48",
				"jeb_":  "-7c9d5b0044c130109a5d7b5fb5c317c02b4e28c1",
				"simon": "88e16a1019277b15d58faf0541e11910eb756f6",
			} {
				r.Eval(1)
				r.Class("published-vectors")
				if ref, _ := refServerID([]byte(name), nil); ref != want {
					t.Fatalf("reference implementation disagrees with the published vector for %s: %s", name, ref)
				}
				got, err := a.GenerateServerID([]byte(name))
				if err != nil || got != want {
					r.Violation("GenerateServerID/published-vector", fmt.Sprintf("sha1(%q) -> %q err=%v, want %q", name, got, err, want), c09Replay{Kind: "id", Secret: hex.EncodeToString([]byte(name))})
				}
			}
		}

		keys := [][]byte{realKey, nil, {0x00}, {0xFF}, []byte("k"), {0x30, 0x81, 0x9f}, []byte(strings.Repeat("\x00", 64)), []byte(strings.Repeat("\xff", 162))}
		maxLen := 2
		lenKeys := map[int]int{0: len(keys), 1: len(keys), 2: len(keys)}
		if r.Thorough() {
			maxLen = 3
			lenKeys[3] = 2 // all 2^24 three-byte secrets for the real key and the empty key
		}
		item := 2
		for ki, key := range keys {
			a := &authenticator{public: key}
			if ki == 0 {
				a = realA.(*authenticator)
			}
			for l := 0; l <= maxLen; l++ {
				if ki >= lenKeys[l] {
					continue
				}
				if l == 0 {
					if r.Mine(item) {
						checkID(r, a, nil, key, true)
						checkID(r, a, []byte{}, key, false)
					}
					item++
					continue
				}
				// work items = first byte of the secret
				for b0 := 0; b0 < 256; b0++ {
					item++
					if !r.Mine(item) {
						continue
					}
					if r.Expired() {
						return
					}
					s := make([]byte, l)
					s[0] = byte(b0)
					enumTail(s, 1, func() { checkID(r, a, s, key, true) })
				}
			}
		}
		if r.NShards <= 1 {
			for _, c := range []string{"digest:negative", "digest:non-negative", "digest:negation-carry-through-0-bytes", "digest:negation-carry-through-1-bytes", "digest:negation-carry-through-2-bytes",
				"digest:leading-zero-nibbles-0", "digest:leading-zero-nibbles-1", "digest:leading-zero-nibbles-2", "digest:leading-zero-nibbles-3", "digest:leading-zero-nibbles-4"} {
				if hitClasses[c] == 0 {
					r.NotExhaustive("digest shape class never produced by the enumerated inputs: " + c)
				}
			}
		}
		r.Extra("keys", len(keys))
		r.Extra("max_secret_len", maxLen)
	})
}

func enumTail(s []byte, pos int, f func()) {
	if pos == len(s) {
		f()
		return
	}
	for b := 0; b < 256; b++ {
		s[pos] = byte(b)
		enumTail(s, pos+1, f)
	}
}
