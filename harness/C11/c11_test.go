package proxy

// C11 — the player registry stays unique and consistent under any login/logout interleaving.
//
// Seam: a Proxy (built like New builds it) whose registry is driven ONLY through the real login and
// teardown code: every session is a real netmc connection over a recording net.Conn whose real
// authSessionHandler is activated (canRegisterConnection -> GameProfileRequest/PermissionsSetup/
// LoginEvent -> registerConnection -> LoginSuccess) and later closed (Disconnected -> teardown ->
// unregisterConnection).
//
// Two explorations, both on the instrumented code under the controlled scheduler:
//   seq/*   every sequential history up to a depth over {login(i), login-denied-by-LoginEvent(i),
//           disconnect(open session k)} for 4 identities colliding by UUID and/or case-insensitive
//           name, in 4 configurations (run with one scheduler thread so a self-deadlock is a finding);
//           a second family (seqx, one op shorter) over the ways a login FAILS or a session ends other
//           than by the client leaving: write error after registration, client gone during the
//           LoginEvent, pre-1.20.2 client, LoginAcknowledged followed by the no-server disconnect
//           (teardown through the configuration / initial-connect handlers) - see c11Apply.
//   conc/*  2-3 threads of such operations, every interleaving within a preemption bound, with the
//           invariants evaluated at EVERY scheduling point at which the registry lock is free; incl.
//           a connection that another goroutine closes while its own login is still completing.

import (
	"errors"
	"fmt"
	"hash/fnv"
	"sort"
	"strings"
	"testing"

	"go.minekube.com/gate/pkg/edition/java/proto/version"
	"go.minekube.com/gate/pkg/edition/java/proxy/zzverif/sched"
	"go.minekube.com/gate/pkg/edition/java/proxy/zzverif/schedrun"
	"go.minekube.com/gate/pkg/edition/java/proxy/zzverif/vrt"
	"go.minekube.com/gate/pkg/util/uuid"
)

var (
	c11U1 = uuid.UUID{0x11, 0x11, 0x11, 0x11, 1, 1, 1, 1, 1, 1, 1, 1, 1, 1, 1, 1}
	c11U2 = uuid.UUID{0x22, 0x22, 0x22, 0x22, 2, 2, 2, 2, 2, 2, 2, 2, 2, 2, 2, 2}
)

type c11Ident struct {
	name string
	id   uuid.UUID
}

// identities: colliding by UUID (0,1,3), by case-insensitive name (0,1,2), by both (0,1)
var c11Idents = []c11Ident{{"bob", c11U1}, {"BOB", c11U1}, {"Bob", c11U2}, {"eve", c11U1}}

type c11Cfg struct {
	name         string
	online, kick bool
}

// offline-kick: OnlineModeKickExistingPlayers=true with OnlineMode=false. canRegisterConnection then still
// checks for duplicates (it only skips the check when BOTH flags are set) while registerConnection takes its
// kick branch (it looks at the kick flag alone). The statement's name-uniqueness clause is conditional on
// kicking being disabled, so this configuration gets the kick-mode oracle (UUID uniqueness, count, nobody
// evicted, an older same-UUID session is disconnected before a new one holds the UUID).
var c11Cfgs = []c11Cfg{{"offline", false, false}, {"online", true, false}, {"online-kick", true, true}, {"offline-kick", false, true}}

// c11Check carries the per-execution observation state of the oracle.
type c11Check struct {
	w    *g5World
	kick bool
	fail func(key, format string, a ...any)
	step int
	// first step at which a session was observed as the holder of its UUID / of its lower-case name
	idHolderSince   map[*g5Session]int
	nameHolderSince map[*g5Session]int
}

func newC11Check(w *g5World, kick bool, fail func(string, string, ...any)) *c11Check {
	return &c11Check{w: w, kick: kick, fail: fail, idHolderSince: map[*g5Session]int{}, nameHolderSince: map[*g5Session]int{}}
}

func (c *c11Check) sessionOf(p *connectedPlayer) *g5Session {
	for _, s := range c.w.sessions {
		if s.player() == p {
			return s
		}
	}
	return nil
}

func c11Desc(p *connectedPlayer) string {
	if p == nil {
		return "nil"
	}
	return fmt.Sprintf("%s/%s@%p", p.Username(), g5ShortID(p.ID()), p)
}

// inv evaluates the property's invariants through the public accessors. final=true additionally
// checks the quiescent end state.
func (c *c11Check) inv(final bool) {
	p := c.w.Proxy
	byID := map[uuid.UUID]*connectedPlayer{}
	byName := map[string]*connectedPlayer{}
	var count, nListed int
	if final {
		// quiescent end state: through the public accessors
		for _, id := range []uuid.UUID{c11U1, c11U2} {
			if pl := p.Player(id); pl != nil {
				byID[id] = pl.(*connectedPlayer)
			}
		}
		for _, n := range []string{"bob", "eve"} {
			if pl := p.PlayerByName(n); pl != nil {
				byName[n] = pl.(*connectedPlayer)
			}
		}
		count = p.PlayerCount()
		nListed = len(p.Players())
	} else {
		// at a scheduling point: all threads are parked. The accessors' RLock would refuse while a writer
		// is merely WAITING for muP (and the observation of who registered when would get gaps), so the
		// indices are read directly whenever no writer HOLDS the lock - exactly what the accessors return.
		if p.muP.WriteHeld() {
			return
		}
		for _, id := range []uuid.UUID{c11U1, c11U2} {
			if pl := p.playerIDs[id]; pl != nil {
				byID[id] = pl
			}
		}
		for _, n := range []string{"bob", "eve"} {
			if pl := p.playerNames[n]; pl != nil {
				byName[n] = pl
			}
		}
		count = len(p.playerIDs)
		nListed = len(p.playerIDs)
		for k, pl := range p.playerIDs {
			if k != c11U1 && k != c11U2 || pl == nil {
				c.fail("index-key-mismatch", "playerIDs holds unexpected entry %v -> %s", k, c11Desc(pl))
			}
		}
		for k, pl := range p.playerNames {
			if k != "bob" && k != "eve" || pl == nil {
				c.fail("index-key-mismatch", "playerNames holds unexpected entry %q -> %s", k, c11Desc(pl))
			}
		}
	}
	c.step++
	state := func() string {
		var parts []string
		for _, id := range []uuid.UUID{c11U1, c11U2} {
			parts = append(parts, fmt.Sprintf("id[%s]=%s", g5ShortID(id), c11Desc(byID[id])))
		}
		for _, n := range []string{"bob", "eve"} {
			parts = append(parts, fmt.Sprintf("name[%s]=%s", n, c11Desc(byName[n])))
		}
		parts = append(parts, fmt.Sprintf("count=%d listed=%d", count, nListed))
		for _, s := range c.w.sessions {
			parts = append(parts, fmt.Sprintf("%v{accepted=%v closed=%v disc=%v}", s, s.accepted, s.closed(), s.discCalled))
		}
		return strings.Join(parts, " ")
	}

	// every registered player object reachable through either index
	objs := map[*connectedPlayer]bool{}
	for id, pl := range byID {
		objs[pl] = true
		if pl.ID() != id {
			c.fail("index-key-mismatch", "Player(%s) returned %s; %s", g5ShortID(id), c11Desc(pl), state())
		}
	}
	for n, pl := range byName {
		objs[pl] = true
		if strings.ToLower(pl.Username()) != n {
			c.fail("index-key-mismatch", "PlayerByName(%s) returned %s; %s", n, c11Desc(pl), state())
		}
	}
	// at most one registered player per UUID; count == number of registered UUIDs
	perID := map[uuid.UUID][]*connectedPlayer{}
	for pl := range objs {
		perID[pl.ID()] = append(perID[pl.ID()], pl)
	}
	for id, l := range perID {
		if len(l) > 1 {
			c.fail("two-players-one-uuid", "%d registered players share UUID %s; %s", len(l), g5ShortID(id), state())
		}
	}
	if count != len(perID) {
		c.fail("count-mismatch", "PlayerCount()=%d but %d UUIDs are registered; %s", count, len(perID), state())
	}
	if nListed != count {
		c.fail("count-mismatch", "Players() lists %d players but PlayerCount()=%d; %s", nListed, count, state())
	}
	if !c.kick {
		// at most one per case-insensitive username, and both lookups describe the same set
		perName := map[string][]*connectedPlayer{}
		for pl := range objs {
			n := strings.ToLower(pl.Username())
			perName[n] = append(perName[n], pl)
		}
		for n, l := range perName {
			if len(l) > 1 {
				c.fail("two-players-one-name", "%d registered players share the username %q (kick mode off); %s", len(l), n, state())
			}
		}
		for pl := range objs {
			if byID[pl.ID()] != pl || byName[strings.ToLower(pl.Username())] != pl {
				c.fail("indices-disagree", "%s is registered in one index only (kick mode off); %s", c11Desc(pl), state())
			}
		}
	}
	// observation bookkeeping (holders observed now are newer than those observed at earlier points)
	for _, pl := range byID {
		if s := c.sessionOf(pl); s != nil && c.idHolderSince[s] == 0 {
			c.idHolderSince[s] = c.step
		}
	}
	for _, pl := range byName {
		if s := c.sessionOf(pl); s != nil && c.nameHolderSince[s] == 0 {
			c.nameHolderSince[s] = c.step
		}
	}
	// a registered player stays findable until its own disconnect
	for _, s := range c.w.sessions {
		if !s.accepted || s.closed() || s.discCalled {
			continue
		}
		if byID[s.id] != s.player() {
			c.fail("evicted/by-uuid", "%v logged in successfully and is still connected, but Player(%s) = %s; %s", s, g5ShortID(s.id), c11Desc(byID[s.id]), state())
		}
		if got := byName[strings.ToLower(s.name)]; got != s.player() {
			replaced := false
			if c.kick {
				for _, t := range c.w.sessions {
					if t != s && strings.EqualFold(t.name, s.name) && c.nameHolderSince[t] > c.nameHolderSince[s] && c.nameHolderSince[s] > 0 {
						replaced = true
					}
				}
				if _, seen := c.nameHolderSince[s]; !seen && got != nil {
					replaced = true // registered and replaced within one critical-section step: a newer player holds the name
				}
			}
			if !replaced {
				c.fail("evicted/by-name", "%v logged in successfully and is still connected, but PlayerByName(%s) = %s and no newer player of that name replaced it; %s", s, s.name, c11Desc(got), state())
			}
		}
	}
	// kick mode: an older session with the same UUID is disconnected before the new one is registered
	if c.kick {
		for id, pl := range byID {
			for _, a := range c.w.sessions {
				if a.id == id && a.player() != nil && a.player() != pl && c.idHolderSince[a] > 0 && !a.closed() {
					c.fail("kick/old-session-still-connected", "%s is registered for UUID %s while the older session %v that held it is still connected; %s", c11Desc(pl), g5ShortID(id), a, state())
				}
			}
		}
	}
	if final {
		// name lookup is case-insensitive: the exact spelling the player logged in with finds the same entry
		for _, s := range c.w.sessions {
			if pl := p.PlayerByName(s.name); (pl == nil) != (byName[strings.ToLower(s.name)] == nil) || (pl != nil && pl.(*connectedPlayer) != byName[strings.ToLower(s.name)]) {
				c.fail("name-lookup-case", "PlayerByName(%q) and PlayerByName(%q) disagree; %s", s.name, strings.ToLower(s.name), state())
			}
		}
		for _, s := range c.w.sessions {
			if s.player() == nil || !s.closed() {
				continue
			}
			if byID[s.id] == s.player() || byName[strings.ToLower(s.name)] == s.player() {
				c.fail("registered-after-disconnect", "%v is disconnected (teardown finished) but still registered; %s", s, state())
			}
		}
	}
}

func (c *c11Check) outcome() string {
	var parts []string
	for _, s := range c.w.sessions {
		st := "rejected"
		if s.accepted {
			st = "accepted"
		}
		if s.accepted && s.closed() && !s.discCalled {
			st = "accepted+kicked"
		}
		parts = append(parts, fmt.Sprintf("s%d:%s", s.idx, st))
	}
	var ds []string
	for _, d := range c.w.disconnects {
		if s := c.sessionOf(d.player); s != nil {
			ds = append(ds, fmt.Sprintf("s%d=%d", s.idx, d.status))
		}
	}
	sort.Strings(ds)
	return strings.Join(parts, ",") + "|" + strings.Join(ds, ",")
}

// ---------------------------------------------------------------- sequential histories

type c11Replay struct {
	Scenario string   `json:"scenario"`
	Bound    int      `json:"bound"`
	Choices  []int    `json:"choices"`
	History  []string `json:"history,omitempty"`
	Cfg      string   `json:"cfg,omitempty"`
}

// runHistory applies ops (L<i> login identity i, D<i> login denied by LoginEvent, X<k> disconnect
// session k) on a fresh world inside a one-thread scheduler execution. It returns the failures and
// the sessions that are open afterwards (candidates for X).
func c11RunHistory(cfg c11Cfg, ops []string) (fails map[string]*sched.Failure, open []int, nSessions int, outcome string) {
	res := sched.Explore(sched.Options{Bound: 0}, func(x *sched.X) {
		w := g5NewWorld(cfg.online, cfg.kick)
		ck := newC11Check(w, cfg.kick, x.Fail)
		x.OnPoint(func() { ck.inv(false) })
		for _, op := range ops {
			var k int
			fmt.Sscanf(op[1:], "%d", &k)
			c11Apply(w, op[0], k)
		}
		x.AtEnd(func() {
			ck.inv(true)
			for _, s := range w.sessions {
				if s.accepted && !s.closed() {
					open = append(open, s.idx)
				}
			}
			nSessions = len(w.sessions)
			outcome = ck.outcome()
		})
	})
	return res.Failures, open, nSessions, outcome
}

// c11Apply performs one operation of a sequential history:
//
//	L<i> login of identity i                     D<i> login denied by a LoginEvent subscriber
//	X<k> the client of session k goes away       (these three form family "seq")
//	W<i> login over a connection whose writes fail: the player is registered, then LoginSuccess cannot be
//	     written, the connection closes itself and the teardown has to take the registration back
//	E<i> the client connection is closed WHILE the LoginEvent is fired (login cancelled by the user)
//	V<i> login of a pre-1.20.2 client (1.19.4): the login runs on into the initial-connect handler, finds
//	     no server and disconnects the player - teardown through initialConnectSessionHandler
//	A<k> session k acknowledges the login (1.20.2+): configuration handler, no server, player disconnected
//	     by the proxy - teardown through clientConfigSessionHandler
func c11Apply(w *g5World, kind byte, k int) {
	id := func() c11Ident { return c11Idents[k] }
	switch kind {
	case 'L':
		w.newSession(id().name, id().id, false).login()
	case 'D':
		w.newSession(id().name, id().id, true).login()
	case 'W':
		s := w.newSession(id().name, id().id, false)
		s.base.failWrites(errC11Gone)
		s.login()
	case 'E':
		s := w.newSession(id().name, id().id, false)
		s.goneDuringLoginEvent()
		s.login()
	case 'V':
		s := w.newSession(id().name, id().id, false)
		s.mc.SetProtocol(version.Minecraft_1_19_4.Protocol)
		s.login()
	case 'X':
		w.sessions[k].disconnect()
	case 'A':
		w.sessions[k].acknowledge()
	default:
		panic("c11: unknown op " + string(kind))
	}
}

var errC11Gone = errors.New("write: broken pipe")

// alphabets of the two sequential families (open = sessions that are logged in and connected)
func c11OpsSeq(open []int) []string {
	var o []string
	for _, kind := range "LD" {
		for i := range c11Idents {
			o = append(o, fmt.Sprintf("%c%d", kind, i))
		}
	}
	for _, k := range open {
		o = append(o, fmt.Sprintf("X%d", k))
	}
	return o
}

func c11OpsSeqx(open []int) []string {
	var o []string
	for _, kind := range "LWEV" {
		for i := range c11Idents {
			o = append(o, fmt.Sprintf("%c%d", kind, i))
		}
	}
	for _, k := range open {
		o = append(o, fmt.Sprintf("X%d", k), fmt.Sprintf("A%d", k))
	}
	return o
}

func c11Seq(r *vrt.R, fam string, depth int, alphabet func(open []int) []string) {
	for _, cfg := range c11Cfgs {
		n := 0
		var rec func(h []string)
		rec = func(h []string) {
			if r.Expired() {
				return
			}
			mine := true
			if len(h) >= 2 {
				hh := fnv.New32a()
				hh.Write([]byte(fam + h[0] + h[1]))
				mine = r.Mine(int(hh.Sum32() % 1024))
				if !mine {
					return // the whole subtree below a 2-op prefix belongs to one shard
				}
			} else {
				mine = r.Shard == 0
			}
			var open []int
			fails, open, _, outcome := c11RunHistory(cfg, h)
			if mine {
				n++
				r.Eval(1)
				r.States(1)
				r.Transitions(len(h))
				r.Traces(1)
				r.Distinct("seq|" + cfg.name + "|" + outcome)
				for _, op := range h {
					r.Class("op:" + op[:1])
				}
				if len(h) == 3 {
					r.Sample(map[string]any{"cfg": cfg.name, "history": append([]string{}, h...), "outcome": outcome})
				}
				keys := make([]string, 0, len(fails))
				for k := range fails {
					keys = append(keys, k)
				}
				sort.Strings(keys)
				for _, k := range keys {
					r.Violation("seq/"+cfg.name+"/"+k, fmt.Sprintf("sequential history %v in configuration %s (L<i>=login of identity i, D<i>=login denied by a LoginEvent subscriber, X<k>=disconnect of session k, W<i>=login over a connection whose writes fail, E<i>=client gone during the LoginEvent, V<i>=login of a 1.19.4 client (ends in the no-server disconnect), A<k>=session k acknowledges the login (ends in the no-server disconnect); identities 0=bob/U1 1=BOB/U1 2=Bob/U2 3=eve/U1)\n%s", h, cfg.name, fails[k].Desc),
						c11Replay{History: append([]string{}, h...), Cfg: cfg.name})
				}
			}
			if len(fails) > 0 || len(h) >= depth {
				return // a failing history is not extended: its continuation is past the first violation
			}
			for _, op := range alphabet(open) {
				rec(append(append([]string{}, h...), op))
			}
		}
		rec(nil)
		r.ClassN(fam+":"+cfg.name, n)
	}
}

// ---------------------------------------------------------------- concurrent scenarios

type c11Op struct {
	// 'L' login, 'D' denied login, 'l' login then disconnect, 'W' login over a connection whose writes fail,
	// 'E' login whose client goes away during the LoginEvent, 'V' login of a 1.19.4 client,
	// 'P' login of the up-front created (pending) session k, 'X' disconnect of session k,
	// 'A' session k acknowledges the login (-> no-server disconnect through the configuration handler)
	kind byte
	k    int
}

// c11Scenario: pre = identities logged in before the threads start (sessions 0..), pending = identities
// whose sessions are created but NOT yet logged in (the next session indices): a thread logs such a
// session in ('P') while another thread may close that very connection ('X') - a disconnect that races
// with the session's own login.
func c11Scenario(name string, cfg c11Cfg, pre []int, threads [][]c11Op, quick, thorough int) schedrun.Scenario {
	return c11ScenarioP(name, cfg, pre, nil, threads, quick, thorough)
}

func c11ScenarioP(name string, cfg c11Cfg, pre, pending []int, threads [][]c11Op, quick, thorough int) schedrun.Scenario {
	return schedrun.Scenario{Name: "conc/" + cfg.name + "/" + name, Quick: quick, Thorough: thorough, Body: func(x *sched.X) {
		w := g5NewWorld(cfg.online, cfg.kick)
		ck := newC11Check(w, cfg.kick, x.Fail)
		for _, i := range pre {
			w.newSession(c11Idents[i].name, c11Idents[i].id, false).login()
		}
		for _, i := range pending {
			w.newSession(c11Idents[i].name, c11Idents[i].id, false)
		}
		ck.inv(false)
		// sessions are created up front (deterministic indices); threads only drive them
		type step struct {
			op c11Op
			s  *g5Session
		}
		var plans [][]step
		for _, t := range threads {
			var pl []step
			for _, op := range t {
				st := step{op: op}
				switch op.kind {
				case 'L', 'l', 'W', 'E', 'V':
					st.s = w.newSession(c11Idents[op.k].name, c11Idents[op.k].id, false)
				case 'D':
					st.s = w.newSession(c11Idents[op.k].name, c11Idents[op.k].id, true)
				case 'X', 'A', 'P':
					st.s = w.sessions[op.k]
				default:
					panic("c11: unknown op")
				}
				switch op.kind {
				case 'W':
					st.s.base.failWrites(errC11Gone)
				case 'E':
					st.s.goneDuringLoginEvent()
				case 'V':
					st.s.mc.SetProtocol(version.Minecraft_1_19_4.Protocol)
				}
				pl = append(pl, st)
			}
			plans = append(plans, pl)
		}
		x.OnPoint(func() { ck.inv(false) })
		for ti, pl := range plans {
			x.Go(fmt.Sprintf("t%d", ti+1), func() {
				for _, st := range pl {
					switch st.op.kind {
					case 'L', 'D', 'W', 'E', 'V', 'P':
						st.s.login()
					case 'l':
						st.s.login()
						if st.s.accepted && !st.s.closed() {
							st.s.disconnect()
						}
					case 'X':
						st.s.disconnect()
					case 'A':
						st.s.acknowledge()
					}
				}
			})
		}
		x.AtEnd(func() {
			ck.inv(true)
			x.Outcome(ck.outcome())
		})
	}}
}

func c11Scenarios() []schedrun.Scenario {
	off, on, kick, offkick := c11Cfgs[0], c11Cfgs[1], c11Cfgs[2], c11Cfgs[3]
	L := func(i int) c11Op { return c11Op{'L', i} }
	D := func(i int) c11Op { return c11Op{'D', i} }
	X := func(k int) c11Op { return c11Op{'X', k} }
	l := func(i int) c11Op { return c11Op{'l', i} }
	W := func(i int) c11Op { return c11Op{'W', i} }
	E := func(i int) c11Op { return c11Op{'E', i} }
	V := func(i int) c11Op { return c11Op{'V', i} }
	A := func(k int) c11Op { return c11Op{'A', k} }
	P := func(k int) c11Op { return c11Op{'P', k} }
	return []schedrun.Scenario{
		// two simultaneous logins colliding by UUID+name / name only / UUID only
		c11Scenario("2logins-same-uuid-name-variant", off, nil, [][]c11Op{{L(0)}, {L(1)}}, 2, 4),
		c11Scenario("2logins-same-name-other-uuid", off, nil, [][]c11Op{{L(0)}, {L(2)}}, 1, 3),
		c11Scenario("2logins-same-uuid-other-name", on, nil, [][]c11Op{{L(0)}, {L(3)}}, 2, 4),
		// a duplicate is rejected / denied while the original leaves or a third player joins
		c11Scenario("established-leaves-vs-duplicate-login", off, []int{0}, [][]c11Op{{X(0)}, {L(1)}}, 2, 4),
		c11Scenario("duplicate-rejected-vs-name-collider-session", off, []int{0}, [][]c11Op{{L(1)}, {l(2)}}, 2, 4),
		c11Scenario("login-logout-vs-login-logout", off, nil, [][]c11Op{{l(0)}, {l(1)}}, 2, 4),
		c11Scenario("3logins", off, nil, [][]c11Op{{L(0)}, {L(1)}, {L(2)}}, 1, 3),
		// kick mode
		c11Scenario("2logins-same-uuid", kick, nil, [][]c11Op{{L(0)}, {L(1)}}, 2, 4),
		c11Scenario("established-vs-2-newcomers", kick, []int{0}, [][]c11Op{{L(1)}, {L(3)}}, 2, 4),
		c11Scenario("established-leaves-vs-newcomer", kick, []int{0}, [][]c11Op{{X(0)}, {L(1)}}, 2, 4),
		c11Scenario("denied-duplicate-vs-name-collider", kick, []int{0}, [][]c11Op{{D(1)}, {l(2)}}, 2, 4),
		c11Scenario("name-replaced-then-leaves", kick, []int{0}, [][]c11Op{{l(2)}, {L(2)}}, 1, 3),
		// the most common duplicate: the very same player (identical spelling, same UUID) twice at once; and
		// two players that share neither name nor UUID
		c11Scenario("2logins-identical-identity", off, nil, [][]c11Op{{L(0)}, {L(0)}}, 2, 4),
		c11Scenario("2logins-identical-identity", kick, nil, [][]c11Op{{L(0)}, {L(0)}}, 2, 4),
		c11Scenario("login-logout-vs-login-different-name-and-uuid", on, nil, [][]c11Op{{l(2)}, {L(3)}}, 2, 4),
		// kick flag without online mode: both logins pass canRegisterConnection's duplicate check (nobody is
		// registered yet) and then meet in registerConnection's kick branch
		c11Scenario("2logins-same-uuid-name-variant", offkick, nil, [][]c11Op{{L(0)}, {L(1)}}, 2, 4),
		c11Scenario("3logins-same-uuid", offkick, nil, [][]c11Op{{L(0)}, {L(1)}, {L(3)}}, 1, 3),
		c11Scenario("login-logout-vs-login-same-name-other-uuid", offkick, nil, [][]c11Op{{l(0)}, {L(2)}}, 2, 4),
		// failed logins next to a colliding login: registered-then-write-fails, client gone during the
		// LoginEvent, pre-1.20.2 client that runs into the no-server disconnect
		c11Scenario("write-fails-after-register-vs-duplicate-login", off, nil, [][]c11Op{{W(0)}, {L(1)}}, 2, 4),
		c11Scenario("established-leaves-vs-newcomer-whose-write-fails", kick, []int{0}, [][]c11Op{{X(0)}, {W(1)}}, 2, 4),
		c11Scenario("gone-during-login-event-vs-duplicate-login", off, nil, [][]c11Op{{E(0)}, {L(1)}}, 2, 4),
		c11Scenario("legacy-login-vs-duplicate-login", off, nil, [][]c11Op{{V(0)}, {L(1)}}, 2, 4),
		c11Scenario("acknowledge-no-server-vs-duplicate-login", off, []int{0}, [][]c11Op{{A(0)}, {L(1)}}, 2, 4),
		c11Scenario("acknowledge-no-server-vs-newcomer", kick, []int{0}, [][]c11Op{{A(0)}, {L(1)}}, 2, 4),
		// the connection is closed from another goroutine while its own login is still completing
		c11ScenarioP("login-vs-own-disconnect", off, nil, []int{0}, [][]c11Op{{P(0)}, {X(0)}}, 3, 5),
		c11ScenarioP("login-vs-own-disconnect", kick, []int{0}, []int{1}, [][]c11Op{{P(1)}, {X(1)}}, 2, 4),
		c11ScenarioP("login-vs-own-disconnect-vs-duplicate-login", off, nil, []int{0}, [][]c11Op{{P(0)}, {X(0)}, {L(1)}}, 1, 3),
	}
}

func TestVerif(t *testing.T) {
	vrt.Run(t, "C11", func(r *vrt.R) {
		var rp c11Replay
		if r.ReplayInto(&rp) && len(rp.History) > 0 {
			for _, cfg := range c11Cfgs {
				if cfg.name != rp.Cfg {
					continue
				}
				fails, _, _, _ := c11RunHistory(cfg, rp.History)
				r.Eval(1)
				for k, f := range fails {
					r.Violation("seq/"+cfg.name+"/"+k, f.Desc, rp)
				}
			}
			return
		}
		if r.Replay() == nil {
			depth := 4
			if r.Thorough() {
				depth = 5
			}
			c11Seq(r, "seq", depth, c11OpsSeq)
			c11Seq(r, "seqx", depth-1, c11OpsSeqx)
		}
		schedrun.Run(r, c11Scenarios())
	})
}
