package c05

import (
	"bufio"
	"bytes"
	"compress/zlib"
	"encoding/hex"
	"encoding/json"
	"fmt"
	"io"
	"os"
	"os/exec"
	"runtime"
	"runtime/debug"
	"runtime/metrics"
	"strconv"
	"strings"
	"syscall"
	"testing"
	"time"

	"github.com/go-logr/logr"
	"github.com/go-logr/zapr"
	"go.uber.org/zap"
	"go.uber.org/zap/zapcore"

	"go.minekube.com/gate/pkg/edition/java/proto/codec"
	"go.minekube.com/gate/pkg/edition/java/proxy/zzverif/pktgen"
	"go.minekube.com/gate/pkg/edition/java/proxy/zzverif/vrt"
	"go.minekube.com/gate/pkg/gate/proto"
)

// ---------------------------------------------------------------------------------------------
// Process model. The property is about the PROCESS surviving, so the decoding runs in a child
// process (this same test binary, C05_CHILD=1). The child enumerates the cases of its cells, checks
// the in-process part of the oracle (outcome, contained panics, allocation) and streams one JSON
// line per finished cell. The parent (the shard started by bin/vcheck) merges the lines; when a
// child dies or stops making progress it re-runs that cell in trace mode (the child announces every
// case before running it), which pins the crash or hang on one payload.
// ---------------------------------------------------------------------------------------------

const (
	fixedBudget   = 4 << 20 // "fixed small caps": 4 MiB
	perByteBudget = 64
	// RLIMIT_AS of the child. The child's address space peaks at ~1.5 GiB (runtime reservations; its
	// resident set stays below 300 MiB), so a single allocation of more than ~1.5 GiB is a clean,
	// immediate "out of memory" fatal error instead of seconds of page faulting.
	asLimit = 3 << 30
)

var tokens = [][]byte{
	{0xFF, 0xFF, 0xFF, 0xFF, 0x07},       // VarInt 2^31-1
	{0xFF, 0xFF, 0xFF, 0xFF, 0x0F},       // VarInt -1
	{0x80, 0x80, 0x80, 0x80, 0x80, 0x80}, // over-long VarInt
	{0x00}, {0x7F}, {0xFF},
}

type vio struct {
	Key    string `json:"key"`
	Desc   string `json:"desc"`
	Replay rp     `json:"replay"`
}

type rp struct {
	Cell    string `json:"cell"`
	Payload string `json:"payload"` // hex: packet id + data
}

// cellResult is what the child reports per cell.
type cellResult struct {
	Cell     int               `json:"cell"`
	Evals    int64             `json:"evals"`
	Nontriv  int64             `json:"nontriv"`
	Classes  map[string]int64  `json:"classes"`
	Vios     []vio             `json:"vios"`
	Notes    []string          `json:"notes"`
	Seeds    int               `json:"seeds"`
	MaxAlloc uint64            `json:"max_alloc"`
	Sample   map[string]string `json:"sample,omitempty"`
}

func varint(v int) []byte {
	u := uint32(v)
	var out []byte
	for u >= 0x80 {
		out = append(out, byte(u)|0x80)
		u >>= 7
	}
	return append(out, byte(u))
}

// ---- child ----

type child struct {
	r       *vrt.R
	out     *bufio.Writer
	trace   bool
	from    int
	only    int
	caseNo  int
	cell    pktgen.Cell
	cellIdx int
	dec     *codec.Decoder
	decLog  *codec.Decoder // same decoder with the production logger (zap via zapr) ENABLED at every verbosity
	logged  bool           // run the current cases through decLog as well
	res     *cellResult
	frame   []byte
	sample  [1]metrics.Sample
	batch   [][]byte // payloads of the current batch (for the individual re-run)
	batchLg []bool   // ... and whether they also went through the logger-enabled decoder
	batchAt uint64
	seenKey map[string]bool
	lastHB  int
}

func (c *child) allocNow() uint64 {
	metrics.Read(c.sample[:])
	return c.sample[0].Value.Uint64()
}

func exactAlloc() uint64 {
	var ms runtime.MemStats
	runtime.ReadMemStats(&ms)
	return ms.TotalAlloc
}

func (c *child) violation(key, desc string, payload []byte) {
	if c.seenKey[key] {
		c.res.Classes["violation-repeat:"+key]++
		return
	}
	c.seenKey[key] = true
	if len(desc) > 1500 {
		desc = desc[:1500] + "…"
	}
	c.res.Vios = append(c.res.Vios, vio{key, desc, rp{c.cell.String(), hex.EncodeToString(payload)}})
}

func hx(b []byte) string {
	if len(b) > 64 {
		return fmt.Sprintf("%s…(%d bytes)", hex.EncodeToString(b[:64]), len(b))
	}
	return hex.EncodeToString(b)
}

// debugLogger is the logger the proxy runs with in debug mode (zapr over zap, JSON encoder, every verbosity enabled),
// writing to io.Discard: Decoder.readPacket takes a different path when the logger is enabled (deferred "decoded packet"
// line) and every d.log.Info call really formats its key/values (logr.Discard() drops them unformatted).
func debugLogger() logr.Logger {
	core := zapcore.NewCore(zapcore.NewJSONEncoder(zap.NewProductionEncoderConfig()), zapcore.AddSync(io.Discard), zapcore.Level(-127))
	return zapr.NewLogger(zap.New(core))
}

func (c *child) newDecoders() {
	c.dec = codec.NewDecoder(bytes.NewReader(nil), c.cell.Direction, logr.Discard())
	c.dec.SetState(c.cell.State)
	c.dec.SetProtocol(c.cell.Protocol)
	c.decLog = codec.NewDecoder(bytes.NewReader(nil), c.cell.Direction, debugLogger())
	c.decLog.SetState(c.cell.State)
	c.decLog.SetProtocol(c.cell.Protocol)
}

// decodeOnce runs one payload through both paths; real=true sends non-error panics through the
// real Decoder as well (replay: the process is expected to die).
func (c *child) decodeOnce(payload []byte, real bool) {
	tn := pktgen.TypeName(c.cell.Type)
	// path 1: Packet.Decode directly, own recover
	idLen := len(varint(int(c.cell.ID)))
	nonErrPanic := false
	if len(payload) >= idLen {
		p := c.cell.New()
		ctx := c.cell.Ctx()
		ctx.Payload = payload
		pn, pv := vrt.Catch(func() { _ = p.Decode(ctx, bytes.NewReader(payload[idLen:])) })
		if pn {
			switch e := pv.(type) {
			case runtime.Error:
				msg := e.Error()
				if i := strings.IndexAny(msg, "0123456789["); i > 0 {
					msg = msg[:i]
				}
				c.res.Classes["direct-decode: runtime panic that only Decoder's recover hides: "+tn+": "+strings.TrimSpace(msg)]++
			case error:
				c.res.Classes["direct-decode: error-valued panic (PanicReader design)"]++
			default:
				nonErrPanic = true
				c.violation(tn+"/process-crash:non-error-panic",
					fmt.Sprintf("%s: Decode panics with a non-error value (%T) %v; util.RecoverFunc re-panics it, so codec.Decoder.Decode kills the process\n  payload (id+data): %s",
						c.cell, pv, pv, hx(payload)), payload)
			}
		}
	}
	if nonErrPanic && !real {
		return
	}
	// path 2: the real decoder (frame reader + registry lookup + RecoverFunc)
	c.frame = append(c.frame[:0], varint(len(payload))...)
	c.frame = append(c.frame, payload...)
	c.dec.SetReader(bytes.NewReader(c.frame))
	ctx, err := c.dec.Decode()
	if err == nil && ctx == nil {
		c.violation(tn+"/neither-packet-nor-error", fmt.Sprintf("%s: Decoder.Decode returned (nil, nil) for payload %s", c.cell, hx(payload)), payload)
	}
	if err == nil {
		c.res.Classes["outcome:packet"]++
	} else if ctx != nil {
		c.res.Classes["outcome:packet+left-bytes-error"]++
	} else {
		c.res.Classes["outcome:error"]++
	}
}

// decodeLogged is path 3: the same payload through a decoder whose logger is ENABLED (configuration switch on the decode
// path: Decoder.readPacket adds a deferred log line and every log call really formats its arguments).
func (c *child) decodeLogged(payload []byte) {
	tn := pktgen.TypeName(c.cell.Type)
	c.frame = append(c.frame[:0], varint(len(payload))...)
	c.frame = append(c.frame, payload...)
	c.decLog.SetReader(bytes.NewReader(c.frame))
	ctx2, err2 := c.decLog.Decode()
	if err2 == nil && ctx2 == nil {
		c.violation(tn+"/neither-packet-nor-error(logger-enabled)", fmt.Sprintf("%s: Decoder.Decode with an enabled logger returned (nil, nil) for payload %s", c.cell, hx(payload)), payload)
	}
	switch {
	case err2 == nil:
		c.res.Classes["logger-enabled/outcome:packet"]++
	case ctx2 != nil:
		c.res.Classes["logger-enabled/outcome:packet+left-bytes-error"]++
	default:
		c.res.Classes["logger-enabled/outcome:error"]++
	}
}

// ---- payloads AT the frame limit (quantifier audit: "... payloads up to the frame limit") ----
//
// Everything else in this check is small (< 2 KiB). Per cell: frames whose body is exactly the largest a 3-byte VarInt
// length can announce (2^21-1 bytes) filled with 00 / FF / 01, the first seed followed by zeros, the first seed repeated,
// and one frame one byte over the limit; for the index-graph packet additionally VALID command graphs scaled up
// (4096 nodes, 65536 nodes, as many as fit): a star, a chain of children, a chain of redirects in ascending and in
// descending node order. Large payloads are identified by a tag "L:<kind>:<n>" (they do not fit into a replay file
// or an environment variable) and rebuilt from it.

const frameLimit = 1<<21 - 1

type bigCase struct {
	kind string
	n    int
}

func (b bigCase) tag() string { return fmt.Sprintf("L:%s:%d", b.kind, b.n) }

func bigCases(cell pktgen.Cell) []bigCase {
	out := []bigCase{{"zero", 0}, {"ff", 0}, {"one", 0}, {"seed+zero", 0}, {"seed-repeat", 0}, {"over-limit", 0}}
	if pktgen.IsIndexGraphPacket(cell) {
		sizes := []int{4096, 65536}
		if pktgen.Thorough {
			sizes = append(sizes, -1) // as many nodes as fit into a frame
		}
		for _, n := range sizes {
			out = append(out, bigCase{"graph-star", n}, bigCase{"graph-child-chain", n}, bigCase{"graph-redirect-chain", n}, bigCase{"graph-redirect-chain-desc", n})
		}
		// a 150000-node redirect chain (just fits a frame) in every tier: a decoder that is quadratic in the chain
		// length needs ~5x the CPU of the 65536-node case (which an idle machine finishes just inside the 10 s stall
		// budget, so the reverse of fix 9752e59 was missed there) - about 45 s against a budget of 30 s; the linear
		// decoder of HEAD needs 4-5 s
		out = append(out, bigCase{"graph-redirect-chain", 150000}, bigCase{"graph-redirect-chain-desc", 150000})
	}
	return out
}

// bigGraph encodes a valid command graph of n+1 nodes (node 0 is the root).
func bigGraph(kind string, n int) []byte {
	b := make([]byte, 0, 8*n+16)
	vi := func(v int) { b = append(b, varint(v)...) }
	vi(n + 1)
	switch kind {
	case "graph-star":
		b = append(b, 0x00)
		vi(n)
		for i := 1; i <= n; i++ {
			vi(i)
		}
		for i := 1; i <= n; i++ {
			name := strconv.FormatInt(int64(i), 36)
			b = append(b, 0x01, 0x00, byte(len(name)))
			b = append(b, name...)
		}
	case "graph-child-chain":
		b = append(b, 0x00, 0x01, 0x01)
		for i := 1; i <= n; i++ {
			b = append(b, 0x01)
			if i < n {
				b = append(b, 0x01)
				vi(i + 1)
			} else {
				b = append(b, 0x00)
			}
			b = append(b, 0x01, 'a')
		}
	case "graph-redirect-chain", "graph-redirect-chain-desc":
		// the root lists every node as its child (distinct names); node i redirects to its neighbour
		b = append(b, 0x00)
		vi(n)
		for i := 1; i <= n; i++ {
			vi(i)
		}
		for i := 1; i <= n; i++ {
			to := i + 1
			if kind == "graph-redirect-chain-desc" {
				to = i - 1
			}
			name := strconv.FormatInt(int64(i), 36)
			if to >= 1 && to <= n {
				b = append(b, 0x09, 0x00)
				vi(to)
			} else {
				b = append(b, 0x01, 0x00)
			}
			b = append(b, byte(len(name)))
			b = append(b, name...)
		}
	}
	vi(0) // root index
	return b
}

var bigGraphCache = map[bigCase][]byte{}

// bigPayload builds packet id + data for a big case.
func bigPayload(bc bigCase, id []byte, seed []byte) []byte {
	room := frameLimit - len(id)
	if strings.HasPrefix(bc.kind, "graph-") {
		data, ok := bigGraphCache[bc]
		if !ok {
			n := bc.n
			if n < 0 { // as many nodes as fit (2 bytes of slack for a longer packet id)
				lo, hi := 1, room
				for lo < hi {
					mid := (lo + hi + 1) / 2
					if len(bigGraph(bc.kind, mid)) <= room-2 {
						lo = mid
					} else {
						hi = mid - 1
					}
				}
				n = lo
			}
			data = bigGraph(bc.kind, n)
			bigGraphCache[bc] = data
		}
		return append(append(make([]byte, 0, len(id)+len(data)), id...), data...)
	}
	data := make([]byte, room)
	switch bc.kind {
	case "zero":
	case "ff":
		for i := range data {
			data[i] = 0xFF
		}
	case "one":
		for i := range data {
			data[i] = 0x01
		}
	case "seed+zero":
		copy(data, seed)
	case "seed-repeat":
		if len(seed) == 0 {
			seed = []byte{0x7F}
		}
		for off := 0; off < len(data); off += len(seed) {
			copy(data[off:], seed)
		}
	case "over-limit":
		data = make([]byte, room+1)
	}
	return append(append(make([]byte, 0, len(id)+len(data)), id...), data...)
}

func (c *child) runBig(bc bigCase, payload []byte) {
	c.caseNo++
	if c.caseNo < c.from || (c.only > 0 && c.caseNo != c.only) {
		return
	}
	if c.trace {
		fmt.Fprintf(c.out, "CASE %d %s\n", c.caseNo, bc.tag())
	} else {
		fmt.Fprintln(c.out, "HB") // every big payload is progress of its own (stall = 20 s of CPU inside ONE of them)
	}
	if bc.n == -1 {
		// a frame-filling command graph (several 100k nodes, several 100 MB of garbage) legitimately costs
		// 5-10 s of CPU (GC workers included) although decoding is linear: allow 6x the stall budget for
		// this one case. A quadratic decoder needs minutes here and is still reported.
		fmt.Fprintln(c.out, "SLOW")
	} else if bc.n >= 100000 {
		fmt.Fprintln(c.out, "SLOW3") // 3x the stall budget
	}
	c.out.Flush()
	c.res.Evals++
	c.res.Nontriv++
	tn := pktgen.TypeName(c.cell.Type)
	// through the real decoder only (a non-error panic then kills the child, which the parent attributes to this case)
	c.frame = append(c.frame[:0], varint(len(payload))...)
	c.frame = append(c.frame, payload...)
	c.dec.SetReader(bytes.NewReader(c.frame))
	before := exactAlloc()
	ctx, err := c.dec.Decode()
	d := exactAlloc() - before
	switch {
	case err == nil && ctx == nil:
		c.violationZ(tn+"/neither-packet-nor-error", fmt.Sprintf("%s: Decoder.Decode returned (nil, nil) for payload %s", c.cell, bc.tag()), []byte(bc.tag()))
	case err == nil:
		c.res.Classes["frame-limit-payload/outcome:packet"]++
	case ctx != nil:
		c.res.Classes["frame-limit-payload/outcome:packet+left-bytes-error"]++
	default:
		c.res.Classes["frame-limit-payload/outcome:error"]++
	}
	// proportionality for large payloads: a decoded command node (builder, node, its maps) costs ~1.2 KB for ~7 wire
	// bytes; 512 bytes per payload byte is the linear allowance, a length-prefixed pre-allocation exceeds it at once
	// (measured on HEAD: star 106-160 x len, child chain 170-260 x len, growing slowly with the map sizes; 512 keeps
	// a factor 2 of margin for what is a linear cost)
	bigBudget := uint64(512*len(payload) + fixedBudget)
	if d > bigBudget {
		c.violationZ(tn+"/alloc-blowup", fmt.Sprintf("%s: decoding the %d-byte payload %s allocated %d bytes (budget 512*len+4MiB = %d)", c.cell, len(payload), bc.tag(), d, bigBudget), []byte(bc.tag()))
	}
	c.res.Classes["frame-limit-payload:"+strings.SplitN(bc.kind, ":", 2)[0]]++
}

func (c *child) bigPayloads(id []byte, seeds []pktgen.Seed) {
	var seed []byte
	if len(seeds) > 0 {
		seed = seeds[0].Data
	}
	for _, bc := range bigCases(c.cell) {
		c.runBig(bc, bigPayload(bc, id, seed))
	}
	c.batch = c.batch[:0]
	c.batchLg = c.batchLg[:0]
	c.batchAt = c.allocNow()
}

// ---- compressed frames (gap review; seeded/C05-2) ----
//
// With compression enabled (SetCompressionThreshold(t), t >= 0 - the state of every connection after login) the frame
// body is "VarInt claimed uncompressed size" + zlib stream (or, claimed 0, the plain payload). That part of
// Decoder.Decode runs OUTSIDE util.RecoverFunc, so a panic there kills the process, and it allocates the claimed size
// before inflating. The compression layer does not depend on the packet type; it is enumerated once per
// (state, direction) for the lowest and the highest protocol.

const zFixedCap = 8 << 20 // vanilla's maximum uncompressed packet size: the fixed cap of the compression layer

func budgetZ(n int) uint64 { return uint64(perByteBudget*n + fixedBudget + zFixedCap) }

func zlibOf(b []byte) []byte {
	var buf bytes.Buffer
	w := zlib.NewWriter(&buf)
	_, _ = w.Write(b)
	_ = w.Close()
	return buf.Bytes()
}

func (c *child) zDecoder(threshold int) *codec.Decoder {
	d := codec.NewDecoder(bytes.NewReader(nil), c.cell.Direction, logr.Discard())
	d.SetState(c.cell.State)
	d.SetProtocol(c.cell.Protocol)
	d.SetCompressionThreshold(threshold)
	return d
}

// runZ decodes one frame body (claimed size + data) with compression threshold t.
func (c *child) runZ(dz *codec.Decoder, t int, body []byte, exact bool) {
	c.caseNo++
	if c.caseNo < c.from || (c.only > 0 && c.caseNo != c.only) {
		return
	}
	if c.trace {
		fmt.Fprintf(c.out, "CASE %d z%d:%s\n", c.caseNo, t, hex.EncodeToString(body))
		c.out.Flush()
	}
	c.res.Evals++
	if len(body) > 2 {
		c.res.Nontriv++
	}
	dirName := "compressed-frame/" + c.cell.Direction.String()
	tag := []byte(fmt.Sprintf("z%d:", t))
	asPayload := append(tag, []byte(hex.EncodeToString(body))...)
	decode := func() {
		c.frame = append(c.frame[:0], varint(len(body))...)
		c.frame = append(c.frame, body...)
		dz.SetReader(bytes.NewReader(c.frame))
		ctx, err := dz.Decode()
		switch {
		case err == nil && ctx == nil:
			c.violationZ(dirName+"/neither-packet-nor-error", fmt.Sprintf("%s threshold %d: Decoder.Decode returned (nil, nil) for frame body %s", c.cell, t, hx(body)), asPayload)
		case err == nil:
			c.res.Classes["compressed-frame/outcome:packet"]++
		case ctx != nil:
			c.res.Classes["compressed-frame/outcome:packet+left-bytes-error"]++
		default:
			c.res.Classes["compressed-frame/outcome:error"]++
		}
	}
	var d uint64
	if exact {
		before := exactAlloc()
		decode()
		d = exactAlloc() - before
	} else {
		b0 := c.allocNow()
		decode()
		d = c.allocNow() - b0
		if d > budgetZ(len(body))/2 {
			before := exactAlloc()
			decode()
			d = exactAlloc() - before
		}
	}
	if d > budgetZ(len(body)) {
		c.violationZ(dirName+"/alloc-blowup", fmt.Sprintf("%s threshold %d: decoding a %d-byte compressed frame body allocated %d bytes (budget 64*len + 4 MiB + the 8 MiB vanilla cap = %d)\n  frame body (claimed size + data): %s",
			c.cell, t, len(body), d, budgetZ(len(body)), hx(body)), asPayload)
	}
}

// violationZ records a violation whose replay payload is the tagged string "z<threshold>:<hex of the frame body>".
func (c *child) violationZ(key, desc string, tagged []byte) {
	if c.seenKey[key] {
		c.res.Classes["violation-repeat:"+key]++
		return
	}
	c.seenKey[key] = true
	c.res.Vios = append(c.res.Vios, vio{key, desc, rp{c.cell.String(), string(tagged)}})
}

func (c *child) compressedFrames(inners [][]byte) {
	const mib = 1 << 20
	n := 0
	for _, t := range []int{0, 1, 64, 256} {
		dz := c.zDecoder(t)
		for _, inner := range inners {
			bigger := append(append([]byte(nil), inner...), make([]byte, 100)...)
			z := zlibOf(inner)
			corrupt := append([]byte(nil), z...)
			corrupt[len(corrupt)-1] ^= 1
			bodies := [][]byte{
				z,                                       // valid stream
				z[:len(z)/2],                            // truncated stream
				append(append([]byte(nil), z...), 0x00), // trailing byte after the stream
				zlibOf(bigger),                          // inflates to more than the inner length
				z[:2],                                   // zlib header only
				{},                                      // nothing
				inner,                                   // not compressed at all
				{0xFF, 0xFF, 0xFF, 0xFF, 0xFF, 0xFF, 0xFF, 0xFF}, // garbage
				corrupt, // wrong checksum
			}
			L := len(inner)
			claims := map[int]bool{}
			var claimEnc [][]byte
			for _, v := range []int{0, 1, t - 1, t, t + 1, L - 1, L, L + 1, L + 100, 2*mib - 1, 2 * mib, 2*mib + 1, 8*mib - 1, 8 * mib, 8*mib + 1,
				1<<31 - 1, -1, -L, -(1 << 31)} {
				if !claims[v] {
					claims[v] = true
					claimEnc = append(claimEnc, varint(v))
				}
			}
			claimEnc = append(claimEnc, []byte{0x80, 0x80, 0x80, 0x80, 0x80, 0x80}, []byte{0xFF}, []byte{})
			for _, ce := range claimEnc {
				for _, b := range bodies {
					c.runZ(dz, t, append(append([]byte(nil), ce...), b...), false)
					n++
				}
				c.heartbeat()
			}
		}
	}
	c.res.Classes["compressed-frame:(threshold x claimed-size x body) cases"] += int64(n)
	// the batch bookkeeping of run() must not count what happened here
	c.batch = c.batch[:0]
	c.batchLg = c.batchLg[:0]
	c.batchAt = c.allocNow()
}

func budget(n int) uint64 { return uint64(perByteBudget*n + fixedBudget) }

// run is called for every case of the enumeration.
func (c *child) run(payload []byte) {
	c.caseNo++
	if c.caseNo < c.from || (c.only > 0 && c.caseNo != c.only) {
		return
	}
	if c.trace {
		fmt.Fprintf(c.out, "CASE %d %s\n", c.caseNo, hex.EncodeToString(payload))
		c.out.Flush()
	}
	c.res.Evals++
	if len(payload) > 2 {
		c.res.Nontriv++
	}
	c.batch = append(c.batch, append([]byte(nil), payload...))
	c.batchLg = append(c.batchLg, c.logged)
	c.decodeOnce(payload, false)
	if c.logged {
		c.decodeLogged(payload)
	}
}

// endBatch checks the allocation of the cases since the last endBatch. If the whole batch stayed
// below the fixed budget every case did; otherwise each case is re-run alone and measured exactly.
func (c *child) endBatch() {
	now := c.allocNow()
	delta := now - c.batchAt
	// the harness itself allocates the payload copies of the batch
	var own uint64
	for _, p := range c.batch {
		own += uint64(len(p)) + 64
	}
	if delta > own+fixedBudget/2 {
		for bi, p := range c.batch {
			// cheap estimate first (runtime/metrics lags by at most the per-P caches), exact numbers
			// (ReadMemStats stops the world) only when the estimate is not clearly within budget
			b0 := c.allocNow()
			c.decodeOnce(p, false)
			d := c.allocNow() - b0
			if d > budget(len(p))/2 {
				before := exactAlloc()
				c.decodeOnce(p, false)
				d = exactAlloc() - before
			}
			if c.batchLg[bi] { // the logger-enabled decode is measured on its own against the same budget
				b0 = c.allocNow()
				c.decodeLogged(p)
				dl := c.allocNow() - b0
				if dl > budget(len(p))/2 {
					before := exactAlloc()
					c.decodeLogged(p)
					dl = exactAlloc() - before
				}
				if dl > d {
					d = dl
				}
			}
			if d > c.res.MaxAlloc {
				c.res.MaxAlloc = d
			}
			if d > budget(len(p)) {
				c.violation(pktgen.TypeName(c.cell.Type)+"/alloc-blowup",
					fmt.Sprintf("%s: decoding a %d-byte payload allocated %d bytes (budget 64*len+4MiB = %d)\n  payload (id+data): %s",
						c.cell, len(p), d, budget(len(p)), hx(p)), p)
			}
		}
		c.res.Classes["batches re-measured case by case"]++
	} else if delta > c.res.MaxAlloc && len(c.batch) == 1 {
		c.res.MaxAlloc = delta
	}
	c.batch = c.batch[:0]
	c.batchLg = c.batchLg[:0]
	c.batchAt = c.allocNow()
}

func (c *child) heartbeat() {
	if !c.trace && c.caseNo-c.lastHB >= 50000 {
		c.lastHB = c.caseNo
		fmt.Fprintln(c.out, "HB")
		c.out.Flush()
	}
}

func (c *child) doCell(idx int, cell pktgen.Cell, firstOfRegistry bool) {
	c.cell, c.cellIdx, c.caseNo, c.lastHB = cell, idx, 0, 0
	c.res = &cellResult{Cell: idx, Classes: map[string]int64{}}
	c.seenKey = map[string]bool{}
	fmt.Fprintf(c.out, "CELL %d\n", idx)
	c.out.Flush()
	c.newDecoders()
	g := pktgen.NewGen(cell)
	seeds := g.Seeds(c.r.Thorough(), 400)
	if extra := pktgen.ExtraSeeds(cell); len(extra) > 0 {
		// wire shapes only the peer can produce (see pktgen.ExtraSeeds); each must be a VALID encoding
		for _, s := range extra {
			p := cell.New()
			if err := p.Decode(cell.Ctx(), bytes.NewReader(s.Data)); err != nil {
				c.res.Notes = append(c.res.Notes, fmt.Sprintf("hand-made seed %s of %s does not decode (%v): not a valid seed", s.Label, cell, err))
				continue
			}
			c.res.Classes["seed:"+s.Label]++
			seeds = append(seeds, s)
		}
	}
	c.res.Seeds = len(seeds)
	c.res.Classes["type:"+pktgen.TypeName(cell.Type)]++
	id := varint(int(cell.ID))
	buf := make([]byte, 0, 4096)
	mk := func(parts ...[]byte) []byte {
		buf = append(buf[:0], id...)
		for _, p := range parts {
			buf = append(buf, p...)
		}
		return buf
	}
	c.batch = c.batch[:0]
	c.batchLg = c.batchLg[:0]
	c.batchAt = c.allocNow()
	for si, s := range seeds {
		d := s.Data
		if si == 0 {
			c.res.Sample = map[string]string{"cell": cell.String(), "seed": s.Label, "encoding": hx(d)}
		}
		// the valid encoding itself (from here to the end of the token mutations also with the logger enabled)
		c.logged = true
		c.run(mk(d))
		c.endBatch()
		// every truncation prefix
		for n := 0; n < len(d); n++ {
			c.run(mk(d[:n]))
			if n%64 == 63 {
				c.endBatch()
			}
		}
		c.endBatch()
		c.res.Classes["mutation:truncation-prefix"] += int64(len(d))
		// hostile tokens at every offset
		for off := 0; off < len(d); off++ {
			for _, tok := range tokens {
				end := off + len(tok)
				var tail []byte
				if end < len(d) {
					tail = d[end:]
				}
				c.run(mk(d[:off], tok, tail))
			}
			c.endBatch()
			c.heartbeat()
		}
		c.res.Classes["mutation:hostile-token@offset"] += int64(len(d) * len(tokens))
		c.logged = false
		// all 256 values at each of the first 12 offsets
		for off := 0; off < len(d) && off < 12; off++ {
			for b := 0; b < 256; b++ {
				if byte(b) == d[off] {
					continue
				}
				c.run(mk(d[:off], []byte{byte(b)}, d[off+1:]))
			}
			c.endBatch()
			c.res.Classes["mutation:all-256-values@first-12-offsets"] += 255
		}
	}
	// structural hostile inputs: every small index graph (byte mutations never build index cycles)
	if pktgen.IsIndexGraphPacket(cell) {
		// quick: all graphs of <= 2 nodes in every protocol and all graphs of <= 3 nodes in the lowest and the highest
		// protocol that has the packet (the graph code has no protocol gate; a round that makes progress followed by a
		// round that stalls needs 3 nodes); thorough: <= 3 nodes in every protocol
		maxNodes := 2
		if c.r.Thorough() || typeEdgeProto[typeEdgeKey(cell)][cell.Protocol] {
			maxNodes = 3
		}
		k := 0
		n := pktgen.GraphPayloads(cell, maxNodes, func(data []byte) bool {
			c.run(mk(data))
			k++
			if k%256 == 0 {
				c.endBatch()
				c.heartbeat()
			}
			return true
		})
		c.endBatch()
		c.res.Classes[fmt.Sprintf("structural:index-graph<=%d-nodes", maxNodes)] += int64(n)
	}
	// all short payloads for this packet id (with the logger enabled as well)
	c.logged = true
	c.run(mk())
	for a := 0; a < 256; a++ {
		c.run(mk([]byte{byte(a)}))
	}
	c.endBatch()
	c.res.Classes["short-payload:<=1 byte"] += 257
	c.logged = false
	if c.r.Thorough() {
		for a := 0; a < 256; a++ {
			for b := 0; b < 256; b++ {
				c.run(mk([]byte{byte(a), byte(b)}))
			}
			c.endBatch()
			c.heartbeat()
		}
		c.res.Classes["short-payload:2 bytes"] += 65536
	}
	// payloads at the frame limit
	c.bigPayloads(id, seeds)
	// once per (state, direction, protocol): every id 0..0x80 that is NOT registered, <=1-byte payloads
	if firstOfRegistry {
		reg := cell.State.ServerBound
		if cell.Direction == proto.ClientBound {
			reg = cell.State.ClientBound
		}
		pr := reg.Protocols[cell.Protocol]
		n := 0
		for pid := 0; pid <= 0x80; pid++ {
			if _, known := pr.PacketIDs[proto.PacketID(pid)]; known {
				continue
			}
			idb := varint(pid)
			buf = append(buf[:0], idb...)
			c.run(buf)
			for a := 0; a < 256; a++ {
				buf = append(append(buf[:0], idb...), byte(a))
				c.run(buf)
			}
			c.endBatch()
			n += 257
		}
		c.res.Classes["unregistered-id:<=1 byte"] += int64(n)
		// quantifier audit ("any packet id"): ids beyond one VarInt byte, negative and extreme ids, malformed id VarInts
		m := 0
		for _, pid := range []int{0x81, 0xFF, 0x100, 0x3FFF, 0x4000, 1 << 21, 1<<31 - 1, -1, -(1 << 31)} {
			if _, known := pr.PacketIDs[proto.PacketID(pid)]; known {
				continue
			}
			idb := varint(pid)
			for _, tail := range [][]byte{{}, {0x00}, {0xFF}, {0xFF, 0xFF, 0xFF, 0xFF, 0x07}} {
				c.run(append(append(buf[:0], idb...), tail...))
				m++
			}
		}
		for _, bad := range [][]byte{{0x80, 0x80, 0x80, 0x80, 0x80, 0x80}, {0xFF}, {0x80}} {
			c.run(append(buf[:0], bad...))
			m++
		}
		c.endBatch()
		c.res.Classes["unregistered-id:multi-byte/negative/malformed id"] += int64(m)
		// compression layer: once per (state, direction) for the lowest and the highest protocol
		if cell.Protocol == minProto || cell.Protocol == maxProto {
			inners := [][]byte{append([]byte(nil), id...), append(append([]byte(nil), id...), make([]byte, 600)...)}
			if len(seeds) > 0 {
				inners = append(inners, append(append([]byte(nil), id...), seeds[0].Data...))
			}
			c.compressedFrames(inners)
		}
	}
	b, _ := json.Marshal(c.res)
	fmt.Fprintf(c.out, "RES %s\n", b)
	c.out.Flush()
}

var minProto, maxProto proto.Protocol

// typeEdgeProto: per (state, direction, type) the lowest and the highest protocol in which it is registered
var typeEdgeProto = map[string]map[proto.Protocol]bool{}

func typeEdgeKey(c pktgen.Cell) string {
	return fmt.Sprintf("%s/%s/%s", c.State.State, c.Direction, pktgen.TypeName(c.Type))
}

func initProtoRange(cells []pktgen.Cell) {
	lo, hi := map[string]proto.Protocol{}, map[string]proto.Protocol{}
	for _, c := range cells {
		k := typeEdgeKey(c)
		if v, ok := lo[k]; !ok || c.Protocol < v {
			lo[k] = c.Protocol
		}
		if v, ok := hi[k]; !ok || c.Protocol > v {
			hi[k] = c.Protocol
		}
	}
	for k := range lo {
		typeEdgeProto[k] = map[proto.Protocol]bool{lo[k]: true, hi[k]: true}
	}
	for i, c := range cells {
		if i == 0 || c.Protocol < minProto {
			minProto = c.Protocol
		}
		if i == 0 || c.Protocol > maxProto {
			maxProto = c.Protocol
		}
	}
}

func atoiEnv(k string) int { n, _ := strconv.Atoi(os.Getenv(k)); return n }

func runChild(r *vrt.R) {
	pktgen.Thorough = r.Thorough()
	// unbounded recursion must end as a prompt, deterministic "stack overflow" fatal error instead of
	// tens of seconds of growing the stack to the default 1 GB (payloads here are < 2 KiB; 32 MiB is far more
	// than any bounded recursion over them needs)
	debug.SetMaxStack(32 << 20)
	_ = syscall.Setrlimit(syscall.RLIMIT_AS, &syscall.Rlimit{Cur: asLimit, Max: asLimit})
	c := &child{r: r, out: bufio.NewWriterSize(os.NewFile(3, "progress"), 1<<16), trace: os.Getenv("C05_TRACE") != "",
		from: atoiEnv("C05_FROM"), only: atoiEnv("C05_ONLY")}
	c.sample[0].Name = "/gc/heap/allocs:bytes"
	cells := pktgen.Cells()
	initProtoRange(cells)
	if rj := os.Getenv("C05_REPLAY"); rj != "" {
		var x rp
		_ = json.Unmarshal([]byte(rj), &x)
		cell, ok := pktgen.FindCell(x.Cell)
		if !ok {
			fmt.Fprintln(c.out, "ERR unknown cell")
			c.out.Flush()
			return
		}
		c.cell = cell
		c.res = &cellResult{Classes: map[string]int64{}}
		c.seenKey = map[string]bool{}
		c.newDecoders()
		if strings.HasPrefix(x.Payload, "z") { // compressed-frame case: "z<threshold>:<hex of the frame body>"
			t, hexBody, _ := strings.Cut(x.Payload[1:], ":")
			th, _ := strconv.Atoi(t)
			body, _ := hex.DecodeString(hexBody)
			fmt.Fprintf(c.out, "CELL -1\nCASE 1 %s\n", x.Payload)
			c.out.Flush()
			c.runZ(c.zDecoder(th), th, body, true)
			b, _ := json.Marshal(c.res)
			fmt.Fprintf(c.out, "RES %s\n", b)
			c.out.Flush()
			return
		}
		if strings.HasPrefix(x.Payload, "L:") { // frame-limit payload: "L:<kind>:<n>"
			f := strings.Split(x.Payload, ":")
			n, _ := strconv.Atoi(f[len(f)-1])
			bc := bigCase{strings.Join(f[1:len(f)-1], ":"), n}
			var seed []byte
			if seeds := pktgen.NewGen(cell).Seeds(c.r.Thorough(), 400); len(seeds) > 0 {
				seed = seeds[0].Data
			}
			fmt.Fprintf(c.out, "CELL -1\n")
			c.trace = true
			c.runBig(bc, bigPayload(bc, varint(int(cell.ID)), seed))
			b, _ := json.Marshal(c.res)
			fmt.Fprintf(c.out, "RES %s\n", b)
			c.out.Flush()
			return
		}
		payload, _ := hex.DecodeString(x.Payload)
		fmt.Fprintf(c.out, "CELL -1\nCASE 1 %s\n", x.Payload)
		c.out.Flush()
		before := exactAlloc()
		c.decodeOnce(payload, true)
		d := exactAlloc() - before
		before = exactAlloc()
		c.decodeLogged(payload)
		if dl := exactAlloc() - before; dl > d {
			d = dl
		}
		if d > budget(len(payload)) {
			c.violation(pktgen.TypeName(cell.Type)+"/alloc-blowup", fmt.Sprintf("%s: %d-byte payload allocated %d bytes (budget %d)\n  payload: %s",
				cell, len(payload), d, budget(len(payload)), hx(payload)), payload)
		}
		b, _ := json.Marshal(c.res)
		fmt.Fprintf(c.out, "RES %s\n", b)
		c.out.Flush()
		return
	}
	want := map[int]bool{}
	for _, s := range strings.Split(os.Getenv("C05_CELLS"), ",") {
		if n, err := strconv.Atoi(s); err == nil {
			want[n] = true
		}
	}
	skipTypes := map[string]bool{}
	for _, s := range strings.Split(os.Getenv("C05_SKIPTYPES"), ",") {
		skipTypes[s] = true
	}
	for i, cell := range cells {
		if !want[i] {
			continue
		}
		if skipTypes[pktgen.TypeName(cell.Type)] {
			fmt.Fprintf(c.out, "SKIP %d\n", i)
			c.out.Flush()
			continue
		}
		first := i == 0 || cells[i-1].State != cell.State || cells[i-1].Direction != cell.Direction || cells[i-1].Protocol != cell.Protocol
		c.doCell(i, cell, first)
	}
	fmt.Fprintln(c.out, "END")
	c.out.Flush()
}

// ---- parent ----

type childRun struct {
	results  []cellResult
	lastCell int    // cell announced last
	lastCase int    // trace mode: case announced last
	lastHex  string // its payload
	ended    bool   // END seen
	hung     bool
	stderr   string
	done     map[int]bool
	skipped  []int
	deadline bool // killed because the soft deadline passed
}

func spawn(env []string, stall time.Duration, hard time.Time) *childRun {
	cr := &childRun{lastCell: -1, done: map[int]bool{}}
	pr, pw, err := os.Pipe()
	if err != nil {
		panic(err)
	}
	cmd := exec.Command(os.Args[0], "-test.run", "^TestVerif$", "-test.timeout", "0", "-test.count", "1")
	cmd.Env = append(os.Environ(), env...)
	cmd.Env = append(cmd.Env, "C05_CHILD=1", "VERIF_OUT="+os.DevNull, "VERIF_REPLAY=", "GOMAXPROCS=1")
	cmd.ExtraFiles = []*os.File{pw}
	var errb bytes.Buffer
	cmd.Stdout = &errb
	cmd.Stderr = &errb
	if err := cmd.Start(); err != nil {
		panic(err)
	}
	pw.Close()
	lines := make(chan string, 1024)
	go func() {
		sc := bufio.NewScanner(pr)
		sc.Buffer(make([]byte, 1<<20), 64<<20)
		for sc.Scan() {
			lines <- sc.Text()
		}
		close(lines)
	}()
	// Stall detection is by CPU time the child burns without reporting progress (load-independent:
	// a child that is merely starved by other processes is not "hanging"), with a wall-clock backstop
	// for a child that blocks without using CPU.
	pid := cmd.Process.Pid
	tick := time.NewTicker(500 * time.Millisecond)
	defer tick.Stop()
	progressed := true
	cpuMark := procCPU(pid)
	lastProgress := time.Now()
	baseStall := stall
loop:
	for {
		select {
		case ln, ok := <-lines:
			if !ok {
				break loop
			}
			progressed = true
			stall = baseStall
			switch {
			case ln == "SLOW":
				stall = 6 * baseStall // announced by the child for a frame-filling command graph
			case ln == "SLOW3":
				stall = 3 * baseStall // a command graph of >= 100000 nodes
			case strings.HasPrefix(ln, "CELL "):
				cr.lastCell, _ = strconv.Atoi(ln[5:])
				cr.lastCase = 0
			case strings.HasPrefix(ln, "CASE "):
				f := strings.Fields(ln)
				cr.lastCase, _ = strconv.Atoi(f[1])
				if len(f) > 2 {
					cr.lastHex = f[2]
				} else {
					cr.lastHex = ""
				}
			case strings.HasPrefix(ln, "RES "):
				var res cellResult
				if json.Unmarshal([]byte(ln[4:]), &res) == nil {
					cr.results = append(cr.results, res)
					cr.done[res.Cell] = true
				}
			case strings.HasPrefix(ln, "SKIP "):
				n, _ := strconv.Atoi(ln[5:])
				cr.done[n] = true
				cr.skipped = append(cr.skipped, n)
			case ln == "END":
				cr.ended = true
			}
		case <-tick.C:
			cpu := procCPU(pid)
			if progressed {
				progressed = false
				cpuMark = cpu
				lastProgress = time.Now()
			} else if cpu-cpuMark >= stall || time.Since(lastProgress) > 12*stall {
				cr.hung = true
				_ = cmd.Process.Kill()
				break loop
			}
			if time.Now().After(hard) {
				cr.deadline = true
				_ = cmd.Process.Kill()
				break loop
			}
		}
	}
	_ = cmd.Wait()
	pr.Close()
	s := errb.String()
	if len(s) > 6000 {
		s = s[:3000] + "\n…\n" + s[len(s)-3000:]
	}
	cr.stderr = s
	return cr
}

// procCPU returns the CPU time (user+system) a process has used so far.
func procCPU(pid int) time.Duration {
	b, err := os.ReadFile(fmt.Sprintf("/proc/%d/stat", pid))
	if err != nil {
		return 0
	}
	// fields after the ")" that closes the command name: state is field 3, utime 14, stime 15
	i := bytes.LastIndexByte(b, ')')
	if i < 0 {
		return 0
	}
	f := strings.Fields(string(b[i+1:]))
	if len(f) < 13 {
		return 0
	}
	ut, _ := strconv.ParseInt(f[11], 10, 64)
	st, _ := strconv.ParseInt(f[12], 10, 64)
	return time.Duration(ut+st) * (time.Second / 100) // USER_HZ is 100 on Linux
}

func crashKind(stderr string) string {
	switch {
	case strings.Contains(stderr, "stack overflow") || strings.Contains(stderr, "stack exceeds"):
		return "stack-overflow"
	case strings.Contains(stderr, "out of memory") || strings.Contains(stderr, "cannot allocate memory"):
		return "out-of-memory"
	case strings.Contains(stderr, "concurrent map"):
		return "concurrent-map"
	case strings.Contains(stderr, "panic: "):
		return "non-error-panic"
	case strings.Contains(stderr, "fatal error: "):
		return "fatal-error"
	}
	return "exit"
}

func firstLines(s string, n int) string {
	ls := strings.Split(s, "\n")
	var out []string
	for _, l := range ls {
		if strings.HasPrefix(l, "panic: ") || strings.HasPrefix(l, "fatal error: ") || strings.HasPrefix(l, "runtime: ") || len(out) > 0 {
			out = append(out, l)
		}
		if len(out) >= n {
			break
		}
	}
	if len(out) == 0 && len(ls) > n {
		ls = ls[:n]
		return strings.Join(ls, "\n")
	}
	return strings.Join(out, "\n")
}

type parent struct {
	r         *vrt.R
	cells     []pktgen.Cell
	hard      time.Time
	skipTypes []string // types with a recorded hang/crash: their remaining cells are not explored
}

func (p *parent) env(extra ...string) []string {
	return append(extra, "C05_SKIPTYPES="+strings.Join(p.skipTypes, ","))
}

func (p *parent) merge(res cellResult) {
	r := p.r
	r.Eval(int(res.Evals))
	r.Nontrivial(int(res.Nontriv))
	for k, n := range res.Classes {
		r.ClassN(k, int(n))
	}
	for _, v := range res.Vios {
		r.Violation(v.Key, v.Desc, v.Replay)
	}
	for _, n := range res.Notes {
		r.Note(n)
	}
	r.AddExtra("cells", 1)
	r.AddExtra("seed_encodings", int64(res.Seeds))
	if res.Sample != nil {
		r.Sample(res.Sample)
	}
	if cur, _ := maxAlloc[r]; res.MaxAlloc > cur {
		maxAlloc[r] = res.MaxAlloc
	}
}

var maxAlloc = map[*vrt.R]uint64{}

// investigate pins a crash or hang inside one cell on a payload, records it, and finishes the rest
// of the cell.
func (p *parent) investigate(idx int) {
	r := p.r
	cell := p.cells[idx]
	tn := pktgen.TypeName(cell.Type)
	from := 1
	defer func() { p.skipTypes = append(p.skipTypes, tn) }()
	for attempt := 0; attempt < 3; attempt++ {
		cr := spawn([]string{"C05_CELLS=" + strconv.Itoa(idx), "C05_TRACE=1", "C05_FROM=" + strconv.Itoa(from)}, 10*time.Second, p.hard)
		if cr.done[idx] {
			for _, res := range cr.results {
				p.merge(res)
			}
			return
		}
		if cr.deadline {
			r.NotExhaustive("soft deadline reached")
			return
		}
		if cr.lastCase == 0 {
			r.NotExhaustive(fmt.Sprintf("cell %s: child died before the first case: %s", cell, firstLines(cr.stderr, 3)))
			return
		}
		payload := cr.lastHex
		rpd := rp{Cell: cell.String(), Payload: payload}
		tn := tn
		if strings.HasPrefix(payload, "z") {
			tn = "compressed-frame/" + cell.Direction.String()
		}
		if cr.hung {
			// confirm: the same case alone must hang again
			again := spawn([]string{"C05_REPLAY=" + mustJSON(rpd)}, 10*time.Second, p.hard)
			if again.hung {
				r.Violation(tn+"/hang", fmt.Sprintf("%s: decoding this payload burns more than 10 s of CPU without finishing (reproduced twice; every other case takes microseconds)\n  payload (id+data): %s", cell, payload), rpd)
				r.NotExhaustive(fmt.Sprintf("cells of %s after the hanging payload are not explored", tn))
				return
			}
			r.NotExhaustive(fmt.Sprintf("cell %s case %d stalled once for 10 s but not when repeated (machine load?)", cell, cr.lastCase))
		} else {
			kind := crashKind(cr.stderr)
			key := tn + "/process-crash:" + kind
			r.Violation(key, fmt.Sprintf("%s: the process died while decoding\n  payload (id+data): %s\n%s", cell, payload, firstLines(cr.stderr, 12)), rpd)
		}
		from = cr.lastCase + 1
	}
	r.NotExhaustive(fmt.Sprintf("%s: 3 crashing payloads in cell %s, remaining cells of this type not explored", tn, cell))
}

func mustJSON(v any) string { b, _ := json.Marshal(v); return string(b) }

func runParent(r *vrt.R) {
	p := &parent{r: r, cells: pktgen.Cells()}
	p.hard = time.Now().Add(24 * time.Hour)
	if d := r.DeadlineTime(); !d.IsZero() {
		p.hard = d
	}
	var x rp
	if r.ReplayInto(&x) {
		cr := spawn([]string{"C05_REPLAY=" + mustJSON(x)}, 10*time.Second, p.hard)
		cell, _ := pktgen.FindCell(x.Cell)
		tn := pktgen.TypeName(cell.Type)
		if strings.HasPrefix(x.Payload, "z") {
			tn = "compressed-frame/" + cell.Direction.String()
		}
		switch {
		case len(cr.results) > 0:
			for _, res := range cr.results {
				for _, v := range res.Vios {
					r.Violation(v.Key, v.Desc, v.Replay)
				}
			}
		case cr.hung:
			r.Violation(tn+"/hang", "replay: decoding burns more than 10 s of CPU without finishing", x)
		case cr.deadline:
			r.NotExhaustive("soft deadline reached during replay")
		default:
			r.Violation(tn+"/process-crash:"+crashKind(cr.stderr), "replay: the process died while decoding\n"+firstLines(cr.stderr, 12), x)
		}
		r.Eval(1)
		return
	}
	var todo []int
	for i := range p.cells {
		if r.Mine(i) {
			todo = append(todo, i)
		}
	}
	for len(todo) > 0 {
		if r.Expired() {
			break
		}
		var sb strings.Builder
		for _, i := range todo {
			sb.WriteString(strconv.Itoa(i) + ",")
		}
		cr := spawn(p.env("C05_CELLS="+sb.String()), 20*time.Second, p.hard)
		for _, res := range cr.results {
			p.merge(res)
		}
		for range cr.skipped {
			r.AddExtra("cells_skipped_after_crash_of_same_type", 1)
		}
		var rest []int
		for _, i := range todo {
			if !cr.done[i] {
				rest = append(rest, i)
			}
		}
		if cr.ended || len(rest) == 0 {
			break
		}
		if cr.deadline || time.Now().After(p.hard) {
			r.NotExhaustive("soft deadline reached")
			break
		}
		// the child died or stalled in cell cr.lastCell
		bad := cr.lastCell
		if bad < 0 {
			r.NotExhaustive("child died before announcing a cell: " + firstLines(cr.stderr, 3))
			break
		}
		p.investigate(bad)
		todo = todo[:0]
		for _, i := range rest {
			if i != bad {
				todo = append(todo, i)
			}
		}
	}
	r.Note(fmt.Sprintf("shard %d: largest allocation measured for a single payload: %d bytes", r.Shard, maxAlloc[r]))
}

func TestVerif(t *testing.T) {
	vrt.Run(t, "C05", func(r *vrt.R) {
		if os.Getenv("C05_CHILD") != "" {
			runChild(r)
			r.Eval(1)
			return
		}
		runParent(r)
	})
}

var _ = io.EOF
