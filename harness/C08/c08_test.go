package proxy

// C08: in online mode (unless a pre-login handler forces offline mode) a client is never sent
// login success nor registered unless it proved the verify token the proxy issued (or signed it
// with its profile key), the shared secret decrypted, encryption was enabled with that secret and
// the session server confirmed the join for the derived server id and the client's username; a
// login packet that arrives out of order or twice closes the connection without admitting.
//
// Engine B (bfs): every client packet history up to a depth over the alphabet below is replayed
// on a FRESH real Proxy + real handshake -> initialLogin -> auth session handler chain over a
// recording connection (kit_test.go). The authenticator is the real one (fixed RSA key; Verify,
// DecryptSharedSecret, GenerateServerID and AuthenticateJoin are the repo's code), only its HTTP
// transport is scripted. A reference monitor written from the statement follows the history.

import (
	"crypto/sha1"
	"encoding/hex"
	"fmt"
	"math/big"
	"strings"
	"sync"
	"testing"

	"go.minekube.com/common/minecraft/component"
	"go.minekube.com/common/minecraft/key"
	"go.minekube.com/gate/pkg/edition/java/proto/packet"
	"go.minekube.com/gate/pkg/edition/java/proto/packet/cookie"
	"go.minekube.com/gate/pkg/edition/java/proto/version"
	"go.minekube.com/gate/pkg/edition/java/proxy/message"
	"go.minekube.com/gate/pkg/edition/java/proxy/zzverif/bfs"
	"go.minekube.com/gate/pkg/edition/java/proxy/zzverif/vrt"
	"go.minekube.com/gate/pkg/gate/proto"
	"go.minekube.com/gate/pkg/util/uuid"
)

type c08Op struct {
	K string `json:"k"`
}

func (o c08Op) String() string { return o.K }

// scenario = everything that is fixed for a history
type c08Scn struct {
	Proto int    // 47 (1.8), 760 (1.19.1, profile key), 764 (1.20.2)
	Pre   string // allow | deny | offline | online (config offline, handler forces online) | msg (allow + handler sends a login plugin message)
	So    string // session server: 200 | 204 | 401 | err | noname | empty | 500
	NoKey bool   // 1.19 / 1.19.1 client WITHOUT a profile key on a proxy with forceKeyAuthentication: false
	PP    bool   // config switch prevent-client-proxy-connections: the join request also carries the client's IP
}

func (s c08Scn) name() string {
	if s.PP {
		return fmt.Sprintf("p%dpp-%s-%s", s.Proto, s.Pre, s.So)
	}
	if s.NoKey {
		return fmt.Sprintf("p%dnokey-%s-%s", s.Proto, s.Pre, s.So)
	}
	return fmt.Sprintf("p%d-%s-%s", s.Proto, s.Pre, s.So)
}

const (
	c08Name    = "Player_1"
	c08BadName = "bad name!"
	c08Name16  = "Sixteen_chars_16"  // longest name the protocol permits
	c08Name17  = "Seventeen_chars_1" // one character too long
)

// quantifier audit: "valid secrets" - the derived server id is Java's SIGNED hex of the SHA-1, so valid secrets are
// taken from all four shapes of that number: positive / negative, with / without leading zero digits. The secrets are
// found by search against the independent reference refServerID (the kit's server key is fixed).
var (
	c08SecretsOnce sync.Once
	c08Secrets     map[string][]byte // "ERg" | "ERgN" (negative) | "ERgZ" (positive, leading zero) | "ERgM" (negative, leading zero)
)

func c08SecretFor(op string, pub []byte) []byte {
	c08SecretsOnce.Do(func() {
		c08Secrets = map[string][]byte{"ERg": c08Secret}
		for i := 0; len(c08Secrets) < 4 && i < 1000000; i++ {
			sec := []byte(fmt.Sprintf("%016d", i))
			id := refServerID(sec, pub)
			neg := strings.HasPrefix(id, "-")
			short := len(strings.TrimPrefix(id, "-")) < 40
			k := ""
			switch {
			case neg && !short:
				k = "ERgN"
			case !neg && short:
				k = "ERgZ"
			case neg && short:
				k = "ERgM"
			}
			if k != "" && c08Secrets[k] == nil {
				c08Secrets[k] = sec
			}
		}
	})
	return c08Secrets[op]
}

var (
	c08Secret      = []byte("0123456789abcdef") // 16 bytes: a valid AES key
	c08ShortSecret = []byte("12345")
	c08ProfileID   = uuid.UUID{0x06, 0x9a, 0x79, 0xf4, 0x44, 0xe9, 0x47, 0x26, 0xa5, 0xbe, 0xfc, 0xa9, 0x0e, 0x38, 0xaa, 0xf5}
)

// refServerID: Java's new BigInteger(sha1(secret||key)).toString(16) (independent of auth.GenerateServerID, see C09).
func refServerID(secret, pub []byte) string {
	d := sha1.Sum(append(append([]byte{}, secret...), pub...))
	n := new(big.Int).SetBytes(d[:])
	if d[0] >= 0x80 {
		n.Sub(n, new(big.Int).Lsh(big.NewInt(1), 160))
	}
	return n.Text(16)
}

type c08Run struct {
	scn c08Scn
	s   *kitSession

	// reference monitor
	lsCount, erCount, ackCount int
	firstLoginValid            bool
	proofIdx                   int    // index of the op that proved the issued token with a decryptable 16-byte secret (-1 none)
	proofSecret                []byte // ... and the secret it carried
	loginName                  string // username of the first login start
	admitted                   bool
	sawRegistered              bool
	loginEvents                []string
	failKey, failDesc          string
}

func (c *c08Run) fail(key, format string, a ...any) {
	if c.failKey == "" {
		c.failKey, c.failDesc = key, fmt.Sprintf(format, a...)
	}
}

func newC08Run(scn c08Scn) *c08Run {
	cfg := kitConfig()
	cfg.OnlineMode = scn.Pre != "online"
	cfg.ShouldPreventClientProxyConnections = scn.PP
	if scn.NoKey {
		cfg.ForceKeyAuthentication = false
	}
	s := newKitSession(cfg, proto.Protocol(scn.Proto))
	c := &c08Run{scn: scn, s: s, proofIdx: -1}
	switch scn.So {
	case "200":
		s.Server.Status, s.Server.Body = 200, kitProfileJSON(c08ProfileID, c08Name)
	case "204":
		s.Server.Status = 204
	case "401":
		s.Server.Status, s.Server.Body = 401, `{"error":"ForbiddenOperationException"}`
	case "500":
		s.Server.Status, s.Server.Body = 500, "oops"
	case "err":
		s.Server.Status = 0
	case "noname":
		s.Server.Status, s.Server.Body = 200, fmt.Sprintf(`{"id":"%s","properties":[]}`, c08ProfileID.Undashed())
	case "empty":
		s.Server.Status, s.Server.Body = 200, ""
	case "badjson":
		s.Server.Status, s.Server.Body = 200, "<html>502 bad gateway</html>"
	}
	ch, _ := message.ChannelIdentifierFrom("verif:prelogin")
	kitOn(s.Events, func(e *PreLoginEvent) {
		switch scn.Pre {
		case "deny":
			e.Deny(&component.Text{Content: "denied by verif"})
		case "offline":
			e.ForceOfflineMode()
		case "online":
			e.ForceOnlineMode()
		case "msg":
			if lp, ok := e.Conn().(LoginPhaseConnection); ok {
				_ = lp.SendLoginPluginMessage(ch, []byte{1}, funcConsumer(func([]byte) error { return nil }))
			}
		case "preclose": // the handler drops the connection itself
			_ = s.Conn.Close()
		}
	})
	// quantifier audit: event handlers that refuse or drop the client AFTER authentication (cleanup paths)
	kitOn(s.Events, func(e *GameProfileRequestEvent) {
		if scn.Pre == "gpclose" {
			_ = s.Conn.Close()
		}
	})
	kitOn(s.Events, func(e *LoginEvent) {
		switch scn.Pre {
		case "logindeny":
			e.Deny(&component.Text{Content: "login denied by verif"})
		case "loginclose":
			_ = s.Conn.Close()
		}
	})
	kitOn(s.Events, func(e *LoginEvent) {
		c.loginEvents = append(c.loginEvents, fmt.Sprintf("login:%s:online=%v", e.Player().Username(), e.Player().OnlineMode()))
	})
	kitOn(s.Events, func(e *PostLoginEvent) {
		if s.Proxy.Player(e.Player().ID()) != nil {
			c.sawRegistered = true
		}
	})
	kitOn(s.Events, func(e *DisconnectEvent) {
		if e.LoginStatus() == SuccessfulLoginStatus || e.LoginStatus() == ConflictingLoginStatus {
			c.sawRegistered = true // teardown found the player in the registry
		}
	})
	s.handshake()
	return c
}

type funcConsumer func([]byte) error

func (f funcConsumer) OnMessageResponse(b []byte) error { return f(b) }

// issued returns the verify tokens of every EncryptionRequest written so far.
func (c *c08Run) issued() [][]byte {
	var out [][]byte
	for _, p := range c.s.Conn.packets() {
		if r, ok := p.(*packet.EncryptionRequest); ok {
			out = append(out, r.VerifyToken)
		}
	}
	return out
}

func (c *c08Run) successIdx() int { return c.s.Conn.firstIndex("", &packet.ServerLoginSuccess{}) }

func (c *c08Run) keyed() bool { return c08Keyed(c.scn) }

func c08Keyed(scn c08Scn) bool { return (scn.Proto == 759 || scn.Proto == 760) && !scn.NoKey }

// build makes the packet for op and reports (loginPacket, proves) where proves = this response
// proves possession of the ISSUED token and carries a decryptable, AES-usable secret.
func (c *c08Run) build(op c08Op) (p proto.Packet, loginPacket, proves bool) {
	pub := c.s.Deps.authenticator.PublicKey()
	tokens := c.issued()
	token := []byte{0, 0, 0, 0} // a client that was never sent a request has to guess
	if len(tokens) > 0 {
		token = tokens[len(tokens)-1]
	}
	wrong := append([]byte{}, token...)
	wrong[len(wrong)-1] ^= 0x01
	salt := int64(0x1122334455667788)
	switch op.K {
	case "LSv":
		l := &packet.ServerLogin{Username: c08Name}
		if c.keyed() {
			l.PlayerKey = &kitClientKey{mojangValid: true, holder: c08ProfileID}
			l.HolderID = c08ProfileID
		}
		return l, true, false
	case "LSv16": // valid name of the maximum length
		l := &packet.ServerLogin{Username: c08Name16}
		if c.keyed() {
			l.PlayerKey = &kitClientKey{mojangValid: true, holder: c08ProfileID}
			l.HolderID = c08ProfileID
		}
		return l, true, false
	case "LSi17": // one character more than the protocol permits
		l := &packet.ServerLogin{Username: c08Name17}
		if c.keyed() {
			l.PlayerKey = &kitClientKey{mojangValid: true, holder: c08ProfileID}
		}
		return l, true, false
	case "LSi":
		l := &packet.ServerLogin{Username: c08BadName}
		if c.keyed() {
			l.PlayerKey = &kitClientKey{mojangValid: true, holder: c08ProfileID}
		}
		return l, true, false
	case "LSx": // key whose Mojang signature does not verify
		return &packet.ServerLogin{Username: c08Name, PlayerKey: &kitClientKey{mojangValid: false, holder: c08ProfileID}}, true, false
	case "LSe": // expired key
		return &packet.ServerLogin{Username: c08Name, PlayerKey: &kitClientKey{mojangValid: true, expired: true, holder: c08ProfileID}}, true, false
	case "LSn": // 1.19.1 client without a key
		return &packet.ServerLogin{Username: c08Name}, true, false
	case "ERg", "ERgN", "ERgZ", "ERgM":
		r := &packet.EncryptionResponse{SharedSecret: kitEncrypt(pub, c08SecretFor(op.K, pub))}
		if c.keyed() {
			r.Salt, r.VerifyToken = &salt, kitSignToken(token, salt)
		} else {
			r.VerifyToken = kitEncrypt(pub, token)
		}
		return r, true, len(tokens) > 0
	case "ERt": // wrong token, everything else right
		r := &packet.EncryptionResponse{SharedSecret: kitEncrypt(pub, c08Secret)}
		if c.keyed() {
			r.Salt, r.VerifyToken = &salt, kitSignToken(wrong, salt)
		} else {
			r.VerifyToken = kitEncrypt(pub, wrong)
		}
		return r, true, false
	case "ERtx", "ERte": // the issued token followed by one more byte / an empty token
		bad := append(append([]byte{}, token...), 0x00)
		if op.K == "ERte" {
			bad = []byte{}
		}
		r := &packet.EncryptionResponse{SharedSecret: kitEncrypt(pub, c08Secret)}
		if c.keyed() {
			r.Salt, r.VerifyToken = &salt, kitSignToken(bad, salt)
		} else {
			r.VerifyToken = kitEncrypt(pub, bad)
		}
		return r, true, false
	case "ERs": // token right, secret is not a valid ciphertext
		r := &packet.EncryptionResponse{SharedSecret: []byte(strings.Repeat("\x5a", 128))}
		if c.keyed() {
			r.Salt, r.VerifyToken = &salt, kitSignToken(token, salt)
		} else {
			r.VerifyToken = kitEncrypt(pub, token)
		}
		return r, true, false
	case "ERl": // token right, secret decrypts but cannot key AES
		r := &packet.EncryptionResponse{SharedSecret: kitEncrypt(pub, c08ShortSecret)}
		if c.keyed() {
			r.Salt, r.VerifyToken = &salt, kitSignToken(token, salt)
		} else {
			r.VerifyToken = kitEncrypt(pub, token)
		}
		return r, true, false
	case "ERr": // the token in the clear (non-keyed) / encrypted instead of signed (keyed)
		r := &packet.EncryptionResponse{SharedSecret: kitEncrypt(pub, c08Secret), VerifyToken: token}
		if c.keyed() {
			r.Salt, r.VerifyToken = &salt, kitEncrypt(pub, token)
		}
		return r, true, false
	case "ERsg": // keyless client, salted form: salt + garbage "signature"
		return &packet.EncryptionResponse{SharedSecret: kitEncrypt(pub, c08Secret), VerifyToken: []byte(strings.Repeat("\x33", 128)), Salt: &salt}, true, false
	case "ERse": // keyless client, salted form: salt + empty signature
		return &packet.EncryptionResponse{SharedSecret: kitEncrypt(pub, c08Secret), VerifyToken: []byte{}, Salt: &salt}, true, false
	case "ERst": // keyless client, salted form whose signature field holds the RSA-encrypted ISSUED token: the exact token is returned
		return &packet.EncryptionResponse{SharedSecret: kitEncrypt(pub, c08Secret), VerifyToken: kitEncrypt(pub, token), Salt: &salt}, true, len(tokens) > 0
	case "ERsw": // same, but a wrong token
		return &packet.EncryptionResponse{SharedSecret: kitEncrypt(pub, c08Secret), VerifyToken: kitEncrypt(pub, wrong), Salt: &salt}, true, false
	case "ERn": // keyed: valid signature but no salt in the packet
		return &packet.EncryptionResponse{SharedSecret: kitEncrypt(pub, c08Secret), VerifyToken: kitSignToken(token, salt)}, true, false
	case "ERb": // keyed: signature made over another salt
		return &packet.EncryptionResponse{SharedSecret: kitEncrypt(pub, c08Secret), VerifyToken: kitSignToken(token, salt+1), Salt: &salt}, true, false
	case "LPu":
		return &packet.LoginPluginResponse{ID: 99, Success: true, Data: []byte{1}}, false, false
	case "LP1":
		return &packet.LoginPluginResponse{ID: 1, Success: true, Data: []byte{1}}, false, false
	case "LP1f": // the client does not understand the request
		return &packet.LoginPluginResponse{ID: 1, Success: false}, false, false
	case "ACK":
		return &packet.LoginAcknowledged{}, true, false
	case "CK":
		return &cookie.CookieResponse{Key: key.New("verif", "cookie"), Payload: []byte{1}}, false, false
	case "UNK":
		return nil, false, false
	}
	panic("unknown op " + op.K)
}

// step delivers one client packet and checks the statement.
func (c *c08Run) step(i int, op c08Op) {
	s := c.s
	p, loginPacket, proves := c.build(op)
	nReq := len(c.issued())
	inOrder := true
	switch {
	case strings.HasPrefix(op.K, "LS"):
		inOrder = c.lsCount == 0 && c.erCount == 0 && c.ackCount == 0
		if inOrder {
			c.firstLoginValid = op.K == "LSv" || op.K == "LSv16"
			c.loginName = p.(*packet.ServerLogin).Username
		}
		c.lsCount++
	case strings.HasPrefix(op.K, "ER"):
		inOrder = c.lsCount == 1 && nReq == 1 && c.erCount == 0
		if inOrder && proves {
			c.proofIdx = i
			c.proofSecret = c08Secret
			if sec := c08SecretFor(op.K, s.Deps.authenticator.PublicKey()); sec != nil {
				c.proofSecret = sec
			}
		}
		c.erCount++
	case op.K == "ACK":
		inOrder = c.successIdx() >= 0 && c.ackCount == 0
		c.ackCount++
	}
	admittedBefore := c.admitted
	_, pan := s.Conn.deliver(p)
	if pan != nil {
		c.fail("handler-panic:"+op.K, "packet %s made the session handler panic (the read loop recovers and keeps the connection open): %v", op.K, pan)
		return
	}
	success := c.successIdx() >= 0
	c.admitted = success || c.sawRegistered || s.Proxy.PlayerCount() > 0
	if loginPacket && !inOrder {
		if !s.Conn.closed {
			c.fail("out-of-order-login-packet-not-closed:"+op.K, "login packet %s arrived out of order / twice (LS seen %d, ER seen %d, requests issued %d) and the connection is still open", op.K, c.lsCount, c.erCount, nReq)
			return
		}
		if c.admitted && !admittedBefore {
			c.fail("out-of-order-login-packet-admitted:"+op.K, "login packet %s arrived out of order / twice and the client got admitted", op.K)
			return
		}
	}
	if s.Conn.closed && s.Proxy.PlayerCount() != 0 {
		c.fail("closed-but-still-registered", "connection closed after %s but the registry still holds %d player(s)", op.K, s.Proxy.PlayerCount())
		return
	}
	if c.admitted && !admittedBefore {
		c.checkAdmission(op)
	}
}

// checkAdmission: the client has just been sent login success / registered. Was it entitled?
func (c *c08Run) checkAdmission(op c08Op) {
	s := c.s
	if c.scn.Pre == "deny" {
		c.fail("admitted-after-prelogin-deny", "pre-login handler denied the login, yet the client was admitted (%s)", s.Conn.trace())
		return
	}
	if c.lsCount != 1 || !c.firstLoginValid {
		c.fail("admitted-without-valid-login-start", "admitted with %d login start packets, first valid=%v (%s)", c.lsCount, c.firstLoginValid, s.Conn.trace())
		return
	}
	if c.scn.Pre == "offline" {
		return // a pre-login handler forced offline mode: the statement exempts this
	}
	tokens := c.issued()
	if len(tokens) != 1 {
		c.fail("admitted-without-encryption-request", "admitted after %d encryption requests (%s)", len(tokens), s.Conn.trace())
		return
	}
	if c.proofIdx < 0 || c.erCount != 1 {
		c.fail("admitted-without-token-proof", "admitted although no response proved the issued verify token with a usable secret (responses seen %d, last packet %s) (%s)", c.erCount, op.K, s.Conn.trace())
		return
	}
	encIdx := -1
	for i, e := range s.Conn.events {
		if e.Kind == "encrypt" && e.Info == hex.EncodeToString(c.proofSecret) {
			encIdx = i
			break
		}
	}
	si := c.successIdx()
	if encIdx < 0 {
		c.fail("admitted-without-encryption-enabled", "admitted but encryption was never enabled with the client's secret (%s)", s.Conn.trace())
		return
	}
	if si >= 0 && encIdx > si {
		c.fail("admitted-encryption-after-success", "ServerLoginSuccess was written before encryption was enabled (%s)", s.Conn.trace())
		return
	}
	wantID := refServerID(c.proofSecret, s.Deps.authenticator.PublicKey())
	ok := false
	for _, call := range s.Server.Calls {
		if call.ServerID == wantID && call.Username == c.loginName {
			ok = true
		}
	}
	if !ok || c.scn.So != "200" {
		c.fail("admitted-without-session-confirmation", "admitted but the session server did not confirm (serverId=%s, username=%s): outcome %s, calls %+v", wantID, c.loginName, c.scn.So, s.Server.Calls)
		return
	}
}

func (c *c08Run) stateKey() string {
	s := c.s
	h := strings.TrimPrefix(fmt.Sprintf("%T", s.Conn.active), "*proxy.")
	extra := ""
	switch t := s.Conn.active.(type) {
	case *initialLoginSessionHandler:
		extra = fmt.Sprintf("%s login=%v verify=%v out=%d", t.currentState, t.login != nil, len(t.verify) != 0, len(t.inbound.outstandingResponses))
	case *authSessionHandler:
		extra = fmt.Sprintf("auth=%d out=%d", *t.loginState.Load(), len(t.inbound.outstandingResponses))
	}
	return fmt.Sprintf("%s %s closed=%v players=%d calls=%d ls=%d er=%d ack=%d proof=%v adm=%v | %s", h, extra, s.Conn.closed, s.Proxy.PlayerCount(), len(s.Server.Calls), c.lsCount, c.erCount, c.ackCount, c.proofIdx >= 0, c.admitted, s.Conn.trace())
}

func (c *c08Run) class() string {
	switch {
	case c.admitted && c.scn.Pre == "offline":
		return "outcome:admitted-forced-offline"
	case c.admitted:
		return "outcome:admitted-online-verified"
	case c.s.Conn.closed:
		return "outcome:closed-not-admitted"
	default:
		return "outcome:open-waiting"
	}
}

func runC08(scn c08Scn, h []c08Op, r *vrt.R) bfs.Outcome {
	c := newC08Run(scn)
	if _, ok := c.s.Conn.active.(*initialLoginSessionHandler); !ok {
		return bfs.Outcome{FailKey: "harness/handshake-did-not-reach-login", FailDesc: c.s.Conn.trace()}
	}
	for i, op := range h {
		if c.s.Conn.closed {
			break
		}
		c.step(i, op)
		if c.failKey != "" {
			return bfs.Outcome{FailKey: c.failKey, FailDesc: c.failDesc + "\nconn: " + c.s.Conn.trace()}
		}
	}
	if r != nil {
		r.Class(c.class())
	}
	return bfs.Outcome{Key: c.stateKey(), Terminal: c.s.Conn.closed, Obs: c.class() + " " + c.s.Conn.trace()}
}

// honest is the vacuity guard: where the statement allows admission the honest client must get
// in, otherwise "never admitted unless ..." would hold trivially.
func honest(scn c08Scn) (key, desc string, good []c08Op) {
	if !(scn.Pre == "offline" || (scn.So == "200" && scn.Pre != "deny")) {
		return "", "", nil
	}
	switch scn.Pre {
	case "preclose", "gpclose", "logindeny", "loginclose":
		return "", "", nil // a handler refuses the client: no admission to expect
	}
	good = []c08Op{{"LSv"}, {"ERg"}}
	if scn.Pre == "offline" {
		good = good[:1]
	}
	if scn.Pre == "msg" {
		good = []c08Op{{"LSv"}, {"LP1"}, {"ERg"}}
	}
	c := newC08Run(scn)
	for j, op := range good {
		c.step(j, op)
	}
	if !c.admitted && c.failKey == "" { // a monitor failure on this history is reported by the search itself
		return "honest-client-not-admitted", fmt.Sprintf("history %v did not admit the client\nconn: %s", good, c.s.Conn.trace()), good
	}
	return "", "", good
}

func c08Scenarios(thorough bool) []c08Scn {
	var out []c08Scn
	// every class of answer AuthenticateJoin / GameProfile distinguish: 200 + profile, 204, 401, transport error,
	// 200 without a name, 200 with an empty body, another status, 200 with a body that is not JSON
	sos := []string{"200", "204", "401", "err", "noname", "empty", "500", "badjson"}
	_ = thorough
	for _, p := range []int{47, 760, 764} {
		for _, so := range sos {
			out = append(out, c08Scn{Proto: p, Pre: "allow", So: so}, c08Scn{Proto: p, Pre: "online", So: so})
		}
		out = append(out, c08Scn{Proto: p, Pre: "deny", So: "200"}, c08Scn{Proto: p, Pre: "offline", So: "200"})
		if p >= 393 {
			out = append(out, c08Scn{Proto: p, Pre: "msg", So: "200"}, c08Scn{Proto: p, Pre: "msg", So: "204"})
		}
	}
	// the other sides of the protocol gates of the login path: 1.7 (no compression packet), 1.19.3 (no key in login start
	// any more), the newest version (login success layout); keyed 1.19 (759)
	for _, p := range []int{5, 761, int(version.MaximumVersion.Protocol)} {
		for _, so := range []string{"200", "204"} {
			out = append(out, c08Scn{Proto: p, Pre: "allow", So: so}, c08Scn{Proto: p, Pre: "online", So: so})
		}
		out = append(out, c08Scn{Proto: p, Pre: "deny", So: "200"}, c08Scn{Proto: p, Pre: "offline", So: "200"})
		if p >= 393 {
			out = append(out, c08Scn{Proto: p, Pre: "msg", So: "200"})
		}
	}
	for _, so := range []string{"200", "401"} {
		out = append(out, c08Scn{Proto: 759, Pre: "allow", So: so})
	}
	out = append(out, c08Scn{Proto: 759, Pre: "online", So: "200"}, c08Scn{Proto: 759, Pre: "offline", So: "200"}, c08Scn{Proto: 759, Pre: "deny", So: "200"})
	// configuration switch on the path: the join request carries the client's address
	out = append(out, c08Scn{Proto: 47, Pre: "allow", So: "200", PP: true}, c08Scn{Proto: 764, Pre: "allow", So: "204", PP: true},
		c08Scn{Proto: 764, Pre: "allow", So: "200", PP: true})
	// event handlers refusing / dropping the client before and after authentication
	for _, p := range []int{47, 764} {
		for _, pre := range []string{"preclose", "gpclose", "logindeny", "loginclose"} {
			out = append(out, c08Scn{Proto: p, Pre: pre, So: "200"})
		}
	}
	// keyless 1.19 / 1.19.1 clients (the only versions whose EncryptionResponse can carry a salt)
	// on a proxy that does not force key authentication
	for _, p := range []int{759, 760} {
		for _, so := range sos {
			out = append(out, c08Scn{Proto: p, Pre: "allow", So: so, NoKey: true})
		}
		out = append(out, c08Scn{Proto: p, Pre: "online", So: "200", NoKey: true}, c08Scn{Proto: p, Pre: "offline", So: "200", NoKey: true})
	}
	return out
}

func c08Ops(scn c08Scn) []c08Op {
	ops := []c08Op{{"LSv"}, {"ERg"}, {"LSi"}, {"ERt"}, {"ERs"}, {"ERl"}, {"ERr"}, {"LPu"}, {"UNK"},
		// quantifier audit: valid secrets of every server-id shape, names on both sides of the length limit, two more wrong tokens
		{"ERgN"}, {"ERgZ"}, {"ERgM"}, {"LSv16"}, {"LSi17"}, {"ERtx"}, {"ERte"}}
	if scn.NoKey {
		// salted wire forms sent by a client that has no key to sign with
		return append(ops, c08Op{"ERsg"}, c08Op{"ERse"}, c08Op{"ERst"}, c08Op{"ERsw"})
	}
	if c08Keyed(scn) {
		ops = append(ops, c08Op{"LSx"}, c08Op{"LSe"}, c08Op{"LSn"}, c08Op{"ERn"}, c08Op{"ERb"})
	}
	if scn.Proto >= 764 {
		ops = append(ops, c08Op{"ACK"}, c08Op{"CK"})
	}
	if scn.Pre == "msg" {
		ops = append(ops, c08Op{"LP1"}, c08Op{"LP1f"})
	}
	return ops
}

func TestVerif(t *testing.T) {
	vrt.Run(t, "C08", func(r *vrt.R) {
		scns := c08Scenarios(true)
		var rp bfs.ReplayData[c08Op]
		if r.ReplayInto(&rp) {
			for _, scn := range scns {
				if scn.name() == rp.Scenario {
					r.Eval(1)
					if out := runC08(scn, rp.History, nil); out.FailKey != "" {
						r.Violation(rp.Scenario+"/"+out.FailKey, out.FailDesc, rp)
					} else if k, d, _ := honest(scn); k != "" {
						r.Violation(rp.Scenario+"/"+k, d, rp)
					}
					return
				}
			}
			t.Fatalf("replay: unknown scenario %q", rp.Scenario)
		}
		depth := 6
		if r.Thorough() {
			depth = 8
		}
		admitted := 0
		for i, scn := range c08Scenarios(r.Thorough()) {
			if !r.Mine(i) {
				continue
			}
			if r.Expired() {
				r.NotExhaustive("scenario " + scn.name() + " not started: soft deadline")
				continue
			}
			scn := scn
			res := bfs.Explore(bfs.Config[c08Op]{Name: scn.name(), Ops: c08Ops(scn), Depth: depth, Deadline: r.DeadlineTime(),
				Run: func(h []c08Op) bfs.Outcome { return runC08(scn, h, r) }})
			res.Merge(r, scn.name())
			for o := range res.Outcomes {
				if strings.HasPrefix(o, "outcome:admitted") {
					admitted++
				}
			}
			if k, d, good := honest(scn); k != "" {
				r.Violation(scn.name()+"/"+k, d, bfs.ReplayData[c08Op]{Scenario: scn.name(), History: good})
			}
		}
		r.AddExtra("admitting_outcomes", int64(admitted))
		if r.Shard == 0 {
			pub := newKitAuth(&kitSessionServer{}).PublicKey()
			var ids []string
			for _, k := range []string{"ERg", "ERgN", "ERgZ", "ERgM"} {
				ids = append(ids, fmt.Sprintf("%s: secret %q -> reference server id %s", k, c08SecretFor(k, pub), refServerID(c08SecretFor(k, pub), pub)))
			}
			r.Extra("valid_secrets_by_server_id_shape", strings.Join(ids, "; "))
		}
	})
}
