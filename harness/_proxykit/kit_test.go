package proxy

// In-package test kit for /verif harnesses that drive the real login code of package proxy
// (C08, C10, C13). It is added to a harness build through spec.json "extra_overlay".
//
//   - kitConn      a recording netmc.MinecraftConn: written packets, encryption / compression /
//                  state / handler switches and closure, in order. It mirrors the semantics of
//                  the real minecraftConn that the session handlers rely on (Close is idempotent,
//                  cancels the context and calls Disconnected on the active handler;
//                  SetActiveSessionHandler calls Deactivated / Activated; writes fail once closed;
//                  EnableEncryption rejects secrets AES would reject). deliver() mirrors the read
//                  loop: nothing is delivered once closed; a panic in a handler is recovered (the
//                  real loop recovers and keeps reading) and reported to the caller.
//   - kitEvents    a deterministic event.Manager: subscribers run synchronously in priority order,
//                  FireParallel runs subscribers AND the `after` callbacks synchronously
//                  (event.Nop.FireParallel drops them).
//   - kitSession   a real Proxy (New) + the same sessionHandlerDeps literal as Proxy.HandleConn,
//                  with the connection starting in the real handshakeSessionHandler.
//   - kitAuth      the real auth.Authenticator (auth.New with a fixed RSA key) whose http.Client
//                  uses a scripted RoundTripper: the real AuthenticateJoin code runs (URL building,
//                  status handling, profile parsing) without any network.
//   - kitClientKey a crypto.IdentifiedKey backed by a real RSA key (its Mojang signature is
//                  scripted valid/invalid, everything the client signs is verified for real).

import (
	"bytes"
	"context"
	"crypto"
	"crypto/aes"
	"crypto/rand"
	"crypto/rsa"
	"crypto/sha256"
	"crypto/x509"
	"encoding/binary"
	"encoding/hex"
	"errors"
	"fmt"
	"io"
	"net"
	"net/http"
	"net/url"
	"reflect"
	"sort"
	"strings"
	"time"

	"github.com/robinbraemer/event"
	"go.minekube.com/gate/pkg/edition/java/auth"
	"go.minekube.com/gate/pkg/edition/java/config"
	"go.minekube.com/gate/pkg/edition/java/netmc"
	"go.minekube.com/gate/pkg/edition/java/proto/packet"
	"go.minekube.com/gate/pkg/edition/java/proto/state"
	"go.minekube.com/gate/pkg/edition/java/proxy/crypto/keyrevision"
	"go.minekube.com/gate/pkg/edition/java/proxy/phase"
	"go.minekube.com/gate/pkg/edition/java/proxy/zzverif/sched"
	"go.minekube.com/gate/pkg/gate/proto"
	"go.minekube.com/gate/pkg/util/uuid"
)

// ------------------------------------------------------------------ recording connection

type kitEv struct {
	Kind string // write | buffer | flush | close | encrypt | compress | state | outstate | handler | protocol
	Pkt  proto.Packet
	Info string
}

func (e kitEv) String() string {
	if e.Pkt != nil {
		return e.Kind + ":" + strings.TrimPrefix(fmt.Sprintf("%T", e.Pkt), "*packet.")
	}
	if e.Info != "" {
		return e.Kind + ":" + e.Info
	}
	return e.Kind
}

type kitConn struct {
	name     string
	ctx      context.Context
	cancel   context.CancelFunc
	protocol proto.Protocol
	st       *state.Registry
	typ      phase.ConnectionType
	active   netmc.SessionHandler
	handlers map[*state.Registry]netmc.SessionHandler
	remote   net.Addr
	closed   bool
	events   []kitEv
	writeErr error // when set, every write fails with it (and closes, like the real conn)
	// yieldOnWrite makes every write a scheduling point of engine A (no-op outside an exploration)
	yieldOnWrite bool
	wr           *kitWriter
}

func newKitConn(name string, protocol proto.Protocol) *kitConn {
	ctx, cancel := context.WithCancel(context.Background())
	c := &kitConn{name: name, ctx: ctx, cancel: cancel, protocol: protocol, st: state.Handshake,
		handlers: map[*state.Registry]netmc.SessionHandler{}, remote: &net.TCPAddr{IP: net.IPv4(192, 0, 2, 7), Port: 50000}}
	c.wr = &kitWriter{c: c}
	return c
}

var _ netmc.MinecraftConn = (*kitConn)(nil)

func (c *kitConn) rec(kind string, p proto.Packet, info string) {
	c.events = append(c.events, kitEv{Kind: kind, Pkt: p, Info: info})
}
func (c *kitConn) String() string           { return "kitConn(" + c.name + ")" }
func (c *kitConn) Context() context.Context { return c.ctx }
func (c *kitConn) Close() error {
	if c.closed {
		return netmc.ErrClosedConn
	}
	c.closed = true
	c.cancel()
	c.rec("close", nil, "")
	if sh := c.active; sh != nil {
		sh.Disconnected()
	}
	return nil
}
func (c *kitConn) State() *state.Registry   { return c.st }
func (c *kitConn) Protocol() proto.Protocol { return c.protocol }
func (c *kitConn) RemoteAddr() net.Addr     { return c.remote }
func (c *kitConn) LocalAddr() net.Addr      { return &net.TCPAddr{IP: net.IPv4(192, 0, 2, 1), Port: 25565} }
func (c *kitConn) Type() phase.ConnectionType {
	if c.typ != nil {
		return c.typ
	}
	return phase.Vanilla
}
func (c *kitConn) SetType(t phase.ConnectionType)             { c.typ = t }
func (c *kitConn) ActiveSessionHandler() netmc.SessionHandler { return c.active }
func (c *kitConn) SetActiveSessionHandler(r *state.Registry, h netmc.SessionHandler) {
	if r == nil {
		panic("registry must not be nil")
	}
	if c.active != nil {
		c.active.Deactivated()
	}
	c.handlers[r] = h
	c.active = h
	c.SetState(r)
	c.rec("handler", nil, strings.TrimPrefix(fmt.Sprintf("%T", h), "*proxy."))
	h.Activated()
}
func (c *kitConn) SwitchSessionHandler(r *state.Registry) bool {
	h, ok := c.handlers[r]
	if !ok {
		return false
	}
	if c.active == h {
		c.SetState(r)
		return true
	}
	if c.active != nil {
		c.active.Deactivated()
	}
	c.active = h
	c.SetState(r)
	h.Activated()
	return true
}
func (c *kitConn) AddSessionHandler(r *state.Registry, h netmc.SessionHandler) {
	if r == c.st {
		return
	}
	c.handlers[r] = h
}
func (c *kitConn) SetAutoReading(bool) {}
func (c *kitConn) SetProtocol(p proto.Protocol) {
	c.protocol = p
	c.rec("protocol", nil, fmt.Sprint(int(p)))
}
func (c *kitConn) SetState(s *state.Registry) {
	c.st = s
	c.rec("state", nil, s.String())
}
func (c *kitConn) SetOutboundState(s *state.Registry) { c.rec("outstate", nil, s.String()) }
func (c *kitConn) SetCompressionThreshold(n int) error {
	c.rec("compress", nil, fmt.Sprint(n))
	return nil
}
func (c *kitConn) EnableEncryption(secret []byte) error {
	if _, err := aes.NewCipher(secret); err != nil {
		c.rec("encrypt-failed", nil, hex.EncodeToString(secret))
		return err
	}
	c.rec("encrypt", nil, hex.EncodeToString(secret))
	return nil
}
func (c *kitConn) write(kind string, p proto.Packet) error {
	if c.yieldOnWrite {
		sched.Point("conn.write", c)
	}
	if c.closed {
		return netmc.ErrClosedConn
	}
	if c.writeErr != nil {
		_ = c.Close()
		return c.writeErr
	}
	c.rec(kind, p, "")
	return nil
}
func (c *kitConn) WritePacket(p proto.Packet) error  { return c.write("write", p) }
func (c *kitConn) BufferPacket(p proto.Packet) error { return c.write("buffer", p) }
func (c *kitConn) Write(b []byte) error {
	if c.closed {
		return netmc.ErrClosedConn
	}
	c.rec("write-raw", nil, hex.EncodeToString(b))
	return nil
}
func (c *kitConn) BufferPayload(b []byte) error { return c.Write(b) }
func (c *kitConn) Flush() error {
	if c.closed {
		return netmc.ErrClosedConn
	}
	c.rec("flush", nil, "")
	return nil
}
func (c *kitConn) Reader() netmc.Reader   { return nil }
func (c *kitConn) Writer() netmc.Writer   { return c.wr }
func (c *kitConn) EnablePlayPacketQueue() {}

type kitWriter struct{ c *kitConn }

func (w *kitWriter) WritePacket(p proto.Packet) (int, error) { return 0, w.c.write("write", p) }
func (w *kitWriter) Write(b []byte) (int, error)             { return len(b), w.c.Write(b) }
func (w *kitWriter) Flush() error                            { return w.c.Flush() }
func (w *kitWriter) SetProtocol(proto.Protocol)              {}
func (w *kitWriter) SetState(s *state.Registry)              { w.c.rec("outstate", nil, s.String()) }
func (w *kitWriter) SetCompressionThreshold(int) error       { return nil }
func (w *kitWriter) EnableEncryption([]byte) error           { return nil }
func (w *kitWriter) Direction() proto.Direction              { return proto.ClientBound }

// packets returns every packet written (write or buffer), in order.
func (c *kitConn) packets() []proto.Packet {
	var out []proto.Packet
	for _, e := range c.events {
		if e.Pkt != nil {
			out = append(out, e.Pkt)
		}
	}
	return out
}

// index of the first event of that kind (and packet type, when p != nil), or -1.
func (c *kitConn) firstIndex(kind string, typ any) int {
	for i, e := range c.events {
		if kind != "" && e.Kind != kind {
			continue
		}
		if typ != nil && (e.Pkt == nil || reflect.TypeOf(e.Pkt) != reflect.TypeOf(typ)) {
			continue
		}
		return i
	}
	return -1
}

func (c *kitConn) trace() string {
	s := make([]string, len(c.events))
	for i, e := range c.events {
		s[i] = e.String()
	}
	return strings.Join(s, " ")
}

// deliver hands one inbound packet to the active session handler the way the read loop does.
// p == nil is a packet whose id is unknown in the current state. It returns delivered=false when
// the connection is already closed (the read loop has ended) and the recovered panic, if any.
func (c *kitConn) deliver(p proto.Packet) (delivered bool, panicked any) {
	if c.closed {
		return false, nil
	}
	pc := &proto.PacketContext{Direction: proto.ServerBound, Protocol: c.protocol, PacketID: 0x7f, Packet: p}
	h := c.active
	func() {
		defer func() {
			if r := recover(); r != nil {
				panicked = r
				c.rec("panic", nil, firstLineOf(fmt.Sprint(r)))
			}
		}()
		h.HandlePacket(pc)
	}()
	return true, panicked
}

func firstLineOf(s string) string {
	if i := strings.IndexByte(s, '\n'); i >= 0 {
		s = s[:i]
	}
	if len(s) > 100 {
		s = s[:100]
	}
	return s
}

// ------------------------------------------------------------------ deterministic event manager

type kitSub struct {
	prio int
	seq  int
	fn   event.HandlerFunc
}

type kitEvents struct {
	subs  map[reflect.Type][]*kitSub
	seq   int
	fired []string // type names of fired events, in order
}

func newKitEvents() *kitEvents { return &kitEvents{subs: map[reflect.Type][]*kitSub{}} }

var _ event.Manager = (*kitEvents)(nil)

func kitTypeOf(e event.Event) reflect.Type {
	if t, ok := e.(reflect.Type); ok {
		return t
	}
	return reflect.TypeOf(e)
}

func (m *kitEvents) Subscribe(eventType event.Event, priority int, fn event.HandlerFunc) func() {
	t := kitTypeOf(eventType)
	m.seq++
	s := &kitSub{prio: priority, seq: m.seq, fn: fn}
	m.subs[t] = append(m.subs[t], s)
	sort.SliceStable(m.subs[t], func(i, j int) bool { return m.subs[t][i].prio > m.subs[t][j].prio })
	return func() {
		l := m.subs[t]
		for i := range l {
			if l[i] == s {
				m.subs[t] = append(append([]*kitSub{}, l[:i]...), l[i+1:]...)
				return
			}
		}
	}
}
func (m *kitEvents) Fire(e event.Event) {
	m.fired = append(m.fired, strings.TrimPrefix(fmt.Sprintf("%T", e), "*proxy."))
	for _, s := range append([]*kitSub{}, m.subs[reflect.TypeOf(e)]...) {
		s.fn(e)
	}
}
func (m *kitEvents) FireParallel(e event.Event, after ...event.HandlerFunc) {
	m.Fire(e)
	for _, fn := range after {
		fn(e)
	}
}
func (m *kitEvents) Wait(...event.Event) {}
func (m *kitEvents) HasSubscriber(events ...event.Event) bool {
	if len(events) == 0 {
		return len(m.subs) != 0
	}
	for _, e := range events {
		if len(m.subs[kitTypeOf(e)]) != 0 {
			return true
		}
	}
	return false
}
func (m *kitEvents) UnsubscribeAll(events ...event.Event) int {
	n := 0
	for _, e := range events {
		n += len(m.subs[kitTypeOf(e)])
		delete(m.subs, kitTypeOf(e))
	}
	return n
}
func (m *kitEvents) count(name string) int {
	n := 0
	for _, f := range m.fired {
		if f == name {
			n++
		}
	}
	return n
}

// kitOn subscribes a typed handler.
func kitOn[T event.Event](m *kitEvents, fn func(T)) { event.Subscribe(m, 0, fn) }

// ------------------------------------------------------------------ scripted session server

// fixed RSA-1024 test key (PKCS#1 DER, hex); generated once for /verif, not a secret.
const kitServerKeyHex = "3082025c02010002818100ae0f1616ae03abfa8ba860b537214cbcbbd61727dd9724b4dbb863fce0be99f30d02cd32813d26e0216c58080796b53ef0052a7563caf149311bff13655fbb7664e8584744a849c9f585eda4b8cbbe46ad5d499e65c3af7bab51ab75c42b80da0663a242148f79fcec6d49a61899a6e72f44b2da001493288b4dbfb455e7dad30203010001028180443047d481be9180d97690d05d752fb55e96ec426366a36c3109c72e19b3c1e6fc69650f0c9f72dbea6c21fe9f4e74d9dfb8fe5db7c71908b5f304564a681b2d8cb47a1e003115a73da8c934d4237945a9984e81834fafffb51d64a3b48ff63df9904ea1384e442f5c98b05b4707bb17067163e026826a4a211836e62441eef5024100da58f371b1cabb0df47b87b77aa3222f1e214eaf0a04bda2759a4f1250fdaf2574ea43015f3d806cc3488a02a43b6b7be58b17e5907e8e2b04a38179ad900d3d024100cc12ff67987cfd794f5e0e586ff9c30ff021f33078815370c5ca7cd91874d1ca6d34f30332aba9f7ee507267521905b67bdc26cd6cf16ba6b09d4f8f64f9294f024100b47f13bfc8d96e07fb32a2de69e2b13f8208c6a2ac057f3ded39c263c1cff41962acc4f73d63f9e5ef08e80d86f617c433dce7c43dce6077ef3dbaaa7b6fb98102405aecdbff3c61f44de89eefa557bee0ba6933b737117a0dc3615d26e35392392708215f653d5e5f0ca8920f67199d2c7e721154f89261bea5366be0d6f31650e102406e1b0b6be900a90a794a148d375536b2246cbc265ef119e614618ebdfd2007c3094f71ba2a0d4d3f17533c4d032d417a0a33473c880064da74660f8a2bcba378"

var kitServerKey = func() *rsa.PrivateKey {
	b, _ := hex.DecodeString(kitServerKeyHex)
	k, err := x509.ParsePKCS1PrivateKey(b)
	if err != nil {
		panic(err)
	}
	return k
}()

type kitJoinCall struct{ ServerID, Username, IP string }

// kitSessionServer is the scripted RoundTripper behind the real authenticator.
type kitSessionServer struct {
	Status int    // 200, 204, 401, 500 ...; 0 = transport error
	Body   string // response body
	Calls  []kitJoinCall
}

func (s *kitSessionServer) RoundTrip(req *http.Request) (*http.Response, error) {
	q := req.URL.Query()
	s.Calls = append(s.Calls, kitJoinCall{ServerID: q.Get("serverId"), Username: q.Get("username"), IP: q.Get("ip")})
	if s.Status == 0 {
		return nil, errors.New("kit: scripted transport error")
	}
	return &http.Response{StatusCode: s.Status, Status: fmt.Sprint(s.Status), Proto: "HTTP/1.1", ProtoMajor: 1, ProtoMinor: 1,
		Header: http.Header{}, Body: io.NopCloser(strings.NewReader(s.Body)), Request: req, ContentLength: int64(len(s.Body))}, nil
}

// kitProfileJSON is what the session server answers for a joined user.
func kitProfileJSON(id uuid.UUID, name string) string {
	return fmt.Sprintf(`{"id":"%s","name":%q,"properties":[{"name":"textures","value":"dGV4","signature":"c2ln"}]}`, id.Undashed(), name)
}

// newKitAuth returns the REAL authenticator over the scripted session server.
func newKitAuth(srv *kitSessionServer) auth.Authenticator {
	base, _ := url.Parse("http://session.invalid/session/minecraft/hasJoined")
	a, err := auth.New(auth.Options{PrivateKey: kitServerKey, Client: &http.Client{Transport: srv}, HasJoinedURLFn: auth.CustomHasJoinedURL(base)})
	if err != nil {
		panic(err)
	}
	return a
}

// kitEncrypt is what a client does with the server's public key.
func kitEncrypt(pubDER, data []byte) []byte {
	k, err := x509.ParsePKIXPublicKey(pubDER)
	if err != nil {
		panic(err)
	}
	out, err := rsa.EncryptPKCS1v15(rand.Reader, k.(*rsa.PublicKey), data)
	if err != nil {
		panic(err)
	}
	return out
}

// ------------------------------------------------------------------ client profile key (1.19 - 1.19.2)

var kitClientRSA = func() *rsa.PrivateKey {
	// the server test key doubles as the client's chat key: only its role differs
	return kitServerKey
}()

type kitClientKey struct {
	mojangValid bool
	expired     bool
	holder      uuid.UUID
}

func (k *kitClientKey) Signer() *rsa.PublicKey          { return &kitClientRSA.PublicKey }
func (k *kitClientKey) ExpiryTemporal() time.Time       { return time.Unix(4102444800, 0) }
func (k *kitClientKey) Expired() bool                   { return k.expired }
func (k *kitClientKey) Signature() []byte               { return []byte{1} }
func (k *kitClientKey) SignatureValid() bool            { return k.mojangValid }
func (k *kitClientKey) Salt() []byte                    { return nil }
func (k *kitClientKey) SignedPublicKey() *rsa.PublicKey { return &kitClientRSA.PublicKey }
func (k *kitClientKey) SignedPublicKeyBytes() []byte {
	b, _ := x509.MarshalPKIXPublicKey(&kitClientRSA.PublicKey)
	return b
}
func (k *kitClientKey) VerifyDataSignature(signature []byte, toVerify ...[]byte) bool {
	if len(toVerify) == 0 {
		return false
	}
	h := sha256.New()
	for _, b := range toVerify {
		h.Write(b)
	}
	return rsa.VerifyPKCS1v15(&kitClientRSA.PublicKey, crypto.SHA256, h.Sum(nil), signature) == nil
}
func (k *kitClientKey) SignatureHolder() uuid.UUID        { return k.holder }
func (k *kitClientKey) KeyRevision() keyrevision.Revision { return keyrevision.GenericV1 }

// kitSignToken is what a 1.19 client does: sign verifyToken || salt(8 bytes BE) with its key.
func kitSignToken(token []byte, salt int64) []byte {
	h := sha256.New()
	h.Write(token)
	var sb [8]byte
	binary.BigEndian.PutUint64(sb[:], uint64(salt))
	h.Write(sb[:])
	sig, err := rsa.SignPKCS1v15(rand.Reader, kitClientRSA, crypto.SHA256, h.Sum(nil))
	if err != nil {
		panic(err)
	}
	return sig
}

// ------------------------------------------------------------------ session

type kitSession struct {
	Proxy  *Proxy
	Deps   *sessionHandlerDeps
	Conn   *kitConn
	Events *kitEvents
	Server *kitSessionServer
	Cfg    *config.Config
}

// kitConfig returns a private copy of the default config with the quotas off.
func kitConfig() *config.Config {
	c := config.DefaultConfig
	c.Quota.Connections.Enabled = false
	c.Quota.Logins.Enabled = false
	c.Servers = map[string]string{}
	c.Try = nil
	c.ForcedHosts = map[string][]string{}
	return &c
}

// newKitSession builds a real Proxy and a connection sitting in the real handshake handler.
func newKitSession(cfg *config.Config, protocol proto.Protocol) *kitSession {
	ev := newKitEvents()
	srv := &kitSessionServer{Status: 204}
	p, err := New(Options{Config: cfg, EventMgr: ev, Authenticator: newKitAuth(srv)})
	if err != nil {
		panic(err)
	}
	conn := newKitConn("client", protocol)
	// same literal as Proxy.HandleConn
	deps := &sessionHandlerDeps{proxy: p, registrar: p, configProvider: p, eventMgr: p.event, authenticator: p.authenticator, loginsQuota: p.loginsQuota}
	conn.SetActiveSessionHandler(state.Handshake, newHandshakeSessionHandler(conn, deps))
	return &kitSession{Proxy: p, Deps: deps, Conn: conn, Events: ev, Server: srv, Cfg: cfg}
}

// handshake delivers the login handshake for the session's protocol.
func (s *kitSession) handshake() {
	s.Conn.deliver(&packet.Handshake{ProtocolVersion: int(s.Conn.protocol), ServerAddress: "play.example.com", Port: 25565, NextStatus: 2})
}

// loginInbound returns the loginInboundConn the handshake handler created.
func (s *kitSession) loginInbound() *loginInboundConn {
	switch h := s.Conn.active.(type) {
	case *initialLoginSessionHandler:
		return h.inbound
	case *authSessionHandler:
		return h.inbound
	}
	return nil
}

var _ = bytes.Equal
