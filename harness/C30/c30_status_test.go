package lite

// C30, status-ping pass: part bfs injects dial outcomes through tryBackends' callback and repeats the glue of
// ResolveStatusResponseWithGeneration (RecordLatency after a successful ping) in the harness. This pass drives
// the REAL ResolveStatusResponseWithGeneration (real net.Dialer, real status exchange) for the strategy whose
// state it feeds - lowest-latency - over loopback backends and checks the dial order of consecutive pings:
// a backend counts as measured once it ANSWERED a status request; unmeasured backends come first, in
// configuration order, and each backend is dialled at most once per ping.
//
// Backends: live (answers), closer (accepts, closes without answering), dead (bound, not listening: refuses).
// Event driven: every listener stamps accepted connections with a shared sequence number; after the call
// returned the harness connects to every listener itself (accept order is FIFO) to delimit the case. Real
// latencies are wall-clock values, so the order among two or more MEASURED candidates is not asserted.

import (
	"context"
	"fmt"
	"io"
	"net"
	"sort"
	"strings"
	"sync"
	"sync/atomic"
	"syscall"
	"time"

	"github.com/go-logr/logr"
	"go.minekube.com/gate/pkg/edition/java/lite/config"
	"go.minekube.com/gate/pkg/edition/java/netmc"
	"go.minekube.com/gate/pkg/edition/java/proto/packet"
	"go.minekube.com/gate/pkg/edition/java/proxy/zzverif/vrt"
	"go.minekube.com/gate/pkg/gate/proto"
	"go.minekube.com/gate/pkg/util/configutil"
)

type sAccept struct {
	seq  int64
	peer string
}

type sBackend struct {
	kind     string
	addr     string
	ln       net.Listener
	fd       int
	accepted chan sAccept
	wg       sync.WaitGroup
}

var sSeq atomic.Int64

func sVarint(v int) []byte {
	var out []byte
	u := uint32(v)
	for {
		if u&^0x7F == 0 {
			return append(out, byte(u))
		}
		out = append(out, byte(u&0x7F)|0x80)
		u >>= 7
	}
}

func sReadFrame(c net.Conn) error {
	n, sh := 0, 0
	for {
		var b [1]byte
		if _, err := io.ReadFull(c, b[:]); err != nil {
			return err
		}
		n |= int(b[0]&0x7F) << sh
		if b[0]&0x80 == 0 {
			break
		}
		sh += 7
	}
	_, err := io.ReadFull(c, make([]byte, n))
	return err
}

func startSBackend(kind string, idx int) (*sBackend, error) {
	b := &sBackend{kind: kind, fd: -1, accepted: make(chan sAccept, 64)}
	if kind == "dead" {
		fd, err := syscall.Socket(syscall.AF_INET, syscall.SOCK_STREAM, 0)
		if err != nil {
			return nil, err
		}
		if err = syscall.Bind(fd, &syscall.SockaddrInet4{Addr: [4]byte{127, 0, 0, 1}}); err != nil {
			_ = syscall.Close(fd)
			return nil, err
		}
		sa, err := syscall.Getsockname(fd)
		if err != nil {
			_ = syscall.Close(fd)
			return nil, err
		}
		b.fd, b.addr = fd, fmt.Sprintf("127.0.0.1:%d", sa.(*syscall.SockaddrInet4).Port)
		return b, nil
	}
	ln, err := net.Listen("tcp", "127.0.0.1:0")
	if err != nil {
		return nil, err
	}
	b.ln, b.addr = ln, ln.Addr().String()
	b.wg.Add(1)
	go func() {
		defer b.wg.Done()
		for {
			c, err := ln.Accept()
			if err != nil {
				return
			}
			a := sAccept{seq: sSeq.Add(1), peer: c.RemoteAddr().String()}
			if kind == "live" {
				// handshake, status request, then the answer
				if sReadFrame(c) == nil && sReadFrame(c) == nil {
					js := fmt.Sprintf(`{"version":{"name":"x","protocol":765},"players":{"max":1,"online":0},"description":{"text":"LIVE-%d"}}`, idx)
					body := append([]byte{0x00}, append(sVarint(len(js)), js...)...)
					_, _ = c.Write(append(sVarint(len(body)), body...))
				}
			}
			_ = c.Close()
			b.accepted <- a
		}
	}()
	return b, nil
}

// flush returns the connections accepted since the last flush (not the harness's own).
func (b *sBackend) flush() (out []sAccept) {
	if b.kind == "dead" {
		return nil
	}
	s, err := net.Dial("tcp", b.addr)
	if err != nil {
		return nil
	}
	me := s.LocalAddr().String()
	_ = s.Close() // a live backend sees EOF instead of a handshake and moves on
	for a := range b.accepted {
		if a.peer == me {
			break
		}
		out = append(out, a)
	}
	return out
}

func (b *sBackend) stop() {
	if b.ln != nil {
		_ = b.ln.Close()
	}
	if b.fd >= 0 {
		_ = syscall.Close(b.fd)
	}
	b.wg.Wait()
}

type sClient struct{ netmc.MinecraftConn }

func (sClient) Conn() net.Conn           { return c30Conn{} }
func (sClient) Context() context.Context { return context.Background() }

type statusCase struct {
	Scenario string   `json:"scenario"` // "status"
	Kinds    []string `json:"kinds"`
	Pings    int      `json:"pings"`
}

func statusCases() []statusCase {
	kinds := []string{"live", "closer", "dead"}
	var out []statusCase
	var rec func(cur []string)
	rec = func(cur []string) {
		if len(cur) > 0 {
			out = append(out, statusCase{Scenario: "status", Kinds: append([]string(nil), cur...), Pings: 4})
		}
		if len(cur) == 3 {
			return
		}
		for _, k := range kinds {
			rec(append(cur, k))
		}
	}
	rec(nil)
	return out
}

func runStatusCase(c statusCase) (key, desc string) {
	var bks []*sBackend
	defer func() {
		for _, b := range bks {
			b.stop()
		}
	}()
	var addrs []string
	for i, k := range c.Kinds {
		b, err := startSBackend(k, i)
		if err != nil {
			return "", "" // the machine refuses the rig: no verdict
		}
		bks = append(bks, b)
		addrs = append(addrs, b.addr)
	}
	routes := []config.Route{{Host: []string{"*"}, Backend: addrs, Strategy: config.StrategyLowestLatency, CachePingTTL: configutil.Duration(-1)}}
	sm := NewStrategyManager()
	measured := map[int]bool{}
	for p := 1; p <= c.Pings; p++ {
		hs := &packet.Handshake{ProtocolVersion: 765, ServerAddress: "ping.example", Port: 25565, NextStatus: 1}
		hctx := &proto.PacketContext{Direction: proto.ServerBound, Protocol: 765, PacketID: 0}
		update(hctx, hs)
		sctx := &proto.PacketContext{Direction: proto.ServerBound, Protocol: 765, PacketID: 0, Payload: []byte{0x00}}
		_, resp, err := ResolveStatusResponseWithGeneration(5*time.Second, uint64(p), routes, logr.Discard(), sClient{}, hs, hctx, sctx, sm)
		// what was dialled, in order (refusing backends cannot be observed)
		type hit struct {
			seq int64
			idx int
		}
		var hits []hit
		perBackend := map[int]int{}
		for i, b := range bks {
			for _, a := range b.flush() {
				hits = append(hits, hit{a.seq, i})
				perBackend[i]++
			}
		}
		sort.Slice(hits, func(a, b int) bool { return hits[a].seq < hits[b].seq })
		var got []int
		for _, h := range hits {
			got = append(got, h.idx)
		}
		ctx := fmt.Sprintf("lowest-latency over backends %v, ping #%d (backends that answered an earlier ping: %v): observable dial order %v, response=%v err=%v", c.Kinds, p, keysOf(measured), got, resp != nil, err)
		for i, n := range perBackend {
			if n > 1 {
				return "status/backend-dialled-twice", ctx + fmt.Sprintf("; backend #%d was dialled %d times for one ping", i, n)
			}
		}
		// expected: unmeasured backends in configuration order until one answers; only if all of them failed the
		// measured ones (their mutual order is a matter of real latencies: asserted only when there is exactly one)
		var want []int
		answered := -1
		for i, k := range c.Kinds {
			if measured[i] {
				continue
			}
			if k != "dead" {
				want = append(want, i)
			}
			if k == "live" {
				answered = i
				break
			}
		}
		strict := true
		if answered < 0 {
			var ms []int
			for i := range c.Kinds {
				if measured[i] {
					ms = append(ms, i)
				}
			}
			if len(ms) == 1 {
				want, answered = append(want, ms[0]), ms[0]
			} else if len(ms) > 1 {
				strict = false // some measured backend answers, after the unmeasured prefix
			}
		}
		if strict {
			if fmt.Sprint(got) != fmt.Sprint(want) {
				return "status/lowest-latency-order", ctx + fmt.Sprintf("; want %v (unmeasured backends first, in configuration order, each once; a backend is measured once it answered)", want)
			}
		} else if len(got) < len(want) || fmt.Sprint(got[:len(want)]) != fmt.Sprint(want) {
			return "status/lowest-latency-order", ctx + fmt.Sprintf("; want the unmeasured backends %v first", want)
		}
		anyLive := strings.Contains(strings.Join(c.Kinds, ","), "live")
		if anyLive != (resp != nil && err == nil) {
			return "status/attempt-result", ctx + fmt.Sprintf("; a live backend exists: %v", anyLive)
		}
		if resp != nil && answered >= 0 && !strings.Contains(resp.Status, fmt.Sprintf("LIVE-%d", answered)) {
			return "status/attempt-result", ctx + fmt.Sprintf("; want the answer of backend #%d, got %q", answered, resp.Status)
		}
		if resp != nil {
			for i := range c.Kinds {
				if strings.Contains(resp.Status, fmt.Sprintf("LIVE-%d", i)) {
					measured[i] = true
				}
			}
		}
	}
	return "", ""
}

func keysOf(m map[int]bool) []int {
	var out []int
	for k := range m {
		out = append(out, k)
	}
	sort.Ints(out)
	return out
}

func runStatusPass(r *vrt.R) {
	n := 0
	for i, c := range statusCases() {
		if !r.Mine(i) {
			continue
		}
		if r.Expired() {
			break
		}
		n++
		if k, d := runStatusCase(c); k != "" {
			r.Violation(k, d, c)
			continue
		}
		r.Distinct("status|" + strings.Join(c.Kinds, ","))
	}
	r.Eval(n)
	r.Nontrivial(n)
	r.ClassN("scenario:status-ping-lowest-latency", n)
}
