package lite

// C30, fault-enumeration pass: the REAL Forward (findRoute -> tryBackends -> dialRoute with its real
// net.Dialer -> emptyReadBuff -> TrackConnection -> pipe) is driven with a scripted client and
// scripted loopback backends through every fault point, for every strategy and for 1-2
// connections, and the active-connection accounting is checked at every quiescent point.
//
// Everything is event driven, no timer takes part in a verdict:
//   - the client is a fake netmc connection: ReadBuffered returns scripted data / error; its
//     net.Conn's Read (called by pipe's client->backend copy, i.e. strictly AFTER TrackConnection)
//     signals "pipe is open" and blocks until the harness releases it with io.EOF;
//   - backends are real listeners on 127.0.0.1:0: ok (reads to EOF), refuse (listener closed),
//     reset (reads exactly the handshake frame, then closes with SO_LINGER 0 = RST). In reset
//     configurations the client's ReadBuffered waits for the RST to have been sent and returns 16 MiB,
//     more than loopback socket buffers can absorb, so the flush write fails on every run;
//   - a connection is quiescent when Forward returned or its pipe is open; backend-side handling
//     is flushed with a harness-made sentinel connection per listener (accept order).
// A 60 s watchdog per case only turns a hang into exhaustive:false.

import (
	"context"
	"errors"
	"fmt"
	"io"
	"net"
	"strings"
	"sync"
	"syscall"
	"time"

	"github.com/go-logr/logr"
	"go.minekube.com/gate/pkg/edition/java/lite/config"
	"go.minekube.com/gate/pkg/edition/java/netmc"
	"go.minekube.com/gate/pkg/edition/java/proto/packet"
	"go.minekube.com/gate/pkg/edition/java/proxy/zzverif/vrt"
	"go.minekube.com/gate/pkg/gate/proto"
)

// ---------------------------------------------------------------- scripted client

type fSrc struct {
	readCalled chan struct{} // closed at the first Read: the pipe is open
	release    chan struct{} // closed by the harness: Read returns io.EOF
	once, rel  sync.Once
	mu         sync.Mutex
	got        int // bytes the backend sent to the client
}

func newFSrc() *fSrc { return &fSrc{readCalled: make(chan struct{}), release: make(chan struct{})} }

func (s *fSrc) Read(p []byte) (int, error) {
	s.once.Do(func() { close(s.readCalled) })
	<-s.release
	return 0, io.EOF
}
func (s *fSrc) Write(p []byte) (int, error) {
	s.mu.Lock()
	s.got += len(p)
	s.mu.Unlock()
	return len(p), nil
}
func (s *fSrc) Close() error                     { s.rel.Do(func() { close(s.release) }); return nil }
func (s *fSrc) LocalAddr() net.Addr              { return &net.TCPAddr{IP: net.IPv4(127, 0, 0, 1), Port: 25565} }
func (s *fSrc) RemoteAddr() net.Addr             { return &net.TCPAddr{IP: net.IPv4(127, 0, 0, 1), Port: 40001} }
func (s *fSrc) SetDeadline(time.Time) error      { return nil }
func (s *fSrc) SetReadDeadline(time.Time) error  { return nil }
func (s *fSrc) SetWriteDeadline(time.Time) error { return nil }

type fClient struct {
	netmc.MinecraftConn
	src    *fSrc
	buf    []byte
	bufErr error
	before func() // runs at the start of ReadBuffered
	ctx    context.Context
}

func (c *fClient) Conn() net.Conn           { return c.src }
func (c *fClient) Context() context.Context {
	if c.ctx != nil {
		return c.ctx
	}
	return context.Background()
}
func (c *fClient) Close() error             { return c.src.Close() }
func (c *fClient) ReadBuffered() ([]byte, error) {
	if c.before != nil {
		c.before()
	}
	return c.buf, c.bufErr
}

// ---------------------------------------------------------------- scripted backends

type fBackend struct {
	kind     string // ok | refuse | reset | badaddr | blackhole
	filler   net.Conn // blackhole: the one connection that fills the accept queue
	addr     string
	ln       net.Listener
	fd       int // refuse: a socket that is bound but never listens
	hsLen    int
	accepted chan string   // remote address of every connection whose initial handling is done
	resets   chan struct{} // shared by the backends of a case: one token per RST sent
	wg       sync.WaitGroup
}

func startFBackend(kind string, hsLen int, resets chan struct{}) *fBackend {
	if kind == "refuse" {
		// Bound, not listening: connecting is refused and the port stays reserved. (A listener that is closed
		// again frees its port, and the kernel may hand the same port to the next listener of the case: two
		// "different" backends with one address.)
		fd, err := syscall.Socket(syscall.AF_INET, syscall.SOCK_STREAM, 0)
		if err != nil {
			panic(err)
		}
		if err = syscall.Bind(fd, &syscall.SockaddrInet4{Addr: [4]byte{127, 0, 0, 1}}); err != nil {
			panic(err)
		}
		sa, err := syscall.Getsockname(fd)
		if err != nil {
			panic(err)
		}
		return &fBackend{kind: kind, addr: fmt.Sprintf("127.0.0.1:%d", sa.(*syscall.SockaddrInet4).Port), fd: fd, hsLen: hsLen, accepted: make(chan string, 64), resets: resets}
	}
	if kind == "badaddr" {
		// an address the dialer rejects without touching the network (what a client-made "$1" template can produce)
		return &fBackend{kind: kind, addr: "]not-a-host.x:1", fd: -1, hsLen: hsLen, accepted: make(chan string, 64), resets: resets}
	}
	if kind == "blackhole" {
		// A dial that TIMES OUT: a listening socket with backlog 0 whose accept queue is filled by one connection
		// of the harness; the kernel drops every further SYN, so a dial ends with the dialer's timeout.
		fd, err := syscall.Socket(syscall.AF_INET, syscall.SOCK_STREAM, 0)
		if err != nil {
			panic(err)
		}
		if err = syscall.Bind(fd, &syscall.SockaddrInet4{Addr: [4]byte{127, 0, 0, 1}}); err != nil {
			panic(err)
		}
		if err = syscall.Listen(fd, 0); err != nil {
			panic(err)
		}
		sa, err := syscall.Getsockname(fd)
		if err != nil {
			panic(err)
		}
		b := &fBackend{kind: kind, addr: fmt.Sprintf("127.0.0.1:%d", sa.(*syscall.SockaddrInet4).Port), fd: fd, hsLen: hsLen, accepted: make(chan string, 64), resets: resets}
		b.filler, _ = net.DialTimeout("tcp", b.addr, 5*time.Second)
		return b
	}
	ln, err := net.Listen("tcp", "127.0.0.1:0")
	if err != nil {
		panic(err)
	}
	b := &fBackend{kind: kind, addr: ln.Addr().String(), ln: ln, fd: -1, hsLen: hsLen, accepted: make(chan string, 64), resets: resets}
	b.wg.Add(1)
	go func() {
		defer b.wg.Done()
		for {
			c, err := ln.Accept()
			if err != nil {
				return
			}
			peer := c.RemoteAddr().String()
			if kind == "reset" {
				// read exactly the handshake, then reset the connection
				_, _ = io.ReadFull(c, make([]byte, b.hsLen))
				_ = c.(*net.TCPConn).SetLinger(0)
				_ = c.Close()
				b.resets <- struct{}{}
				b.accepted <- peer
				continue
			}
			b.accepted <- peer
			b.wg.Add(1)
			go func() {
				defer b.wg.Done()
				_, _ = io.Copy(io.Discard, c)
				_ = c.Close()
			}()
		}
	}()
	return b
}

// flush returns once every connection accepted before now has had its initial handling done, and how many
// connections (not counting the harness's own) that were.
func (b *fBackend) flush() (n int) {
	if b.ln == nil {
		return 0
	}
	s, err := net.Dial("tcp", b.addr)
	if err != nil {
		return 0
	}
	me := s.LocalAddr().String()
	_, _ = s.Write(make([]byte, b.hsLen))
	for p := range b.accepted {
		if p == me {
			break
		}
		n++
	}
	_ = s.Close()
	for len(b.resets) > 0 {
		<-b.resets
	}
	return n
}

func (b *fBackend) stop() {
	if b.ln != nil {
		_ = b.ln.Close()
	}
	if b.filler != nil {
		_ = b.filler.Close()
	}
	if b.fd >= 0 {
		_ = syscall.Close(b.fd)
	}
	b.wg.Wait()
}

// ---------------------------------------------------------------- cases

type faultCase struct {
	Scenario string   `json:"scenario"` // "fault"
	Strategy string   `json:"strategy"`
	Backends []string `json:"backends"` // kinds
	Conns    []string `json:"conns"`    // client script per connection
	KeepOpen bool     `json:"keep_open"`
}

func (c faultCase) String() string {
	return fmt.Sprintf("strategy=%s backends=%v connections=%v first-stays-open=%v", c.Strategy, c.Backends, c.Conns, c.KeepOpen)
}

var errScriptedReadBuffered = errors.New("scripted: reading the buffered client bytes failed")

const bigFlush = 16 << 20

type fConnRun struct {
	cl   *fClient
	done chan struct{}
	open bool // pipe open and not yet released
}

func faultCases() []faultCase {
	var out []faultCase
	cfgs := []struct {
		kinds   []string
		scripts []string
	}{
		{[]string{"ok", "ok"}, []string{"nobuf", "smallbuf", "rb-error", "rb-data+error"}},
		{[]string{"refuse", "ok"}, []string{"nobuf", "smallbuf", "rb-error", "rb-data+error"}},
		{[]string{"ok", "refuse"}, []string{"nobuf", "smallbuf", "rb-error", "rb-data+error"}},
		{[]string{"refuse", "refuse"}, []string{"nobuf", "rb-error"}},
		{[]string{"reset", "reset"}, []string{"nobuf", "bigbuf", "rb-error"}},
		{[]string{"refuse", "reset"}, []string{"nobuf", "bigbuf", "rb-error"}},
		{[]string{"reset", "refuse"}, []string{"nobuf", "bigbuf", "rb-error"}},
		// other classes of dial failure: an address the dialer rejects, a client whose context is already cancelled
		// (every dial fails at once), a dial that runs into the dial timeout
		{[]string{"badaddr", "ok"}, []string{"nobuf", "smallbuf", "rb-error"}},
		{[]string{"badaddr", "refuse"}, []string{"nobuf"}},
		{[]string{"ok", "ok"}, []string{"ctx-cancelled", "nobuf"}},
		{[]string{"refuse", "reset"}, []string{"ctx-cancelled", "nobuf"}},
		{[]string{"blackhole", "ok"}, []string{"nobuf"}},
		{[]string{"refuse", "blackhole", "ok"}, []string{"smallbuf"}},
		{[]string{"blackhole", "blackhole"}, []string{"nobuf"}},
	}
	seen := map[string]bool{}
	for _, st := range []config.Strategy{config.StrategySequential, config.StrategyRoundRobin, config.StrategyLeastConnections, config.StrategyLowestLatency, config.StrategyRandom} {
		for _, cf := range cfgs {
			for _, a := range cf.scripts {
				if k := fmt.Sprint(st, cf.kinds, a); seen[k] {
					continue // (ok,ok)/nobuf is listed twice
				} else {
					seen[k] = true
				}
				out = append(out, faultCase{Scenario: "fault", Strategy: string(st), Backends: cf.kinds, Conns: []string{a}})
				for _, b := range cf.scripts {
					out = append(out, faultCase{Scenario: "fault", Strategy: string(st), Backends: cf.kinds, Conns: []string{a, b}})
					out = append(out, faultCase{Scenario: "fault", Strategy: string(st), Backends: cf.kinds, Conns: []string{a, b}, KeepOpen: true})
				}
			}
		}
	}
	return out
}

// runFaultCase returns "" or a violation; hung=true when the watchdog fired.
func runFaultCase(c faultCase) (key, desc string, hung bool, classes []string) {
	hs := &packet.Handshake{ProtocolVersion: 765, ServerAddress: "play.x", Port: 25565, NextStatus: 2}
	hctx := &proto.PacketContext{Direction: proto.ServerBound, Protocol: 765, PacketID: 0}
	update(hctx, hs)
	hsLen := len(hctx.Payload) + 1 // payloads here are < 128 bytes: one length byte
	var bks []*fBackend
	var addrs []string
	resets := make(chan struct{}, 64)
	for _, k := range c.Backends {
		b := startFBackend(k, hsLen, resets)
		bks = append(bks, b)
		addrs = append(addrs, b.addr)
	}
	defer func() {
		for _, b := range bks {
			b.stop()
		}
	}()
	watch := make(chan struct{})
	timer := time.AfterFunc(60*time.Second, func() { close(watch) })
	defer timer.Stop()
	hasReset := strings.Contains(strings.Join(c.Backends, ","), "reset")
	routes := []config.Route{{Host: []string{"*.x"}, Backend: addrs, Strategy: config.Strategy(c.Strategy)}}
	sm := NewStrategyManager()
	var runs []*fConnRun

	openCount := func() (n int) {
		for _, r := range runs {
			if r.open {
				n++
			}
		}
		return
	}
	// flushAll returns, per backend, how many connections arrived since the last call
	flushAll := func() []int {
		got := make([]int, len(bks))
		for i, b := range bks {
			got[i] = b.flush()
		}
		return got
	}
	dialTimeout := 5 * time.Second
	if strings.Contains(strings.Join(c.Backends, ","), "blackhole") {
		dialTimeout = 300 * time.Millisecond // every dial of a blackhole backend takes this long
	}
	// check runs at a quiescent point
	check := func(when string) (string, string) {
		want := openCount()
		if got := int(sm.ActiveConnections()); got != want {
			return "forward/active-connections-off", fmt.Sprintf("%s, %s: ActiveConnections()=%d, forwarded connections with an open pipe: %d", c, when, got, want)
		}
		sum := 0
		for _, a := range addrs {
			if ctr := sm.getCounter(a); ctr != nil {
				sum += int(ctr.Load())
			}
		}
		if sum != want {
			return "forward/per-backend-counters-off", fmt.Sprintf("%s, %s: the backends' least-connections counters add up to %d, forwarded connections with an open pipe: %d", c, when, sum, want)
		}
		if want == 0 {
			sm.activeConnectionsMu.RLock()
			left := len(sm.activeConnections)
			sm.activeConnectionsMu.RUnlock()
			if left != 0 {
				return "forward/not-back-to-zero", fmt.Sprintf("%s, %s: nothing is open but %d keys remain in activeConnections", c, when, left)
			}
			// with nothing open, strategies that look at load must choose as on a fresh manager
			for _, st := range []config.Strategy{config.StrategyLeastConnections} {
				rt := &config.Route{Strategy: st}
				pick, _, _ := sm.GetNextBackend(logr.Discard(), rt, "probe.x", addrs)
				ref, _, _ := NewStrategyManager().GetNextBackend(logr.Discard(), rt, "probe.x", addrs)
				if pick != ref || pick != addrs[0] {
					return "forward/next-choice-skewed", fmt.Sprintf("%s, %s: nothing is open, %s picks backend #%d, a manager without open connections picks #%d", c, when, st, indexOf(addrs, pick), indexOf(addrs, ref))
				}
			}
		}
		return "", ""
	}

	for i, script := range c.Conns {
		cl := &fClient{src: newFSrc()}
		switch script {
		case "smallbuf":
			cl.buf = []byte{0x0c, 0x00, 0x05, 'S', 't', 'e', 'v', 'e', 1, 2, 3, 4, 5}
		case "rb-error":
			cl.bufErr = errScriptedReadBuffered
		case "rb-data+error":
			cl.buf, cl.bufErr = []byte{1, 2, 3}, errScriptedReadBuffered
		case "bigbuf":
			cl.buf = make([]byte, bigFlush)
		case "ctx-cancelled":
			ctx, cancel := context.WithCancel(context.Background())
			cancel()
			cl.ctx = ctx
		}
		if hasReset && script == "bigbuf" {
			// every backend that can be dialled in this configuration resets: wait until the RST is out
			cl.before = func() {
				select {
				case <-resets:
				case <-watch:
				}
			}
		}
		run := &fConnRun{cl: cl, done: make(chan struct{})}
		runs = append(runs, run)
		hsCopy := *hs
		ctxCopy := *hctx
		go func() {
			defer close(run.done)
			Forward(dialTimeout, routes, logr.Discard(), cl, &hsCopy, &ctxCopy, sm)
		}()
		select {
		case <-run.done:
			classes = append(classes, "fault:conn-ended-before-pipe/"+script+"/"+strings.Join(c.Backends, "+"))
		case <-cl.src.readCalled:
			run.open = true
			classes = append(classes, "fault:pipe-opened/"+script+"/"+strings.Join(c.Backends, "+"))
		case <-watch:
			_ = cl.Close()
			return "", c.String() + ": did not reach a quiescent point within 60 s", true, classes
		}
		arrived := flushAll()
		if !run.open && (script == "nobuf" || script == "smallbuf") {
			// A healthy client whose attempt failed: "the attempt fails only after every backend failed", so every
			// backend that can see a dial (it listens) has seen one. (Judged on what reached the listeners, not on
			// the dial timeout: a dial that the kernel completed but the dialer gave up on still counts as tried.)
			for j, b := range bks {
				if b.ln != nil && arrived[j] == 0 {
					for _, r := range runs {
						_ = r.cl.Close()
					}
					return "forward/gave-up-before-every-backend-was-tried", fmt.Sprintf("%s: connection #%d ended without a forwarded connection although backend #%d (%s) was never dialled (connections that arrived per backend: %v)", c, i+1, j, b.kind, arrived), false, classes
				}
			}
		}
		if k, d := check(fmt.Sprintf("after connection #%d reached %s", i+1, map[bool]string{true: "an open pipe", false: "its end"}[run.open])); k != "" {
			for _, r := range runs {
				_ = r.cl.Close()
			}
			return k, d, false, classes
		}
		if run.open && !(c.KeepOpen && i == 0 && len(c.Conns) > 1) {
			_ = cl.Close() // client EOF: the pipe ends, Forward returns
			select {
			case <-run.done:
			case <-watch:
				return "", c.String() + ": Forward did not return within 60 s after the client's EOF", true, classes
			}
			run.open = false
			flushAll()
			if k, d := check(fmt.Sprintf("after connection #%d was closed", i+1)); k != "" {
				for _, r := range runs {
					_ = r.cl.Close()
				}
				return k, d, false, classes
			}
		}
	}
	// close what is still open (first connection of a keep-open case)
	for i, r := range runs {
		if r.open {
			_ = r.cl.Close()
			select {
			case <-r.done:
			case <-watch:
				return "", c.String() + ": Forward did not return within 60 s after the client's EOF", true, classes
			}
			r.open = false
			flushAll()
			if k, d := check(fmt.Sprintf("after connection #%d was closed last", i+1)); k != "" {
				return k, d, false, classes
			}
		}
	}
	return "", "", false, classes
}

func runFaultPass(r *vrt.R) {
	cases := faultCases()
	n, nt := 0, 0
	for i, c := range cases {
		if !r.Mine(i) {
			continue
		}
		if r.Expired() {
			break
		}
		k, d, hung, cls := runFaultCase(c)
		n++
		if hung {
			r.NotExhaustive(d)
			break
		}
		for _, cl := range cls {
			r.Class(cl)
		}
		if k != "" {
			r.Violation(k, d, c)
			continue
		}
		if len(c.Conns) > 1 {
			nt++
		}
		r.Distinct("fault|" + c.String())
		if n == 2 {
			r.Sample(map[string]any{"part": "fault", "case": c, "cases_total": len(cases)})
		}
	}
	r.Eval(n)
	r.Nontrivial(nt)
	r.ClassN("scenario:fault-enumeration", n)
}
