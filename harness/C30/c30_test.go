package lite

// C30 — Lite backend selection tries each backend once per attempt, in strategy order, and the
// active-connection counters are exact (also under concurrency).
//
// Part B (engine bfs): histories of connection attempts / pings / closes on a fresh real
// StrategyManager through the real findRoute -> nextBackend -> tryBackends -> TrackConnection
// chain (the three lines of glue Forward/ResolveStatusResponse put between them are repeated
// here because their dialer is a real net.Dialer), against a reference model written from the
// property statement.
// Part A (engine sched): all interleavings of 2-3 threads on TrackConnection/release,
// round-robin and random selection; the whole lite package is instrumented.

import (
	"context"
	"errors"
	"io"
	"fmt"
	"math/rand"
	"net"
	"sort"
	"strings"
	"testing"
	"time"

	"github.com/go-logr/logr"
	"go.minekube.com/gate/pkg/edition/java/lite/config"
	"go.minekube.com/gate/pkg/edition/java/netmc"
	"go.minekube.com/gate/pkg/edition/java/proto/packet"
	"go.minekube.com/gate/pkg/edition/java/proxy/zzverif/bfs"
	"go.minekube.com/gate/pkg/edition/java/proxy/zzverif/sched"
	"go.minekube.com/gate/pkg/edition/java/proxy/zzverif/schedrun"
	"go.minekube.com/gate/pkg/edition/java/proxy/zzverif/vrt"
	"go.minekube.com/gate/pkg/util/errs"
)

// ---------------------------------------------------------------- reference helpers

// refCanon: identity of a backend = lower-cased host plus port, default port 25565.
func refCanon(b string) string {
	b = strings.ToLower(b)
	if !strings.Contains(b, ":") {
		b += ":25565"
	}
	return b
}

func distinctCanon(list []string) []string {
	var out []string
	seen := map[string]bool{}
	for _, b := range list {
		c := refCanon(b)
		if !seen[c] {
			seen[c] = true
			out = append(out, c)
		}
	}
	return out
}

// ---------------------------------------------------------------- part B

type cfg struct {
	Strategy config.Strategy
	Backends []string // templates as configured ($1 = first label of the virtual host)
	Lat      int      // latency table index (lowest-latency only)
	Pre      bool     // lowest-latency only: every backend already has a recorded latency
	Host     string   // virtual host sent by the client
	Two      bool     // two routes ("*.x" and "*.y") with the same strategy and the same backend list
	Spell2   []string // two-route configs: the second route spells the same backends differently
}

func (c cfg) name() string {
	n := fmt.Sprintf("bfs:%s|%s|lat%d|pre=%v|%q", c.Strategy, strings.Join(c.Backends, ","), c.Lat, c.Pre, c.Host)
	if c.Two {
		n += "|two-routes"
	}
	if c.Spell2 != nil {
		n += "|second-route-spells-" + strings.Join(c.Spell2, ",")
	}
	return n
}

// substituted backend list as findRoute will see it ("$1" -> first label; the route is "*.x").
func (c cfg) list() []string {
	g := strings.TrimSuffix(c.Host, ".x")
	out := make([]string, len(c.Backends))
	for i, b := range c.Backends {
		out[i] = strings.ReplaceAll(b, "$1", g)
	}
	return out
}

var latTables = [][]time.Duration{
	{3 * time.Millisecond, 1 * time.Millisecond, 2 * time.Millisecond},
	{0, 2 * time.Millisecond, 1 * time.Millisecond},
}

type op struct {
	Kind  string `json:"k"`           // conn | ping | close
	Fail  int    `json:"f,omitempty"` // bitmask over the distinct backends: which ones refuse the dial
	Route int    `json:"r,omitempty"` // two-route configs: which route the client's host selects
}

func (o op) String() string {
	if o.Kind == "close" {
		return "close"
	}
	if o.Route != 0 {
		return fmt.Sprintf("%s(route#%d,fail=%03b)", o.Kind, o.Route, o.Fail)
	}
	return fmt.Sprintf("%s(fail=%03b)", o.Kind, o.Fail)
}

type capHit struct{}

var dialErrors = []error{
	errors.New("connection refused"),
	&errs.VerbosityError{Verbosity: 1, Err: fmt.Errorf("failed to connect to backend: %w", context.DeadlineExceeded)},
	fmt.Errorf("failed to write handshake packet to backend: %w", io.ErrClosedPipe),
	&net.OpError{Op: "dial", Net: "tcp", Err: &net.DNSError{Err: "no such host", Name: "x", IsNotFound: true}},
	context.Canceled,
}

type world struct {
	c        cfg
	sm       *StrategyManager
	routes   []config.Route
	list     []string
	distinct []string
	dupFree  bool
	open     []struct {
		canon string
		rel   func()
	}
	measured  map[string]time.Duration
	attempts  [2]int  // attempts so far, per route
	rrAligned [2]bool // every earlier attempt on the route consumed exactly one selection
}

func newWorld(c cfg) *world {
	w := &world{c: c, sm: NewStrategyManager(), measured: map[string]time.Duration{}, rrAligned: [2]bool{true, true}}
	w.routes = []config.Route{{Host: []string{"*.x"}, Backend: append([]string(nil), c.Backends...), Strategy: c.Strategy}}
	if c.Two {
		b2 := c.Backends
		if c.Spell2 != nil {
			b2 = c.Spell2
		}
		w.routes = append(w.routes, config.Route{Host: []string{"*.y"}, Backend: append([]string(nil), b2...), Strategy: c.Strategy})
	}
	w.list = c.list()
	w.distinct = distinctCanon(w.list)
	w.dupFree = len(w.distinct) == len(w.list)
	if c.Pre {
		for _, raw := range w.list {
			l := latTables[c.Lat][indexOf(w.distinct, refCanon(raw))]
			w.sm.RecordLatency(raw, l)
			w.measured[refCanon(raw)] = l
		}
	}
	return w
}

func (w *world) openCount(canon string) (n int) {
	for _, o := range w.open {
		if o.canon == canon {
			n++
		}
	}
	return
}

// attempt drives one connection attempt (or status ping) and returns "" or a failure.
func (w *world) attempt(o op) (failKey, failDesc, obs string) {
	failing := map[string]bool{}
	for i, d := range w.distinct {
		if o.Fail&(1<<i) != 0 {
			failing[d] = true
		}
	}
	var dialed []string // raw, in order
	limit := 2*len(w.list) + 3
	vhost := w.c.Host
	if o.Route == 1 {
		vhost = strings.TrimSuffix(vhost, ".x") + ".y"
	}
	_, _, _, routeHost, next, err := findRoute(w.routes, logr.Discard(), c30Client{}, &packet.Handshake{ServerAddress: vhost, ProtocolVersion: 765, Port: 25565, NextStatus: 2}, w.sm)
	if err != nil {
		return "findRoute/error", fmt.Sprintf("findRoute failed: %v", err), ""
	}
	var okAddr string
	var tryErr error
	capped := false
	func() {
		defer func() {
			if v := recover(); v != nil {
				if _, ok := v.(capHit); ok {
					capped = true
					return
				}
				panic(v)
			}
		}()
		okAddr, _, _, tryErr = tryBackends(next, func(log logr.Logger, addr string) (logr.Logger, struct{}, error) {
			if len(dialed) >= limit {
				panic(capHit{})
			}
			dialed = append(dialed, addr)
			if failing[refCanon(addr)] {
				// the class of the failure varies with the position of the try and of the attempt: refused,
				// timed out, reset, unresolvable - none of them excuses the remaining backends
				return log, struct{}{}, dialErrors[(len(dialed)+w.attempts[0]+w.attempts[1])%len(dialErrors)]
			}
			if o.Kind == "ping" {
				w.sm.RecordLatency(addr, latTables[w.c.Lat][indexOf(w.distinct, refCanon(addr))])
			}
			return log, struct{}{}, nil
		})
	}()
	ctx := fmt.Sprintf("strategy=%s backends=%q op=%s dialled=%q", w.c.Strategy, w.list, o, dialed)
	if capped {
		return "attempt/never-gives-up", ctx + fmt.Sprintf(": still dialling after %d tries for %d configured backends (a backend is retried forever)", len(dialed), len(w.list)), ""
	}
	// 1. every distinct backend at most once
	seen := map[string]bool{}
	for _, d := range dialed {
		c := refCanon(d)
		if seen[c] {
			return "attempt/backend-dialled-twice", ctx + ": backend " + c + " was dialled twice in one attempt", ""
		}
		seen[c] = true
		if indexOf(w.distinct, c) < 0 {
			return "attempt/foreign-backend", ctx + ": dialled a backend the route does not list", ""
		}
	}
	// 2. success / failure
	if tryErr != nil {
		for _, d := range w.distinct {
			if !seen[d] {
				return "attempt/failed-before-all-tried", ctx + ": the attempt failed although " + d + " was never tried", ""
			}
			if !failing[d] {
				return "attempt/failed-although-backend-up", ctx + ": the attempt failed although " + d + " accepts connections", ""
			}
		}
	} else {
		if len(dialed) == 0 || dialed[len(dialed)-1] != okAddr || failing[refCanon(okAddr)] {
			return "attempt/wrong-success", ctx + fmt.Sprintf(": reported success on %q", okAddr), ""
		}
		for _, d := range dialed[:len(dialed)-1] {
			if !failing[refCanon(d)] {
				return "attempt/skipped-working-backend", ctx + ": moved past " + d + " although it accepted the connection", ""
			}
		}
	}
	// 3. strategy order, on backend identities: "a", "a:25565" and "A:25565" are ONE backend, whatever the spelling
	// (round-robin only on lists without duplicate identities: a backend listed twice has no defined slot)
	{
		sfx := ""
		if !w.dupFree || w.c.Spell2 != nil {
			sfx = "/backend-listed-under-two-spellings"
		}
		tried := map[string]bool{}
		for j, d := range dialed {
			c := refCanon(d)
			var remaining []string
			for _, x := range w.distinct {
				if !tried[x] {
					remaining = append(remaining, x)
				}
			}
			switch w.c.Strategy {
			case config.StrategySequential, "":
				if c != remaining[0] {
					return "order/sequential", ctx + fmt.Sprintf(": try #%d is %s, config order says %s", j+1, c, remaining[0]), ""
				}
			case config.StrategyRoundRobin:
				if j == 0 && w.rrAligned[o.Route] && w.dupFree {
					if want := w.distinct[w.attempts[o.Route]%len(w.distinct)]; c != want {
						return "order/round-robin", ctx + fmt.Sprintf(": attempt #%d on this route (all earlier ones took one backend each) starts at %s, the route's rotation says %s", w.attempts[o.Route]+1, c, want), ""
					}
				}
			case config.StrategyLeastConnections:
				min := -1
				for _, x := range remaining {
					if n := w.openCount(x); min < 0 || n < min {
						min = n
					}
				}
				if w.openCount(c) != min {
					return "order/least-connections" + sfx, ctx + fmt.Sprintf(": try #%d is %s with %d open connections, an untried backend has %d", j+1, c, w.openCount(c), min), ""
				}
			case config.StrategyLowestLatency:
				unmeasured := false
				var best time.Duration = -1
				for _, x := range remaining {
					if l, ok := w.measured[x]; !ok {
						unmeasured = true
					} else if best < 0 || l < best {
						best = l
					}
				}
				l, ok := w.measured[c]
				if unmeasured && ok {
					return "order/lowest-latency-unmeasured-first" + sfx, ctx + fmt.Sprintf(": try #%d is the measured %s although an untried backend is unmeasured (measured=%v)", j+1, c, w.measured), ""
				}
				if !unmeasured && l != best {
					return "order/lowest-latency" + sfx, ctx + fmt.Sprintf(": try #%d is %s (%v) although an untried backend has %v (measured=%v)", j+1, c, l, best, w.measured), ""
				}
			}
			tried[c] = true
		}
	}
	// model update
	if len(dialed) != 1 {
		w.rrAligned[o.Route] = false
	}
	w.attempts[o.Route]++
	if tryErr == nil {
		c := refCanon(okAddr)
		if o.Kind == "conn" {
			rel := w.sm.TrackConnection(routeHost, okAddr)
			w.open = append(w.open, struct {
				canon string
				rel   func()
			}{c, rel})
		} else {
			w.measured[c] = latTables[w.c.Lat][indexOf(w.distinct, c)]
		}
	}
	return "", "", fmt.Sprintf("%v", dialed)
}

func (w *world) counters() (failKey, failDesc string) {
	if got := w.sm.ActiveConnections(); int(got) != len(w.open) {
		return "counters/active-connections", fmt.Sprintf("strategy=%s backends=%q: ActiveConnections()=%d, %d forwarded connections are open", w.c.Strategy, w.list, got, len(w.open))
	}
	if w.dupFree && w.c.Spell2 == nil { // the internal per-spelling counters are judged by their effect (order/least-connections) on other lists
		for _, raw := range w.list {
			var got uint32
			if c := w.sm.getCounter(raw); c != nil {
				got = c.Load()
			}
			if int(got) != w.openCount(refCanon(raw)) {
				return "counters/per-backend", fmt.Sprintf("strategy=%s backends=%q: connection counter of %s is %d, %d connections are open to it", w.c.Strategy, w.list, raw, got, w.openCount(refCanon(raw)))
			}
		}
	}
	if len(w.open) == 0 && len(w.sm.activeConnections) != 0 {
		return "counters/not-back-to-zero", fmt.Sprintf("all connections closed but %d keys remain in activeConnections", len(w.sm.activeConnections))
	}
	return "", ""
}

func indexOf(l []string, s string) int {
	for i, x := range l {
		if x == s {
			return i
		}
	}
	return -1
}

type c30Conn struct{ net.Conn }

func (c30Conn) RemoteAddr() net.Addr { return &net.TCPAddr{IP: net.IPv4(192, 0, 2, 1), Port: 40000} }

type c30Client struct{ netmc.MinecraftConn }

func (c30Client) Conn() net.Conn { return c30Conn{} }

func runHistory(c cfg, h []op) bfs.Outcome {
	w := newWorld(c)
	var obs []string
	for _, o := range h {
		if o.Kind == "close" {
			if len(w.open) == 0 {
				return bfs.Outcome{Terminal: true, Key: "noop"}
			}
			w.open[0].rel()
			w.open = w.open[1:]
			obs = append(obs, "close")
		} else {
			k, d, ob := w.attempt(o)
			if k != "" {
				return bfs.Outcome{FailKey: k, FailDesc: d}
			}
			obs = append(obs, ob)
		}
		if k, d := w.counters(); k != "" {
			return bfs.Outcome{FailKey: k, FailDesc: d}
		}
	}
	return bfs.Outcome{Obs: strings.Join(obs, ";")}
}

func configs(thorough bool) []cfg {
	syms := []string{"a:1", "b:1", "c:1", "a", "a:25565", "A:1", "$1.svc:1"}
	var lists [][]string
	var rec func(cur []string)
	rec = func(cur []string) {
		if len(cur) > 0 {
			lists = append(lists, append([]string(nil), cur...))
		}
		if len(cur) == 3 {
			return
		}
		for _, s := range syms {
			rec(append(cur, s))
		}
	}
	rec(nil)
	var out []cfg
	// "" = no strategy configured: the documented default is sequential
	for _, st := range []config.Strategy{config.StrategySequential, config.StrategyRoundRobin, config.StrategyLeastConnections, config.StrategyLowestLatency, config.StrategyRandom, ""} {
		for _, l := range lists {
			hosts := []string{"q.x"}
			if strings.Contains(strings.Join(l, ","), "$1") {
				// a label a client can send that makes the substituted address unparsable
				hosts = []string{"q.x", "]q.x"}
			}
			for _, h := range hosts {
				lats := 1
				if st == config.StrategyLowestLatency {
					lats = len(latTables)
				}
				for lt := 0; lt < lats; lt++ {
					out = append(out, cfg{Strategy: st, Backends: l, Lat: lt, Host: h})
					if st == config.StrategyLowestLatency && len(distinctCanon(l)) == len(l) {
						out = append(out, cfg{Strategy: st, Backends: l, Lat: lt, Pre: true, Host: h})
					}
				}
			}
		}
	}
	// two routes with the same strategy and the same backends: rotation is per route, load is per backend
	for _, st := range []config.Strategy{config.StrategyRoundRobin, config.StrategyLeastConnections, config.StrategySequential} {
		for _, l := range [][]string{{"a:1", "b:1"}, {"a:1", "b:1", "c:1"}} {
			out = append(out, cfg{Strategy: st, Backends: l, Host: "q.x", Two: true})
		}
	}
	// ... and the same backends spelled differently by the second route (default port, letter case)
	out = append(out, cfg{Strategy: config.StrategyLeastConnections, Backends: []string{"a:25565", "b:1"}, Host: "q.x", Two: true, Spell2: []string{"a", "B:1"}})
	return out
}

func opsFor(c cfg) []op {
	n := len(distinctCanon(c.list()))
	var ops []op
	for f := 0; f < 1<<n; f++ {
		ops = append(ops, op{Kind: "conn", Fail: f})
		if c.Two {
			ops = append(ops, op{Kind: "conn", Fail: f, Route: 1})
		}
	}
	ops = append(ops, op{Kind: "close"})
	if c.Strategy == config.StrategyLowestLatency {
		for f := 0; f < 1<<n; f++ {
			ops = append(ops, op{Kind: "ping", Fail: f})
		}
	}
	return ops
}

// ---------------------------------------------------------------- part A

// monSource is a rand.Source that notices two threads inside it at once (math/rand.Rand is not
// safe for concurrent use: overlapping calls corrupt the generator state, and the race detector
// flags them). Every call is a scheduling point, so the explorer tries the overlap.
type monSource struct {
	x      *sched.X
	inside int
	n      int64
}

func (m *monSource) enter() {
	if m.inside > 0 {
		m.x.Fail("random/shared-rand-used-concurrently", "two connections were inside the StrategyManager's *rand.Rand at the same time (math/rand.Rand is not goroutine-safe: data race, possible generator corruption)")
	}
	m.inside++
	sched.Point("rand.Source", m)
	m.inside--
}
func (m *monSource) Int63() int64    { m.enter(); m.n++; return m.n }
func (m *monSource) Uint64() uint64  { m.enter(); m.n++; return uint64(m.n) }
func (m *monSource) Seed(seed int64) {}

type tally struct {
	open, inTrack, inRel int
	perOpen, perBusy     map[string]int // per raw backend: open connections / calls in progress
	// a status-API reader is inside ActiveConnections(): smallest "open" and largest "open + calls in progress" seen meanwhile
	reading bool
	lo, hi  int
}

func newTally() *tally { return &tally{perOpen: map[string]int{}, perBusy: map[string]int{}} }

// note is called after every change of the tallies.
func (t *tally) note() {
	if !t.reading {
		return
	}
	if t.open < t.lo {
		t.lo = t.open
	}
	if h := t.open + t.inTrack + t.inRel; h > t.hi {
		t.hi = h
	}
}

// readerBody is the status API: it reads the total while connections open and close.
func readerBody(x *sched.X, sm *StrategyManager, t *tally) func() {
	return func() {
		t.reading, t.lo, t.hi = true, t.open, t.open+t.inTrack+t.inRel
		n := int(sm.ActiveConnections())
		t.reading = false
		if n < t.lo || n > t.hi {
			x.Fail("counters/active-connections-read-off", "a concurrent ActiveConnections() returned %d; while it ran between %d and %d connections were open or being opened/closed", n, t.lo, t.hi)
		}
	}
}

func trackBody(x *sched.X, sm *StrategyManager, t *tally, host, backend string) func() {
	return func() {
		t.inTrack++
		t.perBusy[backend]++
		t.note()
		rel := sm.TrackConnection(host, backend)
		t.inTrack--
		t.perBusy[backend]--
		t.open++
		t.perOpen[backend]++
		t.note()
		sched.Point("conn-open", nil)
		t.open--
		t.perOpen[backend]--
		t.inRel++
		t.perBusy[backend]++
		t.note()
		rel()
		t.inRel--
		t.perBusy[backend]--
		t.note()
	}
}

func trackOracle(x *sched.X, sm *StrategyManager, t *tally, backends ...string) {
	x.OnPoint(func() {
		n := int(sm.ActiveConnections())
		if n < t.open || n > t.open+t.inTrack+t.inRel {
			x.Fail("counters/active-connections-off", "ActiveConnections()=%d while %d connections are open (%d being opened, %d being closed)", n, t.open, t.inTrack, t.inRel)
		}
		for _, b := range backends {
			var c int
			if ctr := sm.getCounter(b); ctr != nil {
				c = int(ctr.Load())
			}
			// per backend, whatever the spelling: "a" and "A:25565" are one backend with one load figure
			open, busy := 0, 0
			for _, o := range backends {
				if refCanon(o) == refCanon(b) {
					open += t.perOpen[o]
					busy += t.perBusy[o]
				}
			}
			if c < open || c > open+busy {
				x.Fail("counters/per-backend-off", "least-connections counter of %s is %d while %d connections to that backend are open (%d calls in progress)", b, c, open, busy)
			}
		}
	})
	x.AtEnd(func() {
		if n := sm.ActiveConnections(); n != 0 {
			x.Fail("counters/not-back-to-zero", "all connections closed, ActiveConnections()=%d", n)
		}
		if len(sm.activeConnections) != 0 {
			x.Fail("counters/not-back-to-zero", "all connections closed, %d keys left in activeConnections", len(sm.activeConnections))
		}
		for _, b := range backends {
			if c := sm.getCounter(b); c != nil && c.Load() != 0 {
				x.Fail("counters/per-backend-not-zero", "all connections closed, counter of %s is %d", b, c.Load())
			}
		}
		x.Outcome(fmt.Sprint(sm.ActiveConnections()))
	})
}

func scenarios() []schedrun.Scenario {
	rrRoute := &config.Route{Strategy: config.StrategyRoundRobin}
	rndRoute := &config.Route{Strategy: config.StrategyRandom}
	lcRoute := &config.Route{Strategy: config.StrategyLeastConnections}
	return []schedrun.Scenario{
		{Name: "track-2-same-backend", Quick: 3, Thorough: 5, Body: func(x *sched.X) {
			sm, t := NewStrategyManager(), newTally()
			x.Go("c1", trackBody(x, sm, t, "h.x", "a:1"))
			x.Go("c2", trackBody(x, sm, t, "H.x", "a:1"))
			trackOracle(x, sm, t, "a:1")
		}},
		{Name: "track-2-spellings", Quick: 3, Thorough: 5, Body: func(x *sched.X) {
			sm, t := NewStrategyManager(), newTally()
			x.Go("c1", trackBody(x, sm, t, "h.x", "a"))
			x.Go("c2", trackBody(x, sm, t, "h.x", "A:25565"))
			trackOracle(x, sm, t, "a", "A:25565")
		}},
		{Name: "track-3", Quick: 2, Thorough: 3, Body: func(x *sched.X) {
			sm, t := NewStrategyManager(), newTally()
			x.Go("c1", trackBody(x, sm, t, "h.x", "a:1"))
			x.Go("c2", trackBody(x, sm, t, "h.x", "a:1"))
			x.Go("c3", trackBody(x, sm, t, "h.x", "b:1"))
			trackOracle(x, sm, t, "a:1", "b:1")
		}},
		{Name: "track-twice-each", Quick: 2, Thorough: 4, Body: func(x *sched.X) {
			// a counter that drops to zero is deleted and re-created: the second connection of one
			// thread races with the release of the other
			sm, t := NewStrategyManager(), newTally()
			x.Go("c1", func() { trackBody(x, sm, t, "h.x", "a:1")(); trackBody(x, sm, t, "h.x", "a:1")() })
			x.Go("c2", func() { trackBody(x, sm, t, "h.x", "a:1")(); trackBody(x, sm, t, "h.x", "a:1")() })
			trackOracle(x, sm, t, "a:1")
		}},
		{Name: "status-api-reader-vs-track", Quick: 3, Thorough: 5, Body: func(x *sched.X) {
			// the status API sums the per-route map while connections on two routes open and close
			sm, t := NewStrategyManager(), newTally()
			x.Go("c1", trackBody(x, sm, t, "h.x", "a:1"))
			x.Go("c2", trackBody(x, sm, t, "g.x", "b:1"))
			x.Go("api", readerBody(x, sm, t))
			trackOracle(x, sm, t, "a:1", "b:1")
		}},
		{Name: "status-api-reader-vs-track-twice", Quick: 2, Thorough: 4, Body: func(x *sched.X) {
			// keys are deleted when they drop to zero and re-created by the next connection
			sm, t := NewStrategyManager(), newTally()
			x.Go("c1", func() { trackBody(x, sm, t, "h.x", "a:1")(); trackBody(x, sm, t, "h.x", "a:1")() })
			x.Go("api", func() { readerBody(x, sm, t)(); readerBody(x, sm, t)() })
			trackOracle(x, sm, t, "a:1")
		}},
		{Name: "least-connections-vs-track", Quick: 3, Thorough: 6, Body: func(x *sched.X) {
			sm, t := NewStrategyManager(), newTally()
			var pick string
			x.Go("c1", trackBody(x, sm, t, "h.x", "a:1"))
			x.Go("sel", func() { pick, _, _ = sm.GetNextBackend(logr.Discard(), lcRoute, "h.x", []string{"a:1", "b:1"}) })
			trackOracle(x, sm, t, "a:1", "b:1")
			x.AtEnd(func() {
				// a:1 has 0 or 1 connections during the call, b:1 has 0: either may be minimal
				if pick != "a:1" && pick != "b:1" {
					x.Fail("least-connections/foreign-pick", "picked %q", pick)
				}
				x.Outcome(pick)
			})
		}},
		{Name: "round-robin-2-concurrent+1", Quick: -1, Thorough: -1, Body: func(x *sched.X) {
			sm := NewStrategyManager()
			bk := []string{"a:1", "b:1", "c:1"}
			var p1, p2 string
			x.Go("c1", func() { p1, _, _ = sm.GetNextBackend(logr.Discard(), rrRoute, "h.x", bk) })
			x.Go("c2", func() { p2, _, _ = sm.GetNextBackend(logr.Discard(), rrRoute, "h.x", bk) })
			x.AtEnd(func() {
				p3, _, _ := sm.GetNextBackend(logr.Discard(), rrRoute, "h.x", bk)
				got := []string{p1, p2, p3}
				sort.Strings(got)
				if strings.Join(got, ",") != "a:1,b:1,c:1" {
					x.Fail("round-robin/concurrent-connections-share-a-slot", "three connections over three backends (two of them concurrent) were sent to %q,%q,%q: the rotation handed one backend out twice", p1, p2, p3)
				}
				x.Outcome(p1 + p2 + p3)
			})
		}},
		{Name: "random-2-concurrent", Quick: -1, Thorough: -1, Body: func(x *sched.X) {
			sm := NewStrategyManager()
			src := &monSource{x: x}
			sm.rng = rand.New(src)
			bk := []string{"a:1", "b:1", "c:1"}
			var p1, p2 string
			x.Go("c1", func() { p1, _, _ = sm.GetNextBackend(logr.Discard(), rndRoute, "h.x", bk) })
			x.Go("c2", func() { p2, _, _ = sm.GetNextBackend(logr.Discard(), rndRoute, "h.x", bk) })
			x.AtEnd(func() {
				if indexOf(bk, p1) < 0 || indexOf(bk, p2) < 0 {
					x.Fail("random/foreign-pick", "picked %q %q", p1, p2)
				}
				x.Outcome("picked")
			})
		}},
	}
}

// ---------------------------------------------------------------- driver

func TestVerif(t *testing.T) {
	vrt.Run(t, "C30", func(r *vrt.R) {
		var probe struct {
			Scenario string `json:"scenario"`
			History  []op   `json:"history"`
		}
		if r.ReplayInto(&probe) && probe.Scenario == "fault" {
			var fc faultCase
			_ = r.ReplayInto(&fc)
			r.Eval(1)
			if k, d, hung, _ := runFaultCase(fc); hung {
				r.NotExhaustive(d)
			} else if k != "" {
				r.Violation(k, d, fc)
			}
			return
		}
		if r.Replay() != nil && probe.Scenario == "status" {
			var sc statusCase
			_ = r.ReplayInto(&sc)
			r.Eval(1)
			if k, d := runStatusCase(sc); k != "" {
				r.Violation(k, d, sc)
			}
			return
		}
		if r.Replay() != nil && strings.HasPrefix(probe.Scenario, "bfs:") {
			for _, c := range configs(true) {
				if c.name() == probe.Scenario {
					r.Eval(1)
					for n := 1; n <= len(probe.History); n++ {
						if out := runHistory(c, probe.History[:n]); out.FailKey != "" {
							r.Violation(out.FailKey, fmt.Sprintf("config %s, history %v\n%s", c.name(), probe.History[:n], out.FailDesc), probe)
							return
						}
					}
					return
				}
			}
			r.T.Fatalf("replay: unknown config %q", probe.Scenario)
		}
		// the scheduler scenarios first: they are the cheapest part and must not fall victim to the soft deadline on a busy machine
		schedrun.Run(r, scenarios())
		if r.Replay() == nil {
			depth := 2
			if r.Thorough() {
				depth = 3
			}
			cfgs := configs(r.Thorough())
			states, trans := 0, 0
			perStrategy := map[string]int{}
			outcomes := map[string]bool{}
			for i, c := range cfgs {
				if !r.Mine(i) {
					continue
				}
				if r.Expired() {
					break
				}
				d := depth
				if c.Two {
					d = depth + 1 // a rotation disturbed by the other route shows from the third attempt on
				}
				res := bfs.Explore(bfs.Config[op]{Name: c.name(), Ops: opsFor(c), Depth: d, Deadline: r.DeadlineTime(),
					Run: func(h []op) bfs.Outcome { return runHistory(c, h) }})
				states += res.States
				trans += res.Transitions
				if c.Strategy == "" {
					perStrategy["strategy:(none configured)"] += res.Transitions
				} else {
					perStrategy["strategy:"+string(c.Strategy)] += res.Transitions
				}
				if len(distinctCanon(c.list())) != len(c.list()) {
					perStrategy["list:with-duplicate-identities"] += res.Transitions
				}
				if c.Host != "q.x" {
					perStrategy["list:client-made-unparsable-address"] += res.Transitions
				}
				if c.Two {
					perStrategy["routes:two-routes-same-backends"] += res.Transitions
				}
				for o := range res.Outcomes {
					outcomes[string(c.Strategy)+"|"+o] = true
				}
				if !res.Exhaustive {
					r.NotExhaustive(c.name() + ": " + res.Reason)
				}
				for _, f := range res.Failures {
					r.Violation(f.Key, fmt.Sprintf("config %s, history %v (seen %d x)\n%s", c.name(), f.History, f.Count, f.Desc), bfs.ReplayData[op]{Scenario: c.name(), History: f.History})
				}
				if i == 1000 {
					r.Sample(map[string]any{"part": "bfs", "config": c.name(), "ops": fmt.Sprint(opsFor(c)), "depth": depth, "transitions": res.Transitions})
				}
			}
			r.Eval(trans)
			r.States(states)
			r.Transitions(trans)
			r.Traces(trans)
			for k, n := range perStrategy {
				r.ClassN(k, n)
			}
			for o := range outcomes {
				r.Distinct(o)
			}
			r.Extra("bfs_configs", int64(len(cfgs)))
			runFaultPass(r)
			runStatusPass(r)
		}
	})
}
