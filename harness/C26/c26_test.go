package c26

import (
	"encoding/hex"
	"fmt"
	"sort"
	"strings"
	"testing"

	"go.minekube.com/gate/pkg/edition/java/proto/packet/plugin"
	"go.minekube.com/gate/pkg/edition/java/proxy/bungeecord"
	"go.minekube.com/gate/pkg/edition/java/proxy/zzverif/bfs"
	"go.minekube.com/gate/pkg/edition/java/proxy/zzverif/refbungee"
	"go.minekube.com/gate/pkg/edition/java/proxy/zzverif/vrt"
)

var (
	utf         = refbungee.UTF
	cat         = refbungee.Cat
	describe    = refbungee.Describe
	forwardBody = refbungee.ForwardBody
	baseServers = refbungee.BaseServers
	playerDefs  = refbungee.PlayerDefs
)

type request = refbungee.Request

// ---- running one request on the real responder ----

type result struct {
	got      []refbungee.Effect
	panicked bool
	panicVal any
	ret      bool
}

func process(st *refbungee.State, requester string, channel string, payload []byte) result {
	w := &world{st: st.Clone(), requester: requester}
	me := w.PlayerByName(requester)
	resp := bungeecord.NewMessageResponder(me, w)
	var res result
	res.panicked, res.panicVal = vrt.Catch(func() {
		res.ret = resp.Process(&plugin.Message{Channel: channel, Data: append([]byte(nil), payload...)})
	})
	res.got = w.got
	return res
}

type diff struct{ kind, desc string }

// compare returns every disagreement between the expected and the observed effects. Independent aspects
// (which connection / which bytes) are reported separately so that a violation key names ONE defect.
func compare(want, got []refbungee.Effect) (out []diff) {
	for _, g := range got {
		if g.Kind == refbungee.Forward && g.Channel != refbungee.LegacyChannel && g.Channel != refbungee.ModernChannel {
			out = append(out, diff{"forward-channel", fmt.Sprintf("payload forwarded on channel %q", g.Channel)})
		}
		if strings.HasPrefix(g.Kind, "packet:") {
			out = append(out, diff{"unexpected-packet", g.Kind})
		}
	}
	cw, cg := refbungee.Canon(want), refbungee.Canon(got)
	if strings.Join(cw, "\n") == strings.Join(cg, "\n") {
		return out
	}
	desc := fmt.Sprintf("want effects:\n  %s\ngot effects:\n  %s", strings.Join(cw, "\n  "), strings.Join(cg, "\n  "))
	by := func(es []refbungee.Effect, k string) []refbungee.Effect {
		var out []refbungee.Effect
		for _, e := range es {
			if e.Kind == k {
				out = append(out, e)
			}
		}
		return out
	}
	for _, k := range []string{refbungee.Response, refbungee.Forward, refbungee.Chat, refbungee.Connect, refbungee.Kick} {
		w, g := by(want, k), by(got, k)
		if strings.Join(refbungee.Canon(w), "\n") == strings.Join(refbungee.Canon(g), "\n") {
			continue
		}
		switch {
		case len(w) == 0:
			out = append(out, diff{k + "-unexpected", desc})
			continue
		case len(g) == 0:
			out = append(out, diff{k + "-missing", desc})
			continue
		case len(w) != len(g):
			out = append(out, diff{k + "-count", desc})
			continue
		}
		switch k {
		case refbungee.Response:
			if len(w) != 1 {
				out = append(out, diff{"response-mismatch", desc})
				continue
			}
			if w[0].Player != g[0].Player {
				out = append(out, diff{"response-on-wrong-connection", desc})
			} else if w[0].Channel != g[0].Channel {
				// (on a wrong connection the channel id follows that connection; not a separate defect)
				out = append(out, diff{"response-channel", desc})
			}
			if refbungee.NormalizeData(w[0].Data) != refbungee.NormalizeData(g[0].Data) {
				out = append(out, diff{"response-layout", desc})
			}
		case refbungee.Forward:
			ws, gs := map[string]bool{}, map[string]bool{}
			wd, gd := map[string]bool{}, map[string]bool{}
			for _, e := range w {
				ws[e.Server] = true
				wd[string(e.Data)] = true
			}
			for _, e := range g {
				gs[e.Server] = true
				gd[string(e.Data)] = true
			}
			if fmt.Sprint(keys(ws)) != fmt.Sprint(keys(gs)) {
				out = append(out, diff{"forward-targets", desc})
			}
			if fmt.Sprint(keys(wd)) != fmt.Sprint(keys(gd)) {
				out = append(out, diff{"forward-payload", desc})
			}
		case refbungee.Chat:
			out = append(out, diff{"chat-recipients", desc})
		case refbungee.Connect:
			out = append(out, diff{"connect-target", desc})
		case refbungee.Kick:
			out = append(out, diff{"kick-target", desc})
		}
	}
	if len(out) == 0 {
		out = append(out, diff{"effects-mismatch", desc})
	}
	return out
}

// scenario reduces the reference's fine argument class (kept for the evidence) to the part that identifies
// a distinct kind of request: the sub-channel, plus a tag for malformed arguments and for the literals
// ALL/ONLINE written in another case.
func scenario(class string) string {
	sub := class
	if i := strings.IndexByte(class, '['); i >= 0 {
		sub = class[:i]
	}
	switch {
	case strings.Contains(class, "malformed"):
		return sub + "[malformed]"
	case strings.Contains(class, "target=") && strings.Contains(class, "-othercase"):
		return sub + "[literal-othercase]"
	}
	return sub
}

func keys(m map[string]bool) []string {
	var out []string
	for k := range m {
		out = append(out, k)
	}
	sort.Strings(out)
	return out
}

type replayCase struct {
	Mode      string          `json:"mode"`
	State     refbungee.State `json:"state"`
	Requester string          `json:"requester"`
	Payload   string          `json:"payload_hex"`
	History   []int           `json:"history,omitempty"`
	// Channel the request arrives on: "" = the BungeeCord channel id of the requester's era, "other-era" =
	// the other one of the two BungeeCord ids, anything else = that (foreign) channel name
	Channel string `json:"channel,omitempty"`
}

// foreignChannels are NOT the BungeeCord channel: a message on them is no BungeeCord request at all.
var foreignChannels = []string{"my:chan", "bungeecord:other", "BungeeCordX", "minecraft:register", ""}

type fail struct{ key, desc string }

// checkOne evaluates one (state, request) on the real responder against the reference.
func checkOne(r *vrt.R, st *refbungee.State, requester string, req request, count bool) (fails []fail, want []refbungee.Effect, defined bool) {
	return checkOneOn(r, st, requester, req, count, "")
}

// checkOneOn: chanSel selects the plugin channel the request arrives on (see replayCase.Channel). Velocity
// accepts a request on either BungeeCord channel id whatever the backend's version (the RESPONSE channel
// follows the connection); a message on any other channel is not a request: Process must report "not
// mine" (false) and do nothing. A well-formed request is consumed (Process reports true): it is never
// passed on to the client.
func checkOneOn(r *vrt.R, st *refbungee.State, requester string, req request, count bool, chanSel string) (fails []fail, want []refbungee.Effect, defined bool) {
	want, class, defined := refbungee.Eval(st, requester, req.Payload)
	me := st.Players[0]
	channel, other := refbungee.LegacyChannel, refbungee.ModernChannel
	if me.Modern {
		channel, other = other, channel
	}
	foreign := false
	switch chanSel {
	case "":
	case "other-era":
		channel = other
		class += "@other-era-channel"
	default:
		channel, foreign = chanSel, true
		if chanSel == "<empty>" {
			channel = ""
		}
		want, defined = nil, true
		class = "foreign-channel[" + class + "]"
	}
	res := process(st, requester, channel, req.Payload)
	if count {
		r.Eval(1)
		r.Class(class)
	}
	sc := scenario(class)
	if foreign {
		sc = "foreign-channel"
	}
	head := fmt.Sprintf("request %q (%s) on channel %q payload %s\nstate %s\n", req.Label, class, channel, hex.EncodeToString(req.Payload), describe(st))
	if res.panicked {
		return []fail{{sc + "/panic", head + fmt.Sprintf("panic: %v", res.panicVal)}}, want, defined
	}
	if !defined {
		return nil, want, defined
	}
	for _, d := range compare(want, res.got) {
		fails = append(fails, fail{sc + "/" + d.kind, head + d.desc})
	}
	if foreign && res.ret {
		fails = append(fails, fail{sc + "/consumed", head + "Process returned true for a message that is not on the BungeeCord channel: the proxy would swallow it"})
	}
	if !foreign && !res.ret {
		fails = append(fails, fail{sc + "/request-not-consumed", head + "Process returned false for a well-formed BungeeCord request: the proxy would pass it on to the client"})
	}
	return fails, want, defined
}

func TestVerif(t *testing.T) {
	vrt.Run(t, "C26", func(r *vrt.R) {
		var rc replayCase
		if r.ReplayInto(&rc) {
			replay(r, &rc)
			return
		}
		nPlayers := 3
		if r.Thorough() {
			nPlayers = 4
		}
		reqs := refbungee.Requests(r.Thorough(), true)
		wellFormed := refbungee.Requests(r.Thorough(), false)
		sts := refbungee.States(nPlayers)
		// also: a proxy with a single player and a proxy where the requester is alone on its server
		single := refbungee.State{Servers: baseServers(), Players: []refbungee.Player{playerDefs[0]}}
		single.Players[0].Server, single.Players[0].Modern = "lobby", true
		sts = append(sts, single)

		sampled := 0
		for si := range sts {
			if !r.Mine(si) {
				continue
			}
			if r.Expired() {
				break
			}
			st := &sts[si]
			for _, req := range reqs {
				fails, want, defined := checkOne(r, st, st.Players[0].Name, req, true)
				if defined && len(want) > 0 {
					r.Distinct(describe(st) + "|" + string(req.Payload))
				}
				for _, f := range fails {
					r.Violation(f.key, f.desc, replayCase{Mode: "enum", State: *st, Requester: st.Players[0].Name, Payload: hex.EncodeToString(req.Payload)})
				}
				if defined && len(want) > 0 && sampled < 2 && si == r.Shard && strings.HasPrefix(req.Label, "Forward ALL") {
					sampled++
					r.Sample(map[string]any{"state": describe(st), "request": req.Label, "expected": refbungee.Canon(want)})
				}
			}
			// channel dimension: every well-formed request once more on the other BungeeCord channel id, and (one
			// request per argument class, all of them in the first / last / single-player state) on foreign channels
			seenClass := map[string]bool{}
			for _, req := range wellFormed {
				viol := func(fs []fail, sel string) {
					for _, f := range fs {
						r.Violation(f.key, f.desc, replayCase{Mode: "enum", State: *st, Requester: st.Players[0].Name, Payload: hex.EncodeToString(req.Payload), Channel: sel})
					}
				}
				fails, _, _ := checkOneOn(r, st, st.Players[0].Name, req, true, "other-era")
				viol(fails, "other-era")
				_, class, _ := refbungee.Eval(st, st.Players[0].Name, req.Payload)
				if seenClass[class] && si != 0 && si < len(sts)-2 {
					continue
				}
				seenClass[class] = true
				for _, fc := range foreignChannels {
					sel := fc
					if sel == "" {
						sel = "<empty>"
					}
					fails, _, _ := checkOneOn(r, st, st.Players[0].Name, req, true, sel)
					viol(fails, sel)
				}
			}
		}
		r.Extra("proxy_states", len(sts))
		r.Extra("requests_per_state", len(reqs))
		histories(r)
	})
}

// ---- histories: requests that change the proxy state followed by queries ----

func historyOps() []request {
	mk := func(label string, parts ...[]byte) request { return request{Label: label, Payload: cat(parts...)} }
	return []request{
		mk("GetServer", utf("GetServer")),
		mk("GetPlayerServer bob", utf("GetPlayerServer"), utf("bob")),
		mk("PlayerList game", utf("PlayerList"), utf("game")),
		mk("PlayerCount ALL", utf("PlayerCount"), utf("ALL")),
		mk("Connect game", utf("Connect"), utf("game")),
		mk("Connect lobby", utf("Connect"), utf("lobby")),
		mk("ConnectOther bob game", utf("ConnectOther"), utf("bob"), utf("game")),
		mk("ConnectOther Carol hub", utf("ConnectOther"), utf("Carol"), utf("hub")),
		mk("KickPlayer bob", utf("KickPlayer"), utf("bob"), utf("bye")),
		mk("Forward ALL", utf("Forward"), utf("ALL"), forwardBody("ch", 3)),
		mk("Forward hub", utf("Forward"), utf("hub"), forwardBody("ch", 3)),
		mk("ForwardToPlayer bob", utf("ForwardToPlayer"), utf("bob"), forwardBody("ch", 3)),
		mk("Message Carol", utf("Message"), utf("Carol"), utf("hi")),
	}
}

func historyStart() refbungee.State {
	st := refbungee.State{Servers: baseServers(), Players: append([]refbungee.Player(nil), playerDefs[:3]...)}
	st.Players[0].Server, st.Players[0].Modern = "lobby", true
	st.Players[1].Server, st.Players[1].Modern = "lobby", false
	st.Players[2].Server, st.Players[2].Modern = "game", true
	return st
}

// runHistory applies ops; the proxy state evolves by the REFERENCE's effects (connect moves, kick removes),
// every step is compared. Returns the final state key and the first failure.
func runHistory(r *vrt.R, h []int) bfs.Outcome {
	ops := historyOps()
	st := historyStart()
	for step, oi := range h {
		fails, want, _ := checkOne(r, &st, "Alice", ops[oi], false)
		if len(fails) > 0 {
			return bfs.Outcome{FailKey: "history:" + fails[0].key, FailDesc: fmt.Sprintf("step %d of %v\n%s", step, labels(h), fails[0].desc)}
		}
		st = refbungee.Apply(&st, want)
		if st.Players[0].Name != "Alice" {
			return bfs.Outcome{Key: "requester-gone", Terminal: true}
		}
	}
	return bfs.Outcome{Key: describe(&st), Obs: describe(&st)}
}

func labels(h []int) []string {
	ops := historyOps()
	out := make([]string, len(h))
	for i, o := range h {
		out[i] = ops[o].Label
	}
	return out
}

func histories(r *vrt.R) {
	depth := 3
	if r.Thorough() {
		depth = 5
	}
	n := len(historyOps())
	alphabet := make([]int, n)
	for i := range alphabet {
		alphabet[i] = i
	}
	// every history is run (no state merging across different last operations would be unsound here:
	// the state key is the abstract proxy state, which fully determines the future)
	res := bfs.Explore(bfs.Config[int]{Name: "histories", Ops: alphabet, Depth: depth, Shard: r.Shard, NShards: r.NShards, Deadline: r.DeadlineTime(),
		Run: func(h []int) bfs.Outcome { return runHistory(r, h) }})
	// bfs.Merge reports failures with its own replay format; re-key them to ours
	for k, f := range res.Failures {
		r.Violation(strings.TrimPrefix(k, "history:"), f.Desc, replayCase{Mode: "history", History: f.History})
	}
	res.Failures = nil
	res.Merge(r, "histories")
}

func replay(r *vrt.R, rc *replayCase) {
	switch rc.Mode {
	case "history":
		out := runHistory(r, rc.History)
		if out.FailKey != "" {
			r.Violation(strings.TrimPrefix(out.FailKey, "history:"), out.FailDesc, rc)
		}
	default:
		payload, _ := hex.DecodeString(rc.Payload)
		fails, _, _ := checkOneOn(r, &rc.State, rc.Requester, request{Label: "replay", Payload: payload}, true, rc.Channel)
		for _, f := range fails {
			r.Violation(f.key, f.desc, rc)
		}
	}
}
