package c26

import (
	"encoding/hex"
	"fmt"
	"sort"
	"strings"
	"testing"

	"go.minekube.com/gate/pkg/edition/java/proto/packet/plugin"
	"go.minekube.com/gate/pkg/edition/java/proxy/bungeecord"
	"go.minekube.com/gate/pkg/edition/java/proxy/zzverif/bfs"
	"go.minekube.com/gate/pkg/edition/java/proxy/zzverif/refbungee"
	"go.minekube.com/gate/pkg/edition/java/proxy/zzverif/vrt"
)

var (
	utf = refbungee.UTF
	cat = refbungee.Cat
)

// ---- proxy states ----

var serverNames = []string{"lobby", "game", "hub"} // hub is never populated: an empty server

func baseServers() []refbungee.Server {
	return []refbungee.Server{
		{Name: "lobby", Host: "10.0.1.1", Port: 25565},
		{Name: "game", Host: "10.0.1.2", Port: 25566},
		{Name: "hub", Host: "10.0.1.3", Port: 40000}, // port > 32767: ServerIP writes it as a short
	}
}

var playerDefs = []refbungee.Player{
	{Name: "Alice", UUID: "11111111222233334444555555555555", Host: "10.9.0.1", Port: 50001},
	{Name: "bob", UUID: "aaaaaaaabbbbccccddddeeeeeeeeeeee", Host: "10.9.0.2", Port: 65535},
	{Name: "Carol", UUID: "0123456789abcdef0123456789abcdef", Host: "192.168.7.3", Port: 1024},
	{Name: "dave", UUID: "ffffffffffffffffffffffffffffffff", Host: "10.9.0.4", Port: 2},
}

// states: every assignment of nPlayers players to {none, lobby, game} x protocol era of every
// player's backend connection (requester: both; others: opposite of the requester so that a response on the
// wrong connection also shows as a wrong channel id).
func states(nPlayers int) []refbungee.State {
	var out []refbungee.State
	place := []string{"", "lobby", "game"}
	n := 1
	for i := 0; i < nPlayers; i++ {
		n *= len(place)
	}
	for code := 0; code < n; code++ {
		for _, modern := range []bool{true, false} {
			st := refbungee.State{Servers: baseServers()}
			c := code
			for i := 0; i < nPlayers; i++ {
				p := playerDefs[i]
				p.Server = place[c%len(place)]
				c /= len(place)
				p.Modern = modern == (i%2 == 0)
				st.Players = append(st.Players, p)
			}
			out = append(out, st)
		}
	}
	return out
}

// ---- request alphabet ----

type request struct {
	label   string
	payload []byte
}

func forwardBody(ch string, n int) []byte {
	data := make([]byte, n)
	for i := range data {
		data[i] = byte(i*37 + 1)
	}
	return cat(utf(ch), refbungee.Short(n), data)
}

func requests(thorough bool) []request {
	var out []request
	add := func(label string, parts ...[]byte) { out = append(out, request{label, cat(parts...)}) }
	players := []string{"Alice", "bob", "Carol", "BOB", "alice", "nobody", "", "ALL", "lobby"}
	servers := []string{"lobby", "game", "hub", "LOBBY", "nowhere", "", "ALL", "all", "ONLINE", "online", "bob"}
	chans := []string{"ch", "my:channel", ""}
	lens := []int{0, 1, 5, 300}
	if thorough {
		players = append(players, "dave", "CAROL", "Bob ", "game")
		servers = append(servers, "Game", "HUB", "All", "Online", "lobby ")
		chans = append(chans, "BungeeCord", strings.Repeat("c", 70))
		lens = append(lens, 2, 127, 128, 255, 256, 32767)
	}
	for _, sub := range []string{"IP", "UUID", "GetServers", "GetServer"} {
		add(sub, utf(sub))
		add(sub+"+trailing", utf(sub), utf("ignored"))
	}
	for _, sub := range []string{"IPOther", "UUIDOther", "GetPlayerServer"} {
		for _, p := range players {
			add(sub+" "+p, utf(sub), utf(p))
		}
	}
	for _, sub := range []string{"PlayerCount", "PlayerList", "ServerIP", "Connect"} {
		for _, s := range servers {
			add(sub+" "+s, utf(sub), utf(s))
		}
	}
	for _, p := range players {
		for _, s := range servers {
			add("ConnectOther "+p+" "+s, utf("ConnectOther"), utf(p), utf(s))
		}
	}
	for _, p := range append(append([]string{}, players...), "game") {
		for _, m := range []string{"hi", "§chi §lthere", ""} {
			add("Message "+p+" "+m, utf("Message"), utf(p), utf(m))
			add("KickPlayer "+p+" "+m, utf("KickPlayer"), utf(p), utf(m))
		}
		for _, m := range []string{`{"text":"hi"}`, `{"text":""}`, `not json`} {
			add("MessageRaw "+p+" "+m, utf("MessageRaw"), utf(p), utf(m))
			add("KickPlayerRaw "+p+" "+m, utf("KickPlayerRaw"), utf(p), utf(m))
		}
	}
	for _, ch := range chans {
		for _, n := range lens {
			for _, s := range servers {
				add(fmt.Sprintf("Forward %s %q %d", s, ch, n), utf("Forward"), utf(s), forwardBody(ch, n))
			}
			for _, p := range players {
				add(fmt.Sprintf("ForwardToPlayer %s %q %d", p, ch, n), utf("ForwardToPlayer"), utf(p), forwardBody(ch, n))
			}
		}
	}
	// inner length field that is negative as a Java short / disagrees with the data that follows
	for _, raw := range [][]byte{{0xFF, 0xFF}, {0x80, 0x00}, {0x00, 0x09, 1, 2}, {0x00, 0x01, 1, 2, 3}} {
		add("Forward ALL badlen "+hex.EncodeToString(raw), utf("Forward"), utf("ALL"), utf("ch"), raw)
		add("Forward game badlen "+hex.EncodeToString(raw), utf("Forward"), utf("game"), utf("ch"), raw)
		add("ForwardToPlayer bob badlen "+hex.EncodeToString(raw), utf("ForwardToPlayer"), utf("bob"), utf("ch"), raw)
	}
	add("unknown sub-channel", utf("NoSuchSubChannel"), utf("x"))
	add("empty sub-channel", utf(""))
	add("empty payload")
	// every strict prefix of every request above (duplicates removed below)
	n := len(out)
	for i := 0; i < n; i++ {
		p := out[i].payload
		if len(p) > 80 {
			continue // long data bodies: the prefixes inside the body add nothing
		}
		for k := 0; k < len(p); k++ {
			out = append(out, request{label: fmt.Sprintf("%s | prefix %d/%d", out[i].label, k, len(p)), payload: p[:k]})
		}
	}
	seen := map[string]bool{}
	uniq := out[:0]
	for _, r := range out {
		k := string(r.payload)
		if seen[k] {
			continue
		}
		seen[k] = true
		uniq = append(uniq, r)
	}
	return uniq
}

// ---- running one request on the real responder ----

type result struct {
	got      []refbungee.Effect
	panicked bool
	panicVal any
	ret      bool
}

func process(st *refbungee.State, requester string, channel string, payload []byte) result {
	w := &world{st: st.Clone(), requester: requester}
	me := w.PlayerByName(requester)
	resp := bungeecord.NewMessageResponder(me, w)
	var res result
	res.panicked, res.panicVal = vrt.Catch(func() {
		res.ret = resp.Process(&plugin.Message{Channel: channel, Data: append([]byte(nil), payload...)})
	})
	res.got = w.got
	return res
}

type diff struct{ kind, desc string }

// compare returns every disagreement between the expected and the observed effects. Independent aspects
// (which connection / which bytes) are reported separately so that a violation key names ONE defect.
func compare(want, got []refbungee.Effect) (out []diff) {
	for _, g := range got {
		if g.Kind == refbungee.Forward && g.Channel != refbungee.LegacyChannel && g.Channel != refbungee.ModernChannel {
			out = append(out, diff{"forward-channel", fmt.Sprintf("payload forwarded on channel %q", g.Channel)})
		}
		if strings.HasPrefix(g.Kind, "packet:") {
			out = append(out, diff{"unexpected-packet", g.Kind})
		}
	}
	cw, cg := refbungee.Canon(want), refbungee.Canon(got)
	if strings.Join(cw, "\n") == strings.Join(cg, "\n") {
		return out
	}
	desc := fmt.Sprintf("want effects:\n  %s\ngot effects:\n  %s", strings.Join(cw, "\n  "), strings.Join(cg, "\n  "))
	by := func(es []refbungee.Effect, k string) []refbungee.Effect {
		var out []refbungee.Effect
		for _, e := range es {
			if e.Kind == k {
				out = append(out, e)
			}
		}
		return out
	}
	for _, k := range []string{refbungee.Response, refbungee.Forward, refbungee.Chat, refbungee.Connect, refbungee.Kick} {
		w, g := by(want, k), by(got, k)
		if strings.Join(refbungee.Canon(w), "\n") == strings.Join(refbungee.Canon(g), "\n") {
			continue
		}
		switch {
		case len(w) == 0:
			out = append(out, diff{k + "-unexpected", desc})
			continue
		case len(g) == 0:
			out = append(out, diff{k + "-missing", desc})
			continue
		case len(w) != len(g):
			out = append(out, diff{k + "-count", desc})
			continue
		}
		switch k {
		case refbungee.Response:
			if len(w) != 1 {
				out = append(out, diff{"response-mismatch", desc})
				continue
			}
			if w[0].Player != g[0].Player {
				out = append(out, diff{"response-on-wrong-connection", desc})
			} else if w[0].Channel != g[0].Channel {
				// (on a wrong connection the channel id follows that connection; not a separate defect)
				out = append(out, diff{"response-channel", desc})
			}
			if refbungee.NormalizeData(w[0].Data) != refbungee.NormalizeData(g[0].Data) {
				out = append(out, diff{"response-layout", desc})
			}
		case refbungee.Forward:
			ws, gs := map[string]bool{}, map[string]bool{}
			wd, gd := map[string]bool{}, map[string]bool{}
			for _, e := range w {
				ws[e.Server] = true
				wd[string(e.Data)] = true
			}
			for _, e := range g {
				gs[e.Server] = true
				gd[string(e.Data)] = true
			}
			if fmt.Sprint(keys(ws)) != fmt.Sprint(keys(gs)) {
				out = append(out, diff{"forward-targets", desc})
			}
			if fmt.Sprint(keys(wd)) != fmt.Sprint(keys(gd)) {
				out = append(out, diff{"forward-payload", desc})
			}
		case refbungee.Chat:
			out = append(out, diff{"chat-recipients", desc})
		case refbungee.Connect:
			out = append(out, diff{"connect-target", desc})
		case refbungee.Kick:
			out = append(out, diff{"kick-target", desc})
		}
	}
	if len(out) == 0 {
		out = append(out, diff{"effects-mismatch", desc})
	}
	return out
}

// scenario reduces the reference's fine argument class (kept for the evidence) to the part that identifies
// a distinct kind of request: the sub-channel, plus a tag for malformed arguments and for the literals
// ALL/ONLINE written in another case.
func scenario(class string) string {
	sub := class
	if i := strings.IndexByte(class, '['); i >= 0 {
		sub = class[:i]
	}
	switch {
	case strings.Contains(class, "malformed"):
		return sub + "[malformed]"
	case strings.Contains(class, "target=") && strings.Contains(class, "-othercase"):
		return sub + "[literal-othercase]"
	}
	return sub
}

func keys(m map[string]bool) []string {
	var out []string
	for k := range m {
		out = append(out, k)
	}
	sort.Strings(out)
	return out
}

type replayCase struct {
	Mode      string          `json:"mode"`
	State     refbungee.State `json:"state"`
	Requester string          `json:"requester"`
	Payload   string          `json:"payload_hex"`
	History   []int           `json:"history,omitempty"`
}

type fail struct{ key, desc string }

// checkOne evaluates one (state, request) on the real responder against the reference.
func checkOne(r *vrt.R, st *refbungee.State, requester string, req request, count bool) (fails []fail, want []refbungee.Effect, defined bool) {
	want, class, defined := refbungee.Eval(st, requester, req.payload)
	me := st.Players[0]
	channel := refbungee.LegacyChannel
	if me.Modern {
		channel = refbungee.ModernChannel
	}
	res := process(st, requester, channel, req.payload)
	if count {
		r.Eval(1)
		r.Class(class)
	}
	if res.panicked {
		return []fail{{scenario(class) + "/panic", fmt.Sprintf("request %q (%s) payload %s\nstate %s\npanic: %v", req.label, class, hex.EncodeToString(req.payload), describe(st), res.panicVal)}}, want, defined
	}
	if !defined {
		return nil, want, defined
	}
	for _, d := range compare(want, res.got) {
		fails = append(fails, fail{scenario(class) + "/" + d.kind, fmt.Sprintf("request %q (%s) payload %s\nstate %s\n%s", req.label, class, hex.EncodeToString(req.payload), describe(st), d.desc)})
	}
	return fails, want, defined
}

func describe(st *refbungee.State) string {
	var sb strings.Builder
	for i, p := range st.Players {
		if i > 0 {
			sb.WriteString(" ")
		}
		srv := p.Server
		if srv == "" {
			srv = "-"
		}
		era := "legacy"
		if p.Modern {
			era = "modern"
		}
		fmt.Fprintf(&sb, "%s@%s(%s)", p.Name, srv, era)
	}
	return sb.String() + " requester=" + st.Players[0].Name
}

func TestVerif(t *testing.T) {
	vrt.Run(t, "C26", func(r *vrt.R) {
		var rc replayCase
		if r.ReplayInto(&rc) {
			replay(r, &rc)
			return
		}
		nPlayers := 3
		if r.Thorough() {
			nPlayers = 4
		}
		reqs := requests(r.Thorough())
		sts := states(nPlayers)
		// also: a proxy with a single player and a proxy where the requester is alone on its server
		single := refbungee.State{Servers: baseServers(), Players: []refbungee.Player{playerDefs[0]}}
		single.Players[0].Server, single.Players[0].Modern = "lobby", true
		sts = append(sts, single)

		sampled := 0
		for si := range sts {
			if !r.Mine(si) {
				continue
			}
			if r.Expired() {
				break
			}
			st := &sts[si]
			for _, req := range reqs {
				fails, want, defined := checkOne(r, st, st.Players[0].Name, req, true)
				if defined && len(want) > 0 {
					r.Distinct(describe(st) + "|" + string(req.payload))
				}
				for _, f := range fails {
					r.Violation(f.key, f.desc, replayCase{Mode: "enum", State: *st, Requester: st.Players[0].Name, Payload: hex.EncodeToString(req.payload)})
				}
				if defined && len(want) > 0 && sampled < 2 && si == r.Shard && strings.HasPrefix(req.label, "Forward ALL") {
					sampled++
					r.Sample(map[string]any{"state": describe(st), "request": req.label, "expected": refbungee.Canon(want)})
				}
			}
		}
		r.Extra("proxy_states", len(sts))
		r.Extra("requests_per_state", len(reqs))
		histories(r)
	})
}

// ---- histories: requests that change the proxy state followed by queries ----

func historyOps() []request {
	mk := func(label string, parts ...[]byte) request { return request{label, cat(parts...)} }
	return []request{
		mk("GetServer", utf("GetServer")),
		mk("GetPlayerServer bob", utf("GetPlayerServer"), utf("bob")),
		mk("PlayerList game", utf("PlayerList"), utf("game")),
		mk("PlayerCount ALL", utf("PlayerCount"), utf("ALL")),
		mk("Connect game", utf("Connect"), utf("game")),
		mk("Connect lobby", utf("Connect"), utf("lobby")),
		mk("ConnectOther bob game", utf("ConnectOther"), utf("bob"), utf("game")),
		mk("ConnectOther Carol hub", utf("ConnectOther"), utf("Carol"), utf("hub")),
		mk("KickPlayer bob", utf("KickPlayer"), utf("bob"), utf("bye")),
		mk("Forward ALL", utf("Forward"), utf("ALL"), forwardBody("ch", 3)),
		mk("Forward hub", utf("Forward"), utf("hub"), forwardBody("ch", 3)),
		mk("ForwardToPlayer bob", utf("ForwardToPlayer"), utf("bob"), forwardBody("ch", 3)),
		mk("Message Carol", utf("Message"), utf("Carol"), utf("hi")),
	}
}

func historyStart() refbungee.State {
	st := refbungee.State{Servers: baseServers(), Players: append([]refbungee.Player(nil), playerDefs[:3]...)}
	st.Players[0].Server, st.Players[0].Modern = "lobby", true
	st.Players[1].Server, st.Players[1].Modern = "lobby", false
	st.Players[2].Server, st.Players[2].Modern = "game", true
	return st
}

// runHistory applies ops; the proxy state evolves by the REFERENCE's effects (connect moves, kick removes),
// every step is compared. Returns the final state key and the first failure.
func runHistory(r *vrt.R, h []int) bfs.Outcome {
	ops := historyOps()
	st := historyStart()
	for step, oi := range h {
		fails, want, _ := checkOne(r, &st, "Alice", ops[oi], false)
		if len(fails) > 0 {
			return bfs.Outcome{FailKey: "history:" + fails[0].key, FailDesc: fmt.Sprintf("step %d of %v\n%s", step, labels(h), fails[0].desc)}
		}
		st = refbungee.Apply(&st, want)
		if st.Players[0].Name != "Alice" {
			return bfs.Outcome{Key: "requester-gone", Terminal: true}
		}
	}
	return bfs.Outcome{Key: describe(&st), Obs: describe(&st)}
}

func labels(h []int) []string {
	ops := historyOps()
	out := make([]string, len(h))
	for i, o := range h {
		out[i] = ops[o].label
	}
	return out
}

func histories(r *vrt.R) {
	depth := 3
	if r.Thorough() {
		depth = 5
	}
	n := len(historyOps())
	alphabet := make([]int, n)
	for i := range alphabet {
		alphabet[i] = i
	}
	// every history is run (no state merging across different last operations would be unsound here:
	// the state key is the abstract proxy state, which fully determines the future)
	res := bfs.Explore(bfs.Config[int]{Name: "histories", Ops: alphabet, Depth: depth, Shard: r.Shard, NShards: r.NShards, Deadline: r.DeadlineTime(),
		Run: func(h []int) bfs.Outcome { return runHistory(r, h) }})
	// bfs.Merge reports failures with its own replay format; re-key them to ours
	for k, f := range res.Failures {
		r.Violation(strings.TrimPrefix(k, "history:"), f.Desc, replayCase{Mode: "history", History: f.History})
	}
	res.Failures = nil
	res.Merge(r, "histories")
}

func replay(r *vrt.R, rc *replayCase) {
	switch rc.Mode {
	case "history":
		out := runHistory(r, rc.History)
		if out.FailKey != "" {
			r.Violation(strings.TrimPrefix(out.FailKey, "history:"), out.FailDesc, rc)
		}
	default:
		payload, _ := hex.DecodeString(rc.Payload)
		fails, _, _ := checkOne(r, &rc.State, rc.Requester, request{label: "replay", payload: payload}, true)
		for _, f := range fails {
			r.Violation(f.key, f.desc, rc)
		}
	}
}
