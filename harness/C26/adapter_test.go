package proxy

// C26 pass "adapter": the same reference (lib/refbungee) against the REAL provider adapter of bungee.go —
// newBungeeCordMessageResponder(true, player, proxy) over a real Proxy with real connectedPlayer /
// serverConnection objects on recording connections. Effects are observed where they leave the proxy:
// plugin messages written to backend connections, packets written to client connections, the
// ServerPreConnectEvent of a connection request. Broadcast helpers spawn goroutines, so every request runs
// inside one testing/synctest bubble and is followed by synctest.Wait().

import (
	"encoding/hex"
	"fmt"
	"net"
	"sort"
	"strings"
	"testing"
	"testing/synctest"

	"go.minekube.com/common/minecraft/component"
	"go.minekube.com/common/minecraft/component/codec"
	"go.minekube.com/gate/pkg/edition/java/proto/packet"
	"go.minekube.com/gate/pkg/edition/java/proto/packet/chat"
	"go.minekube.com/gate/pkg/edition/java/proto/packet/plugin"
	"go.minekube.com/gate/pkg/edition/java/proto/state"
	"go.minekube.com/gate/pkg/edition/java/proxy/zzverif/refbungee"
	"go.minekube.com/gate/pkg/edition/java/proxy/zzverif/vrt"
	"go.minekube.com/gate/pkg/gate/proto"
	"go.minekube.com/gate/pkg/util/uuid"
)

type c26Peer struct {
	def     refbungee.Player
	player  *connectedPlayer
	client  *g7Conn
	backend *g7Conn // nil when the player has no current server
	sc      *serverConnection
}

type c26World struct {
	w       *g7World
	peers   []*c26Peer
	connect []refbungee.Effect // connection requests seen as ServerPreConnectEvent (and denied)
}

func c26Plain(c component.Component) string {
	if c == nil {
		return "<nil>"
	}
	var sb strings.Builder
	if err := (codec.Plain{}).Marshal(&sb, c); err != nil {
		return fmt.Sprintf("<%T>", c)
	}
	return sb.String()
}

func c26Build(st *refbungee.State) *c26World { return c26BuildVariant(st, "") }

// c26Dead parses the variant "dead:<name>,<name>": players whose backend connection has died without the
// proxy having noticed yet (the player is still listed on its server; writes fail with ErrClosedConn).
func c26Dead(variant string) map[string]bool {
	dead := map[string]bool{}
	if rest, ok := strings.CutPrefix(variant, "dead:"); ok {
		for _, n := range strings.Split(rest, ",") {
			dead[n] = true
		}
	}
	return dead
}

func c26BuildVariant(st *refbungee.State, variant string) *c26World {
	cw := &c26World{w: g7NewWorld()}
	if variant == "disabled" {
		cw.w.Cfg.BungeePluginChannelEnabled = false
	}
	dead := c26Dead(variant)
	servers := map[string]*registeredServer{}
	for _, s := range st.Servers {
		servers[s.Name] = cw.w.server(s.Name, net.ParseIP(s.Host), s.Port)
	}
	for _, p := range st.Players {
		id, err := uuid.Parse(p.UUID)
		if err != nil {
			panic(err)
		}
		peer := &c26Peer{def: p}
		peer.client = g7NewConn("client:"+p.Name, g7Modern, state.Play)
		peer.client.remote = &net.TCPAddr{IP: net.ParseIP(p.Host), Port: p.Port}
		peer.player = cw.w.player(p.Name, id, peer.client, true)
		if p.Server != "" {
			ver := g7Legacy
			if p.Modern {
				ver = g7Modern
			}
			peer.backend = g7NewConn("backend:"+p.Name, ver, state.Play)
			peer.sc = g7Connect(peer.player, servers[p.Server], peer.backend)
			if dead[p.Name] {
				peer.backend.cancel()
			}
			if rest, ok := strings.CutPrefix(variant, "switch:"); ok {
				if name, old, _ := strings.Cut(rest, ":"); name == p.Name {
					servers[old].players.add(peer.player) // not yet removed from the server it is leaving
				}
			}
		}
		cw.peers = append(cw.peers, peer)
	}
	g7On(cw.w.Events, func(e *ServerPreConnectEvent) {
		cw.connect = append(cw.connect, refbungee.Effect{Kind: refbungee.Connect, Player: e.Player().Username(), Server: e.OriginalServer().ServerInfo().Name()})
		e.Deny()
	})
	return cw
}

func isBungeeChannel(ch string) bool {
	return ch == refbungee.LegacyChannel || ch == refbungee.ModernChannel
}

type c26Observed struct {
	backendWrites []refbungee.Effect // Kind=response: plugin message on a player's backend connection
	toClient      []string           // BungeeCord-channel plugin messages written to a CLIENT connection
	chat          []refbungee.Effect
	kick          []refbungee.Effect
	connect       []refbungee.Effect
	other         []string
	relayed       []string // raw payloads written to a client connection (a backend packet passed on unchanged)
}

func (cw *c26World) observe() *c26Observed {
	o := &c26Observed{connect: cw.connect}
	for _, p := range cw.peers {
		if p.backend != nil {
			for _, w := range p.backend.writes {
				if pm, ok := w.Pkt.(*plugin.Message); ok && isBungeeChannel(pm.Channel) {
					o.backendWrites = append(o.backendWrites, refbungee.Effect{Kind: refbungee.Response, Player: p.def.Name, Server: p.def.Server, Channel: pm.Channel, Data: append([]byte(nil), pm.Data...)})
				} else {
					o.other = append(o.other, fmt.Sprintf("backend of %s: %s %T", p.def.Name, w.Kind, w.Pkt))
				}
			}
		}
		for _, w := range p.client.writes {
			if w.Kind == "raw" || w.Kind == "rawbuf" {
				o.relayed = append(o.relayed, fmt.Sprintf("client of %s: %s", p.def.Name, hex.EncodeToString(w.Raw)))
				continue
			}
			switch pk := w.Pkt.(type) {
			case *plugin.Message:
				if isBungeeChannel(pk.Channel) {
					o.toClient = append(o.toClient, fmt.Sprintf("client of %s (on %q): channel %s data %s", p.def.Name, p.def.Server, pk.Channel, hex.EncodeToString(pk.Data)))
				} else {
					o.other = append(o.other, fmt.Sprintf("client of %s: plugin message %s", p.def.Name, pk.Channel))
				}
			case *chat.SystemChat:
				o.chat = append(o.chat, refbungee.Effect{Kind: refbungee.Chat, Player: p.def.Name, Text: c26Plain(pk.Component.AsComponentOrNil())})
			case *packet.Disconnect:
				o.kick = append(o.kick, refbungee.Effect{Kind: refbungee.Kick, Player: p.def.Name, Text: c26Plain(pk.Reason.AsComponentOrNil())})
			default:
				o.other = append(o.other, fmt.Sprintf("client of %s: %s %T", p.def.Name, w.Kind, w.Pkt))
			}
		}
	}
	return o
}

type c26Fail struct{ key, desc string }

func c26Scenario(class string) string {
	sub := class
	if i := strings.IndexByte(class, '['); i >= 0 {
		sub = class[:i]
	}
	switch {
	case strings.Contains(class, "malformed"):
		return sub + "[malformed]"
	case strings.Contains(class, "target=") && strings.Contains(class, "-othercase"):
		return sub + "[literal-othercase]"
	}
	return sub
}

func canon(es []refbungee.Effect) string { return strings.Join(refbungee.Canon(es), "\n  ") }

// c26AdapterCheck runs one request through the real adapter. Must be called inside a synctest bubble.
func c26AdapterCheck(st *refbungee.State, req refbungee.Request) (fails []c26Fail, class string, want []refbungee.Effect, defined bool) {
	return c26AdapterCheckVariant(st, req, "")
}

// c26AdapterCheckVariant: variant
//
//	""          the responder newBungeeCordMessageResponder(true, ...) is called directly
//	"handler"   the request arrives as a backend packet at the REAL backendPlaySessionHandler built by
//	            newBackendPlaySessionHandler (config flag wiring, consumed-or-relayed decision included)
//	"disabled"  the same with bungeePluginChannelEnabled=false in the config: no BungeeCord behaviour at all
//	"switch:p:a" direct, player p is in the window of a server switch a -> (its server in the state): its
//	            current connection already is the one to the new server and it is listed there, but it is
//	            STILL listed on the old server a (the old connection's teardown removes it later). The
//	            reference state is unchanged: p is on its new server; nothing may reach a through p
//	"dead:a,b"  direct, the backend connections of players a, b are dead (see c26Dead): what can only travel
//	            over a dead connection is not expected; a forward to a server is expected exactly once as
//	            long as ONE live connection to it exists
func c26AdapterCheckVariant(st *refbungee.State, req refbungee.Request, variant string) (fails []c26Fail, class string, want []refbungee.Effect, defined bool) {
	requester := st.Players[0].Name
	want, class, defined = refbungee.Eval(st, requester, req.Payload)
	dead := c26Dead(variant)
	if len(dead) > 0 {
		var w2 []refbungee.Effect
		for _, e := range want {
			switch e.Kind {
			case refbungee.Response:
				if dead[e.Player] {
					continue
				}
			case refbungee.Forward:
				alive := false
				for _, p := range st.Players {
					if p.Server == e.Server && !dead[p.Name] {
						alive = true
					}
				}
				if !alive {
					continue
				}
			}
			w2 = append(w2, e)
		}
		want = w2
	}
	if variant == "disabled" {
		want = nil
	}
	cw := c26BuildVariant(st, variant)
	me := cw.peers[0]
	ch := refbungee.LegacyChannel
	if me.def.Modern {
		ch = refbungee.ModernChannel
	}
	msg := &plugin.Message{Channel: ch, Data: append([]byte(nil), req.Payload...)}
	var call func()
	const rawMarker = "\x7frelayed-backend-packet"
	if variant == "handler" || variant == "disabled" {
		if me.sc == nil {
			return nil, class, want, false // a backend packet needs a backend connection
		}
		me.client.handler = newClientPlaySessionHandler(me.player)
		h, err := newBackendPlaySessionHandler(me.sc)
		if err != nil {
			panic(err)
		}
		pc := &proto.PacketContext{Direction: proto.ClientBound, Protocol: me.backend.protocol, PacketID: 0x18, Packet: msg, Payload: []byte(rawMarker)}
		call = func() { h.HandlePacket(pc) }
	} else {
		resp := newBungeeCordMessageResponder(true, me.player, cw.w.Proxy)
		call = func() { resp.Process(msg) }
	}
	panicked, pv := vrt.Catch(call)
	synctest.Wait()
	sc := "adapter:" + c26Scenario(class)
	if variant == "disabled" {
		sc = "adapter-disabled"
	}
	head := fmt.Sprintf("request %q (%s) payload %s\nstate %s variant=%q\n", req.Label, class, hex.EncodeToString(req.Payload), refbungee.Describe(st), variant)
	if panicked {
		return []c26Fail{{sc + "/panic", head + fmt.Sprintf("panic: %v", pv)}}, class, want, defined
	}
	if !defined {
		return nil, class, want, defined
	}
	o := cw.observe()
	if variant == "handler" && len(o.relayed) > 0 {
		fails = append(fails, c26Fail{sc + "/request-relayed-to-client", head + "a well-formed BungeeCord request was passed on to the client:\n  " + strings.Join(o.relayed, "\n  ")})
	}
	by := func(k string) []refbungee.Effect {
		var out []refbungee.Effect
		for _, e := range want {
			if e.Kind == k {
				out = append(out, e)
			}
		}
		return out
	}
	add := func(kind, format string, a ...any) {
		fails = append(fails, c26Fail{sc + "/" + kind, head + fmt.Sprintf(format, a...)})
	}
	// -- a BungeeCord payload must never be written to a player's client
	if len(o.toClient) > 0 {
		add("bungee-payload-sent-to-client", "BungeeCord channel message(s) written to CLIENT connections:\n  %s", strings.Join(o.toClient, "\n  "))
	}
	// -- backend writes: exact responses first, the rest must be the forwards (once per server, any one
	//    player's connection to that server)
	rest := append([]refbungee.Effect(nil), o.backendWrites...)
	var missing []refbungee.Effect
	for _, e := range by(refbungee.Response) {
		found := -1
		for i, g := range rest {
			if g.Player == e.Player && g.Channel == e.Channel && refbungee.NormalizeData(g.Data) == refbungee.NormalizeData(e.Data) {
				found = i
				break
			}
		}
		if found < 0 {
			missing = append(missing, e)
			continue
		}
		rest = append(rest[:found:found], rest[found+1:]...)
	}
	var missingFwd []refbungee.Effect
	for _, e := range by(refbungee.Forward) {
		found := -1
		for i, g := range rest {
			if g.Server == e.Server && string(g.Data) == string(e.Data) {
				found = i
				break
			}
		}
		if found < 0 {
			missingFwd = append(missingFwd, e)
			continue
		}
		rest = append(rest[:found:found], rest[found+1:]...)
	}
	descBW := fmt.Sprintf("want:\n  %s\nplugin messages written to backend connections:\n  %s", canon(append(by(refbungee.Response), by(refbungee.Forward)...)), canon(o.backendWrites))
	if len(missing) > 0 {
		kind := "response-missing"
		for _, g := range rest {
			for _, e := range missing {
				if g.Player != e.Player && refbungee.NormalizeData(g.Data) == refbungee.NormalizeData(e.Data) {
					kind = "response-on-wrong-connection"
				} else if g.Player == e.Player && kind == "response-missing" {
					kind = "response-layout"
				}
			}
		}
		add(kind, "%s", descBW)
	}
	if len(missingFwd) > 0 {
		kind := "forward-missing"
		for _, g := range rest {
			for _, e := range missingFwd {
				if g.Server == e.Server {
					kind = "forward-payload"
				}
			}
		}
		add(kind, "%s", descBW)
	}
	if len(missing) == 0 && len(missingFwd) == 0 && len(rest) > 0 {
		kind := "backend-write-unexpected"
		if len(by(refbungee.Forward)) > 0 {
			kind = "forward-more-than-once-per-server"
		}
		add(kind, "%s", descBW)
	}
	// -- chat / kick / connect
	cmp := func(k string, got []refbungee.Effect, kind string) {
		w := by(k)
		if k == refbungee.Connect {
			// a request to the player's own current server never reaches the pre-connect event
			// ("already connected"): not asserted here
			var w2 []refbungee.Effect
			for _, e := range w {
				cur := ""
				for _, p := range st.Players {
					if p.Name == e.Player {
						cur = p.Server
					}
				}
				if cur != e.Server {
					w2 = append(w2, e)
				}
			}
			w = w2
		}
		if canon(w) != canon(got) {
			add(kind, "want:\n  %s\ngot:\n  %s", canon(w), canon(got))
		}
	}
	connectsToOwn := false
	for _, e := range by(refbungee.Connect) {
		for _, p := range st.Players {
			if p.Name == e.Player && p.Server == e.Server {
				connectsToOwn = true
			}
		}
	}
	if !connectsToOwn { // the "already connected" notice is a chat message
		cmp(refbungee.Chat, o.chat, "chat-recipients")
	}
	cmp(refbungee.Kick, o.kick, "kick-target")
	cmp(refbungee.Connect, o.connect, "connect-target")
	return fails, class, want, defined
}

type c26AdapterReplay struct {
	Mode    string          `json:"mode"`
	State   refbungee.State `json:"state"`
	Payload string          `json:"payload_hex"`
	Variant string          `json:"variant,omitempty"`
}

// c26DeadVariants: every non-empty set of NON-requesting players that have a current server.
func c26DeadVariants(st *refbungee.State) []string {
	var cand []string
	for _, p := range st.Players[1:] {
		if p.Server != "" {
			cand = append(cand, p.Name)
		}
	}
	var out []string
	for mask := 1; mask < 1<<len(cand); mask++ {
		var names []string
		for i, n := range cand {
			if mask&(1<<i) != 0 {
				names = append(names, n)
			}
		}
		out = append(out, "dead:"+strings.Join(names, ","))
	}
	return out
}

// c26MixedForward: the request must be forwarded to a server to which both dead and live connections exist.
// Which connection the proxy tries first follows Go's map iteration order; such a case is repeated so that
// both orders are seen (the expected outcome does not depend on the order).
func c26MixedForward(st *refbungee.State, want []refbungee.Effect, variant string) bool {
	dead := c26Dead(variant)
	for _, e := range want {
		if e.Kind != refbungee.Forward {
			continue
		}
		d, a := false, false
		for _, p := range st.Players {
			if p.Server == e.Server {
				if dead[p.Name] {
					d = true
				} else {
					a = true
				}
			}
		}
		if d && a {
			return true
		}
	}
	return false
}

const c26MixedRepeats = 12

// c26SwitchVariants: every player that has a current server x every OTHER registered server as the one it
// is leaving.
func c26SwitchVariants(st *refbungee.State) []string {
	var out []string
	for _, p := range st.Players {
		if p.Server == "" {
			continue
		}
		for _, s := range st.Servers {
			if s.Name != p.Server {
				out = append(out, "switch:"+p.Name+":"+s.Name)
			}
		}
	}
	return out
}

// c26SwitchMixed: the server being left also has players that really are on it: whether the proxy meets
// the stale entry or a real one first follows the map iteration order -> repeated like the dead/live cases.
func c26SwitchMixed(st *refbungee.State, variant string) bool {
	rest, ok := strings.CutPrefix(variant, "switch:")
	if !ok {
		return false
	}
	_, old, _ := strings.Cut(rest, ":")
	for _, p := range st.Players {
		if p.Server == old {
			return true
		}
	}
	return false
}

func TestVerif(t *testing.T) {
	vrt.Run(t, "C26", func(r *vrt.R) {
		synctest.Test(r.T, func(t *testing.T) {
			var rc c26AdapterReplay
			if r.ReplayInto(&rc) {
				payload, _ := hex.DecodeString(rc.Payload)
				seen := map[string]bool{}
				for n := 0; n < c26MixedRepeats; n++ {
					fails, _, want, _ := c26AdapterCheckVariant(&rc.State, refbungee.Request{Label: "replay", Payload: payload}, rc.Variant)
					r.Eval(1)
					for _, f := range fails {
						if !seen[f.key] {
							seen[f.key] = true
							r.Violation(f.key, f.desc, rc)
						}
					}
					if !c26MixedForward(&rc.State, want, rc.Variant) && !c26SwitchMixed(&rc.State, rc.Variant) {
						break
					}
				}
				return
			}
			sts := refbungee.States(3)
			reqs := refbungee.Requests(r.Thorough(), r.Thorough())
			wellFormed := refbungee.Requests(false, false)
			var forwards []refbungee.Request // Forward <server|ALL|ONLINE> with the short channel name
			for _, req := range wellFormed {
				if strings.HasPrefix(req.Label, "Forward ") && strings.Contains(req.Label, ` "ch" `) {
					forwards = append(forwards, req)
				}
			}
			classes := map[string]int{}
			for si := range sts {
				if !r.Mine(si) {
					continue
				}
				if r.Expired() {
					break
				}
				st := &sts[si]
				for _, req := range reqs {
					fails, class, want, defined := c26AdapterCheck(st, req)
					r.Eval(1)
					classes["adapter:"+class]++
					if defined && len(want) > 0 {
						r.Distinct("adapter|" + refbungee.Describe(st) + "|" + string(req.Payload))
					}
					for _, f := range fails {
						r.Violation(f.key, f.desc, c26AdapterReplay{Mode: "adapter", State: *st, Payload: hex.EncodeToString(req.Payload)})
					}
				}
				// further variants (see c26AdapterCheckVariant) over the well-formed requests
				variants := append([]string{"handler", "disabled"}, c26DeadVariants(st)...)
				variants = append(variants, c26SwitchVariants(st)...)
				for _, variant := range variants {
					vclass := variant
					if strings.HasPrefix(variant, "dead:") {
						vclass = "dead-backend-connections"
					}
					vreqs := wellFormed
					if strings.HasPrefix(variant, "switch:") {
						vclass = "server-switch-window"
						vreqs = forwards // player lists / counts of the server being left are not defined in the window
					}
					for _, req := range vreqs {
						reps := 1
						for n := 0; n < reps; n++ {
							fails, class, want, defined := c26AdapterCheckVariant(st, req, variant)
							r.Eval(1)
							classes["adapter("+vclass+"):"+class]++
							if n == 0 && defined && (len(want) > 0 || variant == "disabled") {
								r.Distinct("adapter|" + variant + "|" + refbungee.Describe(st) + "|" + string(req.Payload))
							}
							for _, f := range fails {
								r.Violation(f.key, f.desc, c26AdapterReplay{Mode: "adapter", State: *st, Payload: hex.EncodeToString(req.Payload), Variant: variant})
							}
							if n == 0 && c26MixedForward(st, want, variant) {
								reps = c26MixedRepeats
								classes["adapter(dead-backend-connections):forward-over-mixed-dead-and-live-connections"]++
							}
							if n == 0 && defined && c26SwitchMixed(st, variant) {
								reps = c26MixedRepeats
								classes["adapter(server-switch-window):server-being-left-also-has-real-players"]++
							}
						}
					}
				}
			}
			keys := make([]string, 0, len(classes))
			for k := range classes {
				keys = append(keys, k)
			}
			sort.Strings(keys)
			for _, k := range keys {
				r.ClassN(k, classes[k])
			}
			r.Extra("adapter_proxy_states", len(sts))
			r.Extra("adapter_requests_per_state", len(reqs))
		})
	})
}
