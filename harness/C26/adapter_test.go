package proxy

// C26 pass "adapter": the same reference (lib/refbungee) against the REAL provider adapter of bungee.go —
// newBungeeCordMessageResponder(true, player, proxy) over a real Proxy with real connectedPlayer /
// serverConnection objects on recording connections. Effects are observed where they leave the proxy:
// plugin messages written to backend connections, packets written to client connections, the
// ServerPreConnectEvent of a connection request. Broadcast helpers spawn goroutines, so every request runs
// inside one testing/synctest bubble and is followed by synctest.Wait().

import (
	"encoding/hex"
	"fmt"
	"net"
	"sort"
	"strings"
	"testing"
	"testing/synctest"

	"go.minekube.com/common/minecraft/component"
	"go.minekube.com/common/minecraft/component/codec"
	"go.minekube.com/gate/pkg/edition/java/proto/packet"
	"go.minekube.com/gate/pkg/edition/java/proto/packet/chat"
	"go.minekube.com/gate/pkg/edition/java/proto/packet/plugin"
	"go.minekube.com/gate/pkg/edition/java/proto/state"
	"go.minekube.com/gate/pkg/edition/java/proxy/zzverif/refbungee"
	"go.minekube.com/gate/pkg/edition/java/proxy/zzverif/vrt"
	"go.minekube.com/gate/pkg/util/uuid"
)

type c26Peer struct {
	def     refbungee.Player
	player  *connectedPlayer
	client  *g7Conn
	backend *g7Conn // nil when the player has no current server
}

type c26World struct {
	w       *g7World
	peers   []*c26Peer
	connect []refbungee.Effect // connection requests seen as ServerPreConnectEvent (and denied)
}

func c26Plain(c component.Component) string {
	if c == nil {
		return "<nil>"
	}
	var sb strings.Builder
	if err := (codec.Plain{}).Marshal(&sb, c); err != nil {
		return fmt.Sprintf("<%T>", c)
	}
	return sb.String()
}

func c26Build(st *refbungee.State) *c26World {
	cw := &c26World{w: g7NewWorld()}
	servers := map[string]*registeredServer{}
	for _, s := range st.Servers {
		servers[s.Name] = cw.w.server(s.Name, net.ParseIP(s.Host), s.Port)
	}
	for _, p := range st.Players {
		id, err := uuid.Parse(p.UUID)
		if err != nil {
			panic(err)
		}
		peer := &c26Peer{def: p}
		peer.client = g7NewConn("client:"+p.Name, g7Modern, state.Play)
		peer.client.remote = &net.TCPAddr{IP: net.ParseIP(p.Host), Port: p.Port}
		peer.player = cw.w.player(p.Name, id, peer.client, true)
		if p.Server != "" {
			proto := g7Legacy
			if p.Modern {
				proto = g7Modern
			}
			peer.backend = g7NewConn("backend:"+p.Name, proto, state.Play)
			g7Connect(peer.player, servers[p.Server], peer.backend)
		}
		cw.peers = append(cw.peers, peer)
	}
	g7On(cw.w.Events, func(e *ServerPreConnectEvent) {
		cw.connect = append(cw.connect, refbungee.Effect{Kind: refbungee.Connect, Player: e.Player().Username(), Server: e.OriginalServer().ServerInfo().Name()})
		e.Deny()
	})
	return cw
}

func isBungeeChannel(ch string) bool {
	return ch == refbungee.LegacyChannel || ch == refbungee.ModernChannel
}

type c26Observed struct {
	backendWrites []refbungee.Effect // Kind=response: plugin message on a player's backend connection
	toClient      []string           // BungeeCord-channel plugin messages written to a CLIENT connection
	chat          []refbungee.Effect
	kick          []refbungee.Effect
	connect       []refbungee.Effect
	other         []string
}

func (cw *c26World) observe() *c26Observed {
	o := &c26Observed{connect: cw.connect}
	for _, p := range cw.peers {
		if p.backend != nil {
			for _, w := range p.backend.writes {
				if pm, ok := w.Pkt.(*plugin.Message); ok && isBungeeChannel(pm.Channel) {
					o.backendWrites = append(o.backendWrites, refbungee.Effect{Kind: refbungee.Response, Player: p.def.Name, Server: p.def.Server, Channel: pm.Channel, Data: append([]byte(nil), pm.Data...)})
				} else {
					o.other = append(o.other, fmt.Sprintf("backend of %s: %s %T", p.def.Name, w.Kind, w.Pkt))
				}
			}
		}
		for _, w := range p.client.writes {
			switch pk := w.Pkt.(type) {
			case *plugin.Message:
				if isBungeeChannel(pk.Channel) {
					o.toClient = append(o.toClient, fmt.Sprintf("client of %s (on %q): channel %s data %s", p.def.Name, p.def.Server, pk.Channel, hex.EncodeToString(pk.Data)))
				} else {
					o.other = append(o.other, fmt.Sprintf("client of %s: plugin message %s", p.def.Name, pk.Channel))
				}
			case *chat.SystemChat:
				o.chat = append(o.chat, refbungee.Effect{Kind: refbungee.Chat, Player: p.def.Name, Text: c26Plain(pk.Component.AsComponentOrNil())})
			case *packet.Disconnect:
				o.kick = append(o.kick, refbungee.Effect{Kind: refbungee.Kick, Player: p.def.Name, Text: c26Plain(pk.Reason.AsComponentOrNil())})
			default:
				o.other = append(o.other, fmt.Sprintf("client of %s: %s %T", p.def.Name, w.Kind, w.Pkt))
			}
		}
	}
	return o
}

type c26Fail struct{ key, desc string }

func c26Scenario(class string) string {
	sub := class
	if i := strings.IndexByte(class, '['); i >= 0 {
		sub = class[:i]
	}
	switch {
	case strings.Contains(class, "malformed"):
		return sub + "[malformed]"
	case strings.Contains(class, "target=") && strings.Contains(class, "-othercase"):
		return sub + "[literal-othercase]"
	}
	return sub
}

func canon(es []refbungee.Effect) string { return strings.Join(refbungee.Canon(es), "\n  ") }

// c26AdapterCheck runs one request through the real adapter. Must be called inside a synctest bubble.
func c26AdapterCheck(st *refbungee.State, req refbungee.Request) (fails []c26Fail, class string, want []refbungee.Effect, defined bool) {
	requester := st.Players[0].Name
	want, class, defined = refbungee.Eval(st, requester, req.Payload)
	cw := c26Build(st)
	me := cw.peers[0]
	resp := newBungeeCordMessageResponder(true, me.player, cw.w.Proxy)
	ch := refbungee.LegacyChannel
	if me.def.Modern {
		ch = refbungee.ModernChannel
	}
	panicked, pv := vrt.Catch(func() {
		resp.Process(&plugin.Message{Channel: ch, Data: append([]byte(nil), req.Payload...)})
	})
	synctest.Wait()
	sc := "adapter:" + c26Scenario(class)
	head := fmt.Sprintf("request %q (%s) payload %s\nstate %s\n", req.Label, class, hex.EncodeToString(req.Payload), refbungee.Describe(st))
	if panicked {
		return []c26Fail{{sc + "/panic", head + fmt.Sprintf("panic: %v", pv)}}, class, want, defined
	}
	if !defined {
		return nil, class, want, defined
	}
	o := cw.observe()
	by := func(k string) []refbungee.Effect {
		var out []refbungee.Effect
		for _, e := range want {
			if e.Kind == k {
				out = append(out, e)
			}
		}
		return out
	}
	add := func(kind, format string, a ...any) {
		fails = append(fails, c26Fail{sc + "/" + kind, head + fmt.Sprintf(format, a...)})
	}
	// -- a BungeeCord payload must never be written to a player's client
	if len(o.toClient) > 0 {
		add("bungee-payload-sent-to-client", "BungeeCord channel message(s) written to CLIENT connections:\n  %s", strings.Join(o.toClient, "\n  "))
	}
	// -- backend writes: exact responses first, the rest must be the forwards (once per server, any one
	//    player's connection to that server)
	rest := append([]refbungee.Effect(nil), o.backendWrites...)
	var missing []refbungee.Effect
	for _, e := range by(refbungee.Response) {
		found := -1
		for i, g := range rest {
			if g.Player == e.Player && g.Channel == e.Channel && refbungee.NormalizeData(g.Data) == refbungee.NormalizeData(e.Data) {
				found = i
				break
			}
		}
		if found < 0 {
			missing = append(missing, e)
			continue
		}
		rest = append(rest[:found:found], rest[found+1:]...)
	}
	var missingFwd []refbungee.Effect
	for _, e := range by(refbungee.Forward) {
		found := -1
		for i, g := range rest {
			if g.Server == e.Server && string(g.Data) == string(e.Data) {
				found = i
				break
			}
		}
		if found < 0 {
			missingFwd = append(missingFwd, e)
			continue
		}
		rest = append(rest[:found:found], rest[found+1:]...)
	}
	descBW := fmt.Sprintf("want:\n  %s\nplugin messages written to backend connections:\n  %s", canon(append(by(refbungee.Response), by(refbungee.Forward)...)), canon(o.backendWrites))
	if len(missing) > 0 {
		kind := "response-missing"
		for _, g := range rest {
			for _, e := range missing {
				if g.Player != e.Player && refbungee.NormalizeData(g.Data) == refbungee.NormalizeData(e.Data) {
					kind = "response-on-wrong-connection"
				} else if g.Player == e.Player && kind == "response-missing" {
					kind = "response-layout"
				}
			}
		}
		add(kind, "%s", descBW)
	}
	if len(missingFwd) > 0 {
		kind := "forward-missing"
		for _, g := range rest {
			for _, e := range missingFwd {
				if g.Server == e.Server {
					kind = "forward-payload"
				}
			}
		}
		add(kind, "%s", descBW)
	}
	if len(missing) == 0 && len(missingFwd) == 0 && len(rest) > 0 {
		kind := "backend-write-unexpected"
		if len(by(refbungee.Forward)) > 0 {
			kind = "forward-more-than-once-per-server"
		}
		add(kind, "%s", descBW)
	}
	// -- chat / kick / connect
	cmp := func(k string, got []refbungee.Effect, kind string) {
		w := by(k)
		if k == refbungee.Connect {
			// a request to the player's own current server never reaches the pre-connect event
			// ("already connected"): not asserted here
			var w2 []refbungee.Effect
			for _, e := range w {
				cur := ""
				for _, p := range st.Players {
					if p.Name == e.Player {
						cur = p.Server
					}
				}
				if cur != e.Server {
					w2 = append(w2, e)
				}
			}
			w = w2
		}
		if canon(w) != canon(got) {
			add(kind, "want:\n  %s\ngot:\n  %s", canon(w), canon(got))
		}
	}
	connectsToOwn := false
	for _, e := range by(refbungee.Connect) {
		for _, p := range st.Players {
			if p.Name == e.Player && p.Server == e.Server {
				connectsToOwn = true
			}
		}
	}
	if !connectsToOwn { // the "already connected" notice is a chat message
		cmp(refbungee.Chat, o.chat, "chat-recipients")
	}
	cmp(refbungee.Kick, o.kick, "kick-target")
	cmp(refbungee.Connect, o.connect, "connect-target")
	return fails, class, want, defined
}

type c26AdapterReplay struct {
	Mode    string          `json:"mode"`
	State   refbungee.State `json:"state"`
	Payload string          `json:"payload_hex"`
}

func TestVerif(t *testing.T) {
	vrt.Run(t, "C26", func(r *vrt.R) {
		synctest.Test(r.T, func(t *testing.T) {
			var rc c26AdapterReplay
			if r.ReplayInto(&rc) {
				payload, _ := hex.DecodeString(rc.Payload)
				fails, _, _, _ := c26AdapterCheck(&rc.State, refbungee.Request{Label: "replay", Payload: payload})
				r.Eval(1)
				for _, f := range fails {
					r.Violation(f.key, f.desc, rc)
				}
				return
			}
			sts := refbungee.States(3)
			reqs := refbungee.Requests(r.Thorough(), r.Thorough())
			classes := map[string]int{}
			for si := range sts {
				if !r.Mine(si) {
					continue
				}
				if r.Expired() {
					break
				}
				st := &sts[si]
				for _, req := range reqs {
					fails, class, want, defined := c26AdapterCheck(st, req)
					r.Eval(1)
					classes["adapter:"+class]++
					if defined && len(want) > 0 {
						r.Distinct("adapter|" + refbungee.Describe(st) + "|" + string(req.Payload))
					}
					for _, f := range fails {
						r.Violation(f.key, f.desc, c26AdapterReplay{Mode: "adapter", State: *st, Payload: hex.EncodeToString(req.Payload)})
					}
				}
			}
			keys := make([]string, 0, len(classes))
			for k := range classes {
				keys = append(keys, k)
			}
			sort.Strings(keys)
			for _, k := range keys {
				r.ClassN(k, classes[k])
			}
			r.Extra("adapter_proxy_states", len(sts))
			r.Extra("adapter_requests_per_state", len(reqs))
		})
	})
}
