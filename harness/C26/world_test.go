package c26

import (
	"fmt"
	"net"
	"strings"

	"go.minekube.com/common/minecraft/component"
	"go.minekube.com/common/minecraft/component/codec"
	"go.minekube.com/gate/pkg/command"
	"go.minekube.com/gate/pkg/edition/java/proto/packet/plugin"
	"go.minekube.com/gate/pkg/edition/java/proto/version"
	"go.minekube.com/gate/pkg/edition/java/proxy/bungeecord"
	"go.minekube.com/gate/pkg/edition/java/proxy/message"
	"go.minekube.com/gate/pkg/edition/java/proxy/zzverif/refbungee"
	"go.minekube.com/gate/pkg/gate/proto"
	"go.minekube.com/gate/pkg/util/uuid"
)

// world is a fake proxy behind bungeecord.Providers. It holds the same abstract state the reference
// evaluates and records every externally visible effect in the reference's vocabulary.
type world struct {
	st        refbungee.State
	requester string
	got       []refbungee.Effect
}

func plain(c component.Component) string {
	var sb strings.Builder
	if c == nil {
		return "<nil>"
	}
	if err := (codec.Plain{}).Marshal(&sb, c); err != nil {
		return fmt.Sprintf("<%T>", c)
	}
	return sb.String()
}

func (w *world) playerState(name string) *refbungee.Player {
	for i := range w.st.Players {
		if strings.EqualFold(w.st.Players[i].Name, name) {
			return &w.st.Players[i]
		}
	}
	return nil
}

// ---- Player ----

type fPlayer struct {
	w    *world
	name string // canonical name
}

func (p *fPlayer) s() *refbungee.Player { return p.w.playerState(p.name) }
func (p *fPlayer) ID() uuid.UUID {
	id, err := uuid.Parse(p.s().UUID)
	if err != nil {
		panic(err)
	}
	return id
}
func (p *fPlayer) Username() string { return p.name }
func (p *fPlayer) RemoteAddr() net.Addr {
	s := p.s()
	return &net.TCPAddr{IP: net.ParseIP(s.Host), Port: s.Port}
}
func (p *fPlayer) Disconnect(reason component.Component) {
	p.w.got = append(p.w.got, refbungee.Effect{Kind: refbungee.Kick, Player: p.name, Text: plain(reason)})
}
func (p *fPlayer) Protocol() proto.Protocol { return version.Minecraft_1_20_2.Protocol }

// SendMessage is not part of bungeecord.Player today; it is here so that an implementation that needs to
// message a single player (what Message/MessageRaw require) has something to call.
func (p *fPlayer) SendMessage(msg component.Component, _ ...command.MessageOption) error {
	p.w.got = append(p.w.got, refbungee.Effect{Kind: refbungee.Chat, Player: p.name, Text: plain(msg)})
	return nil
}

// ---- Server ----

type fServer struct {
	w    *world
	name string
}

func (s *fServer) st() *refbungee.Server {
	for i := range s.w.st.Servers {
		if s.w.st.Servers[i].Name == s.name {
			return &s.w.st.Servers[i]
		}
	}
	return nil
}
func (s *fServer) on() []string {
	var out []string
	for _, p := range s.w.st.Players {
		if p.Server == s.name {
			out = append(out, p.Name)
		}
	}
	return out
}
func (s *fServer) Name() string     { return s.name }
func (s *fServer) PlayerCount() int { return len(s.on()) }

// BroadcastPluginMessage: the backend receives the payload once if somebody is connected to it (the
// payload travels over one player's backend connection), otherwise it is dropped.
func (s *fServer) BroadcastPluginMessage(id message.ChannelIdentifier, data []byte) {
	if len(s.on()) == 0 {
		return
	}
	ch := "<nil>"
	if id != nil {
		ch = id.ID()
	}
	s.w.got = append(s.w.got, refbungee.Effect{Kind: refbungee.Forward, Server: s.name, Channel: ch, Data: append([]byte(nil), data...)})
}
func (s *fServer) Connect(p bungeecord.Player) {
	s.w.got = append(s.w.got, refbungee.Effect{Kind: refbungee.Connect, Player: p.Username(), Server: s.name})
}
func (s *fServer) Players() []bungeecord.Player {
	var out []bungeecord.Player
	for _, n := range s.on() {
		out = append(out, &fPlayer{w: s.w, name: n})
	}
	return out
}
func (s *fServer) BroadcastMessage(c component.Component) {
	for _, n := range s.on() {
		s.w.got = append(s.w.got, refbungee.Effect{Kind: refbungee.Chat, Player: n, Text: plain(c)})
	}
}
func (s *fServer) Addr() net.Addr {
	st := s.st()
	return &net.TCPAddr{IP: net.ParseIP(st.Host), Port: st.Port}
}

// ---- ServerConnection (one per player that has a current server) ----

type fConn struct {
	w      *world
	player string
}

func (c *fConn) Name() string { return c.w.playerState(c.player).Server }
func (c *fConn) Protocol() proto.Protocol {
	if c.w.playerState(c.player).Modern {
		return version.Minecraft_1_20_2.Protocol
	}
	return version.Minecraft_1_12_2.Protocol
}
func (c *fConn) WritePacket(p proto.Packet) error {
	pm, ok := p.(*plugin.Message)
	if !ok {
		c.w.got = append(c.w.got, refbungee.Effect{Kind: fmt.Sprintf("packet:%T", p), Player: c.player})
		return nil
	}
	c.w.got = append(c.w.got, refbungee.Effect{Kind: refbungee.Response, Player: c.player, Server: c.Name(), Channel: pm.Channel, Data: append([]byte(nil), pm.Data...)})
	return nil
}

// ---- Providers ----

func (w *world) PlayerByName(username string) bungeecord.Player {
	if p := w.playerState(username); p != nil {
		return &fPlayer{w: w, name: p.Name}
	}
	return nil
}
func (w *world) PlayerCount() int { return len(w.st.Players) }
func (w *world) Players() []bungeecord.Player {
	var out []bungeecord.Player
	for _, p := range w.st.Players {
		out = append(out, &fPlayer{w: w, name: p.Name})
	}
	return out
}
func (w *world) BroadcastMessage(c component.Component) {
	for _, p := range w.st.Players {
		w.got = append(w.got, refbungee.Effect{Kind: refbungee.Chat, Player: p.Name, Text: plain(c)})
	}
}
func (w *world) Server(name string) bungeecord.Server {
	for _, s := range w.st.Servers {
		if strings.EqualFold(s.Name, name) {
			return &fServer{w: w, name: s.Name}
		}
	}
	return nil
}
func (w *world) Servers() []bungeecord.Server {
	var out []bungeecord.Server
	for _, s := range w.st.Servers {
		out = append(out, &fServer{w: w, name: s.Name})
	}
	return out
}
func (w *world) connOf(name string) bungeecord.ServerConnection {
	p := w.playerState(name)
	if p == nil || p.Server == "" {
		return nil
	}
	return &fConn{w: w, player: p.Name}
}
func (w *world) ConnectedServer() bungeecord.ServerConnection { return w.connOf(w.requester) }

// ConnectedServerOf is not part of bungeecord.Providers today; it is here so that an implementation
// that needs another player's backend connection (ForwardToPlayer, GetPlayerServer) has something to call.
func (w *world) ConnectedServerOf(p bungeecord.Player) bungeecord.ServerConnection {
	if p == nil {
		return nil
	}
	return w.connOf(p.Username())
}

var _ bungeecord.Providers = (*world)(nil)
