package proxy

// C22 - commands run on the proxy or reach the backend exactly once.
//
// Engine enum: every (protocol family x registered proxy tree x permission x command line x event
// outcome) of the bounded family is pushed through the REAL clientPlaySessionHandler.HandlePacket ->
// chatHandler.handleCommand -> chatQueue -> executeCommand path, with a deterministic event manager that
// scripts the CommandExecuteEvent outcome, counting proxy command invocations and recording what the
// backend connection receives. The chat queue's goroutines run for real; the harness waits for the
// queue's head future (no wall-clock oracle; a 30 s watchdog only marks the run non-exhaustive).

import (
	"errors"
	"fmt"
	"os"
	"strings"
	"testing"
	"time"

	"github.com/go-logr/logr"
	"github.com/robinbraemer/event"
	"go.minekube.com/brigodier"

	"go.minekube.com/gate/pkg/command"
	"go.minekube.com/gate/pkg/edition/java/config"
	"go.minekube.com/gate/pkg/edition/java/proto/packet/chat"
	"go.minekube.com/gate/pkg/edition/java/proto/state"
	"go.minekube.com/gate/pkg/edition/java/proto/version"
	"go.minekube.com/gate/pkg/edition/java/proxy/crypto"
	"go.minekube.com/gate/pkg/edition/java/proxy/crypto/keyrevision"
	"go.minekube.com/gate/pkg/edition/java/proxy/zzverif/vrt"
	"go.minekube.com/gate/pkg/gate/proto"
)

type c22case struct {
	Family string `json:"family"`
	Tree   int    `json:"tree"`
	Perm   bool   `json:"perm"`
	Line   string `json:"line"`
	Deny   bool   `json:"deny"`
	Fwd    bool   `json:"forward"`
	Rw     bool   `json:"rewrite"`
	NewCmd string `json:"new_cmd"`
}

func (c c22case) String() string {
	ev := "allow"
	if c.Deny {
		ev = "deny"
	}
	if c.Fwd {
		ev += "+forward"
	}
	if c.Rw {
		ev += fmt.Sprintf("+rewrite(%q)", c.NewCmd)
	}
	return fmt.Sprintf("family=%s tree=%s perm=%v line=%q event=%s", c.Family, treeNames[c.Tree], c.Perm, c.Line, ev)
}

var families = []string{"legacy", "keyed-unsigned", "keyed-signedflag", "session", "session-offset", "unsigned",
	// signed commands: the player holds an identified key (keyed) / the command carries argument signatures
	// (session); forceKeyAuthentication on (the default) and off ("-noforce")
	"keyed-key-v2", "keyed-key-v2-noforce", "keyed-key-v1", "session-signed", "session-signed-noforce",
	// quantifier audit: the signed session command on the other side of the 1.20.5 gate (a 1.20.5+ client still sends
	// SessionPlayerCommand when an argument is signed; a rewritten one is rebuilt as UnsignedPlayerCommand there)
	"session-signed-1.21", "session-signed-1.21-noforce"}

// signedForce: families where rewriting the command makes the proxy disconnect the player (illegal protocol
// state) instead of delivering a command whose signature no longer matches.
var signedForce = map[string]bool{"keyed-key-v2": true, "session-signed": true, "session-signed-1.21": true}

type vKey struct {
	crypto.IdentifiedKey // only KeyRevision is consulted on this path
	rev                  keyrevision.Revision
}

func (k vKey) KeyRevision() keyrevision.Revision { return k.rev }

var familyProtocol = map[string]proto.Protocol{
	"legacy":           version.Minecraft_1_18_2.Protocol,
	"keyed-unsigned":   version.Minecraft_1_19_1.Protocol,
	"keyed-signedflag": version.Minecraft_1_19_1.Protocol,
	"session":          version.Minecraft_1_20_3.Protocol,
	"session-offset":   version.Minecraft_1_19_4.Protocol,
	"unsigned":         version.Minecraft_1_21.Protocol,

	"keyed-key-v2":                version.Minecraft_1_19_1.Protocol,
	"keyed-key-v2-noforce":        version.Minecraft_1_19_1.Protocol,
	"keyed-key-v1":                version.Minecraft_1_19.Protocol,
	"session-signed":              version.Minecraft_1_20_3.Protocol,
	"session-signed-noforce":      version.Minecraft_1_20_3.Protocol,
	"session-signed-1.21":         version.Minecraft_1_21.Protocol,
	"session-signed-1.21-noforce": version.Minecraft_1_21.Protocol,
}

var treeNames = []string{"none", "a", "a{b}", "a[perm]", "a{b[perm]}", "a(non-exec){b}", "a(run-error)", "a{<int>}", "a[perm]{b}+alias:al", "a[perm](non-exec){b}+alias:al"}

const aliasTree = 8

// aliasGroupTree: the aliased root literal is a pure GROUP (requirement, children, no executor of its own) - the other
// value of "has an executor", which Manager.shallowCopy reads next to the requirement.
const aliasGroupTree = 9

func isAliasTree(t int) bool { return t == aliasTree || t == aliasGroupTree }

// incompleteLines: command lines that match a registered path completely but end on a node without an
// executable (brigadier reports these as "unknown or incomplete command").
var incompleteLines = map[int]map[string]bool{5: {"a": true}, aliasGroupTree: {"a": true, "al": true}}

var lines = []string{"a", "a b", "a x", "a 5", "b", "", " a", "a ", "A", "a  b", "/a", "/a b", "//b"}

// auditLines (quantifier audit, "all command lines"): a non-ASCII argument, and lines containing a character that
// Minecraft chat forbids (section sign / control character): for those the proxy - like vanilla - disconnects the
// player; then the command must vanish completely (neither run nor delivered), otherwise the normal rule applies.
var auditLines = []string{"b \u00e9", "b \u00a7", "a\x01"}

func illegalLine(s string) bool { // written from the Minecraft rule, not taken from pkg/util/validation
	for _, c := range s {
		if c == 0xa7 || c < 0x20 || c == 0x7f {
			return true
		}
	}
	return false
}

// aliasLines are added for the alias tree (and for tree "none" as the control: the same lines name nothing there).
var aliasLines = []string{"al", "al b", "AL"}

type runRec struct {
	runs []string // "node:input"
}

func (rr *runRec) cmd(node string, err error) brigodier.Command {
	return command.Command(func(c *command.Context) error {
		rr.runs = append(rr.runs, node+":"+c.Input)
		return err
	})
}

var requireUse = command.Requires(func(c *command.RequiresContext) bool { return c.Source != nil && c.HasPermission("use") })

// registerTree registers tree t and returns the reference view: top-level name -> usable by a player with/without "use".
func registerTree(m *command.Manager, t int, rr *runRec) (topNeedsPerm map[string]bool) {
	topNeedsPerm = map[string]bool{}
	switch t {
	case 0:
	case 1:
		m.Register(brigodier.Literal("a").Executes(rr.cmd("a", nil)))
		topNeedsPerm["a"] = false
	case 2:
		m.Register(brigodier.Literal("a").Executes(rr.cmd("a", nil)).Then(brigodier.Literal("b").Executes(rr.cmd("a b", nil))))
		topNeedsPerm["a"] = false
	case 3:
		m.Register(brigodier.Literal("a").Requires(requireUse).Executes(rr.cmd("a", nil)))
		topNeedsPerm["a"] = true
	case 4:
		m.Register(brigodier.Literal("a").Executes(rr.cmd("a", nil)).Then(brigodier.Literal("b").Requires(requireUse).Executes(rr.cmd("a b", nil))))
		topNeedsPerm["a"] = false
	case 5:
		m.Register(brigodier.Literal("a").Then(brigodier.Literal("b").Executes(rr.cmd("a b", nil))))
		topNeedsPerm["a"] = false
	case 6:
		m.Register(brigodier.Literal("a").Executes(rr.cmd("a", errors.New("boom"))))
		topNeedsPerm["a"] = false
	case 7:
		m.Register(brigodier.Literal("a").Executes(rr.cmd("a", nil)).Then(brigodier.Argument("n", brigodier.Int).Executes(rr.cmd("a <n>", nil))))
		topNeedsPerm["a"] = false
	case aliasTree:
		m.RegisterWithAliases(brigodier.Literal("a").Requires(requireUse).Executes(rr.cmd("a", nil)).Then(brigodier.Literal("b").Executes(rr.cmd("a b", nil))), "al")
		topNeedsPerm["a"] = true
		topNeedsPerm["al"] = true
	case aliasGroupTree:
		m.RegisterWithAliases(brigodier.Literal("a").Requires(requireUse).Then(brigodier.Literal("b").Executes(rr.cmd("a b", nil))), "al")
		topNeedsPerm["a"] = true
		topNeedsPerm["al"] = true
	default:
		panic("tree")
	}
	return
}

var c22t0 = time.Unix(1_700_000_000, 0)

func clientPacket(c c22case) proto.Packet {
	switch c.Family {
	case "legacy":
		return &chat.LegacyChat{Message: "/" + c.Line}
	case "keyed-unsigned":
		return &chat.KeyedPlayerCommand{Unsigned: true, Command: c.Line, Timestamp: c22t0}
	case "keyed-signedflag", "keyed-key-v2", "keyed-key-v2-noforce", "keyed-key-v1":
		return &chat.KeyedPlayerCommand{Unsigned: false, Command: c.Line, Timestamp: c22t0}
	case "session-signed", "session-signed-noforce", "session-signed-1.21", "session-signed-1.21-noforce":
		return &chat.SessionPlayerCommand{Command: c.Line, Timestamp: c22t0, Salt: 7,
			ArgumentSignatures: chat.ArgumentSignatures{Entries: []chat.ArgumentSignature{{Name: "n", Signature: make([]byte, 256)}}}}
	case "session":
		return &chat.SessionPlayerCommand{Command: c.Line, Timestamp: c22t0}
	case "session-offset":
		return &chat.SessionPlayerCommand{Command: c.Line, Timestamp: c22t0, LastSeenMessages: chat.LastSeenMessages{Offset: 3}}
	case "unsigned":
		return &chat.UnsignedPlayerCommand{SessionPlayerCommand: chat.SessionPlayerCommand{Command: c.Line, Timestamp: c22t0}}
	}
	panic("family")
}

// backendCommands extracts the command lines (without leading slash) the backend received; other is
// everything that is neither a command nor a chat acknowledgement.
func backendCommands(pkts []proto.Packet) (cmds []string, other []string) {
	for _, p := range pkts {
		switch t := p.(type) {
		case *chat.LegacyChat:
			if strings.HasPrefix(t.Message, "/") {
				cmds = append(cmds, strings.TrimPrefix(t.Message, "/"))
			} else {
				other = append(other, fmt.Sprintf("LegacyChat(non-command %q)", t.Message))
			}
		case *chat.KeyedPlayerCommand:
			cmds = append(cmds, t.Command)
		case *chat.SessionPlayerCommand:
			cmds = append(cmds, t.Command)
		case *chat.UnsignedPlayerCommand:
			cmds = append(cmds, t.Command)
		case *chat.ChatAcknowledgement:
			// acknowledgement pass-through of a consumed command (C21's subject), not a command
		default:
			other = append(other, fmt.Sprintf("%T", p))
		}
	}
	return
}

func firstToken(s string) string {
	if i := strings.IndexByte(s, ' '); i >= 0 {
		return s[:i]
	}
	return s
}

type c22fail struct{ key, desc string }

func runC22(c c22case) (fails []c22fail, class string, hung bool) {
	bad := func(key, f string, a ...any) {
		fails = append(fails, c22fail{c.Family + "/" + key, fmt.Sprintf(f, a...) + "\ncase: " + c.String()})
	}
	protocol := familyProtocol[c.Family]
	client := newVConn("client", protocol, state.Play)
	backend := newVConn("backend", protocol, state.Play)
	mgr := &detEvent{}
	fired := 0
	event.Subscribe(mgr, 0, func(e *CommandExecuteEvent) {
		fired++
		if c.Deny {
			e.SetAllowed(false)
		}
		if c.Fwd {
			e.SetForward(true)
		}
		if c.Rw {
			e.SetCommand(c.NewCmd)
		}
	})
	cfg := &config.Config{ForceKeyAuthentication: !strings.HasSuffix(c.Family, "-noforce")}
	perms := map[string]bool{}
	if c.Perm {
		perms["use"] = true
	}
	player, px := newVPlayer(client, cfg, mgr, perms)
	switch c.Family {
	case "keyed-key-v2", "keyed-key-v2-noforce":
		player.playerKey = vKey{rev: keyrevision.LinkedV2}
	case "keyed-key-v1":
		player.playerKey = vKey{rev: keyrevision.GenericV1}
	}
	rr := &runRec{}
	topNeedsPerm := registerTree(px.Command(), c.Tree, rr)
	sc := &serverConnection{player: player, log: logr.Discard()}
	sc.connection = backend
	player.connectedServer_ = sc
	h := newClientPlaySessionHandler(player)

	h.HandlePacket(&proto.PacketContext{Direction: proto.ServerBound, Protocol: protocol, Packet: clientPacket(c), Payload: []byte{0}})

	// wait until everything queued so far has been written (the queue's head future completes after the write)
	done := make(chan struct{})
	cq := player.chatQueue
	cq.internalLock.Lock()
	head := cq.head
	cq.internalLock.Unlock()
	head.ThenAccept(func(any) { close(done) })
	select {
	case <-done:
	case <-time.After(30 * time.Second):
		return nil, "hung", true
	}

	cmds, other := backendCommands(backend.packets)
	replies := len(client.packets) // system chat messages (syntax error / "An error occurred")
	for _, o := range other {
		bad("unexpected-backend-packet", "backend received %s", o)
	}
	if len(backend.payloads) != 0 {
		bad("unexpected-backend-packet", "backend received %d raw payload(s)", len(backend.payloads))
	}

	eff := c.Line
	if c.Rw {
		eff = c.NewCmd
	}
	// A signed command that the event REWROTE cannot be delivered with a valid signature: with
	// forceKeyAuthentication the defined outcome is that the proxy disconnects the player. Then (and only
	// then) "nothing reached the backend" is accepted where the statement promises one delivery.
	kicked := signedForce[c.Family] && c.Rw && !c.Deny && client.closes > 0
	if illegalLine(c.Line) && client.closes > 0 {
		if len(rr.runs) != 0 {
			bad("illegal-characters/kicked-but-executed", "player was disconnected for illegal characters in %q, proxy still ran %v", c.Line, rr.runs)
		}
		if len(cmds) != 0 {
			bad("illegal-characters/kicked-but-reached-backend", "player was disconnected for illegal characters in %q, backend still received %q", c.Line, cmds)
		}
		return fails, "kicked-illegal-characters", false
	}
	needsPerm, registered := topNeedsPerm[firstToken(eff)]
	names := registered && (!needsPerm || c.Perm)

	switch {
	case c.Deny:
		class = "denied"
		if len(cmds) != 0 {
			bad("denied/reached-backend", "event denied the command, backend still received %q", cmds)
		}
		if len(rr.runs) != 0 {
			bad("denied/executed", "event denied the command, proxy still ran %v", rr.runs)
		}
	case c.Fwd:
		class = "forwarded-by-event"
		if len(rr.runs) != 0 {
			bad("forward/executed", "event asked to forward, proxy still ran %v", rr.runs)
		}
		if kicked && len(cmds) == 0 {
			class = "forwarded-by-event:kicked"
		} else if len(cmds) != 1 {
			bad("forward/backend-count", "event asked to forward: backend received %d commands %q, want exactly one", len(cmds), cmds)
		} else if cmds[0] != eff {
			if c.Rw && cmds[0] == c.Line {
				bad("forward/rewrite-ignored", "backend received the ORIGINAL %q, event rewrote it to %q", cmds[0], eff)
			} else {
				bad("forward/backend-content", "backend received %q, want %q", cmds[0], eff)
			}
		}
	case names:
		class = "proxy-command"
		if len(cmds) != 0 {
			if len(rr.runs) != 0 {
				bad("proxy-command/executed-and-reached-backend", "proxy ran %v AND backend received %q", rr.runs, cmds)
			} else if incompleteLines[c.Tree][eff] {
				// one shared root cause (executeCommand treats brigodier's "unknown or incomplete" as unknown): family-agnostic key
				fails = append(fails, c22fail{"incomplete-proxy-command/forwarded-to-backend", fmt.Sprintf("%q is an incomplete invocation of registered proxy command %q (node without executable): nothing ran on the proxy, no reply, and the backend received %q", eff, firstToken(eff), cmds) + "\ncase: " + c.String()})
			} else {
				bad("proxy-command/reached-backend-instead", "%q names registered proxy command %q which the player may use, yet nothing ran on the proxy and the backend received %q", eff, firstToken(eff), cmds)
			}
		} else if len(rr.runs) == 0 && replies == 0 {
			bad("proxy-command/vanished", "%q names a usable proxy command: nothing ran, no reply to the player, nothing reached the backend", eff)
		}
		if len(rr.runs) > 1 {
			bad("proxy-command/executed-twice", "proxy ran %v", rr.runs)
		}
		for _, run := range rr.runs {
			if !strings.HasSuffix(run, ":"+eff) {
				bad("proxy-command/wrong-input", "proxy ran %q for command line %q", run, eff)
			}
		}
	default:
		class = "backend-command"
		if len(rr.runs) != 0 {
			bad("backend-command/executed", "%q names no usable proxy command, proxy still ran %v", eff, rr.runs)
		}
		if kicked && len(cmds) == 0 {
			class = "backend-command:kicked"
		} else if len(cmds) != 1 {
			bad("backend-command/backend-count", "%q names no usable proxy command: backend received %d commands %q, want exactly one", eff, len(cmds), cmds)
		} else if cmds[0] != eff {
			if c.Rw && cmds[0] == c.Line {
				bad("backend-command/rewrite-ignored", "backend received the ORIGINAL %q, event rewrote it to %q", cmds[0], eff)
			} else {
				bad("backend-command/backend-content", "backend received %q, want %q", cmds[0], eff)
			}
		}
	}
	if c.Rw {
		class += "+rewritten"
	}
	_ = fired
	return fails, class, false
}

func forEachC22(thorough bool, f func(c c22case)) {
	type ev struct {
		deny, fwd, rw bool
		nc            string
	}
	evs := []ev{{}, {deny: true}, {fwd: true},
		{rw: true, nc: "a"}, {rw: true, nc: "b"}, {rw: true, nc: "a b"}, {rw: true, nc: "zz"},
		{fwd: true, rw: true, nc: "b"}, {fwd: true, rw: true, nc: "a"},
		{deny: true, fwd: true}, {deny: true, rw: true, nc: "b"}}
	if thorough {
		evs = append(evs, ev{rw: true, nc: ""}, ev{rw: true, nc: "a x"}, ev{rw: true, nc: "a 5"}, ev{fwd: true, rw: true, nc: "zz y"}, ev{deny: true, fwd: true, rw: true, nc: "a"})
	}
	skipNew := os.Getenv("VERIF_SKIP_NEW") != "" // mutant bookkeeping only: the enumeration as it was before the signed/no-force/alias dimensions
	for fi, fam := range families {
		if skipNew && fi >= 6 {
			continue
		}
		for t := range treeNames {
			if skipNew && isAliasTree(t) {
				continue
			}
			for _, perm := range []bool{false, true} {
				lns := lines
				if (isAliasTree(t) || t == 0) && !skipNew {
					lns = append(append([]string(nil), lines...), aliasLines...)
				}
				if !skipNew {
					lns = append(append([]string(nil), lns...), auditLines...)
				}
				for _, ln := range lns {
					for _, e := range evs {
						if e.rw && e.nc == ln {
							continue // not a rewrite
						}
						f(c22case{Family: fam, Tree: t, Perm: perm, Line: ln, Deny: e.deny, Fwd: e.fwd, Rw: e.rw, NewCmd: e.nc})
					}
				}
			}
		}
	}
}

func TestVerif(t *testing.T) {
	vrt.Run(t, "C22", func(r *vrt.R) {
		report := func(c c22case) bool {
			fails, class, hung := runC22(c)
			if hung {
				r.NotExhaustive("chat queue did not drain within 30 s for " + c.String())
				return false
			}
			r.Eval(1)
			r.Class("family:" + c.Family)
			r.Class("outcome:" + class)
			r.Class("tree:" + treeNames[c.Tree])
			for _, f := range fails {
				r.Violation(f.key, f.desc, c)
			}
			return true
		}
		var rp c22case
		if r.ReplayInto(&rp) {
			report(rp)
			return
		}
		idx := 0
		stop := false
		forEachC22(r.Thorough(), func(c c22case) {
			idx++
			if stop || !r.Mine(idx) {
				return
			}
			if idx%256 == 0 && r.Expired() {
				stop = true
				return
			}
			if !report(c) {
				stop = true
				return
			}
			r.Nontrivial(1) // every case is a distinct (family, tree, permission, line, event) tuple
			if idx%2003 == 0 {
				r.Sample(c.String())
			}
		})
	})
}
