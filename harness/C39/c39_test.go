package floodgate

// C39 — Floodgate identity data is authentic and interoperable with Floodgate.
//
// Engine enum, oracle = lib/reffloodgate (reference encoder/decoder of Floodgate's format).
//
//	interop-in : reference-encoded hostname -> real ReadHostname          -> same 12 fields
//	interop-out: real WriteHostname          -> reference DecodeHostname  -> same 12 fields
//	wrong-key  : reference-encoded under k2  -> real ReadHostname under k1 -> error
//	mutation   : reference-encoded hostname, altered (every single-byte substitution / deletion /
//	             insertion / truncation from the NUL on, splitter games, cut or padded IV, swapped
//	             parts)                        -> real ReadHostname          -> error, never a panic
//	iv-length  : well-formed message sealed under an IV of 0..16, 24, 32 bytes -> no panic; error, or
//	             (if accepted) exactly the sealed fields
//
// rev9 (gap review):
//
//	port suffix: onPreLogin hands ReadHostname the STRING of the virtual host address, i.e.
//	             host NUL data ":" port. interop-in and the whole mutation family also run on that shape;
//	             an alteration that leaves the identity data byte-identical and only touches what follows
//	             it (nothing, or ':' and a port) may be accepted, but only with the same fields
//	sealed-malformed: a key holder seals a plaintext that is not a 12-field record with integer
//	             xuid/device/ui/input (Floodgate's BedrockData.fromString refuses those) -> error, no panic
//	unrepresentable: WriteHostname with a NUL inside a field or the host, or nil data -> error (or something
//	             the reference decoder reads back identically), no panic

import (
	"bytes"
	"encoding/base64"
	"fmt"
	"strconv"
	"strings"
	"testing"

	ref "go.minekube.com/gate/pkg/edition/java/proxy/zzverif/reffloodgate"
	"go.minekube.com/gate/pkg/edition/java/proxy/zzverif/vrt"
)

// ---- alphabets ----

func c39Keys() [][]byte {
	seq := func(n int, start byte) []byte {
		b := make([]byte, n)
		for i := range b {
			b[i] = start + byte(i)*7
		}
		return b
	}
	k16 := seq(16, 1)
	k16bit := append([]byte(nil), k16...)
	k16bit[15] ^= 0x01                                           // one bit away from k16
	k32 := append(append([]byte(nil), k16...), seq(16, 0x80)...) // k16 is a prefix of k32
	return [][]byte{k16, k16bit, seq(24, 0x40), k32, bytes.Repeat([]byte{0x13}, 16), bytes.Repeat([]byte{0}, 32)}
}

func c39IVs() [][]byte {
	return [][]byte{
		bytes.Repeat([]byte{0}, 12),
		{1, 2, 3, 4, 5, 6, 7, 8, 9, 10, 11, 12},
		bytes.Repeat([]byte{0xFF}, 12),
		{0xFB, 0xEF, 0xBE, 0xFB, 0xEF, 0xBE, 0xFB, 0xEF, 0xBE, 0xFB, 0xEF, 0xBE}, // base64 "++++…": only '+' chars
	}
}

var c39Base = ref.Record{"1", "Steve", "2535405290989773", "7", "en_US", "1", "2", "203.0.113.10", "null", "0", "0", "abc123"}

// per-field value alphabets; every value is one a Floodgate encoder can emit for a real player and the
// proxy's BedrockData can represent
var c39Alpha = [ref.Fields][]string{
	ref.FVersion:      {"0", "", "2.2.4-SNAPSHOT"},
	ref.FUsername:     {"a", "x y", "Ünï€😀", "%s%d", "ABCDEFGHIJKLMNOP", strings.Repeat("long", 10), "a:b", "a!b", strings.Repeat("N", 300)}, // 300: beyond the 255 bytes a handshake host may have
	ref.FXuid:         {"1", "281474976710655", "9223372036854775807", "-1"},
	ref.FDeviceOS:     {"0", "1", "2", "3", "4", "5", "6", "8", "9", "10", "11", "12", "13", "14", "15"},
	ref.FLanguage:     {"", "de_DE"},
	ref.FUIProfile:    {"0"},
	ref.FInputMode:    {"0", "1", "3"},
	ref.FIP:           {"", "::1", "2001:db8::1"},
	ref.FLinkedPlayer: {"", "JavaName;069a79f4-44e9-4726-a5be-fca90e38aaf5;00000000-0000-0000-0009-01f0e0d0c0b0"},
	ref.FFromProxy:    {"1"},
	ref.FSubscribeID:  {"123", "2147483647"},
	ref.FVerifyCode:   {"x", "a b", strings.Repeat("v", 33), "", strings.Repeat("c", 5000)},
}

// records: the base record, every single-field deviation, and (pairs=true) every two-field deviation.
func c39Records(pairs bool) []ref.Record {
	out := []ref.Record{c39Base}
	for f := 0; f < ref.Fields; f++ {
		for _, v := range c39Alpha[f] {
			r := c39Base
			r[f] = v
			out = append(out, r)
			if !pairs {
				continue
			}
			for g := f + 1; g < ref.Fields; g++ {
				for _, w := range c39Alpha[g] {
					r2 := r
					r2[g] = w
					out = append(out, r2)
				}
			}
		}
	}
	return out
}

// what follows the data when the hostname is the String() of the virtual host address
var c39Suffixes = []string{":25565", ":0", ":65535", ":"}

var c39Hosts = []string{"play.example.org", "", "play.example.org:19132", "[2001:db8::1]:25565", "mc.example.org\tx"}

// ---- expectations ----

// wantData converts a wire record into the BedrockData the proxy must produce ("the same fields").
func wantData(r ref.Record) (*BedrockData, bool) {
	xuid, err := strconv.ParseInt(r[ref.FXuid], 10, 64)
	if err != nil {
		return nil, false
	}
	dev, e1 := strconv.Atoi(r[ref.FDeviceOS])
	ui, e2 := strconv.Atoi(r[ref.FUIProfile])
	im, e3 := strconv.Atoi(r[ref.FInputMode])
	if e1 != nil || e2 != nil || e3 != nil || dev < 0 || dev > 15 {
		return nil, false
	}
	return &BedrockData{Version: r[ref.FVersion], Username: r[ref.FUsername], Xuid: xuid, DeviceOS: DeviceOS{ID: dev},
		Language: r[ref.FLanguage], UIProfile: ui, InputMode: im, IP: r[ref.FIP], LinkedPlayer: r[ref.FLinkedPlayer],
		Proxy: r[ref.FFromProxy] == "1", SubscribeID: r[ref.FSubscribeID], VerifyCode: r[ref.FVerifyCode]}, true
}

// recordOf is the wire record of a BedrockData (what Floodgate's decoder must read back).
func recordOf(d *BedrockData) ref.Record {
	p := "0"
	if d.Proxy {
		p = "1"
	}
	return ref.Record{d.Version, d.Username, strconv.FormatInt(d.Xuid, 10), strconv.Itoa(d.DeviceOS.ID), d.Language,
		strconv.Itoa(d.UIProfile), strconv.Itoa(d.InputMode), d.IP, d.LinkedPlayer, p, d.SubscribeID, d.VerifyCode}
}

// diffData returns the name of the first differing field ("" = equal). DeviceOS is compared by ID.
func diffData(got, want *BedrockData) string {
	g, w := recordOf(got), recordOf(want)
	for i := range g {
		if g[i] != w[i] {
			return ref.FieldNames[i]
		}
	}
	return ""
}

// ---- case description (also the replay record) ----

type c39case struct {
	Kind   string // interop-in | interop-out | wrong-key | mutation | iv-length
	Key    int
	Key2   int
	IV     int
	Host   int
	Record ref.Record
	Mut    string // mutation family
	Off    int    // offset relative to the NUL
	Val    int    // substituted / inserted byte
	N      int    // iv length for iv-length / iv-cut
	Suffix string // appended to the encoded hostname (":25565": the shape onPreLogin passes in)
	Plain  []byte // sealed-malformed: the plaintext that is sealed
	Bad    string // unrepresentable: which input of WriteHostname is unrepresentable
}

type c39 struct {
	r    *vrt.R
	keys [][]byte
	ivs  [][]byte
	fgs  []*Floodgate
}

func (c *c39) vio(key string, cs c39case, detail string) {
	c.r.Violation(key, fmt.Sprintf("%s: %s\ncase=%+v", key, detail, cs), cs)
}

func panicKind(v any) string {
	s := fmt.Sprint(v)
	switch {
	case strings.Contains(s, "nonce length"):
		return "gcm-nonce-length"
	case strings.Contains(s, "out of range"):
		return "index-out-of-range"
	}
	return "other"
}

func (c *c39) encoded(cs c39case) string {
	h, err := ref.EncodeHostname(c39Hosts[cs.Host], c.keys[cs.Key], c.ivs[cs.IV], cs.Record)
	if err != nil {
		c.r.T.Fatalf("reference encoder failed: %v", err)
	}
	return h + cs.Suffix
}

// interopIn: Floodgate -> proxy.
func (c *c39) interopIn(cs c39case) {
	c.r.Eval(1)
	h := c.encoded(cs)
	want, ok := wantData(cs.Record)
	if !ok {
		c.r.T.Fatalf("alphabet bug: record %q not representable", cs.Record)
	}
	var host string
	var got *BedrockData
	var err error
	if p, pv := vrt.Catch(func() { host, got, err = c.fgs[cs.Key].ReadHostname(h) }); p {
		c.vio("ReadHostname/panic:"+panicKind(pv), cs, fmt.Sprint(pv))
		return
	}
	if err != nil || got == nil {
		c.vio("ReadHostname/floodgate-data-rejected", cs, fmt.Sprintf("data produced by the reference Floodgate encoder was rejected: %v", err))
		return
	}
	if host != c39Hosts[cs.Host] {
		c.vio("ReadHostname/original-host-mismatch", cs, fmt.Sprintf("got %q want %q", host, c39Hosts[cs.Host]))
	}
	if f := diffData(got, want); f != "" {
		c.vio("ReadHostname/field-mismatch/"+f, cs, fmt.Sprintf("got %+v want %+v", got, want))
	}
}

// interopOut: proxy -> Floodgate.
func (c *c39) interopOut(cs c39case) {
	c.r.Eval(1)
	d, _ := wantData(cs.Record)
	d.DeviceOS = DeviceOSFromID(d.DeviceOS.ID)
	var h string
	var err error
	if p, pv := vrt.Catch(func() { h, err = c.fgs[cs.Key].WriteHostname(c39Hosts[cs.Host], d) }); p {
		c.vio("WriteHostname/panic", cs, fmt.Sprint(pv))
		return
	}
	if err != nil {
		c.vio("WriteHostname/error", cs, err.Error())
		return
	}
	host, rec, err := ref.DecodeHostname(c.keys[cs.Key], h)
	if err != nil {
		c.vio("WriteHostname/floodgate-cannot-decode", cs, fmt.Sprintf("reference Floodgate decoder: %v (hostname %q)", err, h))
		return
	}
	if host != c39Hosts[cs.Host] {
		c.vio("WriteHostname/original-host-mismatch", cs, fmt.Sprintf("got %q want %q", host, c39Hosts[cs.Host]))
	}
	for i := range rec {
		if rec[i] != cs.Record[i] {
			c.vio("WriteHostname/field-mismatch/"+ref.FieldNames[i], cs, fmt.Sprintf("Floodgate reads %q, proxy encoded %q", rec[i], cs.Record[i]))
		}
	}
	// evidence only (not asserted, see lib/reffloodgate "trusted"): the IV size the proxy used, and whether
	// Java's String.split would see 12 fields
	if iv, _, e := ref.Split([]byte(h[strings.IndexByte(h, 0)+1:])); e == nil {
		c.r.Class(fmt.Sprintf("interop-out:iv-bytes=%d", len(iv)))
	}
	if ref.JavaSplitLen(cs.Record.String()) != ref.Fields {
		c.r.Class("interop-out:java-split-would-drop-trailing-empty-field")
	}
}

// mustReject runs ReadHostname on an altered hostname.
func (c *c39) mustReject(cs c39case, fg *Floodgate, h string, orig *BedrockData) {
	c.r.Eval(1)
	var got *BedrockData
	var err error
	if p, pv := vrt.Catch(func() { _, got, err = fg.ReadHostname(h) }); p {
		c.vio("ReadHostname/panic:"+panicKind(pv), cs, fmt.Sprintf("%v\nhostname=%q", pv, h))
		return
	}
	if err == nil {
		same := "different-fields"
		if got != nil && orig != nil && diffData(got, orig) == "" {
			same = "same-fields"
		}
		c.vio("ReadHostname/altered-accepted/"+same+"/"+cs.Mut, cs, fmt.Sprintf("altered identity data was accepted (%s) -> %+v\nhostname=%q", same, got, h))
	}
}

// mayAcceptSame runs ReadHostname on a hostname whose identity data is byte-identical to the original and
// only what follows it (the ":port" region) differs: no panic, and if accepted then with the same fields.
func (c *c39) mayAcceptSame(cs c39case, fg *Floodgate, h string, orig *BedrockData) {
	c.r.Eval(1)
	var got *BedrockData
	var err error
	if p, pv := vrt.Catch(func() { _, got, err = fg.ReadHostname(h) }); p {
		c.vio("ReadHostname/panic:"+panicKind(pv), cs, fmt.Sprintf("%v\nhostname=%q", pv, h))
		return
	}
	if err != nil {
		c.r.Class("port-region-altered:rejected")
		return
	}
	c.r.Class("port-region-altered:accepted-same-fields")
	if got == nil || diffData(got, orig) != "" {
		c.vio("ReadHostname/port-region-altered/different-fields", cs, fmt.Sprintf("identity data untouched, port region altered, decoded to other fields %+v\nhostname=%q", got, h))
	}
}

func nextB64(b byte) byte {
	const a = "ABCDEFGHIJKLMNOPQRSTUVWXYZabcdefghijklmnopqrstuvwxyz0123456789+/"
	i := strings.IndexByte(a, b)
	if i < 0 {
		return b ^ 0x02
	}
	return a[(i+1)%64]
}

// mutations enumerates every altered form of the encoded hostname of cs. If only is non-nil just that
// one mutation is run (replay).
func (c *c39) mutations(cs c39case, only *c39case) {
	h := c.encoded(cs)
	fg := c.fgs[cs.Key]
	orig, _ := wantData(cs.Record)
	nul := strings.IndexByte(h, 0)
	tail := h[nul:] // NUL + data (+ suffix)
	head := h[:nul]
	intact := h[:len(h)-len(cs.Suffix)] // host NUL data: everything that is identity data
	run := func(mut string, off, val, n int, alt string) {
		if alt == h {
			return
		}
		if cs.Suffix != "" {
			mut = "port-suffixed:" + mut
		}
		m := cs
		m.Kind, m.Mut, m.Off, m.Val, m.N = "mutation", mut, off, val, n
		if only != nil && (only.Mut != mut || only.Off != off || only.Val != val || only.N != n) {
			return
		}
		c.r.Class("mutation:" + mut)
		// identity data byte-identical and followed by nothing or by ':' -> only the port region differs
		if rest, ok := strings.CutPrefix(alt, intact); ok && (rest == "" || rest[0] == ':') {
			c.mayAcceptSame(m, fg, alt, orig)
			return
		}
		c.mustReject(m, fg, alt, orig)
	}
	// substitution alphabet
	var subs []int
	if c.r.Thorough() {
		for v := 0; v < 256; v++ {
			subs = append(subs, v)
		}
	} else {
		subs = []int{0x00, '!', '=', 'A', 0xFF, ':', '\n', '\r', ' ', '-', '_', '>', '^', -1, -2, -3, -4}
	}
	for off := 0; off < len(tail); off++ {
		o := tail[off]
		for _, v := range subs {
			b := byte(v)
			switch v {
			case -1:
				b = o ^ 0x01
			case -2:
				b = o ^ 0x80
			case -3:
				b = nextB64(o)
			case -4:
				b = o ^ 0x20 // rev9: the other case of a letter (header compared case-insensitively, folded base64)
			}
			if b == o {
				continue
			}
			run("substitution", off, int(b), 0, head+tail[:off]+string([]byte{b})+tail[off+1:])
		}
		run("deletion", off, 0, 0, head+tail[:off]+tail[off+1:])
		if off > 0 { // truncation keeps at least the NUL
			run("truncation", off, 0, 0, head+tail[:off])
		}
	}
	for off := 1; off <= len(tail); off++ {
		for _, v := range []byte{'\n', '\r', 'A', '!', '=', 0x00, ' ', ':'} {
			run("insertion", off, int(v), 0, head+tail[:off]+string([]byte{v})+tail[off:])
		}
	}
	// structure: splitter games and IV sizes, built from the decoded parts
	data := []byte(tail[1 : len(tail)-len(cs.Suffix)])
	iv, ct, err := ref.Split(data)
	if err != nil {
		c.r.T.Fatalf("reference cannot split its own encoding: %v", err)
	}
	hd := string(ref.Header())
	b64 := func(b []byte) string { return string(ref.B64Encode(b)) }
	put := func(s string) string { return head + "\x00" + s + cs.Suffix }
	run("no-splitter", 0, 0, 0, put(hd+b64(iv)+b64(ct)))
	run("splitter-doubled", 0, 0, 0, put(hd+b64(iv)+"!!"+b64(ct)))
	run("splitter-trailing", 0, 0, 0, put(hd+b64(iv)+"!"+b64(ct)+"!"))
	run("splitter-leading", 0, 0, 0, put(hd+"!"+b64(iv)+"!"+b64(ct)))
	run("parts-swapped", 0, 0, 0, put(hd+b64(ct)+"!"+b64(iv)))
	run("no-header", 0, 0, 0, put(b64(iv)+"!"+b64(ct)))
	run("header-twice", 0, 0, 0, put(hd+hd+b64(iv)+"!"+b64(ct)))
	run("header-only", 0, 0, 0, put(hd))
	run("header-version+1", 0, 0, 0, put("^Floodgate^?"+b64(iv)+"!"+b64(ct)))
	run("empty-ciphertext", 0, 0, 0, put(hd+b64(iv)+"!"))
	run("empty-iv", 0, 0, 0, put(hd+"!"+b64(ct)))
	run("padding-removed", 0, 0, 0, put(hd+strings.TrimRight(b64(iv), "=")+"!"+strings.TrimRight(b64(ct), "=")))
	run("padding-replaced", 0, 0, 0, put(hd+strings.TrimRight(b64(iv), "=")+"!"+strings.TrimRight(b64(ct), "=")+"x"))
	for n := 0; n <= 40; n++ {
		// the ciphertext (with its tag) cut to n bytes: below, at and above the tag size
		if n < len(ct) {
			run("ciphertext-cut", 0, 0, n, put(hd+b64(iv)+"!"+b64(ct[:n])))
		}
	}
	for n := 0; n <= 33; n++ {
		// the same ciphertext presented with an IV of n bytes (cut, or padded with zeros)
		if n == len(iv) {
			continue
		}
		iv2 := make([]byte, n)
		copy(iv2, iv)
		run("iv-resized", 0, 0, n, put(hd+b64(iv2)+"!"+b64(ct)))
	}
}

// ivLength: a message a key holder sealed under an IV of n bytes.
func (c *c39) ivLength(cs c39case) {
	c.r.Eval(1)
	iv := make([]byte, cs.N)
	for i := range iv {
		iv[i] = byte(i*3 + 1)
	}
	var data []byte
	if cs.N == 0 {
		// javax.crypto refuses an empty IV, there is no sealed form: present the 12-byte sealing with an empty IV
		e, _ := ref.Encrypt(c.keys[cs.Key], c.ivs[0], []byte(cs.Record.String()))
		_, ct, _ := ref.Split(e)
		data = ref.Assemble(nil, ct)
	} else {
		var err error
		if data, err = ref.Encrypt(c.keys[cs.Key], iv, []byte(cs.Record.String())); err != nil {
			c.r.T.Fatalf("reference encoder: %v", err)
		}
	}
	h := c39Hosts[cs.Host] + "\x00" + string(data)
	want, _ := wantData(cs.Record)
	var got *BedrockData
	var err error
	c.r.Class(fmt.Sprintf("iv-length:%d", cs.N))
	if p, pv := vrt.Catch(func() { _, got, err = c.fgs[cs.Key].ReadHostname(h) }); p {
		c.vio("ReadHostname/panic:"+panicKind(pv), cs, fmt.Sprintf("IV of %d bytes: %v\nhostname=%q", cs.N, pv, h))
		return
	}
	if err != nil {
		if cs.N == ref.IVLength {
			c.vio("ReadHostname/floodgate-data-rejected", cs, err.Error())
		}
		return
	}
	if cs.N == 0 || got == nil || diffData(got, want) != "" {
		c.vio("ReadHostname/altered-accepted/different-fields/iv-length", cs, fmt.Sprintf("IV of %d bytes accepted with fields %+v", cs.N, got))
	}
}

func (c *c39) wrongKey(cs c39case) {
	h := c.encoded(cs) // sealed under Key
	orig, _ := wantData(cs.Record)
	cs.Mut = "wrong-key"
	c.r.Class("wrong-key")
	c.mustReject(cs, c.fgs[cs.Key2], h, orig)
}

// ---- rev9: sealed-malformed ----

type c39plain struct {
	name  string
	plain string
	// dontCare: a 12-field record (as Floodgate reads it) that the proxy is free to refuse (xuid 0, empty
	// username, Java's split dropping a trailing empty field): accepted is fine if the first 12 fields match
	dontCare bool
}

func c39Malformed() []c39plain {
	b := c39Base
	join := func(f []string) string { return strings.Join(f, "\x00") }
	with := func(i int, v string) string { r := b; r[i] = v; return r.String() }
	out := []c39plain{
		{"empty-plaintext", "", false},
		{"fields:1", "Steve", false},
		{"fields:11-last-dropped", join(b[:11]), false},
		{"fields:11-first-dropped", join(b[1:]), false},
		{"fields:13-extra", b.String() + "\x00extra", false},
		{"fields:13-leading-nul", "\x00" + b.String(), false},
		{"fields:24-record-twice", b.String() + "\x00" + b.String(), false},
		{"fields:13-trailing-nul", b.String() + "\x00", true},
		{"xuid:0", with(ref.FXuid, "0"), true},
		{"xuid:-0", with(ref.FXuid, "-0"), true},
		{"username:empty", with(ref.FUsername, ""), true},
	}
	for _, f := range []int{ref.FXuid, ref.FDeviceOS, ref.FUIProfile, ref.FInputMode} {
		over := "99999999999999999999"
		if f == ref.FXuid {
			over = "9223372036854775808" // MaxInt64+1
		}
		for _, v := range []string{"", "x", "1.5", " 1", "1 ", "0x1", "1e1", "--1", over} {
			out = append(out, c39plain{fmt.Sprintf("%s:not-an-integer:%q", ref.FieldNames[f], v), with(f, v), false})
		}
	}
	return out
}

// malformedKind is the violation-key part of a malformed plaintext's name: what is wrong, not the value.
func malformedKind(name string) string {
	p := strings.SplitN(name, ":", 3)
	switch {
	case p[0] == "fields" || p[0] == "empty-plaintext":
		return "field-count"
	case len(p) >= 2 && p[1] == "not-an-integer":
		return p[0] + "-not-an-integer"
	}
	return p[0]
}

// sealedMalformed: the plaintext cs.Plain sealed by a key holder (reference encryptor) and handed to ReadHostname.
func (c *c39) sealedMalformed(cs c39case, dontCare bool) {
	c.r.Eval(1)
	enc, err := ref.Encrypt(c.keys[cs.Key], c.ivs[cs.IV], cs.Plain)
	if err != nil {
		c.r.T.Fatalf("reference encoder: %v", err)
	}
	h := c39Hosts[cs.Host] + "\x00" + string(enc) + cs.Suffix
	var got *BedrockData
	if p, pv := vrt.Catch(func() { _, got, err = c.fgs[cs.Key].ReadHostname(h) }); p {
		c.vio("ReadHostname/panic:"+panicKind(pv), cs, fmt.Sprintf("sealed plaintext %q: %v", cs.Plain, pv))
		return
	}
	if err != nil {
		return
	}
	if dontCare {
		// accepted: then it must be the first 12 fields of what was sealed
		parts := strings.Split(string(cs.Plain), "\x00")
		if len(parts) >= ref.Fields {
			var rec ref.Record
			copy(rec[:], parts[:ref.Fields])
			if want, ok := wantData(rec); ok && got != nil && diffData(got, want) == "" {
				c.r.Class("sealed-malformed:dont-care-accepted-same-fields")
				return
			}
		}
	}
	c.vio("ReadHostname/malformed-record-accepted/"+malformedKind(cs.Mut), cs, fmt.Sprintf("sealed plaintext %q has no 12-field integer reading (Floodgate's BedrockData.fromString refuses it) but was decoded to %+v", cs.Plain, got))
}

// ---- rev9: unrepresentable inputs of WriteHostname ----

var c39Unrepresentable = []string{"nil-data", "host", "Version", "Username", "Language", "IP", "LinkedPlayer", "SubscribeID", "VerifyCode"}
var c39NulForms = []string{"a\x00b", "\x00", "\x00lead", "trail\x00"}

func (c *c39) unrepresentable(cs c39case) {
	c.r.Eval(1)
	d, _ := wantData(c39Base)
	host := c39Hosts[cs.Host]
	bad := c39NulForms[cs.Val]
	switch cs.Bad {
	case "nil-data":
		d = nil
	case "host":
		host = bad
	case "Version":
		d.Version = bad
	case "Username":
		d.Username = bad
	case "Language":
		d.Language = bad
	case "IP":
		d.IP = bad
	case "LinkedPlayer":
		d.LinkedPlayer = bad
	case "SubscribeID":
		d.SubscribeID = bad
	case "VerifyCode":
		d.VerifyCode = bad
	default:
		c.r.T.Fatalf("unknown unrepresentable input %q", cs.Bad)
	}
	var h string
	var err error
	if p, pv := vrt.Catch(func() { h, err = c.fgs[cs.Key].WriteHostname(host, d) }); p {
		c.vio("WriteHostname/panic", cs, fmt.Sprintf("unrepresentable %s: %v", cs.Bad, pv))
		return
	}
	if err != nil {
		c.r.Class("unrepresentable:" + cs.Bad + ":refused")
		return
	}
	// not refused: then Floodgate must read back exactly what was handed in
	if d != nil {
		if gh, rec, derr := ref.DecodeHostname(c.keys[cs.Key], h); derr == nil && gh == host && rec == recordOf(d) {
			return
		}
	}
	c.vio("WriteHostname/unrepresentable-encoded/"+cs.Bad, cs, fmt.Sprintf("WriteHostname(%q, %+v) returned %q without error, which Floodgate's decoder cannot read back to the same host and fields", host, d, h))
}

// ---- quantifier audit: the cipher's own entry points on raw plaintexts of every small length ----

var c39PlainLens = []int{0, 1, 2, 3, 4, 5, 6, 7, 8, 9, 10, 11, 12, 13, 14, 15, 16, 17, 18, 19, 20, 21, 22, 23, 24, 25, 26, 27, 28, 29, 30, 31, 32, 33,
	47, 48, 49, 63, 64, 65, 255, 256, 257, 4096}

// cipherDirect: Floodgate.Decrypt on reference-sealed bytes and Floodgate.Encrypt read by the reference, for
// a plaintext of cs.N bytes (every byte value occurs, NUL and 0xFF included: not a record).
func (c *c39) cipherDirect(cs c39case) {
	c.r.Eval(2)
	pt := make([]byte, cs.N)
	for i := range pt {
		pt[i] = byte(i*37 + cs.N)
	}
	fg := c.fgs[cs.Key]
	data, err := ref.Encrypt(c.keys[cs.Key], c.ivs[cs.IV], pt)
	if err != nil {
		c.r.T.Fatalf("reference encoder: %v", err)
	}
	var got []byte
	if p, pv := vrt.Catch(func() { got, err = fg.Decrypt(data) }); p {
		c.vio("Decrypt/panic:"+panicKind(pv), cs, fmt.Sprint(pv))
	} else if err != nil {
		c.vio("Decrypt/floodgate-data-rejected", cs, fmt.Sprintf("plaintext of %d bytes sealed by the reference: %v", cs.N, err))
	} else if !bytes.Equal(got, pt) {
		c.vio("Decrypt/plaintext-mismatch", cs, fmt.Sprintf("got %x want %x", got, pt))
	}
	var enc []byte
	if p, pv := vrt.Catch(func() { enc, err = fg.Encrypt(pt) }); p {
		c.vio("Encrypt/panic", cs, fmt.Sprint(pv))
		return
	}
	if err != nil {
		c.vio("Encrypt/error", cs, err.Error())
		return
	}
	back, err := ref.Decrypt(c.keys[cs.Key], enc)
	if err != nil {
		c.vio("Encrypt/floodgate-cannot-decode", cs, fmt.Sprintf("reference Floodgate decoder: %v (data %q)", err, enc))
	} else if !bytes.Equal(back, pt) {
		c.vio("Encrypt/plaintext-mismatch", cs, fmt.Sprintf("Floodgate reads %x, proxy sealed %x", back, pt))
	}
}

func selfTest(t *testing.T) {
	// the hand-written base64 of the reference must agree with RFC 4648 as implemented by the standard library
	for n := 0; n <= 70; n++ {
		b := make([]byte, n)
		for i := range b {
			b[i] = byte(i*37 + n)
		}
		e := ref.B64Encode(b)
		if string(e) != base64.StdEncoding.EncodeToString(b) {
			t.Fatalf("reference base64 encoder differs at n=%d", n)
		}
		d, err := ref.B64DecodeJava(e)
		if err != nil || !bytes.Equal(d, b) {
			t.Fatalf("reference base64 decoder differs at n=%d: %v", n, err)
		}
	}
	// header as documented in the repo's cipher.go comment: ^Floodgate^ + VERSION+MAGIC
	if string(ref.Header()) != "^Floodgate^>" {
		t.Fatalf("reference header %q", ref.Header())
	}
	// reference round trip
	k := c39Keys()[0]
	h, err := ref.EncodeHostname("h", k, c39IVs()[1], c39Base)
	if err != nil {
		t.Fatal(err)
	}
	host, rec, err := ref.DecodeHostname(k, h)
	if err != nil || host != "h" || rec != c39Base {
		t.Fatalf("reference round trip: %v %q %v", err, host, rec)
	}
}

func TestVerif(t *testing.T) {
	vrt.Run(t, "C39", func(r *vrt.R) {
		selfTest(t)
		c := &c39{r: r, keys: c39Keys(), ivs: c39IVs()}
		for _, k := range c.keys {
			fg, err := NewFloodgate(k)
			if err != nil {
				r.Violation("NewFloodgate/valid-key-rejected", fmt.Sprintf("key of %d bytes: %v", len(k), err), nil)
				return
			}
			c.fgs = append(c.fgs, fg)
		}
		var rp c39case
		if r.ReplayInto(&rp) {
			switch rp.Kind {
			case "interop-in":
				c.interopIn(rp)
			case "interop-out":
				c.interopOut(rp)
			case "wrong-key":
				c.wrongKey(rp)
			case "iv-length":
				c.ivLength(rp)
			case "sealed-malformed":
				dc := false
				for _, m := range c39Malformed() {
					if m.name == rp.Mut {
						dc = m.dontCare
					}
				}
				c.sealedMalformed(rp, dc)
			case "unrepresentable":
				c.unrepresentable(rp)
			case "cipher-direct":
				c.cipherDirect(rp)
			case "mutation":
				base := rp
				base.Kind, base.Mut, base.Off, base.Val, base.N = "", "", 0, 0, 0
				c.mutations(base, &rp)
			}
			return
		}
		item := 0
		mine := func() bool { item++; return r.Mine(item) && !r.Expired() }

		// key sizes other than 16/24/32 must be refused, not crash
		if r.Shard == 0 {
			for _, n := range []int{0, 1, 15, 17, 23, 25, 31, 33, 64} {
				r.Eval(1)
				if p, pv := vrt.Catch(func() {
					if fg, err := NewFloodgate(make([]byte, n)); err == nil {
						_, _, _ = fg.ReadHostname(c.encoded(c39case{Record: c39Base}))
					}
				}); p {
					r.Violation("NewFloodgate/panic", fmt.Sprintf("key of %d bytes: %v", n, pv), nil)
				}
			}
		}

		recs := c39Records(true)
		if r.Shard == 0 {
			r.Extra("records", len(recs))
		}
		// interop both ways: every record x every key; hosts and IVs rotate, and the base record sees all of them
		for ri, rec := range recs {
			for ki := range c.keys {
				if !mine() {
					continue
				}
				cs := c39case{Key: ki, IV: (ri + ki) % len(c.ivs), Host: (ri + ki) % len(c39Hosts), Record: rec}
				cs.Kind = "interop-in"
				r.Class("interop-in")
				c.interopIn(cs)
				// the shape onPreLogin passes in: the virtual host's String(), i.e. with ":port" after the data
				cs.Suffix = c39Suffixes[(ri+ki)%len(c39Suffixes)]
				r.Class("interop-in:port-suffix")
				c.interopIn(cs)
				cs.Suffix = ""
				cs.Kind = "interop-out"
				r.Class("interop-out")
				c.interopOut(cs)
				r.Nontrivial(1)
			}
		}
		for ki := range c.keys {
			for ii := range c.ivs {
				for hi := range c39Hosts {
					if !mine() {
						continue
					}
					cs := c39case{Kind: "interop-in", Key: ki, IV: ii, Host: hi, Record: c39Base}
					r.Class("interop-in")
					c.interopIn(cs)
					for _, sfx := range c39Suffixes {
						cs.Suffix = sfx
						r.Class("interop-in:port-suffix")
						c.interopIn(cs)
					}
				}
			}
		}
		// wrong key: every ordered pair of distinct keys
		for k1 := range c.keys {
			for k2 := range c.keys {
				if k1 == k2 || !mine() {
					continue
				}
				for _, rec := range c39Records(false) {
					c.wrongKey(c39case{Kind: "wrong-key", Key: k1, Key2: k2, IV: 1, Record: rec})
				}
			}
		}
		// mutations: records whose plaintext length covers every base64 padding (len mod 3 = 0,1,2)
		var mrecs []ref.Record
		seen := map[int]bool{}
		for _, rec := range c39Records(false) {
			m := len(rec.String()) % 3
			if !seen[m] {
				seen[m] = true
				mrecs = append(mrecs, rec)
			}
		}
		if r.Thorough() {
			mrecs = append(mrecs, c39Records(false)[5], c39Records(false)[20])
		}
		mkeys := []int{0, 2, 3}
		mivs := []int{1, 3}
		if r.Thorough() {
			mkeys = []int{0, 1, 2, 3, 4, 5}
			mivs = []int{0, 1, 2, 3}
		}
		for _, ki := range mkeys {
			for _, ii := range mivs {
				for _, rec := range mrecs {
					if !mine() {
						continue
					}
					c.mutations(c39case{Key: ki, IV: ii, Host: 0, Record: rec}, nil)
					r.Nontrivial(1)
				}
			}
		}
		// the same mutation families on the port-suffixed shape
		for _, ki := range []int{0, 2, 3} {
			for _, ii := range []int{1, 3} {
				if r.Quick() && ki != 0 {
					continue
				}
				for _, rec := range mrecs[:3] {
					if !mine() {
						continue
					}
					c.mutations(c39case{Key: ki, IV: ii, Host: 0, Record: rec, Suffix: ":25565"}, nil)
					r.Nontrivial(1)
				}
			}
		}
		// plaintexts that are not a record, sealed by a key holder
		for mi, m := range c39Malformed() {
			for ki := range c.keys {
				if !mine() {
					continue
				}
				sfx := ""
				if (mi+ki)%2 == 1 {
					sfx = ":25565"
				}
				r.Class("sealed-malformed:" + strings.SplitN(m.name, ":", 2)[0])
				c.sealedMalformed(c39case{Kind: "sealed-malformed", Key: ki, IV: (mi + ki) % len(c.ivs), Host: mi % len(c39Hosts), Mut: m.name, Plain: []byte(m.plain), Suffix: sfx}, m.dontCare)
				r.Nontrivial(1)
			}
		}
		// WriteHostname inputs that the format cannot carry
		for _, bad := range c39Unrepresentable {
			for vi := range c39NulForms {
				for _, ki := range []int{0, 2, 3} {
					if (bad == "nil-data" && vi > 0) || !mine() {
						continue
					}
					c.unrepresentable(c39case{Kind: "unrepresentable", Key: ki, Host: vi % len(c39Hosts), Bad: bad, Val: vi})
					r.Nontrivial(1)
				}
			}
		}
		// raw plaintexts through Floodgate.Decrypt / Floodgate.Encrypt
		for ni, n := range c39PlainLens {
			for ki := range c.keys {
				if !mine() {
					continue
				}
				r.Class(fmt.Sprintf("cipher-direct:len%%3=%d", n%3))
				c.cipherDirect(c39case{Kind: "cipher-direct", Key: ki, IV: (ni + ki) % len(c.ivs), N: n})
				r.Nontrivial(1)
			}
		}
		// IV lengths 0..16, 24, 32 sealed by a key holder
		for ki := range c.keys {
			for _, n := range []int{0, 1, 2, 3, 4, 5, 6, 7, 8, 9, 10, 11, 12, 13, 14, 15, 16, 24, 32} {
				if !mine() {
					continue
				}
				c.ivLength(c39case{Kind: "iv-length", Key: ki, N: n, Record: c39Base})
			}
		}
		if r.Shard == 0 {
			h := c.encoded(c39case{Record: c39Base, IV: 1})
			r.Sample(map[string]any{"kind": "interop-in", "hostname": h, "record": c39Base})
			r.Sample(map[string]any{"kind": "mutation", "family": "substitution", "offset_from_NUL": 30, "byte": "0x21", "expect": "error"})
		}
	})
}
