package proxy

import (
	"context"
	"errors"
	"fmt"
	"io"
	"net"
	"reflect"
	"strings"
	"testing"

	"github.com/go-logr/logr"
	"github.com/robinbraemer/event"
	"go.minekube.com/common/minecraft/component"
	"go.minekube.com/gate/pkg/edition/java/auth"
	"go.minekube.com/gate/pkg/edition/java/config"
	liteconfig "go.minekube.com/gate/pkg/edition/java/lite/config"
	"go.minekube.com/gate/pkg/edition/java/netmc"
	"go.minekube.com/gate/pkg/edition/java/profile"
	"go.minekube.com/gate/pkg/edition/java/proto/packet"
	"go.minekube.com/gate/pkg/edition/java/proto/state"
	"go.minekube.com/gate/pkg/edition/java/proto/version"
	"go.minekube.com/gate/pkg/edition/java/proxy/phase"
	"go.minekube.com/gate/pkg/edition/java/proxy/zzverif/vrt"
	"go.minekube.com/gate/pkg/gate/proto"
	"go.minekube.com/gate/pkg/util/netutil"
	"go.minekube.com/gate/pkg/util/uuid"
)

// ---- fakes ----

type c17Conn struct {
	netmc.MinecraftConn // nil: any method the code under test needs and we did not provide panics loudly
	ctx                 context.Context
	cancel              context.CancelFunc
	written             []proto.Packet
}

func newC17Conn() *c17Conn {
	ctx, cancel := context.WithCancel(context.Background())
	return &c17Conn{ctx: ctx, cancel: cancel}
}
func (c *c17Conn) Context() context.Context          { return c.ctx }
func (c *c17Conn) Close() error                      { c.cancel(); return nil }
func (c *c17Conn) Protocol() proto.Protocol          { return version.Minecraft_1_19_4.Protocol }
func (c *c17Conn) State() *state.Registry            { return state.Play }
func (c *c17Conn) Type() phase.ConnectionType        { return phase.Vanilla }
func (c *c17Conn) RemoteAddr() net.Addr              { return netutil.NewAddr("203.0.113.7:50000", "tcp") }
func (c *c17Conn) WritePacket(p proto.Packet) error  { c.written = append(c.written, p); return nil }
func (c *c17Conn) BufferPacket(p proto.Packet) error { c.written = append(c.written, p); return nil }
func (c *c17Conn) Flush() error                      { return nil }

// syncEvents fires subscribers synchronously and records events.
type syncEvents struct {
	event.Manager
	fired  []event.Event
	onKick func(e *KickedFromServerEvent)
}

func (s *syncEvents) Fire(e event.Event) {
	s.fired = append(s.fired, e)
	if k, ok := e.(*KickedFromServerEvent); ok && s.onKick != nil {
		s.onKick(k)
	}
}
func (s *syncEvents) FireParallel(e event.Event, after ...event.HandlerFunc) {
	s.Fire(e)
	for _, f := range after {
		f(e)
	}
}

type c17Cfg struct{ cfg *config.Config }

func (t *c17Cfg) config() *config.Config { return t.cfg }

var c17Auth auth.Authenticator

// a forced host may also be an IP literal; the IPv6 one is configured with the same list as play.example.com
const c17IPv6Host = "2001:db8::1"

var c17Servers = []string{"s1", "s2", "s3"}

// ---- enumeration helpers ----

func dedup(l []string) []string {
	var out []string
	seen := map[string]bool{}
	for _, x := range l {
		if !seen[x] {
			seen[x] = true
			out = append(out, x)
		}
	}
	return out
}

func orderedSubsets(items []string, max int) [][]string {
	out := [][]string{{}}
	var rec func(cur []string)
	rec = func(cur []string) {
		if len(cur) >= max {
			return
		}
		for _, it := range items {
			dup := false
			for _, c := range cur {
				if c == it {
					dup = true
				}
			}
			if dup {
				continue
			}
			n := append(append([]string{}, cur...), it)
			out = append(out, n)
			rec(n)
		}
	}
	rec(nil)
	return out
}

type hostSpelling struct {
	Class   string
	Address string // handshake ServerAddress
	Port    int
	Want    string // the configured host it must resolve to ("" = none)
	// LoginOnly: only meaningful when the virtual host comes from the real handshake handler, which keeps host and port
	// apart (in a joined "host:port" string the port of a host that itself contains colons can not be told from the host)
	LoginOnly bool `json:",omitempty"`
}

func hostSpellings() []hostSpelling {
	base := "play.example.com"
	var out []hostSpelling
	for _, h := range []struct{ cls, s string }{
		{"exact", base}, {"upper", strings.ToUpper(base)}, {"mixed", "Play.ExAmple.Com"},
		{"fml", base + "\x00FML\x00"}, {"fml2", base + "\x00FML2\x00"}, {"fml3", base + "\x00FML3\x00"}, {"forge-extra-parts", base + "\x00FORGE\x00extra\x00"},
		{"tcpshield", base + "///198.51.100.1:4444///1700000000"}, {"tcpshield+fml", base + "///198.51.100.1:4444///1700000000\x00FML\x00"},
		{"mixed+fml2", "PLAY.example.COM\x00FML2\x00"},
	} {
		for _, port := range []int{25565, 1, 65535} {
			out = append(out, hostSpelling{Class: h.cls, Address: h.s, Port: port, Want: base})
		}
	}
	out = append(out,
		hostSpelling{Class: "other-configured-host", Address: "Other.example.com", Port: 25565, Want: "other.example.com"},
		hostSpelling{Class: "unknown-host", Address: "nomatch.example.com", Port: 25565, Want: ""},
		hostSpelling{Class: "prefix-of-host", Address: "play.example.co", Port: 25565, Want: ""},
		hostSpelling{Class: "suffix-host", Address: "xplay.example.com", Port: 25565, Want: ""},
		hostSpelling{Class: "ip", Address: "192.0.2.10", Port: 25565, Want: ""},
		hostSpelling{Class: "empty", Address: "", Port: 25565, Want: ""},
		hostSpelling{Class: "ipv6-literal", Address: "2001:db8::1", Port: 25565, Want: c17IPv6Host, LoginOnly: true},
		hostSpelling{Class: "ipv6-literal", Address: "2001:DB8::1", Port: 1, Want: c17IPv6Host, LoginOnly: true},
		hostSpelling{Class: "ipv6-literal+fml2", Address: "2001:db8::1\x00FML2\x00", Port: 25565, Want: c17IPv6Host, LoginOnly: true},
		hostSpelling{Class: "ipv6-literal-unknown", Address: "2001:db8::2", Port: 25565, Want: "", LoginOnly: true},
	)
	return out
}

// ---- world under test ----

type world struct {
	proxy  *Proxy
	player *connectedPlayer
	conn   *c17Conn
	ev     *syncEvents
}

func buildWorld(forced, try []string, registered []string, hs hostSpelling) *world {
	servers := map[string]string{}
	for i, n := range registered {
		servers[n] = fmt.Sprintf("127.0.0.1:%d", 30000+i)
	}
	fh := map[string][]string{"other.example.com": {"s3"}}
	if len(forced) > 0 {
		fh["play.example.com"] = forced
	}
	cfg := &config.Config{Servers: servers, ForcedHosts: fh, Try: try, Lite: liteconfig.Config{Enabled: false}, ConnectionTimeout: 5000}
	ev := &syncEvents{}
	p := &Proxy{log: logr.Discard(), cfg: cfg, event: ev, servers: make(map[string]*registeredServer), configServers: make(map[string]bool), authenticator: c17Auth}
	if err := p.init(); err != nil {
		panic(err)
	}
	conn := newC17Conn()
	// the handshake handler builds the virtual host as "<ServerAddress>:<Port>"
	vhost := netutil.NewAddr(fmt.Sprintf("%s:%d", hs.Address, hs.Port), "tcp")
	deps := &sessionHandlerDeps{proxy: p, eventMgr: ev, configProvider: &c17Cfg{cfg}, authenticator: c17Auth}
	pl := newConnectedPlayer(conn, &profile.GameProfile{ID: uuid.New(), Name: "tester"}, vhost, packet.LoginHandshakeIntent, false, nil, deps)
	return &world{proxy: p, player: pl, conn: conn, ev: ev}
}

// ---- reference model (from the statement) ----

type model struct {
	list       []string // forced list for the host if configured, else the try list
	registered map[string]bool
	current    string
	inflight   string
	start      int // scan position: restarts at 0 after a successful connection
}

func newModel(forced, try, registered []string, hs hostSpelling) *model {
	m := &model{registered: map[string]bool{}}
	for _, r := range registered {
		m.registered[r] = true
	}
	switch hs.Want {
	case "play.example.com", c17IPv6Host:
		m.list = forced
	case "other.example.com":
		m.list = []string{"s3"}
	}
	if len(m.list) == 0 {
		m.list = try
	}
	return m
}

// next returns the next listed server that is registered and is neither failed, current nor in flight.
func (m *model) next(failed string) string {
	for i := m.start; i < len(m.list); i++ {
		n := m.list[i]
		if n == failed || n == m.current || n == m.inflight {
			continue
		}
		m.start = i
		if m.registered[n] {
			return n
		}
	}
	return ""
}

// ---- operations of the history search ----

type op struct {
	Kind string // "connected", "kick-current", "kick-connecting", "inflight"
	S    string
}

func (o op) String() string { return o.Kind + "(" + o.S + ")" }

func name(rs RegisteredServer) string {
	if rs == nil || reflect.ValueOf(rs).IsNil() {
		return ""
	}
	return rs.ServerInfo().Name()
}

type caseID struct {
	Forced, Try, Registered []string
	Host                    hostSpelling
	History                 []op
	// Chain != "" selects the failure-chain pass: the proxy's own redirects run for real, every
	// server refuses (dial error) or kicks during login (Disconnect packet) according to Modes.
	Chain  string            `json:",omitempty"` // initial | kick-packet | kick-reason | conn-error | connect
	Modes  map[string]string `json:",omitempty"` // server -> refuse | kick
	Target string            `json:",omitempty"` // chain entry "connect": the server the player asks for
	Login  bool              `json:",omitempty"` // login-flow pass: initial choice through the real handshake + login handlers
}

// ---- failure chains: the real redirect loop ----

// chainCases: entry events x prior state x failure modes of the servers (the caller fills in the configuration).
func chainCases(reg []string, thorough bool) []caseID {
	modeSets := []map[string]string{
		{"s1": "refuse", "s2": "refuse", "s3": "refuse"},
		{"s1": "kick", "s2": "kick", "s3": "kick"},
		{"s1": "eof", "s2": "kick", "s3": "online"},
	}
	if thorough {
		modeSets = append(modeSets, map[string]string{"s1": "refuse", "s2": "kick", "s3": "refuse"}, map[string]string{"s1": "online", "s2": "eof", "s3": "refuse"}, map[string]string{"s1": "kick", "s2": "refuse", "s3": "kick"}, map[string]string{"s1": "kick", "s2": "kick", "s3": "refuse"})
	}
	var out []caseID
	for _, ms := range modeSets {
		out = append(out, caseID{Chain: "initial", Modes: ms})
		for _, s := range reg {
			out = append(out, caseID{Chain: "connect", Target: s, Modes: ms})
			for _, entry := range []string{"kick-packet", "kick-reason", "conn-error"} {
				out = append(out, caseID{Chain: entry, Modes: ms, History: []op{{"connected", s}}})
				if entry == "kick-packet" && !thorough {
					continue
				}
				for _, f := range reg {
					if f != s {
						out = append(out, caseID{Chain: entry, Modes: ms, History: []op{{"connected", s}, {"inflight", f}}})
					}
				}
			}
		}
	}
	return out
}

// c17Info is a registered server whose dial is scripted: it refuses, or accepts and kicks during login.
type c17Info struct {
	name  string
	addr  net.Addr
	mode  string // refuse | kick | eof | online
	dials *[]string
	open  []net.Conn // backend ends the proxy leaves open (closed by the harness at the end of the case)
}

func (i *c17Info) Name() string   { return i.name }
func (i *c17Info) Addr() net.Addr { return i.addr }

var errDialStorm = errors.New("more dials than a fallback chain over 3 servers can need")

func (i *c17Info) Dial(ctx context.Context, _ Player) (net.Conn, error) {
	*i.dials = append(*i.dials, i.name)
	if len(*i.dials) > 8 {
		// every listed server can be tried at most once per chain; a proxy that keeps redirecting to servers
		// that already failed would recurse forever: unwind to the harness instead
		panic(errDialStorm)
	}
	if i.mode == "refuse" || i.mode == "" {
		return nil, errors.New("scripted: connection refused by " + i.name)
	}
	a, b := net.Pipe()
	switch i.mode {
	case "eof": // accepts, reads the start of the login and hangs up without a word
		go func() {
			_, _ = io.ReadAtLeast(b, make([]byte, 64), 1)
			_ = b.Close()
		}()
		return a, nil
	case "online": // an online-mode backend: EncryptionRequest (id 0x01: server id "", 1-byte key, 1-byte token)
		go func() { _, _ = io.Copy(io.Discard, b) }()
		go func() { _, _ = b.Write([]byte{0x06, 0x01, 0x00, 0x01, 0xAA, 0x01, 0xBB}) }()
		i.open = append(i.open, b)
		return a, nil
	}
	go func() { _, _ = io.Copy(io.Discard, b) }() // swallow handshake + login start
	go func() {                                   // login-state Disconnect: id 0x00, JSON chat string
		js := `{"text":"kick-reason-` + i.name + `"}`
		payload := append([]byte{0x00, byte(len(js))}, js...)
		_, _ = b.Write(append([]byte{byte(len(payload))}, payload...))
	}()
	return a, nil
}

func plainText(c component.Component) string {
	t, ok := c.(*component.Text)
	if !ok || t == nil {
		return fmt.Sprintf("%T", c)
	}
	out := t.Content
	for _, e := range t.Extra {
		out += plainText(e)
	}
	return out
}

type kickObs struct {
	From, To string // To == "" : disconnect
}

// runChain builds the world with scripted servers, applies the history, triggers the entry event and lets the
// proxy's own fallback loop run to the end; every KickedFromServerEvent decision is compared with the reference.
func runChain(c caseID) (string, string, string) {
	servers := map[string]string{}
	fh := map[string][]string{"other.example.com": {"s3"}}
	if len(c.Forced) > 0 {
		fh["play.example.com"] = c.Forced
	}
	cfg := &config.Config{Servers: servers, ForcedHosts: fh, Try: c.Try, Lite: liteconfig.Config{Enabled: false}, ConnectionTimeout: 600000, ReadTimeout: 600000}
	ev := &syncEvents{}
	p := &Proxy{log: logr.Discard(), cfg: cfg, event: ev, servers: make(map[string]*registeredServer), configServers: make(map[string]bool), authenticator: c17Auth}
	if err := p.init(); err != nil {
		panic(err)
	}
	var dials []string
	var infos []*c17Info
	defer func() {
		for _, inf := range infos {
			for _, oc := range inf.open {
				_ = oc.Close()
			}
		}
	}()
	for i, n := range c.Registered {
		inf := &c17Info{name: n, addr: netutil.NewAddr(fmt.Sprintf("127.0.0.1:%d", 30000+i), "tcp"), mode: c.Modes[n], dials: &dials}
		infos = append(infos, inf)
		if _, err := p.Register(inf); err != nil {
			panic(err)
		}
	}
	conn := newC17Conn()
	vhost := netutil.NewAddr(fmt.Sprintf("%s:%d", c.Host.Address, c.Host.Port), "tcp")
	deps := &sessionHandlerDeps{proxy: p, eventMgr: ev, configProvider: &c17Cfg{cfg}, authenticator: c17Auth, registrar: p}
	pl := newConnectedPlayer(conn, &profile.GameProfile{ID: uuid.New(), Name: "tester"}, vhost, packet.LoginHandshakeIntent, false, nil, deps)
	m := newModel(c.Forced, c.Try, c.Registered, c.Host)

	// state before the entry event (as in runCase)
	for _, o := range c.History {
		rs := p.server(o.S)
		if rs == nil {
			return "", "", "skip"
		}
		switch o.Kind {
		case "connected":
			pl.setConnectedServer(newServerConnection(rs, nil, pl))
			m.current, m.start = o.S, 0
			if m.inflight == o.S {
				m.inflight = ""
			}
		case "inflight":
			pl.setInFlightConnection(newServerConnection(rs, nil, pl))
			m.inflight = o.S
		default:
			return "", "", "skip"
		}
	}

	var seen []kickObs
	ev.onKick = func(e *KickedFromServerEvent) {
		o := kickObs{From: name(e.Server())}
		if rd, ok := e.Result().(*RedirectPlayerKickResult); ok {
			o.To = name(rd.Server)
		} else if _, ok := e.Result().(*DisconnectPlayerKickResult); !ok {
			o.To = fmt.Sprintf("%T", e.Result())
		}
		seen = append(seen, o)
	}

	// reference: the chain of decisions
	var want []kickObs
	follow := func(failed string) { // failed just kicked/refused the player
		for {
			n := m.next(failed)
			want = append(want, kickObs{From: failed, To: n})
			m.current, m.inflight = "", "" // the kicked connection and any in-flight attempt are gone
			if n == "" {
				return
			}
			failed = n // scripted: it fails too
		}
	}
	reason := &component.Text{Content: "kick-reason-entry"}
	lastReason := ""
	var pan any
	var panicked bool
	switch c.Chain {
	case "initial":
		if len(c.History) != 0 {
			return "", "", "skip"
		}
		first := m.next("")
		if first != "" {
			follow(first)
		}
		panicked, pan = vrt.Catch(func() { (&authSessionHandler{sessionHandlerDeps: deps}).connectToInitialServer(pl) })
		if first == "" {
			if len(seen) != 0 || len(dials) != 0 {
				return "chain/initial-none-available", fmt.Sprintf("no server is eligible but kick events %v dials %v", seen, dials), "x"
			}
			return "", "", "initial:none"
		}
	case "connect":
		if m.current != "" || m.inflight != "" || len(c.History) != 0 {
			return "", "", "skip"
		}
		rs := p.server(c.Target)
		if rs == nil {
			return "", "", "skip"
		}
		follow(c.Target)
		panicked, pan = vrt.Catch(func() { pl.CreateConnectionRequest(rs).ConnectWithIndication(context.Background()) })
	case "kick-packet", "kick-reason", "conn-error":
		if m.current == "" {
			return "", "", "skip"
		}
		cur := p.server(m.current)
		follow(m.current)
		panicked, pan = vrt.Catch(func() {
			switch c.Chain {
			case "kick-packet":
				pl.handleDisconnect(cur, packet.NewDisconnect(reason, conn.Protocol(), state.Play.State), true)
			case "kick-reason":
				pl.handleDisconnectWithReason(cur, reason, true)
			case "conn-error":
				pl.handleConnectionErr(cur, errors.New("scripted: read error"), true)
			}
		})
		if c.Chain != "conn-error" {
			lastReason = "kick-reason-entry"
		}
	default:
		return "", "", "skip"
	}
	obs := fmt.Sprint(seen)
	if panicked && pan == any(errDialStorm) {
		return "chain/fallback-does-not-terminate", fmt.Sprintf("entry %s, modes %v: the proxy keeps redirecting to servers that already failed: dialled %v, decisions %v, want %v", c.Chain, c.Modes, dials, seen, want), obs
	}
	if panicked {
		return "chain/panic", fmt.Sprintf("%v", pan), obs
	}
	if fmt.Sprint(seen) != fmt.Sprint(want) {
		return "chain/fallback-sequence", fmt.Sprintf("entry %s, modes %v: kick decisions (from->to) %v, want %v (list %v, registered %v)", c.Chain, c.Modes, seen, want, m.list, c.Registered), obs
	}
	// the servers actually dialled are exactly the redirect targets, in order
	var wantDials []string
	if c.Chain == "initial" || c.Chain == "connect" {
		wantDials = append(wantDials, want[0].From)
	}
	for _, w := range want {
		if w.To != "" {
			wantDials = append(wantDials, w.To)
		}
	}
	if fmt.Sprint(dials) != fmt.Sprint(wantDials) {
		return "chain/dialled-servers", fmt.Sprintf("entry %s: dialled %v, want %v", c.Chain, dials, wantDials), obs
	}
	// none remains: the player is disconnected, with the kick reason when the last failure was a kick
	last := want[len(want)-1].From
	if len(want) > 1 || c.Chain == "initial" || c.Chain == "connect" {
		lastReason = ""
		if c.Modes[last] == "kick" {
			lastReason = "kick-reason-" + last
		}
	}
	var disc *packet.Disconnect
	for _, w := range conn.written {
		if d, ok := w.(*packet.Disconnect); ok {
			disc = d
		}
	}
	if disc == nil || conn.ctx.Err() == nil {
		return "chain/not-disconnected", fmt.Sprintf("entry %s: no server remains after %v but the player was not disconnected (wrote %d packets)", c.Chain, seen, len(conn.written)), obs
	}
	if lastReason != "" {
		if txt := plainText(disc.Reason.AsComponentOrNil()); !strings.Contains(txt, lastReason) {
			return "chain/disconnect-reason", fmt.Sprintf("entry %s: disconnected with %q, which does not carry the kick reason %q", c.Chain, txt, lastReason), obs
		}
	}
	return "", "", obs
}

// runCase replays a history on a fresh world and model; returns a violation (key, desc) or "".
func runCase(c caseID) (string, string, string) {
	w := buildWorld(c.Forced, c.Try, c.Registered, c.Host)
	m := newModel(c.Forced, c.Try, c.Registered, c.Host)
	got := name(w.player.nextServerToTry(nil))
	want := m.next("")
	obs := "init=" + got
	if got != want {
		return "initial-server", fmt.Sprintf("initial server: got %q want %q (list %v, registered %v, host %q)", got, want, m.list, c.Registered, c.Host.Address), obs
	}
	for i, o := range c.History {
		switch o.Kind {
		case "connected":
			rs := w.proxy.server(o.S)
			if rs == nil {
				return "", "", obs + ";skip"
			}
			sc := newServerConnection(rs, nil, w.player)
			w.player.setConnectedServer(sc)
			m.current, m.start = o.S, 0
			if m.inflight == o.S {
				m.inflight = ""
			}
		case "inflight":
			rs := w.proxy.server(o.S)
			if rs == nil {
				return "", "", obs + ";skip"
			}
			w.player.setInFlightConnection(newServerConnection(rs, nil, w.player))
			m.inflight = o.S
		case "kick-current", "kick-connecting":
			var failed string
			if o.Kind == "kick-current" {
				failed = m.current
				if failed == "" {
					return "", "", obs + ";skip"
				}
			} else {
				failed = o.S
				if m.current != "" {
					// kicked while connecting elsewhere with a current server: statement says nothing about choosing a server
					return "", "", obs + ";skip"
				}
			}
			rs := w.proxy.server(failed)
			if rs == nil {
				return "", "", obs + ";skip"
			}
			// observe the decision through the kick event; stop the real redirect by answering with a disconnect result
			var decided ServerKickResult
			w.ev.onKick = func(e *KickedFromServerEvent) {
				decided = e.Result()
				e.SetResult(&DisconnectPlayerKickResult{Reason: &component.Text{Content: "stop"}})
			}
			reason := &component.Text{Content: "kick-reason"}
			w.player.handleConnectionErr2(rs, reason, reason, true)
			w.ev.onKick = nil
			wantNext := m.next(failed)
			switch d := decided.(type) {
			case *RedirectPlayerKickResult:
				obs += fmt.Sprintf(";%s->%s", failed, name(d.Server))
				if name(d.Server) != wantNext {
					return "fallback-server", fmt.Sprintf("step %d %v: redirected to %q, want %q (list %v start %d current %q inflight %q)", i, o, name(d.Server), wantNext, m.list, m.start, m.current, m.inflight), obs
				}
			case *DisconnectPlayerKickResult:
				obs += fmt.Sprintf(";%s->disconnect", failed)
				if wantNext != "" {
					return "fallback-server", fmt.Sprintf("step %d %v: disconnect decided although %q is eligible (list %v)", i, o, wantNext, m.list), obs
				}
				if txt, ok := d.Reason.(*component.Text); !ok || txt.Content != "kick-reason" {
					return "disconnect-reason", fmt.Sprintf("step %d %v: disconnect reason %v is not the kick reason", i, o, d.Reason), obs
				}
			default:
				return "kick-result-type", fmt.Sprintf("step %d %v: unexpected result %T", i, o, decided), obs
			}
			// after our forced disconnect the player is gone; history ends here
			return "", "", obs
		}
	}
	return "", "", obs
}

// runLogin: the initial choice observed where a plugin sees it (PlayerChooseInitialServerEvent), reached through the
// real handshake -> login -> auth handlers of a real Proxy: the virtual host is whatever the handshake handler makes of
// the client's ServerAddress and Port.
func runLogin(c caseID) (string, string, string) {
	cfg := kitConfig()
	cfg.OnlineMode = false
	for i, n := range c.Registered {
		cfg.Servers[n] = fmt.Sprintf("127.0.0.1:%d", 30000+i)
	}
	cfg.ForcedHosts["other.example.com"] = []string{"s3"}
	if len(c.Forced) > 0 {
		cfg.ForcedHosts["play.example.com"] = c.Forced
		cfg.ForcedHosts[c17IPv6Host] = c.Forced
	}
	cfg.Try = c.Try
	s := newKitSession(cfg, version.Minecraft_1_12_2.Protocol)
	if err := s.Proxy.init(); err != nil {
		panic(err)
	}
	m := newModel(c.Forced, c.Try, c.Registered, c.Host)
	want := m.next("")
	got, fired := "", 0
	kitOn(s.Events, func(e *PlayerChooseInitialServerEvent) {
		fired++
		got = name(e.InitialServer())
		e.SetInitialServer(nil) // nothing is dialled: the player is told that no server is available
	})
	s.Conn.deliver(&packet.Handshake{ProtocolVersion: int(version.Minecraft_1_12_2.Protocol), ServerAddress: c.Host.Address, Port: c.Host.Port, NextStatus: 2})
	if _, ok := s.Conn.active.(*initialLoginSessionHandler); !ok {
		return "login-flow/handshake-did-not-reach-login", s.Conn.trace(), "x"
	}
	if _, pan := s.Conn.deliver(&packet.ServerLogin{Username: "tester"}); pan != nil {
		return "login-flow/panic", fmt.Sprint(pan), "x"
	}
	if fired != 1 {
		return "login-flow/initial-server-event-count", fmt.Sprintf("PlayerChooseInitialServerEvent fired %d times; conn: %s", fired, s.Conn.trace()), "x"
	}
	if got != want {
		key := "login-flow/initial-server"
		if c.Host.LoginOnly {
			key += "/host-containing-colons" // IPv6 literal as virtual host: a separate identity (the port can only be removed exactly by the handshake-built address)
		}
		return key, fmt.Sprintf("client address %q port %d: initial server %q, want %q (list %v, registered %v)", c.Host.Address, c.Host.Port, got, want, m.list, c.Registered), "init=" + got
	}
	return "", "", "login:init=" + got
}

func runAny(c caseID) (string, string, string) {
	switch {
	case c.Login:
		return runLogin(c)
	case c.Chain != "":
		return runChain(c)
	}
	return runCase(c)
}

func TestVerif(t *testing.T) {
	var err error
	c17Auth, err = auth.New(auth.Options{})
	if err != nil {
		t.Fatal(err)
	}
	vrt.Run(t, "C17", func(r *vrt.R) {
		var rc caseID
		if r.ReplayInto(&rc) {
			if k, d, _ := runAny(rc); k != "" {
				r.Violation(k, d, rc)
			}
			r.Eval(1)
			return
		}
		lists := orderedSubsets(c17Servers, 3)
		regs := [][]string{}
		for mask := 0; mask < 8; mask++ {
			var s []string
			for i, n := range c17Servers {
				if mask&(1<<i) != 0 {
					s = append(s, n)
				}
			}
			regs = append(regs, s)
		}
		var ops []op
		for _, s := range c17Servers {
			ops = append(ops, op{"connected", s}, op{"inflight", s}, op{"kick-connecting", s})
		}
		ops = append(ops, op{"kick-current", ""})
		depth := 2
		if r.Thorough() {
			depth = 3
		}
		var histories [][]op
		var gen func(cur []op)
		gen = func(cur []op) {
			histories = append(histories, append([]op{}, cur...))
			if len(cur) >= depth || (len(cur) > 0 && strings.HasPrefix(cur[len(cur)-1].Kind, "kick")) {
				return
			}
			for _, o := range ops {
				gen(append(cur, o))
			}
		}
		gen(nil)
		hosts := hostSpellings()
		idx := 0
		sampled := 0
		type cfgPair struct{ forced, try []string }
		var pairs []cfgPair
		for _, forced := range lists {
			for _, try := range lists {
				pairs = append(pairs, cfgPair{forced, try})
			}
		}
		// lists that name a server more than once are legal configurations too ("all forced-host/try configurations")
		dupLists := [][]string{{"s1", "s1"}, {"s1", "s2", "s1"}, {"s2", "s1", "s1"}}
		for _, d := range dupLists {
			for _, o := range [][]string{{}, {"s3"}, {"s3", "s2"}} {
				pairs = append(pairs, cfgPair{d, o})
			}
			pairs = append(pairs, cfgPair{[]string{}, d}, cfgPair{[]string{"s3"}, d})
		}
		for _, pr := range pairs {
			{
				forced, try := pr.forced, pr.try
				if len(forced) != len(dedup(forced)) || len(try) != len(dedup(try)) {
					r.Class("config:list-with-repeated-server")
				}
				idx++
				if !r.Mine(idx) {
					continue
				}
				if r.Expired() {
					return
				}
				for _, reg := range regs {
					// ---- the real fallback loop (failure chains) and the real login flow ----
					for _, hs := range hosts {
						if hs.Port == 25565 || r.Thorough() || hs.LoginOnly {
							c := caseID{Forced: forced, Try: try, Registered: reg, Host: hs, Login: true}
							k, d, _ := runLogin(c)
							r.Eval(1)
							r.Class("login-flow:host:" + hs.Class)
							if k != "" {
								r.Violation(k, d, c)
							}
						}
						if hs.LoginOnly || hs.Port != 25565 || (hs.Class != "exact" && hs.Class != "unknown-host" && !(r.Thorough() && hs.Class == "tcpshield+fml")) {
							continue
						}
						for _, ch := range chainCases(reg, r.Thorough()) {
							c := ch
							c.Forced, c.Try, c.Registered, c.Host = forced, try, reg, hs
							k, d, obs := runChain(c)
							r.Eval(1)
							if obs == "skip" {
								continue
							}
							r.Class("chain:" + c.Chain)
							if strings.Count(obs, "{") >= 2 {
								r.Class("chain:two-or-more-failures-in-a-row")
								r.Nontrivial(1)
							}
							if strings.Count(obs, "{") >= 3 {
								r.Class("chain:three-failures-in-a-row")
							}
							if k != "" {
								r.Violation(k, d, c)
							}
						}
					}
					for _, hs := range hosts {
						if hs.LoginOnly {
							continue
						}
						// full histories only for the canonical spelling classes; other spellings check the initial choice + depth-1
						hl := histories
						if hs.Class != "exact" && hs.Class != "mixed+fml2" && hs.Class != "unknown-host" {
							hl = histories[:1+len(ops)]
							if r.Quick() && hs.Port != 25565 {
								hl = histories[:1]
							}
						}
						for _, h := range hl {
							c := caseID{Forced: forced, Try: try, Registered: reg, Host: hs, History: h}
							k, d, obs := runCase(c)
							r.Eval(1)
							r.Class("host:" + hs.Class)
							if strings.HasSuffix(obs, ";skip") {
								r.Class("history-not-applicable")
								continue
							}
							if len(forced) >= 2 || len(try) >= 2 {
								r.Nontrivial(1)
							}
							if strings.Contains(obs, "->") {
								r.Class("kick-decision")
							}
							if k != "" {
								r.Violation(k, d, c)
							}
							if sampled < 2 && len(h) == depth && strings.Contains(obs, "->s") {
								sampled++
								r.Sample(map[string]any{"forced": forced, "try": try, "registered": reg, "host": hs.Address, "history": fmt.Sprint(h), "observed": obs})
							}
						}
					}
				}
			}
		}
	})
}
