package proxy

import (
	"context"
	"fmt"
	"net"
	"reflect"
	"strings"
	"testing"

	"github.com/go-logr/logr"
	"github.com/robinbraemer/event"
	"go.minekube.com/common/minecraft/component"
	"go.minekube.com/gate/pkg/edition/java/auth"
	"go.minekube.com/gate/pkg/edition/java/config"
	liteconfig "go.minekube.com/gate/pkg/edition/java/lite/config"
	"go.minekube.com/gate/pkg/edition/java/netmc"
	"go.minekube.com/gate/pkg/edition/java/profile"
	"go.minekube.com/gate/pkg/edition/java/proto/packet"
	"go.minekube.com/gate/pkg/edition/java/proto/state"
	"go.minekube.com/gate/pkg/edition/java/proto/version"
	"go.minekube.com/gate/pkg/edition/java/proxy/phase"
	"go.minekube.com/gate/pkg/edition/java/proxy/zzverif/vrt"
	"go.minekube.com/gate/pkg/gate/proto"
	"go.minekube.com/gate/pkg/util/netutil"
	"go.minekube.com/gate/pkg/util/uuid"
)

// ---- fakes ----

type c17Conn struct {
	netmc.MinecraftConn // nil: any method the code under test needs and we did not provide panics loudly
	ctx                 context.Context
	cancel              context.CancelFunc
	written             []proto.Packet
}

func newC17Conn() *c17Conn {
	ctx, cancel := context.WithCancel(context.Background())
	return &c17Conn{ctx: ctx, cancel: cancel}
}
func (c *c17Conn) Context() context.Context       { return c.ctx }
func (c *c17Conn) Close() error                   { c.cancel(); return nil }
func (c *c17Conn) Protocol() proto.Protocol       { return version.Minecraft_1_19_4.Protocol }
func (c *c17Conn) State() *state.Registry         { return state.Play }
func (c *c17Conn) Type() phase.ConnectionType     { return phase.Vanilla }
func (c *c17Conn) RemoteAddr() net.Addr           { return netutil.NewAddr("203.0.113.7:50000", "tcp") }
func (c *c17Conn) WritePacket(p proto.Packet) error { c.written = append(c.written, p); return nil }
func (c *c17Conn) BufferPacket(p proto.Packet) error { c.written = append(c.written, p); return nil }
func (c *c17Conn) Flush() error                   { return nil }

// syncEvents fires subscribers synchronously and records events.
type syncEvents struct {
	event.Manager
	fired []event.Event
	onKick func(e *KickedFromServerEvent)
}

func (s *syncEvents) Fire(e event.Event) {
	s.fired = append(s.fired, e)
	if k, ok := e.(*KickedFromServerEvent); ok && s.onKick != nil {
		s.onKick(k)
	}
}
func (s *syncEvents) FireParallel(e event.Event, after ...event.HandlerFunc) {
	s.Fire(e)
	for _, f := range after {
		f(e)
	}
}

type c17Cfg struct{ cfg *config.Config }

func (t *c17Cfg) config() *config.Config { return t.cfg }

var c17Auth auth.Authenticator

var c17Servers = []string{"s1", "s2", "s3"}

// ---- enumeration helpers ----

func orderedSubsets(items []string, max int) [][]string {
	out := [][]string{{}}
	var rec func(cur []string)
	rec = func(cur []string) {
		if len(cur) >= max {
			return
		}
		for _, it := range items {
			dup := false
			for _, c := range cur {
				if c == it {
					dup = true
				}
			}
			if dup {
				continue
			}
			n := append(append([]string{}, cur...), it)
			out = append(out, n)
			rec(n)
		}
	}
	rec(nil)
	return out
}

type hostSpelling struct {
	Class   string
	Address string // handshake ServerAddress
	Port    int
	Want    string // the configured host it must resolve to ("" = none)
}

func hostSpellings() []hostSpelling {
	base := "play.example.com"
	var out []hostSpelling
	for _, h := range []struct{ cls, s string }{
		{"exact", base}, {"upper", strings.ToUpper(base)}, {"mixed", "Play.ExAmple.Com"},
		{"fml", base + "\x00FML\x00"}, {"fml2", base + "\x00FML2\x00"}, {"fml3", base + "\x00FML3\x00"}, {"forge-extra-parts", base + "\x00FORGE\x00extra\x00"},
		{"tcpshield", base + "///198.51.100.1:4444///1700000000"}, {"tcpshield+fml", base + "///198.51.100.1:4444///1700000000\x00FML\x00"},
		{"mixed+fml2", "PLAY.example.COM\x00FML2\x00"},
	} {
		for _, port := range []int{25565, 1, 65535} {
			out = append(out, hostSpelling{Class: h.cls, Address: h.s, Port: port, Want: base})
		}
	}
	out = append(out,
		hostSpelling{Class: "other-configured-host", Address: "Other.example.com", Port: 25565, Want: "other.example.com"},
		hostSpelling{Class: "unknown-host", Address: "nomatch.example.com", Port: 25565, Want: ""},
		hostSpelling{Class: "prefix-of-host", Address: "play.example.co", Port: 25565, Want: ""},
		hostSpelling{Class: "suffix-host", Address: "xplay.example.com", Port: 25565, Want: ""},
		hostSpelling{Class: "ip", Address: "192.0.2.10", Port: 25565, Want: ""},
		hostSpelling{Class: "empty", Address: "", Port: 25565, Want: ""},
	)
	return out
}

// ---- world under test ----

type world struct {
	proxy  *Proxy
	player *connectedPlayer
	conn   *c17Conn
	ev     *syncEvents
}

func buildWorld(forced, try []string, registered []string, hs hostSpelling) *world {
	servers := map[string]string{}
	for i, n := range registered {
		servers[n] = fmt.Sprintf("127.0.0.1:%d", 30000+i)
	}
	fh := map[string][]string{"other.example.com": {"s3"}}
	if len(forced) > 0 {
		fh["play.example.com"] = forced
	}
	cfg := &config.Config{Servers: servers, ForcedHosts: fh, Try: try, Lite: liteconfig.Config{Enabled: false}, ConnectionTimeout: 5000}
	ev := &syncEvents{}
	p := &Proxy{log: logr.Discard(), cfg: cfg, event: ev, servers: make(map[string]*registeredServer), configServers: make(map[string]bool), authenticator: c17Auth}
	if err := p.init(); err != nil {
		panic(err)
	}
	conn := newC17Conn()
	// the handshake handler builds the virtual host as "<ServerAddress>:<Port>"
	vhost := netutil.NewAddr(fmt.Sprintf("%s:%d", hs.Address, hs.Port), "tcp")
	deps := &sessionHandlerDeps{proxy: p, eventMgr: ev, configProvider: &c17Cfg{cfg}, authenticator: c17Auth}
	pl := newConnectedPlayer(conn, &profile.GameProfile{ID: uuid.New(), Name: "tester"}, vhost, packet.LoginHandshakeIntent, false, nil, deps)
	return &world{proxy: p, player: pl, conn: conn, ev: ev}
}

// ---- reference model (from the statement) ----

type model struct {
	list       []string // forced list for the host if configured, else the try list
	registered map[string]bool
	current    string
	inflight   string
	start      int // scan position: restarts at 0 after a successful connection
}

func newModel(forced, try, registered []string, hs hostSpelling) *model {
	m := &model{registered: map[string]bool{}}
	for _, r := range registered {
		m.registered[r] = true
	}
	switch hs.Want {
	case "play.example.com":
		m.list = forced
	case "other.example.com":
		m.list = []string{"s3"}
	}
	if len(m.list) == 0 {
		m.list = try
	}
	return m
}

// next returns the next listed server that is registered and is neither failed, current nor in flight.
func (m *model) next(failed string) string {
	for i := m.start; i < len(m.list); i++ {
		n := m.list[i]
		if n == failed || n == m.current || n == m.inflight {
			continue
		}
		m.start = i
		if m.registered[n] {
			return n
		}
	}
	return ""
}

// ---- operations of the history search ----

type op struct {
	Kind string // "connected", "kick-current", "kick-connecting", "inflight"
	S    string
}

func (o op) String() string { return o.Kind + "(" + o.S + ")" }

func name(rs RegisteredServer) string {
	if rs == nil || reflect.ValueOf(rs).IsNil() {
		return ""
	}
	return rs.ServerInfo().Name()
}

type caseID struct {
	Forced, Try, Registered []string
	Host                    hostSpelling
	History                 []op
}

// runCase replays a history on a fresh world and model; returns a violation (key, desc) or "".
func runCase(c caseID) (string, string, string) {
	w := buildWorld(c.Forced, c.Try, c.Registered, c.Host)
	m := newModel(c.Forced, c.Try, c.Registered, c.Host)
	got := name(w.player.nextServerToTry(nil))
	want := m.next("")
	obs := "init=" + got
	if got != want {
		return "initial-server", fmt.Sprintf("initial server: got %q want %q (list %v, registered %v, host %q)", got, want, m.list, c.Registered, c.Host.Address), obs
	}
	for i, o := range c.History {
		switch o.Kind {
		case "connected":
			rs := w.proxy.server(o.S)
			if rs == nil {
				return "", "", obs + ";skip"
			}
			sc := newServerConnection(rs, nil, w.player)
			w.player.setConnectedServer(sc)
			m.current, m.start = o.S, 0
			if m.inflight == o.S {
				m.inflight = ""
			}
		case "inflight":
			rs := w.proxy.server(o.S)
			if rs == nil {
				return "", "", obs + ";skip"
			}
			w.player.setInFlightConnection(newServerConnection(rs, nil, w.player))
			m.inflight = o.S
		case "kick-current", "kick-connecting":
			var failed string
			if o.Kind == "kick-current" {
				failed = m.current
				if failed == "" {
					return "", "", obs + ";skip"
				}
			} else {
				failed = o.S
				if m.current != "" {
					// kicked while connecting elsewhere with a current server: statement says nothing about choosing a server
					return "", "", obs + ";skip"
				}
			}
			rs := w.proxy.server(failed)
			if rs == nil {
				return "", "", obs + ";skip"
			}
			// observe the decision through the kick event; stop the real redirect by answering with a disconnect result
			var decided ServerKickResult
			w.ev.onKick = func(e *KickedFromServerEvent) {
				decided = e.Result()
				e.SetResult(&DisconnectPlayerKickResult{Reason: &component.Text{Content: "stop"}})
			}
			reason := &component.Text{Content: "kick-reason"}
			w.player.handleConnectionErr2(rs, reason, reason, true)
			w.ev.onKick = nil
			wantNext := m.next(failed)
			switch d := decided.(type) {
			case *RedirectPlayerKickResult:
				obs += fmt.Sprintf(";%s->%s", failed, name(d.Server))
				if name(d.Server) != wantNext {
					return "fallback-server", fmt.Sprintf("step %d %v: redirected to %q, want %q (list %v start %d current %q inflight %q)", i, o, name(d.Server), wantNext, m.list, m.start, m.current, m.inflight), obs
				}
			case *DisconnectPlayerKickResult:
				obs += fmt.Sprintf(";%s->disconnect", failed)
				if wantNext != "" {
					return "fallback-server", fmt.Sprintf("step %d %v: disconnect decided although %q is eligible (list %v)", i, o, wantNext, m.list), obs
				}
				if txt, ok := d.Reason.(*component.Text); !ok || txt.Content != "kick-reason" {
					return "disconnect-reason", fmt.Sprintf("step %d %v: disconnect reason %v is not the kick reason", i, o, d.Reason), obs
				}
			default:
				return "kick-result-type", fmt.Sprintf("step %d %v: unexpected result %T", i, o, decided), obs
			}
			// after our forced disconnect the player is gone; history ends here
			return "", "", obs
		}
	}
	return "", "", obs
}

func TestVerif(t *testing.T) {
	var err error
	c17Auth, err = auth.New(auth.Options{})
	if err != nil {
		t.Fatal(err)
	}
	vrt.Run(t, "C17", func(r *vrt.R) {
		var rc caseID
		if r.ReplayInto(&rc) {
			if k, d, _ := runCase(rc); k != "" {
				r.Violation(k, d, rc)
			}
			r.Eval(1)
			return
		}
		lists := orderedSubsets(c17Servers, 3)
		regs := [][]string{}
		for mask := 0; mask < 8; mask++ {
			var s []string
			for i, n := range c17Servers {
				if mask&(1<<i) != 0 {
					s = append(s, n)
				}
			}
			regs = append(regs, s)
		}
		var ops []op
		for _, s := range c17Servers {
			ops = append(ops, op{"connected", s}, op{"inflight", s}, op{"kick-connecting", s})
		}
		ops = append(ops, op{"kick-current", ""})
		depth := 2
		if r.Thorough() {
			depth = 3
		}
		var histories [][]op
		var gen func(cur []op)
		gen = func(cur []op) {
			histories = append(histories, append([]op{}, cur...))
			if len(cur) >= depth || (len(cur) > 0 && strings.HasPrefix(cur[len(cur)-1].Kind, "kick")) {
				return
			}
			for _, o := range ops {
				gen(append(cur, o))
			}
		}
		gen(nil)
		hosts := hostSpellings()
		idx := 0
		sampled := 0
		for _, forced := range lists {
			for _, try := range lists {
				idx++
				if !r.Mine(idx) {
					continue
				}
				if r.Expired() {
					return
				}
				for _, reg := range regs {
					for _, hs := range hosts {
						// full histories only for the canonical spelling classes; other spellings check the initial choice + depth-1
						hl := histories
						if hs.Class != "exact" && hs.Class != "mixed+fml2" && hs.Class != "unknown-host" {
							hl = histories[:1+len(ops)]
							if r.Quick() && hs.Port != 25565 {
								hl = histories[:1]
							}
						}
						for _, h := range hl {
							c := caseID{Forced: forced, Try: try, Registered: reg, Host: hs, History: h}
							k, d, obs := runCase(c)
							r.Eval(1)
							r.Class("host:" + hs.Class)
							if strings.HasSuffix(obs, ";skip") {
								r.Class("history-not-applicable")
								continue
							}
							if len(forced) >= 2 || len(try) >= 2 {
								r.Nontrivial(1)
							}
							if strings.Contains(obs, "->") {
								r.Class("kick-decision")
							}
							if k != "" {
								r.Violation(k, d, c)
							}
							if sampled < 2 && len(h) == depth && strings.Contains(obs, "->s") {
								sampled++
								r.Sample(map[string]any{"forced": forced, "try": try, "registered": reg, "host": hs.Address, "history": fmt.Sprint(h), "observed": obs})
							}
						}
					}
				}
			}
		}
	})
}
