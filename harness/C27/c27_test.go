package c27

// C27 — resource-pack handlers never block and follow the client-version rules.
//
// Engine B (bfs over operation histories) where every history is executed INSIDE engine A's
// scheduler (sched.Explore with a single thread, the resourcepack package instrumented): a
// re-entrant Lock is then "no enabled thread" = a deadlock finding with a trace, not a hang.
//
// The oracle is a reference model written from the property statement:
//   - every call returns (no deadlock, no panic);
//   - clients < 1.20.3: one FIFO queue; at most one prompt outstanding; prompts in queue order;
//     a pack may be skipped (auto-declined) only after the client declined one, and never a
//     forced pack on 1.17+; at every quiescent point either a prompt is outstanding for the first
//     unresolved pack or nothing is queued;
//   - clients >= 1.20.3: the same per pack id, ids independent of each other, no auto-decline;
//     applied/pending sets follow the client's answers per id;
//   - a client answer (and an auto-decline) for a backend-origin pack is written to the backend
//     exactly once, for a proxy-origin pack nothing is written to the backend.

import (
	"fmt"
	"sort"
	"strings"
	"testing"

	"github.com/robinbraemer/event"
	"go.minekube.com/common/minecraft/component"
	"go.minekube.com/gate/pkg/edition/java/proto/packet"
	"go.minekube.com/gate/pkg/edition/java/proto/state"
	"go.minekube.com/gate/pkg/edition/java/proto/version"
	"go.minekube.com/gate/pkg/edition/java/proxy/internal/resourcepack"
	"go.minekube.com/gate/pkg/edition/java/proxy/zzverif/bfs"
	"go.minekube.com/gate/pkg/edition/java/proxy/zzverif/sched"
	"go.minekube.com/gate/pkg/edition/java/proxy/zzverif/vrt"
	"go.minekube.com/gate/pkg/gate/proto"
	"go.minekube.com/gate/pkg/util/uuid"
)

// ---------------------------------------------------------------- operations

// Op is one step of a history.
//
//	K="Q": queue pack P (0=a,1=b), forced F, origin backend B
//	K="R": client response with status S (for >=1.20.3 about pack id P)
//	K="X": remove pack id P (>=1.20.3 only)
//	K="C": clear applied packs
//	K="E": (write-error scenarios only) the next packet written to the client (P=0) / to the backend (P=1) is rejected
type Op struct {
	K string `json:"k"`
	P int    `json:"p,omitempty"`
	F bool   `json:"f,omitempty"`
	B bool   `json:"b,omitempty"`
	S int    `json:"s,omitempty"`
}

var statusName = map[int]string{
	int(packet.SuccessfulResourcePackResponseStatus):     "SUCCESSFUL",
	int(packet.DeclinedResourcePackResponseStatus):       "DECLINED",
	int(packet.FailedDownloadResourcePackResponseStatus): "FAILED_DOWNLOAD",
	int(packet.AcceptedResourcePackResponseStatus):       "ACCEPTED",
	int(packet.DownloadedResourcePackResponseStatus):     "DOWNLOADED",
	int(packet.InvalidURLResourcePackResponseStatus):     "INVALID_URL",
	int(packet.FailedToReloadResourcePackResponseStatus): "FAILED_RELOAD",
	int(packet.DiscardedResourcePackResponseStatus):      "DISCARDED",
}

func (o Op) String() string {
	pn := string(rune('a' + o.P))
	switch o.K {
	case "Q":
		s := "queue(" + pn
		if o.F {
			s += ",forced"
		}
		if o.B {
			s += ",backend"
		} else {
			s += ",proxy"
		}
		return s + ")"
	case "R":
		return "response(" + pn + "," + statusName[o.S] + ")"
	case "X":
		return "remove(" + pn + ")"
	case "C":
		return "clear"
	case "E":
		if o.P == 1 {
			return "fail-next-backend-write"
		}
		return "fail-next-client-write"
	}
	return "?"
}

func (o Op) kind() string {
	switch o.K {
	case "Q":
		return "queue"
	case "R":
		return "response"
	case "X":
		return "remove"
	case "E":
		return "write-error"
	}
	return "clear"
}

var packIDs = [2]uuid.UUID{
	uuid.UUID{0xaa, 1, 2, 3, 4, 5, 6, 7, 8, 9, 10, 11, 12, 13, 14, 15},
	uuid.UUID{0xbb, 1, 2, 3, 4, 5, 6, 7, 8, 9, 10, 11, 12, 13, 14, 15},
}

// ---------------------------------------------------------------- recording seams

type inst struct {
	url     string // unique per queued instance
	pack    int
	forced  bool
	backend bool
}

func (i *inst) attrs() string {
	if i == nil {
		return "-"
	}
	return fmt.Sprintf("%c%v%v", 'a'+i.pack, b2i(i.forced), b2i(i.backend))
}

func b2i(b bool) int {
	if b {
		return 1
	}
	return 0
}

type obs struct {
	req   []string // urls of request packets written to the client, in order
	back  []string // "STATUS|hash" of response packets written to the backend
	ev    []string // "STATUS|url" of PlayerResourcePackStatusEvents fired
	disc  bool
	other []string
}

type recPlayer struct {
	proto proto.Protocol
	o     *obs
	be    *recBackend // nil: no backend connection in flight
	// failNext: the next WritePacket is rejected (nothing recorded); failed: that has happened
	failNext, failed bool
}

type recBackend struct {
	o                *obs
	failNext, failed bool
}

var errInjected = fmt.Errorf("c27: injected write error")

func (b *recBackend) WritePacket(p proto.Packet) error {
	if b.failNext {
		b.failNext, b.failed = false, true
		return errInjected
	}
	if r, ok := p.(*packet.ResourcePackResponse); ok {
		b.o.back = append(b.o.back, statusName[int(r.Status)]+"|"+r.Hash)
	} else {
		b.o.other = append(b.o.other, fmt.Sprintf("backend<-%T", p))
	}
	return nil
}

func (p *recPlayer) ID() uuid.UUID { return uuid.UUID{1} }
func (p *recPlayer) WritePacket(pk proto.Packet) error {
	if p.failNext {
		p.failNext, p.failed = false, true
		return errInjected
	}
	if r, ok := pk.(*packet.ResourcePackRequest); ok {
		p.o.req = append(p.o.req, r.URL)
	} else {
		p.o.other = append(p.o.other, fmt.Sprintf("client<-%T", pk))
	}
	return nil
}
func (p *recPlayer) BundleHandler() *resourcepack.BundleDelimiterHandler { return nil }
func (p *recPlayer) State() *state.Registry                              { return state.Play }
func (p *recPlayer) Protocol() proto.Protocol                            { return p.proto }
func (p *recPlayer) BackendInFlight() proto.PacketWriter {
	if p.be == nil {
		return nil // (a nil *recBackend in the interface would not be == nil)
	}
	return p.be
}
func (p *recPlayer) Disconnect(component.Component)                      { p.o.disc = true }

// detMgr is a deterministic event.Manager: no subscribers, events are recorded and the `after`
// callbacks run synchronously in the caller (event.Nop would drop them).
type detMgr struct{ o *obs }

func (m *detMgr) Subscribe(event.Event, int, event.HandlerFunc) func() { return func() {} }
func (m *detMgr) Wait(...event.Event)                                  {}
func (m *detMgr) HasSubscriber(...event.Event) bool                    { return false }
func (m *detMgr) UnsubscribeAll(...event.Event) int                    { return 0 }
func (m *detMgr) record(e event.Event) {
	if se, ok := e.(*resourcepack.PlayerResourcePackStatusEvent); ok {
		m.o.ev = append(m.o.ev, statusName[int(se.Status())]+"|"+se.PackInfo().URL)
	}
}
func (m *detMgr) Fire(e event.Event) { m.record(e) }
func (m *detMgr) FireParallel(e event.Event, after ...event.HandlerFunc) {
	m.record(e)
	for _, f := range after {
		f(e)
	}
}

// ---------------------------------------------------------------- reference model

type lane struct {
	q           []*inst
	outstanding bool // q[0] has been prompted and not finally answered
}

type model struct {
	modern         bool
	noBackend      bool // no backend connection in flight: answers cannot be reported to anybody
	hashless       bool // packs carry no hash
	forcedPrompted bool // protocol >= 1.17: forced packs are prompted even after a decline
	lanes          map[int]*lane
	clientDeclined bool
	// last accepted/declined answer seen by the handler (client or auto) — not asserted, only part
	// of the canonical key because the implementation's behaviour may depend on it
	lastAD  string
	applied map[int]*inst // modern only
	pending map[int]string // modern only: "yes", "no", "any"
}

func (m *model) lane(o Op) *lane {
	k := 0
	if m.modern {
		k = o.P
	}
	l := m.lanes[k]
	if l == nil {
		l = &lane{}
		m.lanes[k] = l
	}
	return l
}

// take removes the first occurrence of s from *list.
func take(list *[]string, s string) bool {
	for i, e := range *list {
		if e == s {
			*list = append((*list)[:i:i], (*list)[i+1:]...)
			return true
		}
	}
	return false
}

type verdict struct{ key, desc string }

func fail(key, f string, a ...any) *verdict { return &verdict{key, fmt.Sprintf(f, a...)} }

// advance consumes the observations that concern the head(s) of a lane with no outstanding prompt.
func (m *model) advance(l *lane, o *obs) *verdict {
	for len(l.q) > 0 {
		head := l.q[0]
		if len(o.req) > 0 && o.req[0] == head.url {
			o.req = o.req[1:]
			l.outstanding = true
			return nil
		}
		if take(&o.ev, "DECLINED|"+head.url) {
			// skipped without a prompt = auto-declined
			if m.modern {
				return fail("auto-decline-on-modern", "pack %s was auto-declined on a >=1.20.3 client", head.url)
			}
			if !m.clientDeclined {
				return fail("auto-decline-before-client-declined", "pack %s was auto-declined although the client has not declined any pack yet", head.url)
			}
			if head.forced && m.forcedPrompted {
				return fail("forced-pack-auto-declined", "forced pack %s was auto-declined on a 1.17+ client instead of being prompted", head.url)
			}
			m.lastAD = "D"
			got := take(&o.back, "DECLINED|"+head.url)
			if !got && m.hashless && head.backend {
				// the proxy's own report about an auto-declined pack carries the pack's hash: none here
				got = take(&o.back, "DECLINED|")
			}
			if head.backend && !got && !m.noBackend {
				return fail("backend-pack-auto-decline-not-reported", "backend-origin pack %s was auto-declined but the backend was not told", head.url)
			}
			if !head.backend && got {
				return fail("proxy-pack-reported-to-backend", "auto-decline of proxy-origin pack %s was written to the backend", head.url)
			}
			l.q = l.q[1:]
			continue
		}
		if len(o.req) > 0 {
			for _, later := range l.q[1:] {
				if later.url == o.req[0] {
					return fail("prompt-out-of-queue-order", "pack %s is first in its queue but %s, queued after it, was prompted first", head.url, later.url)
				}
			}
		}
		return fail("queue-stalled", "pack %s is first in the queue, no prompt is outstanding, and it was neither prompted nor auto-declined (requests seen: %v)", head.url, o.req)
	}
	return nil
}

// step applies one operation to the model, consuming the observations made during the call.
// solicited reports whether the op was a client answer to an outstanding prompt.
func (m *model) step(op Op, in *inst, o *obs, handled bool) (v *verdict, unsolicited bool) {
	switch op.K {
	case "Q":
		l := m.lane(op)
		l.q = append(l.q, in)
		if !l.outstanding {
			if v := m.advance(l, o); v != nil {
				return v, false
			}
		}
	case "R":
		l := m.lane(op)
		if a := m.applied[op.P]; !l.outstanding && m.modern && a != nil && packet.ResponseStatus(op.S) == packet.SuccessfulResourcePackResponseStatus {
			// A >=1.20.3 client repeats SUCCESSFUL for a pack that is already applied (it does so when it
			// switches servers). Nothing is outstanding, but the answer still belongs to a known pack with a
			// known origin: a backend-origin pack's answer is reported to the backend, a proxy-origin pack's
			// answer is not (and is consumed: handled==true, or the caller would pass it on to the backend).
			if len(o.req) > 0 {
				return fail("prompt-after-repeated-success", "a repeated SUCCESSFUL for applied pack %s made the proxy send request(s) %v", a.url, o.req), false
			}
			got := take(&o.back, "SUCCESSFUL|"+a.url)
			if a.backend && !got && !m.noBackend {
				return fail("backend-pack-response-not-reported", "client repeated SUCCESSFUL for the applied backend-origin pack %s but the backend got %v", a.url, o.back), false
			}
			if !a.backend && got {
				return fail("proxy-pack-reported-to-backend", "client repeated SUCCESSFUL for the applied proxy-origin pack %s and it was written to the backend", a.url), false
			}
			if len(o.back) > 0 {
				return fail("unexpected-backend-report", "repeated SUCCESSFUL for applied pack %s: response(s) %v were written to the backend", a.url, o.back), false
			}
			if handled == a.backend {
				return fail("response-handled-flag", "repeated SUCCESSFUL for applied pack %s (backend-origin=%v): OnResourcePackResponse reported handled=%v; a proxy-origin answer must be consumed (true), a backend-origin one passed on (false)", a.url, a.backend, handled), false
			}
			o.ev = nil // whether a status event fires for the repetition is not stated
			return nil, false
		}
		if !l.outstanding {
			// unsolicited: the statement only promises that the call returns and that no
			// prompt is invented
			if len(o.req) > 0 {
				return fail("prompt-after-unsolicited-response", "an unsolicited response made the proxy send request(s) %v", o.req), true
			}
			o.back, o.ev = nil, nil
			return nil, true
		}
		head := l.q[0]
		st := statusName[op.S]
		got := take(&o.back, st+"|"+head.url)
		if head.backend && !got && !m.noBackend {
			return fail("backend-pack-response-not-reported", "client answered %s for backend-origin pack %s but the backend got %v", st, head.url, o.back), false
		}
		if !head.backend && got {
			return fail("proxy-pack-reported-to-backend", "client answered %s for proxy-origin pack %s and it was written to the backend", st, head.url), false
		}
		if handled == head.backend {
			return fail("response-handled-flag", "client answered %s for pack %s (backend-origin=%v): OnResourcePackResponse reported handled=%v; a proxy-origin answer must be consumed (true), a backend-origin one passed on (false)", st, head.url, head.backend, handled), false
		}
		take(&o.ev, st+"|"+head.url)
		switch packet.ResponseStatus(op.S) {
		case packet.AcceptedResourcePackResponseStatus:
			m.lastAD = "A"
			if m.modern {
				m.pending[op.P] = "yes"
			}
		case packet.DeclinedResourcePackResponseStatus:
			m.lastAD = "D"
			m.clientDeclined = true
		case packet.SuccessfulResourcePackResponseStatus:
			if m.modern {
				m.applied[op.P] = head
				m.pending[op.P] = "no"
			}
		case packet.DiscardedResourcePackResponseStatus:
			if m.modern {
				delete(m.applied, op.P)
				m.pending[op.P] = "no"
			}
		default:
			if m.modern && m.pending[op.P] == "yes" && !packet.ResponseStatus(op.S).Intermediate() {
				// accepted, then failed: whether it still counts as pending is not stated
				m.pending[op.P] = "any"
			}
		}
		if !packet.ResponseStatus(op.S).Intermediate() {
			l.q = l.q[1:]
			l.outstanding = false
			if v := m.advance(l, o); v != nil {
				return v, false
			}
		}
	case "X":
		delete(m.lanes, op.P)
		delete(m.applied, op.P)
		m.pending[op.P] = "no"
	case "C":
		if m.modern {
			m.lanes = map[int]*lane{}
			m.applied = map[int]*inst{}
			m.pending = map[int]string{}
		}
	}
	if len(o.req) > 0 {
		return fail("unexpected-prompt", "request(s) %v were written to the client: more than one prompt outstanding or out of queue order", o.req), false
	}
	if len(o.back) > 0 {
		return fail("unexpected-backend-report", "response(s) %v were written to the backend without a matching answer for a backend-origin pack", o.back), false
	}
	return nil, false
}

func (m *model) key() string {
	var sb strings.Builder
	ks := make([]int, 0, len(m.lanes))
	for k := range m.lanes {
		ks = append(ks, k)
	}
	sort.Ints(ks)
	for _, k := range ks {
		l := m.lanes[k]
		if len(l.q) == 0 {
			continue
		}
		fmt.Fprintf(&sb, "L%d%v[", k, b2i(l.outstanding))
		for _, i := range l.q {
			sb.WriteString(i.attrs() + ",")
		}
		sb.WriteString("]")
	}
	fmt.Fprintf(&sb, "cd%v;ad%s;", b2i(m.clientDeclined), m.lastAD)
	return sb.String()
}

// ---------------------------------------------------------------- scenarios

type scenario struct {
	name   string
	proto  proto.Protocol
	ops    []Op
	depthQ int
	depthT int
	// variants of the environment (one per scenario, so that the base scenarios keep their depth):
	noBackend bool // the player has no backend connection in flight (BackendInFlight()==nil)
	hashless  bool // packs carry no SHA-1 hash (it is optional)
}

func withWriteErrors(ops []Op) []Op {
	return append(append([]Op(nil), ops...), Op{K: "E", P: 0}, Op{K: "E", P: 1})
}

func mkOps(modern bool, statuses []packet.ResponseStatus) []Op {
	var ops []Op
	np := 1 // <1.20.3: packs carry no id on the wire, one queue — the pack name is irrelevant
	if modern {
		np = 2
	}
	for p := 0; p < np; p++ {
		for _, f := range []bool{false, true} {
			for _, b := range []bool{false, true} {
				ops = append(ops, Op{K: "Q", P: p, F: f, B: b})
			}
		}
	}
	for p := 0; p < np; p++ {
		for _, s := range statuses {
			ops = append(ops, Op{K: "R", P: p, S: int(s)})
		}
	}
	if modern {
		ops = append(ops, Op{K: "X", P: 0}, Op{K: "X", P: 1})
	}
	ops = append(ops, Op{K: "C"})
	return ops
}

var legacyStatuses = []packet.ResponseStatus{
	packet.AcceptedResourcePackResponseStatus, packet.SuccessfulResourcePackResponseStatus,
	packet.DeclinedResourcePackResponseStatus, packet.FailedDownloadResourcePackResponseStatus,
}
// one status of every class the >=1.20.3 handler distinguishes: ACCEPTED, SUCCESSFUL, DISCARDED have their own
// branch; of the "no action" class one final status (DECLINED) and one intermediate status (DOWNLOADED)
var modernStatusesQuick = []packet.ResponseStatus{
	packet.AcceptedResourcePackResponseStatus, packet.SuccessfulResourcePackResponseStatus,
	packet.DeclinedResourcePackResponseStatus, packet.DiscardedResourcePackResponseStatus,
	packet.DownloadedResourcePackResponseStatus,
}
var modernStatusesAll = []packet.ResponseStatus{
	packet.AcceptedResourcePackResponseStatus, packet.DownloadedResourcePackResponseStatus,
	packet.SuccessfulResourcePackResponseStatus, packet.DeclinedResourcePackResponseStatus,
	packet.FailedDownloadResourcePackResponseStatus, packet.InvalidURLResourcePackResponseStatus,
	packet.FailedToReloadResourcePackResponseStatus, packet.DiscardedResourcePackResponseStatus,
}

func scenarios(thorough bool) []scenario {
	ms := modernStatusesQuick
	if thorough {
		ms = modernStatusesAll
	}
	lo, mo := mkOps(false, legacyStatuses), mkOps(true, ms)
	v1122, v117, v1202, v1203, v1214 := version.Minecraft_1_12_2.Protocol, version.Minecraft_1_17.Protocol, version.Minecraft_1_20_2.Protocol, version.Minecraft_1_20_3.Protocol, version.Minecraft_1_21_4.Protocol
	return []scenario{
		{name: "legacy-1.12.2", proto: v1122, ops: lo, depthQ: 6, depthT: 8},
		{name: "legacy-1.16.4", proto: version.Minecraft_1_16_4.Protocol, ops: lo, depthQ: 6, depthT: 8},
		{name: "legacy117-1.17", proto: v117, ops: lo, depthQ: 6, depthT: 8},
		{name: "legacy117-1.20.2", proto: v1202, ops: lo, depthQ: 6, depthT: 8},
		{name: "modern-1.20.3", proto: v1203, ops: mo, depthQ: 4, depthT: 5},
		{name: "modern-1.21.4", proto: v1214, ops: mo, depthQ: 4, depthT: 5},
		// no backend connection in flight: nothing can be reported, nothing may crash
		{name: "legacy-1.12.2/no-backend", proto: v1122, ops: lo, depthQ: 5, depthT: 6, noBackend: true},
		{name: "legacy117-1.20.2/no-backend", proto: v1202, ops: lo, depthQ: 5, depthT: 6, noBackend: true},
		{name: "modern-1.21.4/no-backend", proto: v1214, ops: mo, depthQ: 3, depthT: 4, noBackend: true},
		// packs without a hash
		{name: "legacy-1.12.2/hashless", proto: v1122, ops: lo, depthQ: 5, depthT: 6, hashless: true},
		{name: "legacy117-1.20.2/hashless", proto: v1202, ops: lo, depthQ: 5, depthT: 6, hashless: true},
		{name: "modern-1.20.3/hashless", proto: v1203, ops: mo, depthQ: 4, depthT: 5, hashless: true},
		{name: "modern-1.21.4/hashless", proto: v1214, ops: mo, depthQ: 3, depthT: 4, hashless: true},
		// a packet to the client / to the backend is rejected once: from then on only "every call returns"
		{name: "legacy-1.12.2/write-errors", proto: v1122, ops: withWriteErrors(lo), depthQ: 4, depthT: 5},
		{name: "legacy117-1.17/write-errors", proto: v117, ops: withWriteErrors(lo), depthQ: 4, depthT: 5},
		{name: "modern-1.21.4/write-errors", proto: v1214, ops: withWriteErrors(mo), depthQ: 3, depthT: 4},
	}
}

// ---------------------------------------------------------------- running one history

type playResult struct {
	out     bfs.Outcome
	curOp   int // index of the op being executed when the execution stopped
	done    bool
	inProbe bool
	opTrace []string
}

func urlsOf(infos []*resourcepack.Info) []string {
	var s []string
	for _, i := range infos {
		if i != nil {
			s = append(s, i.URL)
		}
	}
	sort.Strings(s)
	return s
}

// play runs the history on a fresh handler as the single scheduled thread.
func play(sc scenario, h []Op, x *sched.X, pr *playResult) {
	o := &obs{}
	pl := &recPlayer{proto: sc.proto, o: o}
	if !sc.noBackend {
		pl.be = &recBackend{o: o}
	}
	hd := resourcepack.NewHandler(pl, &detMgr{o: o})
	modern := !sc.proto.Lower(version.Minecraft_1_20_3)
	degraded := false // a write was rejected: the statement only promises that calls return
	m := &model{modern: modern, noBackend: sc.noBackend, hashless: sc.hashless, forcedPrompted: !sc.proto.Lower(version.Minecraft_1_17), lanes: map[int]*lane{}, applied: map[int]*inst{}, pending: map[int]string{}}
	byURL := map[string]*inst{}
	seq := 0
	for i, op := range h {
		pr.curOp = i
		*o = obs{}
		var in *inst
		var call func()
		refusedFresh := ""
		handled := false
		switch op.K {
		case "Q":
			seq++
			in = &inst{url: fmt.Sprintf("http://packs/%c/%d", 'a'+op.P, seq), pack: op.P, forced: op.F, backend: op.B}
			byURL[in.url] = in
			info := &resourcepack.Info{ID: packIDs[op.P], URL: in.url, Hash: resourcepack.Hash(in.url), ShouldForce: op.F}
			if !modern {
				info.ID = uuid.Nil
			}
			if sc.hashless {
				info.Hash = nil
			}
			if op.B {
				info.Origin = resourcepack.DownstreamServerOrigin
			}
			// the proxy's own two ways to a queued pack: Player.SendResourcePack = CheckAlreadyAppliedPack + Queue,
			// a backend's request = HasPackAppliedByHash + Queue (session_backend_play.go)
			call = func() {
				if op.B {
					if hd.HasPackAppliedByHash(info.Hash) {
						refusedFresh = "HasPackAppliedByHash"
						return
					}
				} else if err := hd.CheckAlreadyAppliedPack(info.Hash); err != nil {
					refusedFresh = "CheckAlreadyAppliedPack"
					return
				}
				_ = hd.QueueResourcePack(info)
			}
		case "R":
			b := &resourcepack.ResponseBundle{Status: packet.ResponseStatus(op.S)}
			if modern {
				b.ID = packIDs[op.P]
			}
			// a vanilla client echoes the hash of the pack it was prompted with (<=1.9) / the id
			if l := m.lane(op); l.outstanding {
				b.Hash = resourcepack.Hash(l.q[0].url)
			} else if a := m.applied[op.P]; modern && a != nil {
				b.Hash = resourcepack.Hash(a.url) // (only identifies the pack in the recorded backend packet)
			}
			call = func() { handled, _ = hd.OnResourcePackResponse(b) }
		case "X":
			call = func() { hd.Remove(packIDs[op.P]) }
		case "C":
			call = func() { hd.ClearAppliedResourcePacks() }
		case "E":
			call = func() {
				if op.P == 0 {
					pl.failNext = true
				} else if pl.be != nil {
					pl.be.failNext = true
				}
			}
		}
		x.Log("op %d: %s", i, op)
		panicked, val := vrt.Catch(call)
		if x.Aborting() {
			// the scheduler is tearing the execution down (deadlock): let it unwind
			panic(val)
		}
		pr.opTrace = append(pr.opTrace, fmt.Sprintf("%s -> client<-%v backend<-%v events=%v", op, o.req, o.back, o.ev))
		if panicked {
			pr.out = bfs.Outcome{FailKey: op.kind() + "/panic", FailDesc: fmt.Sprintf("op %d %s panicked: %v", i, op, val)}
			pr.done = true
			return
		}
		if len(o.other) > 0 {
			pr.out = bfs.Outcome{FailKey: op.kind() + "/unexpected-packet", FailDesc: fmt.Sprintf("op %d %s wrote %v", i, op, o.other)}
			pr.done = true
			return
		}
		if refusedFresh != "" {
			pr.out = bfs.Outcome{FailKey: "queue/fresh-pack-reported-already-applied", FailDesc: fmt.Sprintf("op %d %s: pack %s (hashless=%v) has never been queued before, yet %s reports it as already applied: the proxy would not prompt it (and would tell a backend that the client loaded it)", i, op, in.url, sc.hashless, refusedFresh)}
			pr.done = true
			return
		}
		// the First* accessors (Player.AppliedResourcePack / PendingResourcePack) agree with the list accessors
		var accErr string
		if p2, v2 := vrt.Catch(func() {
			fa, ap := hd.FirstAppliedPack(), hd.AppliedResourcePacks()
			fp, pp := hd.FirstPendingPack(), hd.PendingResourcePacks()
			has := func(l []*resourcepack.Info, e *resourcepack.Info) bool {
				for _, x := range l {
					if x == e {
						return true
					}
				}
				return false
			}
			if (fa == nil) != (len(ap) == 0) || (fa != nil && !has(ap, fa)) {
				accErr = fmt.Sprintf("FirstAppliedPack()=%v but AppliedResourcePacks()=%v", fa != nil, urlsOf(ap))
			}
			if (fp == nil) != (len(pp) == 0) || (fp != nil && !has(pp, fp)) {
				accErr = fmt.Sprintf("FirstPendingPack()=%v but PendingResourcePacks()=%v", fp != nil, urlsOf(pp))
			}
		}); p2 {
			if x.Aborting() {
				panic(v2)
			}
			pr.out = bfs.Outcome{FailKey: "accessor/panic", FailDesc: fmt.Sprintf("after op %d %s an accessor panicked: %v", i, op, v2)}
			pr.done = true
			return
		}
		if accErr != "" {
			pr.out = bfs.Outcome{FailKey: "accessor/first-pack-inconsistent", FailDesc: fmt.Sprintf("after op %d %s: %s", i, op, accErr)}
			pr.done = true
			return
		}
		if pl.failed || (pl.be != nil && pl.be.failed) {
			degraded = true
		}
		if degraded || op.K == "E" {
			continue
		}
		disc := o.disc
		v, unsolicited := m.step(op, in, o, handled)
		if v != nil {
			pr.out = bfs.Outcome{FailKey: op.kind() + "/" + v.key, FailDesc: fmt.Sprintf("op %d %s: %s", i, op, v.desc)}
			pr.done = true
			return
		}
		if unsolicited || disc {
			// the statement does not define what follows an answer nobody asked for; a
			// disconnect (forced pack declined) ends the session
			pr.out = bfs.Outcome{Terminal: true, Key: fmt.Sprintf("T|%v|%v|%s", unsolicited, disc, m.key())}
			pr.done = true
			return
		}
		if modern {
			// tracked per id: applied/pending follow the client's answers
			var want []string
			for _, a := range m.applied {
				want = append(want, a.url)
			}
			sort.Strings(want)
			got := urlsOf(hd.AppliedResourcePacks())
			if strings.Join(want, ",") != strings.Join(got, ",") {
				pr.out = bfs.Outcome{FailKey: op.kind() + "/applied-set", FailDesc: fmt.Sprintf("op %d %s: applied packs %v, want %v", i, op, got, want)}
				pr.done = true
				return
			}
			pend := map[uuid.UUID]bool{}
			for _, p := range hd.PendingResourcePacks() {
				pend[p.ID] = true
			}
			for id, st := range m.pending {
				if (st == "yes" && !pend[packIDs[id]]) || (st == "no" && pend[packIDs[id]]) {
					pr.out = bfs.Outcome{FailKey: op.kind() + "/pending-set", FailDesc: fmt.Sprintf("op %d %s: pack id %c pending=%v, model says %s", i, op, 'a'+id, pend[packIDs[id]], st)}
					pr.done = true
					return
				}
			}
		}
	}
	// canonical key: model state + what the accessors report (instance numbers abstracted away);
	// the handler's remaining hidden state (queue contents) equals the model's whenever no
	// violation was reported, so equal keys have equal futures up to instance renaming.
	acc := func(infos []*resourcepack.Info) string {
		var s []string
		for _, i := range infos {
			if i != nil {
				s = append(s, byURL[i.URL].attrs())
			}
		}
		sort.Strings(s)
		return strings.Join(s, ",")
	}
	key := m.key() + "|A" + acc(hd.AppliedResourcePacks()) + "|P" + acc(hd.PendingResourcePacks())
	if degraded {
		key = "after-write-error|" + key
	}
	key += fmt.Sprintf("|fn%v", pl.failNext)
	if pl.be != nil {
		key += fmt.Sprintf("%v", pl.be.failNext)
		pl.be.failNext = false
	}
	pl.failNext = false
	// The queues themselves are hidden inside the handler. Before two histories are merged the
	// handler is drained by a fixed probe (final answers until nothing reacts any more) and what
	// comes out — which queued instance is announced/prompted next, in which order — is part of
	// the key, so a history that corrupted the hidden queue is not merged with a clean one.
	pr.inProbe = true
	key += "|probe:" + probe(x, hd, modern, byURL, o)
	pr.out = bfs.Outcome{Key: key, Obs: m.key()}
	pr.done = true
}

func probe(x *sched.X, hd resourcepack.Handler, modern bool, byURL map[string]*inst, o *obs) string {
	var sb strings.Builder
	name := func(list []string) string {
		var out []string
		for _, e := range list {
			st, url, ok := strings.Cut(e, "|")
			if !ok {
				url, st = st, ""
			}
			out = append(out, st+byURL[url].attrs())
		}
		return strings.Join(out, ",")
	}
	ids := 1
	if modern {
		ids = 2
	}
	for p := 0; p < ids; p++ {
		for n := 0; n < 10; n++ {
			*o = obs{}
			b := &resourcepack.ResponseBundle{Status: packet.SuccessfulResourcePackResponseStatus}
			if modern {
				b.ID = packIDs[p]
			}
			panicked, val := vrt.Catch(func() { _, _ = hd.OnResourcePackResponse(b) })
			if x.Aborting() {
				panic(val)
			}
			fmt.Fprintf(&sb, "%s/%s/%s/%v;", name(o.req), name(o.back), name(o.ev), panicked)
			if panicked || (len(o.req) == 0 && len(o.ev) == 0) {
				break
			}
		}
	}
	return sb.String()
}

func runHistory(sc scenario, h []Op) bfs.Outcome {
	pr := &playResult{}
	body := func(x *sched.X) { play(sc, h, x, pr) }
	res := sched.Explore(sched.Options{Bound: 0}, body)
	if len(res.Failures) > 0 {
		keys := make([]string, 0, len(res.Failures))
		for k := range res.Failures {
			keys = append(keys, k)
		}
		sort.Strings(keys)
		f := res.Failures[keys[0]]
		kind := "failure"
		switch {
		case strings.HasPrefix(f.Key, "deadlock:"):
			kind = "deadlock"
		case strings.HasPrefix(f.Key, "panic:"):
			kind = "panic"
		case strings.HasPrefix(f.Key, "livelock:"):
			kind = "livelock"
		}
		op := h[pr.curOp]
		if pr.inProbe {
			op = Op{K: "R", S: int(packet.SuccessfulResourcePackResponseStatus)} // the drain probe: an unsolicited/late final answer
		}
		pr2 := &playResult{}
		_, trace := sched.Replay(sched.Options{Bound: 0}, f.Choices, func(x *sched.X) { play(sc, h, x, pr2) })
		if len(trace) > 60 {
			trace = trace[len(trace)-60:]
		}
		return bfs.Outcome{FailKey: op.kind() + "/" + kind, FailDesc: fmt.Sprintf("op %d %s never returned: %s\n%s\nscheduler trace (tail):\n%s", pr.curOp, op, f.Key, f.Desc, strings.Join(trace, "\n"))}
	}
	if !pr.done {
		return bfs.Outcome{FailKey: "harness/incomplete", FailDesc: "history did not run to completion without a recorded failure"}
	}
	if pr.out.FailKey != "" {
		pr.out.FailDesc += "\nhistory so far:\n  " + strings.Join(pr.opTrace, "\n  ")
	}
	return pr.out
}

func TestVerif(t *testing.T) {
	vrt.Run(t, "C27", func(r *vrt.R) {
		scs := scenarios(r.Thorough())
		var rp bfs.ReplayData[Op]
		if r.ReplayInto(&rp) {
			for _, sc := range scs {
				if sc.name != rp.Scenario {
					continue
				}
				out := runHistory(sc, rp.History)
				r.Eval(1)
				if out.FailKey != "" {
					r.Violation(sc.name+"/"+out.FailKey, out.FailDesc, rp)
				}
				return
			}
			t.Fatalf("replay: unknown scenario %q", rp.Scenario)
		}
		for _, sc := range scs {
			if r.Expired() {
				r.NotExhaustive("scenario " + sc.name + " not started: soft deadline")
				continue
			}
			depth := sc.depthQ
			if r.Thorough() {
				depth = sc.depthT
			}
			sc := sc
			res := bfs.Explore(bfs.Config[Op]{
				Name: sc.name, Ops: sc.ops, Depth: depth, Shard: r.Shard, NShards: r.NShards, Deadline: r.DeadlineTime(),
				Run: func(h []Op) bfs.Outcome {
					out := runHistory(sc, h)
					classify(r, sc, h, out)
					return out
				},
			})
			res.Merge(r, sc.name)
		}
	})
}

// classify records which equivalence classes of histories were really executed.
func classify(r *vrt.R, sc scenario, h []Op, out bfs.Outcome) {
	last := h[len(h)-1]
	r.Class("last-op:" + last.kind())
	if out.Terminal {
		r.Class("terminal(unsolicited-or-disconnect)")
	}
	nq, declined, forcedAfterDecline := 0, false, false
	for _, o := range h {
		if o.K == "Q" {
			nq++
			if declined && o.F {
				forcedAfterDecline = true
			}
		}
		if o.K == "R" && o.S == int(packet.DeclinedResourcePackResponseStatus) {
			declined = true
		}
	}
	if nq >= 2 {
		r.Class("two-or-more-packs-queued")
	}
	if i := strings.IndexByte(sc.name, '/'); i >= 0 {
		r.Class("variant:" + sc.name[i+1:])
		if strings.HasPrefix(out.Key, "after-write-error|") {
			r.Class("variant:write-errors:a-write-was-rejected")
		}
	}
	if declined {
		r.Class("history-with-client-decline")
	}
	// SUCCESSFUL for an id right after SUCCESSFUL for the same id: the second one finds the pack applied
	for i := 1; i < len(h); i++ {
		if h[i].K == "R" && h[i-1].K == "R" && h[i].P == h[i-1].P && h[i].S == int(packet.SuccessfulResourcePackResponseStatus) && h[i-1].S == h[i].S && !out.Terminal && !sc.proto.Lower(version.Minecraft_1_20_3) {
			r.Class("repeated-success-for-applied-pack")
			break
		}
	}
	if forcedAfterDecline {
		r.Class("forced-pack-queued-after-decline")
	}
}
