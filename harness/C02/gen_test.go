package codec

// Stream generator for C02: everything is named by tokens so that a case is a small JSON value that
// rebuilds the exact byte stream (replay) and reads well in evidence samples.

import (
	"fmt"
	"math"
	"strconv"
	"strings"
	"sync"

	"go.minekube.com/gate/pkg/edition/java/proxy/zzverif/refframe"
	"go.minekube.com/gate/pkg/edition/java/proxy/zzverif/vrt"
)

type cfgSpec struct {
	Comp       bool `json:"comp"`
	Thr        int  `json:"thr"`
	FromClient bool `json:"from_client"`
}

func (c cfgSpec) ref() refframe.Config {
	return refframe.Config{Compression: c.Comp, Threshold: c.Thr, FromClient: c.FromClient}
}

type frameSpec struct {
	Len   string `json:"len"`   // ok | ok-1 | ok+1 | pad | v:N
	Claim string `json:"claim"` // none | v:N | pad:N | cont5 | lone80
	Data  string `json:"data"`  // raw:K | z:S[:variant] | zs:S | garbage | bomb | hdronly | empty
}

type caseSpec struct {
	Cfg      cfgSpec    `json:"cfg"`
	Kind     string     `json:"kind"` // frame | tokens | zeros
	Frame    *frameSpec `json:"frame,omitempty"`
	Tokens   []string   `json:"tokens,omitempty"`
	Zeros    int        `json:"zeros,omitempty"`
	ZeroKind string     `json:"zero_kind,omitempty"` // len0 | claimed0
	// Prelude: well-formed frames sent BEFORE the frame under test and decoded by the same Decoder (the
	// inflater and whatever else it keeps are then in their re-used state): "" | z | zz | raw
	Prelude  string     `json:"prelude,omitempty"`
	Sentinel bool       `json:"sentinel,omitempty"`  // a well-formed frame follows
	Cut      int        `json:"cut"`                 // -1: whole stream, else only the first Cut bytes
}

func (c *caseSpec) String() string {
	var s string
	switch c.Kind {
	case "frame":
		s = fmt.Sprintf("frame{len=%s claim=%s data=%s}", c.Frame.Len, c.Frame.Claim, c.Frame.Data)
	case "tokens":
		s = "tokens{" + strings.Join(c.Tokens, " ") + "}"
	case "zeros":
		s = fmt.Sprintf("zeros{%d×%s}", c.Zeros, c.ZeroKind)
	}
	if c.Prelude != "" {
		s = "prelude(" + c.Prelude + ")+" + s
	}
	if c.Sentinel {
		s += "+sentinel"
	}
	if c.Cut >= 0 {
		s += fmt.Sprintf("[:%d]", c.Cut)
	}
	return s
}

// ---- token → bytes ----

func content(n int) []byte {
	b := make([]byte, n)
	for i := range b {
		b[i] = byte(0x41 + i%26) // < 0x80: every payload starts with a parseable one-byte packet id
	}
	return b
}

var (
	tokMu    sync.Mutex
	tokCache = map[string][]byte{}
)

func num(s string) int {
	v, err := strconv.ParseInt(s, 10, 64)
	if err != nil {
		panic("bad token number " + s)
	}
	return int(v)
}

// dataBytes returns the bytes of a data token and the size of the content it stands for.
func dataBytes(tok string) (b []byte, actual int) {
	parts := strings.Split(tok, ":")
	switch parts[0] {
	case "raw":
		n := num(parts[1])
		return content(n), n
	case "empty":
		return nil, 0
	case "garbage":
		return []byte{0x01, 0x02, 0x03, 0x04, 0x05}, 5
	case "hdronly":
		return []byte{0x78, 0x9C}, 0
	case "bomb": // stored block announcing 65535 bytes, none present
		return []byte{0x78, 0x9C, 0x00, 0xFF, 0xFF, 0x00, 0x00}, 65535
	case "z", "zs":
		n := num(parts[1])
		tokMu.Lock()
		key := parts[0] + ":" + parts[1]
		z, ok := tokCache[key]
		if !ok {
			lvl := 6
			if parts[0] == "zs" {
				lvl = 0
			}
			z = refframe.Zlib(content(n), lvl)
			tokCache[key] = z
		}
		tokMu.Unlock()
		if len(parts) == 2 {
			return z, n
		}
		z = append([]byte(nil), z...)
		switch parts[2] {
		case "cut1":
			z = z[:len(z)-1]
		case "noadler":
			z = z[:len(z)-4]
		case "half":
			z = z[:len(z)/2]
		case "badadler":
			z[len(z)-1] ^= 0x01
		case "trail":
			z = append(z, 0xDE, 0xAD, 0x00)
		case "midflip": // a valid frame mutated in transit: one bit of the deflate data flipped
			z[2+(len(z)-6)/2] ^= 0x10
		default:
			panic("bad variant " + tok)
		}
		return z, n
	}
	panic("bad data token " + tok)
}

func claimBytes(tok string) []byte {
	parts := strings.Split(tok, ":")
	switch parts[0] {
	case "none":
		return nil
	case "v":
		return refframe.VarInt(int32(num(parts[1])))
	case "pad":
		v := int32(num(parts[1]))
		return refframe.VarIntPadded(v, len(refframe.VarInt(v))+1)
	case "cont5":
		return []byte{0xFF, 0xFF, 0xFF, 0xFF, 0xFF, 0x01}
	case "lone80":
		return []byte{0x80}
	}
	panic("bad claim token " + tok)
}

func lenBytes(tok string, bodyLen int) []byte {
	switch tok {
	case "ok":
		return refframe.VarInt(int32(bodyLen))
	case "ok-1":
		return refframe.VarInt(int32(bodyLen - 1))
	case "ok+1":
		return refframe.VarInt(int32(bodyLen + 1))
	case "pad":
		return refframe.VarIntPadded(int32(bodyLen), len(refframe.VarInt(int32(bodyLen)))+1)
	}
	if strings.HasPrefix(tok, "v:") {
		return refframe.VarInt(int32(num(tok[2:])))
	}
	panic("bad len token " + tok)
}

var sentinelPayload = []byte{0x7E, 0x01, 0x02}

var sentinelCache sync.Map // cfgSpec -> []byte

func sentinel(cfg cfgSpec) []byte {
	if b, ok := sentinelCache.Load(cfg); ok {
		return b.([]byte)
	}
	var b []byte
	switch {
	case !cfg.Comp:
		b = refframe.Frame(sentinelPayload)
	case len(sentinelPayload) <= cfg.Thr:
		b = refframe.Frame(append([]byte{0}, sentinelPayload...))
	default:
		b = refframe.Frame(append(refframe.VarInt(int32(len(sentinelPayload))), refframe.Zlib(sentinelPayload, 6)...))
	}
	sentinelCache.Store(cfg, b)
	return b
}

// free-form token alphabet (byte strings that need not line up into frames)
func freeToken(tok string) []byte {
	switch {
	case strings.HasPrefix(tok, "V"):
		return refframe.VarInt(int32(num(tok[1:])))
	case tok == "pad0":
		return []byte{0x80, 0x00}
	case tok == "b1":
		return []byte{0x55}
	case tok == "b2":
		return []byte{0x55, 0x56}
	case tok == "ff":
		return []byte{0xFF}
	case tok == "z3":
		z, _ := dataBytes("z:3")
		return z
	case tok == "z3cut":
		z, _ := dataBytes("z:3:cut1")
		return z
	}
	panic("bad free token " + tok)
}

var preludeCache sync.Map // cfgSpec+name -> []byte

// prelude frames: "z" one compressed frame (300 bytes, or threshold+5 when that is more), "zz" two of them
// (different sizes), "raw" an uncompressed one (2 bytes; under compression: min(2,threshold) bytes with data length 0)
func prelude(cfg cfgSpec, name string) []byte {
	type key struct {
		cfg  cfgSpec
		name string
	}
	if b, ok := preludeCache.Load(key{cfg, name}); ok {
		return b.([]byte)
	}
	zframe := func(n int) []byte {
		return refframe.Frame(append(refframe.VarInt(int32(n)), refframe.Zlib(content(n), 6)...))
	}
	var b []byte
	switch {
	case name == "raw" && !cfg.Comp:
		b = refframe.Frame(content(2))
	case name == "raw":
		b = refframe.Frame(append([]byte{0}, content(min(2, cfg.Thr))...))
	case !cfg.Comp:
		panic("compressed prelude without compression")
	case name == "z":
		b = zframe(max(300, cfg.Thr+5))
	case name == "zz":
		b = append(zframe(max(300, cfg.Thr+5)), zframe(max(41, cfg.Thr))...)
	default:
		panic("bad prelude " + name)
	}
	preludeCache.Store(key{cfg, name}, b)
	return b
}

func (c *caseSpec) build() []byte {
	var s []byte
	if c.Prelude != "" {
		s = append(s, prelude(c.Cfg, c.Prelude)...)
	}
	switch c.Kind {
	case "frame":
		d, _ := dataBytes(c.Frame.Data)
		body := append(append([]byte(nil), claimBytes(c.Frame.Claim)...), d...)
		s = append(s, append(lenBytes(c.Frame.Len, len(body)), body...)...)
	case "tokens":
		for _, t := range c.Tokens {
			s = append(s, freeToken(t)...)
		}
	case "zeros":
		for i := 0; i < c.Zeros; i++ {
			if c.ZeroKind == "claimed0" {
				s = append(s, 0x01, 0x00)
			} else {
				s = append(s, 0x00)
			}
		}
	default:
		panic("bad case kind " + c.Kind)
	}
	if c.Sentinel {
		s = append(s, sentinel(c.Cfg)...)
	}
	if c.Cut >= 0 { // Cut counts from the start of the frame under test (the prelude always arrives whole)
		pl := 0
		if c.Prelude != "" {
			pl = len(prelude(c.Cfg, c.Prelude))
		}
		if pl+c.Cut < len(s) {
			s = s[:pl+c.Cut]
		}
	}
	return s
}

// ---- enumeration ----

func dedupInts(in []int, keep func(int) bool) []int {
	seen := map[int]bool{}
	var out []int
	for _, v := range in {
		if !seen[v] && keep(v) {
			seen[v] = true
			out = append(out, v)
		}
	}
	return out
}

func configs(r *vrt.R) []cfgSpec {
	thr := []int{0, 1, 64, 256}
	if r.Thorough() {
		thr = []int{0, 1, 2, 64, 127, 128, 256, 16384}
	}
	var out []cfgSpec
	for _, fc := range []bool{true, false} {
		out = append(out, cfgSpec{Comp: false, Thr: -1, FromClient: fc})
		for _, t := range thr {
			out = append(out, cfgSpec{Comp: true, Thr: t, FromClient: fc})
		}
	}
	return out
}

// cutPoints: every strict prefix for short streams, boundary prefixes for long ones.
func cutPoints(n int, marks ...int) []int {
	if n <= 48 {
		out := make([]int, 0, n)
		for i := 0; i < n; i++ {
			out = append(out, i)
		}
		return out
	}
	c := []int{0, 1, 2, 3, 4, 5, 6, n / 2, n - 5, n - 4, n - 2, n - 1}
	for _, m := range marks {
		c = append(c, m-1, m, m+1)
	}
	return dedupInts(c, func(v int) bool { return v >= 0 && v < n })
}

func enumerate(r *vrt.R, emit func(*caseSpec) bool) {
	for _, cfg := range configs(r) {
		if !enumFrames(r, cfg, emit) || !enumZeros(cfg, emit) || !enumFree(r, cfg, emit) {
			return
		}
	}
}

func enumFrames(r *vrt.R, cfg cfgSpec, emit func(*caseSpec) bool) bool {
	lens := []string{"ok", "ok+1", "ok-1", "pad", "v:0"}
	// these decide on the length prefix alone (reject / wait for 2 MiB that never come): the body is irrelevant,
	// so they are combined with every body token but only the first claimed-size token
	lensLite := []string{"v:-1", fmt.Sprintf("v:%d", refframe.MaxFrame), fmt.Sprintf("v:%d", refframe.MaxFrame+1)}
	var datas, claims []string
	type big struct{ data string }
	var bigs []string
	if !cfg.Comp {
		for _, n := range []int{0, 1, 2, 127, 128, 300, 16383, 16384} {
			datas = append(datas, fmt.Sprintf("raw:%d", n))
		}
		datas = append(datas, "garbage", "z:300")
		claims = []string{"none"}
		bigs = []string{fmt.Sprintf("raw:%d", refframe.MaxFrame), fmt.Sprintf("raw:%d", refframe.MaxFrame-1)}
	} else {
		t := cfg.Thr
		sizes := dedupInts([]int{0, 1, 2, t - 1, t, t + 1, 300}, func(v int) bool { return v >= 0 })
		for _, n := range sizes {
			datas = append(datas, fmt.Sprintf("raw:%d", n))
		}
		for _, n := range sizes {
			datas = append(datas, fmt.Sprintf("z:%d", n))
		}
		datas = append(datas, "z:65536")
		for _, n := range dedupInts([]int{t + 1, 300, 65536}, func(int) bool { return true }) {
			for _, v := range []string{"cut1", "noadler", "half", "badadler", "trail", "midflip"} {
				datas = append(datas, fmt.Sprintf("z:%d:%s", n, v))
			}
		}
		datas = append(datas, "zs:300", "garbage", "bomb", "hdronly")
		capv := cfg.ref().Cap()
		bigs = []string{fmt.Sprintf("z:%d", refframe.MaxFrame), fmt.Sprintf("z:%d", capv), fmt.Sprintf("z:%d", capv+1), fmt.Sprintf("z:%d:badadler", capv), fmt.Sprintf("z:%d:cut1", capv)}
	}
	// claimed sizes near the actual size / the threshold / the integer limits: full product with bodies and lengths
	mkClaims := func(actual int) []string {
		if !cfg.Comp {
			return []string{"none"}
		}
		t := cfg.Thr
		vals := dedupInts([]int{actual, actual - 1, actual + 1, -1, 0, 1, t - 1, t, t + 1, math.MaxInt32, math.MinInt32},
			func(int) bool { return true })
		var out []string
		for _, v := range vals {
			out = append(out, fmt.Sprintf("v:%d", v))
		}
		return append(out, "pad:0", fmt.Sprintf("pad:%d", actual), "cont5", "lone80")
	}
	// claimed sizes around the caps make a conforming decoder allocate MiBs per case; what happens is decided by
	// the cap comparison (or, below the cap, by the inflated size), so they meet a reduced set of bodies
	capClaims := []string{fmt.Sprintf("v:%d", refframe.MaxFrame), fmt.Sprintf("v:%d", 2<<20), fmt.Sprintf("v:%d", 2<<20+1), fmt.Sprintf("v:%d", 8<<20), fmt.Sprintf("v:%d", 8<<20+1)}
	capDatas := []string{"z:300", "z:300:trail", "zs:300", "garbage", "bomb", "raw:1"}
	one := func(fs frameSpec, prefixes bool) bool {
		f := fs
		full := &caseSpec{Cfg: cfg, Kind: "frame", Frame: &f, Sentinel: true, Cut: -1}
		if !emit(full) {
			return false
		}
		alone := &caseSpec{Cfg: cfg, Kind: "frame", Frame: &f, Cut: -1}
		n := len(alone.build())
		if fs.Len == "ok" {
			// the same frame met by a Decoder that has already decoded well-formed frames (re-used inflater),
			// whole and cut short
			pres := []string{"raw"}
			if cfg.Comp {
				pres = []string{"z", "zz", "raw"}
			}
			for _, pre := range pres {
				if !emit(&caseSpec{Cfg: cfg, Kind: "frame", Frame: &f, Prelude: pre, Sentinel: true, Cut: -1}) {
					return false
				}
			}
			for _, c := range dedupInts([]int{n - 1, n - 4, n / 2}, func(v int) bool { return v > 0 && v < n }) {
				if !emit(&caseSpec{Cfg: cfg, Kind: "frame", Frame: &f, Prelude: pres[0], Cut: c}) {
					return false
				}
			}
		}
		if !prefixes {
			return true
		}
		for _, c := range cutPoints(n, len(lenBytes(fs.Len, n)), len(lenBytes(fs.Len, n))+len(claimBytes(fs.Claim))) {
			if !emit(&caseSpec{Cfg: cfg, Kind: "frame", Frame: &f, Cut: c}) {
				return false
			}
		}
		return true
	}
	for _, d := range datas {
		_, actual := dataBytes(d)
		if cfg.Comp {
			claims = mkClaims(actual)
		}
		for _, l := range lensLite {
			if !one(frameSpec{Len: l, Claim: claims[0], Data: d}, r.Thorough()) {
				return false
			}
		}
		for _, cl := range claims {
			for _, l := range lens {
				prefixes := r.Thorough() || l == "ok" || l == "ok+1"
				if !one(frameSpec{Len: l, Claim: cl, Data: d}, prefixes) {
					return false
				}
			}
		}
	}
	if cfg.Comp {
		for _, d := range capDatas {
			for _, cl := range capClaims {
				for _, l := range []string{"ok", "ok+1"} {
					if !one(frameSpec{Len: l, Claim: cl, Data: d}, l == "ok") {
						return false
					}
				}
			}
		}
	}
	// large bodies: well-framed only, claims around the actual size and the caps
	for _, d := range bigs {
		_, actual := dataBytes(d)
		cls := []string{"none"}
		if cfg.Comp {
			cls = nil
			for _, v := range dedupInts([]int{actual, actual - 1, actual + 1, 0, -1, cfg.Thr}, func(int) bool { return true }) {
				cls = append(cls, fmt.Sprintf("v:%d", v))
			}
		}
		for _, cl := range cls {
			for _, l := range []string{"ok", "ok+1"} {
				if !emit(&caseSpec{Cfg: cfg, Kind: "frame", Frame: &frameSpec{Len: l, Claim: cl, Data: d}, Sentinel: true, Cut: -1}) {
					return false
				}
			}
			// the frame cut one byte short
			alone := &caseSpec{Cfg: cfg, Kind: "frame", Frame: &frameSpec{Len: "ok", Claim: cl, Data: d}, Cut: -1}
			n := len(alone.build())
			if !emit(&caseSpec{Cfg: cfg, Kind: "frame", Frame: &frameSpec{Len: "ok", Claim: cl, Data: d}, Cut: n - 1}) {
				return false
			}
		}
	}
	return true
}

func enumZeros(cfg cfgSpec, emit func(*caseSpec) bool) bool {
	kinds := []string{"len0"}
	if cfg.Comp {
		kinds = append(kinds, "claimed0")
	}
	for _, k := range kinds {
		for _, z := range []int{1, 2, 9, 10, 11, 12, 13, 40, 300} {
			for _, sent := range []bool{true, false} {
				if !emit(&caseSpec{Cfg: cfg, Kind: "zeros", Zeros: z, ZeroKind: k, Sentinel: sent, Cut: -1}) {
					return false
				}
			}
		}
	}
	return true
}

func enumFree(r *vrt.R, cfg cfgSpec, emit func(*caseSpec) bool) bool {
	t := cfg.Thr
	if !cfg.Comp {
		t = 5
	}
	alpha := []string{"V-1", "V0", "V1", "V2", "V3", "V4", fmt.Sprintf("V%d", t), fmt.Sprintf("V%d", t+1), "V128",
		fmt.Sprintf("V%d", refframe.MaxFrame), fmt.Sprintf("V%d", refframe.MaxFrame+1), "pad0", "b1", "b2", "ff", "z3", "z3cut"}
	seen := map[string]bool{}
	var a []string
	for _, s := range alpha {
		if !seen[s] {
			seen[s] = true
			a = append(a, s)
		}
	}
	heavy := fmt.Sprintf("V%d", refframe.MaxFrame)
	depth := 3
	if !cfg.FromClient {
		depth = 2 // the direction only selects the claimed-size cap, which free strings of small tokens never reach
	}
	if r.Thorough() {
		depth = 4
	}
	toks := make([]string, 0, depth)
	var rec func() bool
	rec = func() bool {
		if len(toks) > 0 {
			cs := &caseSpec{Cfg: cfg, Kind: "tokens", Tokens: append([]string(nil), toks...), Cut: -1}
			if !emit(cs) {
				return false
			}
			// strict prefixes that cut inside the LAST token (cuts at token borders are other strings)
			last := len(freeToken(toks[len(toks)-1]))
			total := len(cs.build())
			for k := 1; k < last; k++ {
				if !emit(&caseSpec{Cfg: cfg, Kind: "tokens", Tokens: cs.Tokens, Cut: total - k}) {
					return false
				}
			}
		}
		if len(toks) == depth {
			return true
		}
		for _, s := range a {
			if s == heavy && len(toks) >= 2 {
				continue // announces a 2 MiB frame: each use costs 2 MiB of zeroing; kept to strings of <= 2 tokens
			}
			toks = append(toks, s)
			if !rec() {
				return false
			}
			toks = toks[:len(toks)-1]
		}
		return true
	}
	return rec()
}
