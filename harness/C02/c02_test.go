package codec

// C02 — frame decoding vs the vanilla/Velocity acceptance rules on hostile byte streams.
//
// Engine: enum. Streams are built from token alphabets (see gen.go), decoded by the REAL decoder through two
// seams — Decoder.readPayload (the frame layer proper) and Decoder.Decode (public entry, adds the empty-frame
// skipping) — and compared with the independent reference in lib/refframe.

import (
	"bytes"
	"encoding/hex"
	"errors"
	"fmt"
	"hash/fnv"
	"io"
	"runtime"
	"runtime/metrics"
	"sync/atomic"
	"testing"
	"time"

	"github.com/go-logr/logr"

	"go.minekube.com/gate/pkg/edition/java/proto/state"
	"go.minekube.com/gate/pkg/edition/java/proto/state/states"
	"go.minekube.com/gate/pkg/edition/java/proxy/zzverif/refframe"
	"go.minekube.com/gate/pkg/edition/java/proxy/zzverif/vrt"
	"go.minekube.com/gate/pkg/gate/proto"
)

// allocation slack on top of the reference budget: inflater window + tables (~45 KiB, once per decoder),
// error values, packet contexts, bytes.Buffers. Wide on purpose.
const allocSlack = 384 << 10

// emptyRegistry has no packets registered, so Decode never tries to parse a payload as a known packet:
// what comes back is the frame layer's output.
var emptyRegistry = state.NewRegistry(states.HandshakeState)

type gateOut struct {
	payloads [][]byte
	err      error
	panicked bool
	panicVal any
	alloc    uint64
	steps    int
}

func direction(fromClient bool) proto.Direction {
	if fromClient {
		return proto.ServerBound
	}
	return proto.ClientBound
}

// trickleReader is what the Decoder sits on in production, reduced to its contract: a Read hands out at most
// `max` bytes however many are asked for (a bufio.Reader over a socket, a cipher.StreamReader over that), and
// the last bytes may arrive together with io.EOF.
type trickleReader struct {
	b   []byte
	pos int
	max int
}

func (t *trickleReader) Read(p []byte) (int, error) {
	if len(p) == 0 {
		return 0, nil
	}
	if t.pos >= len(t.b) {
		return 0, io.EOF
	}
	n := min(t.max, len(p), len(t.b)-t.pos)
	copy(p, t.b[t.pos:t.pos+n])
	t.pos += n
	if t.pos == len(t.b) {
		return n, io.EOF
	}
	return n, nil
}

// reader variants: 0 = bytes.Reader handed to NewDecoder; 1 = trickling reader handed to NewDecoder;
// 2 = trickling reader installed with SetReader (what EnableEncryption does)
var readerVariants = []string{"bytes.Reader", "trickle", "trickle-via-SetReader"}

func trickle(stream []byte) *trickleReader {
	max := 1
	if len(stream) > 8192 {
		max = 1021 // MiB-sized streams: byte-wise delivery would only repeat the same short reads a million times
	}
	return &trickleReader{b: stream, max: max}
}

func newDecoderOn(stream []byte, cfg refframe.Config, variant int) *Decoder {
	var d *Decoder
	switch variant {
	case 0:
		d = NewDecoder(bytes.NewReader(stream), direction(cfg.FromClient), logr.Discard())
	case 1:
		d = NewDecoder(trickle(stream), direction(cfg.FromClient), logr.Discard())
	default:
		d = NewDecoder(bytes.NewReader(nil), direction(cfg.FromClient), logr.Discard())
		d.SetReader(trickle(stream))
	}
	d.SetState(emptyRegistry)
	if cfg.Compression {
		d.SetCompressionThreshold(cfg.Threshold)
	}
	return d
}

func newDecoder(stream []byte, cfg refframe.Config) *Decoder {
	d := NewDecoder(bytes.NewReader(stream), direction(cfg.FromClient), logr.Discard())
	d.SetState(emptyRegistry)
	if cfg.Compression {
		d.SetCompressionThreshold(cfg.Threshold)
	}
	return d
}

var memBefore, memAfter runtime.MemStats

// heapAllocs is the cheap (no stop-the-world) twin of MemStats.TotalAlloc; it may lag by the spans sitting in
// the per-P caches, so it is only used as a pre-filter: a case over budget is measured again with
// runtime.ReadMemStats and only that precise number can become a violation.
var allocSample = []metrics.Sample{{Name: "/gc/heap/allocs:bytes"}}

func heapAllocs() uint64 {
	metrics.Read(allocSample)
	return allocSample[0].Value.Uint64()
}

// runFrameLayer drives Decoder.readPayload until it errors.
func runFrameLayer(stream []byte, cfg refframe.Config, measure int) (o gateOut) {
	return runFrameLayerOn(stream, cfg, measure, 0)
}

func runFrameLayerOn(stream []byte, cfg refframe.Config, measure int, variant int) (o gateOut) {
	d := newDecoderOn(stream, cfg, variant)
	var before uint64
	switch measure {
	case measurePrecise:
		runtime.ReadMemStats(&memBefore)
	case measureCheap:
		before = heapAllocs()
	}
	o.panicked, o.panicVal = vrt.Catch(func() {
		for o.steps = 0; o.steps <= len(stream)+4; o.steps++ {
			d.mu.Lock()
			p, _, err := d.readPayload()
			d.mu.Unlock()
			if err != nil {
				o.err = err
				return
			}
			if len(p) > 0 {
				o.payloads = append(o.payloads, p)
			}
		}
		o.err = errors.New("harness: decoder yielded more frames than the stream has bytes")
	})
	switch measure {
	case measurePrecise:
		runtime.ReadMemStats(&memAfter)
		o.alloc = memAfter.TotalAlloc - memBefore.TotalAlloc
	case measureCheap:
		o.alloc = heapAllocs() - before
	}
	return
}

const (
	measureNone = iota
	measureCheap
	measurePrecise
)

// runDecode drives the public Decoder.Decode until it errors.
func runDecode(stream []byte, cfg refframe.Config) (o gateOut) {
	d := newDecoder(stream, cfg)
	o.panicked, o.panicVal = vrt.Catch(func() {
		for o.steps = 0; o.steps <= len(stream)+4; o.steps++ {
			ctx, err := d.Decode()
			if ctx == nil || (err != nil && !errors.Is(err, proto.ErrDecoderLeftBytes)) {
				if err == nil {
					err = errors.New("harness: Decode returned nil, nil")
				}
				o.err = err
				return
			}
			o.payloads = append(o.payloads, ctx.Payload)
		}
		o.err = errors.New("harness: decoder yielded more packets than the stream has bytes")
	})
	return
}

// idParseable: does the payload start with a VarInt that ends within 5 bytes? (Below the frame layer the
// packet decoder needs a packet id; the property says nothing about payloads without one.)
func idParseable(p []byte) bool {
	for i := 0; i < 5 && i < len(p); i++ {
		if p[i]&0x80 == 0 {
			return true
		}
	}
	return false
}

type checker struct {
	r        *vrt.R
	cur      atomic.Pointer[caseSpec] // case being evaluated (for the watchdog)
	progress atomic.Int64
}

func short(b []byte) string {
	if len(b) <= 48 {
		return hex.EncodeToString(b)
	}
	return fmt.Sprintf("%s…(%d bytes)…%s", hex.EncodeToString(b[:24]), len(b), hex.EncodeToString(b[len(b)-8:]))
}

func cfgString(c refframe.Config) string {
	dir := "from-server"
	if c.FromClient {
		dir = "from-client"
	}
	if !c.Compression {
		return dir + "/compression-off"
	}
	return fmt.Sprintf("%s/threshold=%d", dir, c.Threshold)
}

// compare checks one seam's output against the reference.
func (c *checker) compare(seam string, cs *caseSpec, stream []byte, ref *refframe.Result, o *gateOut, upTo int) {
	r := c.r
	where := func() string {
		return fmt.Sprintf("seam=%s cfg=%s case=%s stream=%s\nreference: %d payload(s) then %s [%s] %s\ngate: %d payload(s) then error %v",
			seam, cfgString(cs.Cfg.ref()), cs.String(), short(stream), len(ref.Payloads), ref.End, ref.Tag, ref.Reason, len(o.payloads), o.err)
	}
	if o.panicked {
		r.Violation("panic", fmt.Sprintf("decoder panicked: %v\n%s", o.panicVal, where()), cs)
		return
	}
	// payloads both sides yield must be identical
	n := upTo
	for i := 0; i < n && i < len(o.payloads); i++ {
		if !bytes.Equal(o.payloads[i], ref.Payloads[i]) {
			r.Violation("payload-differs/"+ref.PayloadTags[i],
				fmt.Sprintf("payload #%d differs: gate %s, reference %s\n%s", i, short(o.payloads[i]), short(ref.Payloads[i]), where()), cs)
			return
		}
	}
	if len(o.payloads) < n {
		// gate stopped (errored) where the reference yields a payload
		i := len(o.payloads)
		cat := ref.PayloadTags[i]
		if ref.EmptyBefore[i] > 10 {
			cat = "after-more-than-10-empty-frames"
		}
		r.Violation("rejects-valid-frame/"+cat,
			fmt.Sprintf("the reference yields payload #%d (%s, %d bytes, after %d ignored empty frames) but gate fails with: %v\n%s",
				i, ref.PayloadTags[i], len(ref.Payloads[i]), ref.EmptyBefore[i], o.err, where()), cs)
		return
	}
	if upTo < len(ref.Payloads) || ref.End == refframe.EndUndefined {
		return // beyond this point the statement does not define the outcome for this seam/stream
	}
	if len(o.payloads) > n {
		extra := o.payloads[n]
		r.Violation("accepts/"+ref.Tag,
			fmt.Sprintf("the reference ends the stream after %d payload(s) with %s [%s: %s] but gate yields one more payload: %s\n%s",
				n, ref.End, ref.Tag, ref.Reason, short(extra), where()), cs)
		return
	}
	if o.err == nil {
		r.Violation("no-error-at-end", "decoder returned neither payload nor error\n"+where(), cs)
	}
}

func tricklesToo(cs *caseSpec) bool {
	switch cs.Kind {
	case "frame":
		if cs.Frame.Claim == "none" {
			return true
		}
		_, actual := dataBytes(cs.Frame.Data)
		return cs.Frame.Claim == fmt.Sprintf("v:%d", actual)
	case "tokens":
		return len(cs.Tokens) <= 2
	}
	return true
}

func (c *checker) evalCase(cs *caseSpec) {
	r := c.r
	c.cur.Store(cs)
	defer c.progress.Add(1)
	stream := cs.build()
	cfg := cs.Cfg.ref()
	ref := refframe.Decode(stream, cfg)
	r.Eval(1)
	r.Class("ref:" + ref.End.String() + "/" + ref.Tag)
	for _, t := range ref.PayloadTags {
		r.Class("ref:yield/" + t)
	}
	if len(ref.Payloads) > 0 || ref.End == refframe.EndReject {
		r.Nontrivial(1)
	}

	a := runFrameLayer(stream, cfg, measureCheap)
	c.compare("readPayload", cs, stream, &ref, &a, len(ref.Payloads))
	if !a.panicked {
		budget := uint64(ref.Budget) + allocSlack
		if ref.End == refframe.EndUndefined {
			// unknown how far a decoder may go on: one more admissible frame + inflation at most
			budget += refframe.MaxFrame + uint64(cfg.Cap())
		}
		if a.alloc > budget {
			r.Class("alloc:precise-remeasure")
			a2 := runFrameLayer(stream, cfg, measurePrecise)
			a.alloc = a2.alloc
		}
		if a.alloc > budget {
			r.Violation("alloc-exceeds-budget/"+ref.End.String()+"/"+ref.Tag,
				fmt.Sprintf("decoding allocated %d bytes; the peer-sized buffers a conforming decoder needs here total %d (+%d slack)\ncfg=%s case=%s stream=%s\nreference: %s [%s] %s",
					a.alloc, ref.Budget, allocSlack, cfgString(cfg), cs.String(), short(stream), ref.End, ref.Tag, ref.Reason), cs)
		}
	}

	// the same stream arriving in short reads. How a decoder copes with short reads depends on where the
	// length prefixes and frame bodies end, not on what a body claims or contains: the claimed-size alphabet
	// is therefore reduced to its first member (the actual size) on this seam; every length token, body
	// token, prelude, prefix cut, empty run and token string of <= 2 tokens is kept.
	if tricklesToo(cs) {
		hv := fnv.New32a()
		hv.Write([]byte(cfgString(cfg) + cs.String()))
		variant := 1 + int(hv.Sum32()>>7&1) // a function of the case alone, so that a replay takes the same one
		c.r.Class("reader:" + readerVariants[variant])
		t := runFrameLayerOn(stream, cfg, measureNone, variant)
		c.compare("readPayload/"+readerVariants[variant], cs, stream, &ref, &t, len(ref.Payloads))
	}

	// public seam: compare up to the first payload that has no parseable packet id (packet layer, not frame layer)
	upTo := len(ref.Payloads)
	for i, p := range ref.Payloads {
		if !idParseable(p) {
			upTo = i
			r.Class("decode-seam:stopped-at-payload-without-packet-id")
			break
		}
	}
	b := runDecode(stream, cfg)
	c.compare("Decode", cs, stream, &ref, &b, upTo)
}

func TestVerif(t *testing.T) {
	vrt.Run(t, "C02", func(r *vrt.R) {
		c := &checker{r: r}
		var rp caseSpec
		if r.ReplayInto(&rp) {
			c.guarded(func() { c.evalCase(&rp) }, true)
			return
		}
		c.guarded(func() {
			i := 0
			enumerate(r, func(cs *caseSpec) bool {
				i++
				if !r.Mine(i) {
					return true
				}
				if i&1023 == 0 && r.Expired() {
					return false
				}
				c.evalCase(cs)
				return true
			})
			if r.Shard == 0 {
				r.Extra("cases_enumerated_all_shards", int64(i))
			}
		}, false)
	})
}

// guarded runs work in a goroutine under a watchdog: the decoder reads from memory, so every Decode must
// return. If one case makes no progress for `limit`, it is re-run twice on fresh goroutines; only a hang
// that reproduces every time is reported as a violation, anything else ends the run as not exhaustive.
func (c *checker) guarded(work func(), replay bool) {
	const limit = 25 * time.Second
	done := make(chan struct{})
	go func() { defer close(done); work() }()
	last := c.progress.Load()
	lastChange := time.Now()
	tick := time.NewTicker(500 * time.Millisecond)
	defer tick.Stop()
	for {
		select {
		case <-done:
			return
		case <-tick.C:
			if p := c.progress.Load(); p != last {
				last, lastChange = p, time.Now()
				continue
			}
			if time.Since(lastChange) < limit {
				continue
			}
			cs := c.cur.Load()
			if cs == nil {
				c.r.NotExhaustive("watchdog: no progress before the first case")
				return
			}
			hung := 1
			for k := 0; k < 2; k++ {
				d2 := make(chan struct{})
				go func() {
					defer close(d2)
					stream := cs.build()
					runFrameLayer(stream, cs.Cfg.ref(), measureNone)
					runDecode(stream, cs.Cfg.ref())
				}()
				select {
				case <-d2:
				case <-time.After(limit):
					hung++
				}
			}
			if hung == 3 {
				c.r.Violation("decode-does-not-return", fmt.Sprintf("decoding an in-memory stream did not return within %v, 3 times out of 3: cfg=%s case=%s stream=%s",
					limit, cfgString(cs.Cfg.ref()), cs.String(), short(cs.build())), cs)
			} else {
				c.r.NotExhaustive(fmt.Sprintf("watchdog: case %s made no progress for %v once, did not reproduce (%d/3)", cs.String(), limit, hung))
			}
			return
		}
	}
}
