package connectutil

// C41 — Connect session principal fields are extracted exactly or rejected.
//
// Engine enum: every sequence of <= d field tokens (field number x wire type x value alphabets, see
// buildAlphabet) plus every truncation that cuts inside the last field (a cut inside an earlier field is
// a cut inside the last field of a shorter sequence, which is enumerated too) is fed to the real code on
// two paths:
//
//	pipeline: proto.Unmarshal(bytes, *connect.Session) then ExtractSessionPrincipalWire
//	unknown : the bytes are installed verbatim as the unknown-field region (SetUnknown) of a Session,
//	          then ExtractSessionPrincipalWire — the only way malformed encodings reach the scan.
//
// Oracle: refParse below, a hand-written protobuf wire parser that shares no code with protowire, and
// the rejection list of the property statement.

import (
	"bytes"
	"encoding/hex"
	"fmt"
	"strings"
	"testing"

	"go.minekube.com/connect"
	"go.minekube.com/gate/pkg/edition/java/proxy/zzverif/vrt"
	"google.golang.org/protobuf/proto"
)

// ---------------------------------------------------------------------------------------------
// reference wire parser (independent of google.golang.org/protobuf/encoding/protowire)

const (
	wtVarint = 0
	wtI64    = 1
	wtBytes  = 2
	wtSGroup = 3
	wtEGroup = 4
	wtI32    = 5
)

const refMaxEnvelope = 16 << 10 // bedrockprincipal.MaxEnvelopeBytes, restated from the v2 contract

type refField struct {
	num int
	wt  int
	u   uint64 // varint value
	b   []byte // bytes payload
}

// refVarint decodes a base-128 varint of at most 10 bytes whose value fits 64 bits.
func refVarint(b []byte) (v uint64, n int, ok bool) {
	for i := 0; i < len(b); i++ {
		if i == 10 {
			return 0, 0, false
		}
		c := b[i]
		if i == 9 && c > 1 {
			return 0, 0, false
		}
		v |= uint64(c&0x7F) << (7 * uint(i))
		if c&0x80 == 0 {
			return v, i + 1, true
		}
	}
	return 0, 0, false // ran out of input
}

// refSkip consumes one field value of wire type wt (for field num); returns consumed length.
func refSkip(num, wt int, b []byte, depth int) (n int, f refField, ok bool) {
	f.num, f.wt = num, wt
	switch wt {
	case wtVarint:
		v, n, ok := refVarint(b)
		f.u = v
		return n, f, ok
	case wtI64:
		if len(b) < 8 {
			return 0, f, false
		}
		return 8, f, true
	case wtI32:
		if len(b) < 4 {
			return 0, f, false
		}
		return 4, f, true
	case wtBytes:
		l, n, ok := refVarint(b)
		if !ok || l > uint64(len(b)-n) {
			return 0, f, false
		}
		f.b = b[n : n+int(l)]
		return n + int(l), f, true
	case wtSGroup:
		if depth > 100 {
			return 0, f, false
		}
		pos := 0
		for {
			tag, n, ok := refVarint(b[pos:])
			if !ok {
				return 0, f, false
			}
			pos += n
			inum, iwt := tag>>3, int(tag&7)
			if inum < 1 || inum > (1<<29)-1 {
				return 0, f, false
			}
			if iwt == wtEGroup {
				if int(inum) != num {
					return 0, f, false
				}
				return pos, f, true
			}
			n, _, ok = refSkip(int(inum), iwt, b[pos:], depth+1)
			if !ok {
				return 0, f, false
			}
			pos += n
		}
	default: // end-group without start, wire types 6 and 7
		return 0, f, false
	}
}

// refParse returns the top-level fields of a message, or ok=false for malformed input.
func refParse(b []byte) (fields []refField, ok bool) {
	for len(b) > 0 {
		tag, n, ok := refVarint(b)
		if !ok {
			return nil, false
		}
		b = b[n:]
		num, wt := tag>>3, int(tag&7)
		if num < 1 || num > (1<<29)-1 {
			return nil, false
		}
		n, f, ok := refSkip(int(num), wt, b, 0)
		if !ok {
			return nil, false
		}
		b = b[n:]
		fields = append(fields, f)
	}
	return fields, true
}

// expectation derived from the property statement.
type expect struct {
	reject string // non-empty: the proposal must be rejected, value = reason
	none   bool   // no principal field present: result must be (nil, nil)
	w      SessionPrincipalWire
	env    bool // envelope present (nonce is then asserted)
	nprinc int
}

func principalWantsBytes(num int) bool { return num == 7 || num == 8 || num == 9 || num == 12 }

func refExpect(in []byte) expect {
	fields, ok := refParse(in)
	if !ok {
		return expect{reject: "malformed"}
	}
	var e expect
	var nonce []byte
	haveNonce := false
	nEnv := 0
	var rWire, rEmpty, rOver bool
	for _, f := range fields {
		if f.num < 6 || f.num > 12 {
			continue
		}
		e.nprinc++
		if principalWantsBytes(f.num) != (f.wt == wtBytes) || (!principalWantsBytes(f.num) && f.wt != wtVarint) {
			rWire = true
			continue
		}
		switch f.num {
		case 6:
			e.w.Protocol = int32(uint32(f.u))
		case 7:
			e.w.EndpointID = string(f.b)
		case 8:
			e.w.OrganizationID = string(f.b)
		case 9:
			nonce, haveNonce = f.b, true
		case 10:
			e.w.SourceProtocolVersion = int32(uint32(f.u))
		case 11:
			e.w.PolicyRevision = int64(f.u)
		case 12:
			nEnv++
			if len(f.b) == 0 {
				rEmpty = true
			}
			if len(f.b) > refMaxEnvelope {
				rOver = true
			}
			e.w.Envelope = f.b
		}
	}
	switch {
	case rWire:
		return expect{reject: "wrong-wire-type", nprinc: e.nprinc}
	case rEmpty:
		return expect{reject: "empty-envelope", nprinc: e.nprinc}
	case rOver:
		return expect{reject: "oversized-envelope", nprinc: e.nprinc}
	case nEnv > 1:
		return expect{reject: "second-envelope", nprinc: e.nprinc}
	case nEnv >= 1 && (!haveNonce || len(nonce) != 16):
		return expect{reject: "nonce-size", nprinc: e.nprinc}
	}
	if e.nprinc == 0 {
		e.none = true
		return e
	}
	if nEnv == 1 {
		e.env = true
		copy(e.w.ConnectSessionNonce[:], nonce)
	}
	return e
}

// ---------------------------------------------------------------------------------------------
// token alphabet

type tok struct {
	label   string
	enc     []byte
	reduced bool // member of the reduced alphabet used for the deepest level
	medium  bool
}

func encVarint(v uint64) []byte {
	var out []byte
	for v >= 0x80 {
		out = append(out, byte(v)|0x80)
		v >>= 7
	}
	return append(out, byte(v))
}
func encTag(num, wt int) []byte { return encVarint(uint64(num)<<3 | uint64(wt)) }
func encBytesField(num int, p []byte) []byte {
	return append(append(encTag(num, wtBytes), encVarint(uint64(len(p)))...), p...)
}

var (
	val16  = []byte("0123456789abcdef")
	val15  = []byte("0123456789abcde")
	valBig = bytes.Repeat([]byte("e"), refMaxEnvelope+1)
	// leading/trailing blanks, upper case, a 2-byte rune, a byte that is not UTF-8, an inner NUL
	valNasty = []byte(" Org\tÉ\xff\x00x \n")
	// 16 bytes starting and ending with NUL, with 0xFF/0x80 inside
	valBin16 = []byte{0, 0xFF, 0x80, 0x7F, 0, 0, 1, 2, 0xC3, 0x28, 0x20, 0x0A, 0xFE, 0xFF, 0x00, 0x00}
)

func buildAlphabet() []tok {
	var out []tok
	add := func(label string, enc []byte, reduced, medium bool) {
		out = append(out, tok{label: label, enc: enc, reduced: reduced, medium: medium || reduced})
	}
	nums := []int{1, 5, 6, 7, 8, 9, 10, 11, 12, 13, 15}
	type rk struct {
		num int
		k   string
	}
	// reduced alphabet: the tokens that exercise every branch of the scan at least once per field class
	red := map[rk]bool{
		{12, "b:x"}: true, {12, "b:"}: true, {12, "v:1"}: true, {12, "g:empty"}: true, {12, "i32"}: true,
		{9, "b:16"}: true, {9, "b:15"}: true, {9, "b:"}: true, {9, "v:0"}: true,
		{6, "v:2"}: true, {6, "v:0"}: true, {6, "v:-1"}: true, {6, "b:x"}: true,
		{7, "b:"}: true, {7, "b:x"}: true, {7, "v:0"}: true,
		{8, "b:x"}: true, {8, "i64"}: true,
		{10, "v:1"}: true, {10, "v:2^31"}: true,
		{11, "v:-1"}: true, {11, "v:1"}: true, {11, "i64"}: true,
		{5, "v:1"}: true, {5, "b:16"}: true, {5, "g:env"}: true,
		{13, "b:x"}: true, {13, "v:2"}: true,
		{1, "b:x"}: true, {1, "v:1"}: true,
		{15, "i32"}: true,
	}
	med := map[rk]bool{
		{12, "b:16"}: true, {12, "b:15"}: true, {12, "i64"}: true, {12, "g:env"}: true, {12, "v:0"}: true,
		{9, "b:x"}: true, {9, "i64"}: true, {9, "g:empty"}: true, {9, "v:1"}: true,
		{6, "v:1"}: true, {6, "v:2^31"}: true, {6, "i32"}: true, {6, "g:empty"}: true,
		{7, "b:16"}: true, {7, "i32"}: true, {8, "b:"}: true, {8, "v:1"}: true,
		{10, "v:0"}: true, {10, "v:-1"}: true, {10, "b:x"}: true, {10, "i32"}: true,
		{11, "v:0"}: true, {11, "v:2^31"}: true, {11, "b:"}: true,
		{5, "i64"}: true, {5, "b:"}: true, {13, "g:empty"}: true, {13, "i32"}: true,
		{1, "b:16"}: true, {15, "v:-1"}: true, {15, "b:15"}: true,
	}
	for _, n := range nums {
		a := func(k string, enc []byte) {
			add(fmt.Sprintf("%d:%s", n, k), enc, red[rk{n, k}], med[rk{n, k}])
		}
		for _, v := range []struct {
			k string
			v uint64
		}{{"v:0", 0}, {"v:1", 1}, {"v:2", 2}, {"v:2^31", 1 << 31}, {"v:-1", ^uint64(0)}} {
			a(v.k, append(encTag(n, wtVarint), encVarint(v.v)...))
		}
		a("i64", append(encTag(n, wtI64), 1, 2, 3, 4, 5, 6, 7, 8))
		a("i32", append(encTag(n, wtI32), 1, 2, 3, 4))
		a("b:", encBytesField(n, nil))
		a("b:x", encBytesField(n, []byte("x")))
		a("b:16", encBytesField(n, val16))
		a("b:15", encBytesField(n, val15))
		a("g:empty", append(encTag(n, wtSGroup), encTag(n, wtEGroup)...))
		// a group that carries an envelope-numbered field INSIDE it: not a top-level field 12
		g := append(encTag(n, wtSGroup), encBytesField(12, []byte("x"))...)
		a("g:env", append(g, encTag(n, wtEGroup)...))
	}
	// size boundary of the envelope and the same sizes on neighbours; 16 KiB tokens are only in the full
	// alphabet (each case copies them several times), i.e. in every context of depth <=2 (quick) / <=3 (thorough)
	add("12:b:max", encBytesField(12, valBig[:refMaxEnvelope]), false, false)
	add("12:b:max+1", encBytesField(12, valBig), false, false)
	add("9:b:max+1", encBytesField(9, valBig), false, false)
	add("5:b:max+1", encBytesField(5, valBig), false, false)
	// rev9: payloads that a careless extractor could normalise (trim, case-fold, UTF-8 repair, NUL-terminate):
	// "extracted exactly" means byte for byte. Full alphabet only (every context of depth <=2 / <=3).
	add("6:v:3", append(encTag(6, wtVarint), 3), false, false) // a protocol beyond SESSION_PROTOCOL_BEDROCK
	add("7:b:nasty", encBytesField(7, valNasty), false, false)
	add("8:b:nasty", encBytesField(8, valNasty), false, false)
	add("9:b:bin16", encBytesField(9, valBin16), false, false)
	add("12:b:bin16", encBytesField(12, valBin16), false, false)
	// non-minimal (two byte) tag encodings of principal fields: same field for a wire parser
	add("12:b:x/longtag", append([]byte{byte(12<<3|wtBytes) | 0x80, 0x00, 1}, 'x'), false, true)
	add("9:b:16/longtag", append([]byte{byte(9<<3|wtBytes) | 0x80, 0x00, 16}, val16...), false, true)
	add("6:v:2/longtag+longvalue", []byte{byte(6<<3|wtVarint) | 0x80, 0x00, 0x82, 0x80, 0x00}, false, true)
	// malformed tokens (never valid anywhere)
	add("bad:field0", []byte{0x00, 0x00}, false, true)
	add("bad:wt6", []byte{byte(12<<3 | 6), 0x00}, false, true)
	add("bad:wt7", []byte{byte(5<<3 | 7), 0x00}, false, false)
	add("bad:endgroup", encTag(5, wtEGroup), true, true)
	add("bad:endgroup12", encTag(12, wtEGroup), false, true)
	add("bad:group-mismatch", append(encTag(5, wtSGroup), encTag(13, wtEGroup)...), false, false)
	add("bad:varint11", append(encTag(6, wtVarint), 0xFF, 0xFF, 0xFF, 0xFF, 0xFF, 0xFF, 0xFF, 0xFF, 0xFF, 0xFF, 0x01), false, true)
	add("bad:varint-overflow", append(encTag(11, wtVarint), 0xFF, 0xFF, 0xFF, 0xFF, 0xFF, 0xFF, 0xFF, 0xFF, 0xFF, 0x02), false, false)
	add("bad:len-overrun", []byte{byte(12<<3 | wtBytes), 0xFF, 0xFF, 0xFF, 0xFF, 0x0F, 'x'}, false, true)
	// quantifier audit: the quantifier says "fields 1..15". 2 (tunnel_service_addr, string) and 14 (undeclared)
	// get the standard token set; 3 (player) and 4 (auth) are typed MESSAGE fields, so their length-delimited
	// payloads are valid sub-messages (an invalid one is refused by any typed parser before the scan runs) that
	// carry principal-numbered fields 9 and 12 INSIDE them - not top-level fields. Appended at the end so that
	// token indexes of recorded replays stay valid. Full alphabet only.
	for _, n := range []int{2, 14} {
		a := func(k string, enc []byte) { add(fmt.Sprintf("%d:%s", n, k), enc, false, false) }
		for _, v := range []struct {
			k string
			v uint64
		}{{"v:0", 0}, {"v:1", 1}, {"v:2", 2}, {"v:2^31", 1 << 31}, {"v:-1", ^uint64(0)}} {
			a(v.k, append(encTag(n, wtVarint), encVarint(v.v)...))
		}
		a("i64", append(encTag(n, wtI64), 1, 2, 3, 4, 5, 6, 7, 8))
		a("i32", append(encTag(n, wtI32), 1, 2, 3, 4))
		a("b:", encBytesField(n, nil))
		a("b:x", encBytesField(n, []byte("x")))
		a("b:16", encBytesField(n, val16))
		a("b:15", encBytesField(n, val15))
		a("g:empty", append(encTag(n, wtSGroup), encTag(n, wtEGroup)...))
		g := append(encTag(n, wtSGroup), encBytesField(12, []byte("x"))...)
		a("g:env", append(g, encTag(n, wtEGroup)...))
	}
	nested := append(encBytesField(12, []byte("x")), encBytesField(9, val16)...)
	for _, n := range []int{3, 4} {
		a := func(k string, enc []byte) { add(fmt.Sprintf("%d:%s", n, k), enc, false, false) }
		a("v:1", append(encTag(n, wtVarint), 1))
		a("i64", append(encTag(n, wtI64), 1, 2, 3, 4, 5, 6, 7, 8))
		a("i32", append(encTag(n, wtI32), 1, 2, 3, 4))
		a("b:", encBytesField(n, nil))
		known := encBytesField(2, []byte("198.51.100.7:1")) // Player.addr
		if n == 4 {
			known = []byte{0x08, 0x01} // Authentication.passthrough = true
		}
		a("b:msg", encBytesField(n, known))
		a("b:msg+nested-9-12", encBytesField(n, append(append([]byte(nil), known...), nested...)))
		a("g:empty", append(encTag(n, wtSGroup), encTag(n, wtEGroup)...))
		g := append(encTag(n, wtSGroup), encBytesField(12, []byte("x"))...)
		a("g:env", append(g, encTag(n, wtEGroup)...))
	}
	// nonce one byte above the size (15 and 16 are in the per-field set, max+1 far above)
	add("9:b:17", encBytesField(9, append(append([]byte(nil), val16...), 'g')), false, false)
	return out
}

// cuts returns the truncation points strictly inside a token of length n.
func cuts(n int) []int {
	var out []int
	if n <= 40 {
		for i := 1; i < n; i++ {
			out = append(out, i)
		}
		return out
	}
	for i := 1; i <= 8; i++ {
		out = append(out, i)
	}
	return append(out, n/2, n-2, n-1)
}

// ---------------------------------------------------------------------------------------------
// running one case

var paths = []string{"pipeline", "unknown"}

type c41case struct {
	Path string
	Toks []int
	Cut  int // 0 = no truncation, else the last token is cut to this many bytes
}

type checker struct {
	r     *vrt.R
	alph  []tok
	level string
}

func (c *checker) label(cs c41case) string {
	var ls []string
	for _, i := range cs.Toks {
		ls = append(ls, c.alph[i].label)
	}
	s := cs.Path + " [" + strings.Join(ls, " ") + "]"
	if cs.Cut > 0 {
		s += fmt.Sprintf(" last field cut to %d bytes", cs.Cut)
	}
	return s
}

func hx(b []byte) string {
	if len(b) > 48 {
		return hex.EncodeToString(b[:48]) + fmt.Sprintf("…(%d bytes)", len(b))
	}
	return hex.EncodeToString(b)
}

func (c *checker) vio(kind string, cs c41case, in []byte, detail string) {
	cs.Toks = append([]int(nil), cs.Toks...) // the enumerator reuses the backing array
	c.r.Violation(cs.Path+"/"+kind, fmt.Sprintf("%s: %s\ninput=%s\n%s", kind, c.label(cs), hx(in), detail), cs)
}

// run feeds in to the real code via path and compares with the reference expectation.
func (c *checker) run(cs c41case, in []byte) (e expect) {
	c.r.Eval(1)
	e = refExpect(in)
	var w *SessionPrincipalWire
	var err error
	stage := "extract"
	p, pv := vrt.Catch(func() {
		s := new(connect.Session)
		if cs.Path == "pipeline" {
			if uerr := proto.Unmarshal(in, s); uerr != nil {
				stage, err = "unmarshal", uerr
				return
			}
		} else {
			s.Id = "sess-1"
			s.ProtoReflect().SetUnknown(append([]byte(nil), in...))
		}
		w, err = ExtractSessionPrincipalWire(s)
	})
	if p {
		c.vio("panic", cs, in, fmt.Sprint(pv))
		return e
	}
	switch {
	case e.reject != "":
		if cs.Cut > 0 {
			c.r.Class("truncated:reject:" + e.reject)
		} else {
			c.r.Class("reject:" + e.reject)
		}
		if err == nil {
			if w == nil {
				c.vio("downgraded-to-no-principal/"+e.reject, cs, in, "must be rejected ("+e.reject+") but returned (nil, nil)")
			} else {
				c.vio("accepted-should-reject/"+e.reject, cs, in, fmt.Sprintf("must be rejected (%s) but returned %+v", e.reject, short(w)))
			}
		}
	case e.none:
		c.r.Class("no-principal-fields")
		if err != nil {
			c.vio("rejected-valid/"+stage, cs, in, "no principal field and well-formed, got error: "+err.Error())
		} else if w != nil {
			c.vio("principal-from-nothing", cs, in, fmt.Sprintf("no principal field present but got %+v", short(w)))
		} else if pp, pv := vrt.Catch(func() {
			// rev9: the caller uses the nil result through its accessors
			if w.HasEnvelope() || w.IsBedrock() {
				c.vio("principal-from-nothing/accessors", cs, in, "nil result reports an envelope or the Bedrock protocol")
			}
		}); pp {
			c.vio("panic", cs, in, fmt.Sprintf("accessor on the nil result: %v", pv))
		}
	default:
		if e.env {
			c.r.Class("fields:with-envelope")
		} else {
			c.r.Class("fields:without-envelope")
		}
		if err != nil {
			c.vio("rejected-valid/"+stage, cs, in, "reference reads valid principal fields, got error: "+err.Error())
			return e
		}
		if w == nil {
			c.vio("downgraded-to-no-principal/valid", cs, in, "principal fields present but result is nil")
			return e
		}
		cmp := func(field string, got, want any) {
			if fmt.Sprint(got) != fmt.Sprint(want) {
				c.vio("field-mismatch/"+field, cs, in, fmt.Sprintf("%s: got %v want %v", field, got, want))
			}
		}
		cmp("Protocol", w.Protocol, e.w.Protocol)
		cmp("EndpointID", w.EndpointID, e.w.EndpointID)
		cmp("OrganizationID", w.OrganizationID, e.w.OrganizationID)
		cmp("SourceProtocolVersion", w.SourceProtocolVersion, e.w.SourceProtocolVersion)
		cmp("PolicyRevision", w.PolicyRevision, e.w.PolicyRevision)
		if !bytes.Equal(w.Envelope, e.w.Envelope) {
			c.vio("field-mismatch/Envelope", cs, in, fmt.Sprintf("got %s want %s", hx(w.Envelope), hx(e.w.Envelope)))
		}
		if w.HasEnvelope() != e.env {
			c.vio("field-mismatch/HasEnvelope", cs, in, fmt.Sprintf("got %v want %v", w.HasEnvelope(), e.env))
		}
		// rev9: what setup_client.go and the verifier actually branch on
		if w.IsBedrock() != (e.w.Protocol == 2) {
			c.vio("field-mismatch/IsBedrock", cs, in, fmt.Sprintf("IsBedrock()=%v but the reference reads protocol %d (SESSION_PROTOCOL_BEDROCK = 2)", w.IsBedrock(), e.w.Protocol))
		}
		// The nonce is only meaningful (and only representable: [16]byte) next to an envelope.
		if e.env && w.ConnectSessionNonce != e.w.ConnectSessionNonce {
			c.vio("field-mismatch/ConnectSessionNonce", cs, in, fmt.Sprintf("got %x want %x", w.ConnectSessionNonce, e.w.ConnectSessionNonce))
		}
	}
	return e
}

func short(w *SessionPrincipalWire) string {
	c := *w
	if len(c.Envelope) > 8 {
		c.Envelope = c.Envelope[:8]
	}
	return fmt.Sprintf("%+v (envelope %d bytes)", c, len(w.Envelope))
}

// enumerate runs every sequence over sel of exactly the remaining depth appended to prefix.
func (c *checker) enumerate(path string, sel []int, depth int, idx []int, buf []byte) {
	if c.r.Expired() {
		return
	}
	for _, ti := range sel {
		t := &c.alph[ti]
		idx2 := append(idx, ti)
		in := append(buf, t.enc...)
		if depth == 1 {
			cs := c41case{Path: path, Toks: idx2}
			c.r.Class(c.level)
			if e := c.run(cs, in); e.nprinc > 0 {
				c.r.Nontrivial(1)
			}
			for _, k := range cuts(len(t.enc)) {
				cs.Cut = k
				c.run(cs, in[:len(buf)+k])
			}
			continue
		}
		c.enumerate(path, sel, depth-1, idx2, in)
	}
}

func TestVerif(t *testing.T) {
	vrt.Run(t, "C41", func(r *vrt.R) {
		c := &checker{r: r, alph: buildAlphabet()}
		var rp c41case
		if r.ReplayInto(&rp) {
			var in []byte
			for i, ti := range rp.Toks {
				e := c.alph[ti].enc
				if i == len(rp.Toks)-1 && rp.Cut > 0 {
					e = e[:rp.Cut]
				}
				in = append(in, e...)
			}
			c.run(rp, in)
			return
		}
		var full, medium, reduced []int
		for i, t := range c.alph {
			full = append(full, i)
			if t.medium {
				medium = append(medium, i)
			}
			if t.reduced {
				reduced = append(reduced, i)
			}
		}
		if r.Shard == 0 {
			r.Extra("alphabet_full", len(full))
			r.Extra("alphabet_medium", len(medium))
			r.Extra("alphabet_reduced", len(reduced))
		}
		// plan: (alphabet, depth) pairs; depth d means sequences of exactly d tokens
		type level struct {
			name  string
			sel   []int
			depth int
		}
		var plan []level
		if r.Quick() {
			plan = []level{{"full", full, 1}, {"full", full, 2}, {"medium", medium, 3}, {"reduced", reduced, 4}}
		} else {
			plan = []level{{"full", full, 1}, {"full", full, 2}, {"full", full, 3}, {"medium", medium, 4}}
		}
		// the empty proposal
		if r.Mine(0) {
			for _, p := range paths {
				c.run(c41case{Path: p}, nil)
			}
			// rev9: no session at all (a proposal without one)
			r.Eval(1)
			r.Class("nil-session")
			if p, pv := vrt.Catch(func() {
				if w, err := ExtractSessionPrincipalWire(nil); w != nil || err != nil {
					r.Violation("nil-session/not-none", fmt.Sprintf("ExtractSessionPrincipalWire(nil) = %v, %v; want nil, nil", w, err), nil)
				}
			}); p {
				r.Violation("nil-session/panic", fmt.Sprint(pv), nil)
			}
		}
		item := 0
		for _, lv := range plan {
			c.level = fmt.Sprintf("sequences:%s^%d", lv.name, lv.depth)
			for _, p := range paths {
				// shard on the first token
				for _, first := range lv.sel {
					item++
					if !r.Mine(item) {
						continue
					}
					if lv.depth == 1 {
						c.enumerate(p, []int{first}, 1, nil, nil)
						continue
					}
					c.enumerate(p, lv.sel, lv.depth-1, []int{first}, append([]byte(nil), c.alph[first].enc...))
				}
			}
		}
		r.Sample(map[string]any{"tokens": []string{"9:b:16", "12:b:x", "6:v:2"}, "expect": "fields:with-envelope", "paths": paths})
		r.Sample(map[string]any{"tokens": []string{"12:b:x", "12:b:x"}, "expect": "reject:second-envelope"})
		r.Sample(map[string]any{"tokens": []string{"5:g:env"}, "expect": "no-principal-fields (field 12 nested in a group is not a top-level field)"})
	})
}
