package proxy

// In-package kit for the C24 / C25 / C26(adapter) harnesses (added through spec.json "extra_overlay").
//   g7Conn    recording netmc.MinecraftConn (packets written/buffered, raw payloads, flushes, auto-reading
//             toggles, closure); Close cancels the context, so netmc.Closed / player.Active see it.
//   g7Events  deterministic event.Manager: subscribers AND FireParallel's `after` callbacks run
//             synchronously in the calling goroutine (event.Nop.FireParallel drops the callbacks).
//   g7World   a Proxy literal (no listener, no authenticator) + real connectedPlayer / serverConnection
//             objects over g7Conns.

import (
	"context"
	"errors"
	"fmt"
	"net"
	"reflect"
	"sort"

	"github.com/go-logr/logr"
	"github.com/robinbraemer/event"
	"go.minekube.com/gate/pkg/edition/java/config"
	"go.minekube.com/gate/pkg/edition/java/netmc"
	"go.minekube.com/gate/pkg/edition/java/profile"
	"go.minekube.com/gate/pkg/edition/java/proto/packet"
	"go.minekube.com/gate/pkg/edition/java/proto/state"
	"go.minekube.com/gate/pkg/edition/java/proto/version"
	"go.minekube.com/gate/pkg/edition/java/proxy/message"
	"go.minekube.com/gate/pkg/edition/java/proxy/phase"
	"go.minekube.com/gate/pkg/gate/proto"
	"go.minekube.com/gate/pkg/util/uuid"
)

// ---------------------------------------------------------------- recording connection

type g7Write struct {
	Kind string // "packet" (WritePacket), "buffer" (BufferPacket), "raw" (Write), "rawbuf" (BufferPayload)
	Pkt  proto.Packet
	Raw  []byte
}

type g7Conn struct {
	name     string
	ctx      context.Context
	cancel   context.CancelFunc
	st       *state.Registry
	protocol proto.Protocol
	connType phase.ConnectionType
	remote   net.Addr
	writeErr error // returned (and nothing recorded) by every write while set
	failAt   int   // if >0: the failAt-th write from now fails once with errG7Write

	writes   []g7Write
	flushes  int
	autoRead []bool
	closed   int
	handler  netmc.SessionHandler
	handlers map[*state.Registry]netmc.SessionHandler
	writer   netmc.Writer
	onWrite  func(c *g7Conn, w g7Write) // observation hook (global order across connections)
	// onClosedWrite observes a write attempted after the connection was closed (it fails with ErrClosedConn)
	onClosedWrite func(c *g7Conn, w g7Write)
}

var errG7Write = errors.New("g7: injected write error")

func g7NewConn(name string, protocol proto.Protocol, st *state.Registry) *g7Conn {
	ctx, cancel := context.WithCancel(context.Background())
	return &g7Conn{name: name, ctx: ctx, cancel: cancel, st: st, protocol: protocol, handlers: map[*state.Registry]netmc.SessionHandler{}}
}

func (c *g7Conn) Context() context.Context { return c.ctx }
func (c *g7Conn) Close() error {
	c.closed++
	if c.ctx.Err() == nil {
		c.cancel()
		if c.handler != nil {
			c.handler.Disconnected()
		}
	}
	return nil
}
func (c *g7Conn) State() *state.Registry   { return c.st }
func (c *g7Conn) Protocol() proto.Protocol { return c.protocol }
func (c *g7Conn) RemoteAddr() net.Addr {
	if c.remote != nil {
		return c.remote
	}
	return &net.TCPAddr{IP: net.IPv4(10, 9, 0, 1), Port: 50001}
}
func (c *g7Conn) LocalAddr() net.Addr { return &net.TCPAddr{IP: net.IPv4(10, 0, 0, 1), Port: 25565} }
func (c *g7Conn) Type() phase.ConnectionType {
	if c.connType != nil {
		return c.connType
	}
	return phase.Vanilla
}
func (c *g7Conn) SetType(ct phase.ConnectionType)            { c.connType = ct }
func (c *g7Conn) ActiveSessionHandler() netmc.SessionHandler { return c.handler }
func (c *g7Conn) SetActiveSessionHandler(r *state.Registry, h netmc.SessionHandler) {
	if c.handler != nil {
		c.handler.Deactivated()
	}
	c.handler = h
	c.handlers[r] = h
	c.st = r
	h.Activated()
}
func (c *g7Conn) SwitchSessionHandler(r *state.Registry) bool {
	h, ok := c.handlers[r]
	if !ok {
		return false
	}
	if c.handler != h {
		c.SetActiveSessionHandler(r, h)
	}
	return true
}
func (c *g7Conn) AddSessionHandler(r *state.Registry, h netmc.SessionHandler) { c.handlers[r] = h }
func (c *g7Conn) SetAutoReading(b bool)                                       { c.autoRead = append(c.autoRead, b) }
func (c *g7Conn) SetProtocol(p proto.Protocol)                                { c.protocol = p }
func (c *g7Conn) SetState(s *state.Registry)                                  { c.st = s }
func (c *g7Conn) SetOutboundState(s *state.Registry)                          {}
func (c *g7Conn) SetCompressionThreshold(int) error                           { return nil }
func (c *g7Conn) EnableEncryption([]byte) error                               { return nil }

func (c *g7Conn) record(w g7Write) error {
	if c.ctx.Err() != nil {
		if c.onClosedWrite != nil {
			c.onClosedWrite(c, w)
		}
		return netmc.ErrClosedConn
	}
	if c.writeErr != nil {
		return c.writeErr
	}
	if c.failAt > 0 {
		c.failAt--
		if c.failAt == 0 {
			return errG7Write
		}
	}
	c.writes = append(c.writes, w)
	if c.onWrite != nil {
		c.onWrite(c, w)
	}
	return nil
}
func (c *g7Conn) WritePacket(p proto.Packet) error  { return c.record(g7Write{Kind: "packet", Pkt: p}) }
func (c *g7Conn) BufferPacket(p proto.Packet) error { return c.record(g7Write{Kind: "buffer", Pkt: p}) }
func (c *g7Conn) Write(b []byte) error {
	return c.record(g7Write{Kind: "raw", Raw: append([]byte(nil), b...)})
}
func (c *g7Conn) BufferPayload(b []byte) error {
	return c.record(g7Write{Kind: "rawbuf", Raw: append([]byte(nil), b...)})
}
func (c *g7Conn) Flush() error {
	if c.ctx.Err() != nil {
		return netmc.ErrClosedConn
	}
	c.flushes++
	return nil
}
func (c *g7Conn) Reader() netmc.Reader { return nil }
func (c *g7Conn) Writer() netmc.Writer {
	if c.writer == nil {
		c.writer = &g7Writer{}
	}
	return c.writer
}
func (c *g7Conn) EnablePlayPacketQueue() {}

var _ netmc.MinecraftConn = (*g7Conn)(nil)

type g7Writer struct{ st *state.Registry }

func (t *g7Writer) WritePacket(proto.Packet) (int, error) { return 0, nil }
func (t *g7Writer) Write([]byte) (int, error)             { return 0, nil }
func (t *g7Writer) Flush() error                          { return nil }
func (t *g7Writer) SetProtocol(proto.Protocol)            {}
func (t *g7Writer) SetState(s *state.Registry)            { t.st = s }
func (t *g7Writer) SetCompressionThreshold(int) error     { return nil }
func (t *g7Writer) EnableEncryption([]byte) error         { return nil }
func (t *g7Writer) Direction() proto.Direction            { return proto.ClientBound }

// ---------------------------------------------------------------- deterministic event manager

type g7Sub struct {
	prio, seq int
	fn        event.HandlerFunc
}

type g7Events struct {
	subs  map[reflect.Type][]*g7Sub
	seq   int
	fired []event.Event // every event, in firing order
}

func g7NewEvents() *g7Events { return &g7Events{subs: map[reflect.Type][]*g7Sub{}} }

var _ event.Manager = (*g7Events)(nil)

func g7TypeOf(e event.Event) reflect.Type {
	if t, ok := e.(reflect.Type); ok {
		return t
	}
	return reflect.TypeOf(e)
}

func (m *g7Events) Subscribe(eventType event.Event, priority int, fn event.HandlerFunc) func() {
	t := g7TypeOf(eventType)
	m.seq++
	s := &g7Sub{prio: priority, seq: m.seq, fn: fn}
	m.subs[t] = append(m.subs[t], s)
	sort.SliceStable(m.subs[t], func(i, j int) bool { return m.subs[t][i].prio > m.subs[t][j].prio })
	return func() {
		l := m.subs[t]
		for i := range l {
			if l[i] == s {
				m.subs[t] = append(append([]*g7Sub{}, l[:i]...), l[i+1:]...)
				return
			}
		}
	}
}
func (m *g7Events) Fire(e event.Event) {
	m.fired = append(m.fired, e)
	for _, s := range append([]*g7Sub{}, m.subs[reflect.TypeOf(e)]...) {
		s.fn(e)
	}
}
func (m *g7Events) FireParallel(e event.Event, after ...event.HandlerFunc) {
	m.Fire(e)
	for _, fn := range after {
		fn(e)
	}
}
func (m *g7Events) Wait(...event.Event) {}
func (m *g7Events) HasSubscriber(events ...event.Event) bool {
	if len(events) == 0 {
		return len(m.subs) != 0
	}
	for _, e := range events {
		if len(m.subs[g7TypeOf(e)]) == 0 {
			return false
		}
	}
	return true
}
func (m *g7Events) UnsubscribeAll(events ...event.Event) int {
	n := 0
	for _, e := range events {
		n += len(m.subs[g7TypeOf(e)])
		delete(m.subs, g7TypeOf(e))
	}
	return n
}

func g7On[T event.Event](m *g7Events, fn func(T)) { event.Subscribe[T](m, 0, fn) }

func g7Fired[T event.Event](m *g7Events) []T {
	var out []T
	for _, e := range m.fired {
		if t, ok := e.(T); ok {
			out = append(out, t)
		}
	}
	return out
}

// ---------------------------------------------------------------- proxy / players / server connections

type g7World struct {
	Proxy  *Proxy
	Events *g7Events
	Cfg    *config.Config
}

func g7NewWorld() *g7World {
	cfg := config.DefaultConfig
	cfg.Servers = map[string]string{}
	cfg.Try = nil
	cfg.ForcedHosts = map[string][]string{}
	cfg.BungeePluginChannelEnabled = true
	ev := g7NewEvents()
	p := &Proxy{
		log:              logr.Discard(),
		cfg:              &cfg,
		event:            ev,
		channelRegistrar: message.NewChannelRegistrar(),
		servers:          map[string]*registeredServer{},
		configServers:    map[string]bool{},
		playerNames:      map[string]*connectedPlayer{},
		playerIDs:        map[uuid.UUID]*connectedPlayer{},
	}
	p.currentCfg.Store(&runtimeConfigSnapshot{cfg: &cfg})
	return &g7World{Proxy: p, Events: ev, Cfg: &cfg}
}

func (w *g7World) deps() *sessionHandlerDeps {
	return &sessionHandlerDeps{proxy: w.Proxy, registrar: w.Proxy, eventMgr: w.Events, configProvider: w.Proxy}
}

// player builds a real connectedPlayer over conn; register adds it to the proxy's player maps.
func (w *g7World) player(name string, id uuid.UUID, conn netmc.MinecraftConn, register bool) *connectedPlayer {
	prof := &profile.GameProfile{ID: id, Name: name}
	p := newConnectedPlayer(conn, prof, &net.TCPAddr{IP: net.IPv4(127, 0, 0, 1), Port: 25565}, packet.LoginHandshakeIntent, false, nil, w.deps())
	if register {
		if !w.Proxy.registerConnection(p) {
			panic(fmt.Sprintf("g7: cannot register player %s", name))
		}
	}
	return p
}

func (w *g7World) server(name string, ip net.IP, port int) *registeredServer {
	rs, err := w.Proxy.Register(NewServerInfo(name, &net.TCPAddr{IP: ip, Port: port}))
	if err != nil {
		panic(err)
	}
	return rs.(*registeredServer)
}

// connect makes srv the player's current server over backend (as after a completed join).
func g7Connect(p *connectedPlayer, srv *registeredServer, backend netmc.MinecraftConn) *serverConnection {
	sc := newServerConnection(srv, nil, p)
	sc.connection = backend
	sc.connPhase = phase.VanillaBackendPhase
	sc.completedJoin.Store(true)
	p.mu.Lock()
	p.connectedServer_ = sc
	p.mu.Unlock()
	srv.players.add(p)
	return sc
}

var (
	g7Modern = version.Minecraft_1_20_2.Protocol
	g7Legacy = version.Minecraft_1_12_2.Protocol
)
