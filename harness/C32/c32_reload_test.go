package c32reload

// C32, pass "reload": the statement says "after routes are RELOADED or the cache is reset, no request that
// starts afterwards is answered with a status obtained before". Pass main decides that for reset() on the
// cache object under every interleaving; this pass drives the other entry point - a route reload through the
// public Proxy.ApplyLiveConfig - end to end: proxy.New (Lite mode) + Proxy.HandleConn over loopback TCP, real
// status pings from a scripted client, a scripted backend that numbers the status requests it answers.
//
// Histories: for every ordered pair (A, B) of route variants that differ in exactly the named setting:
//   ping, ping, reload(A->B), ping, ping, reload(B->A), ping, reload(A->A, no change), ping
// Oracle: a ping that starts after ApplyLiveConfig returned for a CHANGED route set is answered with a status
// the backend produced after that call returned (its number is larger than every number handed out before).
// Pings without a preceding change are unconstrained (they may be cached), except that every ping gets a status.
// Everything is request/response driven; the 10 s default TTL never decides a verdict (a refetch is always allowed).

import (
	"encoding/binary"
	"fmt"
	"io"
	"net"
	"regexp"
	"strconv"
	"sync"
	"sync/atomic"
	"syscall"
	"testing"
	"time"

	"go.minekube.com/common/minecraft/component"
	jconfig "go.minekube.com/gate/pkg/edition/java/config"
	liteconfig "go.minekube.com/gate/pkg/edition/java/lite/config"
	"go.minekube.com/gate/pkg/edition/java/ping"
	"go.minekube.com/gate/pkg/edition/java/proxy"
	"go.minekube.com/gate/pkg/edition/java/proxy/zzverif/vrt"
	"go.minekube.com/gate/pkg/util/configutil"
)

func varint(v int) []byte {
	var out []byte
	u := uint32(v)
	for {
		if u&^0x7F == 0 {
			return append(out, byte(u))
		}
		out = append(out, byte(u&0x7F)|0x80)
		u >>= 7
	}
}

func readVarint(r io.Reader) (int, error) {
	n, sh := 0, 0
	for i := 0; i < 5; i++ {
		var b [1]byte
		if _, err := io.ReadFull(r, b[:]); err != nil {
			return 0, err
		}
		n |= int(b[0]&0x7F) << sh
		if b[0]&0x80 == 0 {
			return n, nil
		}
		sh += 7
	}
	return 0, fmt.Errorf("varint too long")
}

func readFrame(r io.Reader) ([]byte, error) {
	n, err := readVarint(r)
	if err != nil {
		return nil, err
	}
	buf := make([]byte, n)
	_, err = io.ReadFull(r, buf)
	return buf, err
}

// ---------------------------------------------------------------- numbering status backend

type backend struct {
	ln      net.Listener
	addr    string
	fetches atomic.Int64
	wg      sync.WaitGroup
}

var v2sig = []byte{0x0D, 0x0A, 0x0D, 0x0A, 0x00, 0x0D, 0x0A, 0x51, 0x55, 0x49, 0x54, 0x0A}

func startBackend() (*backend, error) {
	ln, err := net.Listen("tcp", "127.0.0.1:0")
	if err != nil {
		return nil, err
	}
	b := &backend{ln: ln, addr: ln.Addr().String()}
	b.wg.Add(1)
	go func() {
		defer b.wg.Done()
		for {
			c, err := ln.Accept()
			if err != nil {
				return
			}
			func() {
				defer c.Close()
				// an optional PROXY v2 header (routes with proxyProtocol) comes first
				first := make([]byte, 1)
				if _, err := io.ReadFull(c, first); err != nil {
					return
				}
				var hsFirst []byte
				if first[0] == v2sig[0] {
					rest := make([]byte, 15)
					if _, err := io.ReadFull(c, rest); err != nil {
						return
					}
					l := int(binary.BigEndian.Uint16(rest[13:15]))
					if _, err := io.ReadFull(c, make([]byte, l)); err != nil {
						return
					}
				} else {
					hsFirst = first
				}
				rd := io.MultiReader(bytesReader(hsFirst), c)
				if _, err := readFrame(rd); err != nil { // handshake
					return
				}
				if _, err := readFrame(rd); err != nil { // status request
					return
				}
				n := b.fetches.Add(1)
				js := fmt.Sprintf(`{"version":{"name":"x","protocol":765},"players":{"max":1,"online":0},"description":{"text":"FETCH-%d"}}`, n)
				body := append([]byte{0x00}, append(varint(len(js)), js...)...)
				_, _ = c.Write(append(varint(len(body)), body...))
			}()
		}
	}()
	return b, nil
}

type sliceReader struct{ b []byte }

func (s *sliceReader) Read(p []byte) (int, error) {
	if len(s.b) == 0 {
		return 0, io.EOF
	}
	n := copy(p, s.b)
	s.b = s.b[n:]
	return n, nil
}
func bytesReader(b []byte) io.Reader { return &sliceReader{b: b} }

func (b *backend) stop() { _ = b.ln.Close(); b.wg.Wait() }

// ---------------------------------------------------------------- route variants

type variant struct {
	Name string
	Mut  func(rt *liteconfig.Route, dead string)
}

var variants = []variant{
	{"base", func(rt *liteconfig.Route, dead string) {}},
	{"modifyVirtualHost", func(rt *liteconfig.Route, dead string) { rt.ModifyVirtualHost = true }},
	{"cachePingTTL=1h", func(rt *liteconfig.Route, dead string) { rt.CachePingTTL = configutil.Duration(time.Hour) }},
	{"second-backend", func(rt *liteconfig.Route, dead string) { rt.Backend = append(rt.Backend, dead) }},
	{"second-host-pattern", func(rt *liteconfig.Route, dead string) { rt.Host = append(rt.Host, "other.lite.test") }},
	{"strategy=round-robin", func(rt *liteconfig.Route, dead string) { rt.Strategy = liteconfig.StrategyRoundRobin }},
	{"fallback", func(rt *liteconfig.Route, dead string) {
		rt.Fallback = &liteconfig.Status{MOTD: &configutil.Component{Value: &component.Text{Content: "FALLBACK"}}, Version: ping.Version{Name: "fb", Protocol: 765}}
	}},
	{"proxyProtocol", func(rt *liteconfig.Route, dead string) { rt.ProxyProtocol = true }},
	{"tcpShieldRealIP", func(rt *liteconfig.Route, dead string) { rt.TCPShieldRealIP = true }},
	{"extra-route-behind", nil}, // a second route after the one that matches
}

type reloadCase struct {
	A, B string
}

type rig struct {
	p     *proxy.Proxy
	front net.Listener
	cfg   jconfig.Config
	b     *backend
	dead  string
	fd    int
}

func routesFor(v variant, b *backend, dead string) []liteconfig.Route {
	rt := liteconfig.Route{Host: []string{"s.lite.test"}, Backend: []string{b.addr}}
	if v.Mut != nil {
		v.Mut(&rt, dead)
	}
	routes := []liteconfig.Route{rt}
	if v.Name == "extra-route-behind" {
		routes = append(routes, liteconfig.Route{Host: []string{"*"}, Backend: []string{dead}})
	}
	return routes
}

func newRig(a variant) (*rig, error) {
	g := &rig{fd: -1}
	var err error
	if g.front, err = net.Listen("tcp", "127.0.0.1:0"); err != nil {
		return nil, err
	}
	if g.b, err = startBackend(); err != nil {
		return nil, err
	}
	// a refusing backend: bound, never listening
	fd, err := syscall.Socket(syscall.AF_INET, syscall.SOCK_STREAM, 0)
	if err != nil {
		return nil, err
	}
	if err = syscall.Bind(fd, &syscall.SockaddrInet4{Addr: [4]byte{127, 0, 0, 1}}); err != nil {
		return nil, err
	}
	sa, err := syscall.Getsockname(fd)
	if err != nil {
		return nil, err
	}
	g.fd, g.dead = fd, fmt.Sprintf("127.0.0.1:%d", sa.(*syscall.SockaddrInet4).Port)
	g.cfg = jconfig.DefaultConfig
	g.cfg.Bind = g.front.Addr().String()
	g.cfg.Quota.Connections.Enabled = false
	g.cfg.Quota.Logins.Enabled = false
	g.cfg.PacketLimiter.PacketsPerSecond = -1
	g.cfg.PacketLimiter.BytesPerSecond = -1
	g.cfg.Lite.Enabled = true
	g.cfg.Lite.Routes = routesFor(a, g.b, g.dead)
	start := g.cfg
	if g.p, err = proxy.New(proxy.Options{Config: &start}); err != nil {
		return nil, err
	}
	go func() {
		for {
			c, err := g.front.Accept()
			if err != nil {
				return
			}
			go g.p.HandleConn(c)
		}
	}()
	return g, nil
}

func (g *rig) close() {
	_ = g.front.Close()
	if g.b != nil {
		g.b.stop()
	}
	if g.fd >= 0 {
		_ = syscall.Close(g.fd)
	}
}

var fetchRe = regexp.MustCompile(`FETCH-(\d+)`)

// ping plays one status ping; returns the number of the backend answer it was served (0 = none).
func (g *rig) ping() (int64, string, error) {
	c, err := net.Dial("tcp", g.front.Addr().String())
	if err != nil {
		return 0, "", err
	}
	defer c.Close()
	_ = c.SetDeadline(time.Now().Add(60 * time.Second)) // watchdog only
	host := "s.lite.test"
	hs := append([]byte{0x00}, varint(765)...)
	hs = append(hs, varint(len(host))...)
	hs = append(hs, host...)
	hs = append(hs, 0x63, 0xdd)
	hs = append(hs, varint(1)...)
	out := append(varint(len(hs)), hs...)
	out = append(out, 0x01, 0x00)
	if _, err := c.Write(out); err != nil {
		return 0, "", err
	}
	body, err := readFrame(c)
	if err != nil {
		return 0, "", err
	}
	m := fetchRe.FindSubmatch(body)
	if m == nil {
		return 0, string(body), nil
	}
	n, _ := strconv.ParseInt(string(m[1]), 10, 64)
	return n, string(body), nil
}

func (g *rig) reload(v variant) error {
	cand := g.cfg
	cand.Lite.Routes = routesFor(v, g.b, g.dead)
	return g.p.ApplyLiveConfig(&cand)
}

func byName(n string) variant {
	for _, v := range variants {
		if v.Name == n {
			return v
		}
	}
	panic("unknown variant " + n)
}

func runCase(c reloadCase) (key, desc string, hung bool) {
	a, b := byName(c.A), byName(c.B)
	g, err := newRig(a)
	if err != nil {
		return "", "rig: " + err.Error(), true
	}
	defer g.close()
	var trace []string
	highest := int64(0) // largest answer number handed out by the backend so far
	mustExceed := int64(-1)
	step := func(what string) (string, string, bool) {
		n, body, err := g.ping()
		if err != nil {
			if ne, ok := err.(net.Error); ok && ne.Timeout() {
				return "", fmt.Sprintf("%v -> %v: ping timed out after %v", c.A, c.B, trace), true
			}
			return "reload/ping-failed", fmt.Sprintf("routes %s -> %s, after %v: %s failed: %v", c.A, c.B, trace, what, err), false
		}
		trace = append(trace, fmt.Sprintf("%s=answer#%d", what, n))
		if n == 0 {
			return "reload/ping-without-backend-status", fmt.Sprintf("routes %s -> %s, %v: the backend is up but the ping was answered with %q", c.A, c.B, trace, body), false
		}
		if mustExceed >= 0 && n <= mustExceed {
			return "reload/stale-after-reload", fmt.Sprintf("routes %s -> %s, %v: the ping started after ApplyLiveConfig returned, but it was answered with backend answer #%d; the backend had handed out #%d before the reload", c.A, c.B, trace, n, mustExceed), false
		}
		mustExceed = -1
		if f := g.b.fetches.Load(); f > highest {
			highest = f
		}
		return "", "", false
	}
	reload := func(v variant, changed bool) (string, string) {
		if err := g.reload(v); err != nil {
			return "reload/rejected", fmt.Sprintf("routes %s -> %s, %v: ApplyLiveConfig(%s) failed: %v", c.A, c.B, trace, v.Name, err)
		}
		trace = append(trace, "reload("+v.Name+")")
		if changed {
			mustExceed = g.b.fetches.Load()
		}
		return "", ""
	}
	for _, s := range []string{"ping1", "ping2", "->B", "ping3", "ping4", "->A", "ping5", "->A(unchanged)", "ping6"} {
		var k, d string
		var h bool
		switch s {
		case "->B":
			k, d = reload(b, true)
		case "->A":
			k, d = reload(a, true)
		case "->A(unchanged)":
			k, d = reload(a, false)
		default:
			k, d, h = step(s)
		}
		if h {
			return "", d, true
		}
		if k != "" {
			return k, d, false
		}
	}
	return "", "", false
}

func TestVerif(t *testing.T) {
	vrt.Run(t, "C32", func(r *vrt.R) {
		var rc reloadCase
		if r.ReplayInto(&rc) {
			if rc.A == "" {
				return // a violation of another pass
			}
			r.Eval(1)
			k, d, hung := runCase(rc)
			if hung {
				r.NotExhaustive(d)
			} else if k != "" {
				r.Violation(k, d, rc)
			}
			return
		}
		i, n := 0, 0
		for _, a := range variants {
			for _, b := range variants {
				if a.Name == b.Name {
					continue
				}
				i++
				if !r.Mine(i) {
					continue
				}
				if r.Expired() {
					return
				}
				c := reloadCase{A: a.Name, B: b.Name}
				k, d, hung := runCase(c)
				n++
				if hung {
					r.NotExhaustive(d)
					continue
				}
				if k != "" {
					r.Violation(k, d, c)
					continue
				}
				r.Distinct("reload|" + a.Name + "->" + b.Name)
				r.Class("reload:changed-setting/" + b.Name)
			}
		}
		r.Eval(n * 6)
		r.Nontrivial(n)
		if r.Mine(0) {
			r.Sample(map[string]any{"part": "reload", "variants": len(variants), "history": "ping ping reload(A->B) ping ping reload(B->A) ping reload(unchanged) ping"})
		}
	})
}
