package lite

// C32 — the Lite ping cache never serves a status from before a reset.
//
// Part sched (deciding): every interleaving, within the preemption bound, of loads / resets /
// clock jumps on the REAL pingStatusCache (whole lite package instrumented), built through the
// real constructor newPingStatusCache(now, group) with an injected clock and a scheduler-aware
// flight group: x/sync/singleflight runs the loader on a goroutine of its own and parks callers
// on channels, which the controlled scheduler cannot see; vflight keeps singleflight's contract
// (one call per key in flight, late callers share the leader's result, the key is forgotten when
// the call ends) on top of sched.Wait.
// Part fallback (enum): the real ResolveStatusResponseWithGeneration over loopback TCP against
// live / refusing / closing backends: the fallback status appears only when every backend failed.

import (
	"bytes"
	"context"
	"encoding/json"
	"fmt"
	"io"
	"net"
	"sort"
	"strings"
	"sync"
	"syscall"
	"testing"
	"time"

	"github.com/go-logr/logr"
	"go.minekube.com/common/minecraft/component"
	"go.minekube.com/gate/pkg/edition/java/lite/config"
	"go.minekube.com/gate/pkg/edition/java/netmc"
	"go.minekube.com/gate/pkg/edition/java/ping"
	"go.minekube.com/gate/pkg/edition/java/proto/packet"
	"go.minekube.com/gate/pkg/edition/java/proxy/zzverif/sched"
	"go.minekube.com/gate/pkg/edition/java/proxy/zzverif/schedrun"
	"go.minekube.com/gate/pkg/edition/java/proxy/zzverif/vrt"
	"go.minekube.com/gate/pkg/gate/proto"
	"go.minekube.com/gate/pkg/util/configutil"
	"golang.org/x/sync/singleflight"
)

// ---------------------------------------------------------------- scheduler-aware flight group

type vcall struct {
	done bool
	val  any
	err  error
	dups int
}

type vflight struct {
	x     *sched.X
	calls map[string]*vcall
}

func (g *vflight) DoChan(key string, fn func() (any, error)) <-chan singleflight.Result {
	ch := make(chan singleflight.Result, 1)
	sched.Point("flight.enter", g) // singleflight takes its mutex here
	if c, ok := g.calls[key]; ok {
		c.dups++
		g.x.Wait("flight.wait", c, func() bool { return c.done })
		ch <- singleflight.Result{Val: c.val, Err: c.err, Shared: true}
		return ch
	}
	c := &vcall{}
	g.calls[key] = c
	c.val, c.err = fn()
	sched.Point("flight.finish", g)
	delete(g.calls, key)
	c.done = true
	ch <- singleflight.Result{Val: c.val, Err: c.err, Shared: c.dups > 0}
	return ch
}

// ---------------------------------------------------------------- recorded world

type fetchRec struct {
	id         int
	key        pingKey
	start, end int // ticks
	byLoad     int
}
type loadRec struct {
	id        int
	key       pingKey
	call, ret int
	fetch     int // id of the fetch whose value was returned, -1 unknown
	status    string
}
type resetRec struct{ call, ret int }

type world32 struct {
	x       *sched.X
	c       *pingStatusCache
	offset  time.Duration
	clock   int
	fetches []*fetchRec
	loads   []*loadRec
	resets  []*resetRec
	jumps   []jumpRec // clock advances
	ttl     time.Duration
	ttls    map[pingKey]time.Duration // per-route TTLs (default w.ttl)
	fails   func(fetchID int) bool    // which backend fetches fail (the failure is what the loader returns)
}

type jumpRec struct {
	tick int
	d    time.Duration
}

func (w *world32) ttlOf(k pingKey) time.Duration {
	if d, ok := w.ttls[k]; ok {
		return d
	}
	return w.ttl
}

// offsetAt: how far the harness clock had been moved ahead at a tick.
func (w *world32) offsetAt(tick int) (d time.Duration) {
	for _, j := range w.jumps {
		if j.tick < tick {
			d += j.d
		}
	}
	return d
}

func (w *world32) tick() int { w.clock++; return w.clock }

func newWorld32(x *sched.X) *world32 {
	w := &world32{x: x, ttl: time.Hour}
	w.c = newPingStatusCache(func() time.Time { return time.Now().Add(w.offset) }, &vflight{x: x, calls: map[string]*vcall{}})
	return w
}

var (
	keyA  = pingKey{backendAddr: "a:25565", protocol: 765, routeGeneration: 1}
	keyA2 = pingKey{backendAddr: "a:25565", protocol: 47, routeGeneration: 1}  // other protocol
	keyAg = pingKey{backendAddr: "a:25565", protocol: 765, routeGeneration: 2} // other route generation
	keyB  = pingKey{backendAddr: "b:25565", protocol: 765, routeGeneration: 1} // other backend
)

func keyName(k pingKey) string {
	return fmt.Sprintf("%s/p%d/g%d", k.backendAddr, k.protocol, k.routeGeneration)
}

func (w *world32) load(k pingKey) { w.loadVia(k, false) }

// request is what resolveStatusResponse does for a route with the ping cache enabled: the lock-only fast path
// get(key) first, the loading slow path only on a miss.
func (w *world32) request(k pingKey) { w.loadVia(k, true) }

func (w *world32) loadVia(k pingKey, fastPath bool) {
	l := &loadRec{id: len(w.loads), key: k, fetch: -1}
	w.loads = append(w.loads, l)
	l.call = w.tick()
	var res *pingResult
	if fastPath {
		res = w.c.get(k)
	}
	if res == nil {
		res = w.loadSlow(k, l)
	}
	w.finish(k, l, res)
}

func (w *world32) loadSlow(k pingKey, l *loadRec) *pingResult {
	return w.c.load(k, w.ttlOf(k), func() *pingResult {
		f := &fetchRec{id: len(w.fetches), key: k, byLoad: l.id}
		w.fetches = append(w.fetches, f)
		f.start = w.tick()
		// at most one status request in flight per key - unless a reset separates the two loads
		for _, o := range w.fetches {
			if o != f && o.end == 0 && o.key == k {
				// excused iff a reset ran after the earlier of the two loads was called and was
				// called before this fetch started (one load saw the cache before, one after it)
				first := w.loads[o.byLoad].call
				if l.call < first {
					first = l.call
				}
				sep := false
				for _, r := range w.resets {
					if (r.ret == 0 || r.ret > first) && r.call < f.start {
						sep = true
					}
				}
				if !sep {
					w.x.Fail("two-fetches-in-flight", "a second backend status request for %s started (by load #%d) while the one of load #%d was still in flight, with no reset in between", keyName(k), l.id, o.byLoad)
				}
			}
		}
		sched.Point("fetch", nil) // the backend round trip
		f.end = w.tick()
		if w.fails != nil && w.fails(f.id) {
			// a failed backend fetch: the loader's result is the error (it is cached like a status)
			return &pingResult{err: fmt.Errorf("%s#%d", keyName(k), f.id)}
		}
		return &pingResult{res: &packet.StatusResponse{Status: fmt.Sprintf("%s#%d", keyName(k), f.id)}}
	})
}

func (w *world32) finish(k pingKey, l *loadRec, res *pingResult) {
	l.ret = w.tick()
	if res == nil || (res.res == nil && res.err == nil) {
		w.x.Fail("load-returned-nil", "load #%d of %s returned nil", l.id, keyName(k))
		return
	}
	if res.res != nil {
		l.status = res.res.Status
	} else {
		l.status = res.err.Error()
	}
	name, id, _ := strings.Cut(l.status, "#")
	fmt.Sscanf(id, "%d", &l.fetch)
	if name != keyName(k) {
		w.x.Fail("wrong-key-served", "load #%d of %s was answered with the status of %s", l.id, keyName(k), name)
	}
}

func (w *world32) reset() {
	r := &resetRec{}
	w.resets = append(w.resets, r)
	r.call = w.tick()
	w.c.reset()
	r.ret = w.tick()
}

func (w *world32) jump() { w.jumpBy(2 * w.ttl) }

func (w *world32) jumpBy(d time.Duration) {
	w.offset += d
	w.jumps = append(w.jumps, jumpRec{w.tick(), d})
}

// oracle runs at the end of every schedule.
func (w *world32) oracle(expectFetches map[pingKey]int) {
	x := w.x
	for _, l := range w.loads {
		if l.fetch < 0 || l.fetch >= len(w.fetches) {
			continue
		}
		f := w.fetches[l.fetch]
		for _, r := range w.resets {
			if l.call > r.ret && f.start < r.call {
				x.Fail("stale-after-reset", "load #%d of %s started (tick %d) after reset returned (tick %d) but was answered with fetch #%d, which started at tick %d, before the reset was called (tick %d)", l.id, keyName(l.key), l.call, r.ret, f.id, f.start, r.call)
			}
		}
		// only a value that came out of the CACHE can be too old: a load that arrives while the
		// leader's call is still open legitimately shares its result (singleflight contract)
		if f.end != 0 && l.call > w.loads[f.byLoad].ret && w.loads[f.byLoad].ret != 0 {
			if age := w.offsetAt(l.call) - w.offsetAt(f.end); age >= w.ttlOf(f.key) {
				x.Fail("served-beyond-ttl", "load #%d of %s started (tick %d) when the clock had moved %v ahead since fetch #%d completed (tick %d) - the route's TTL is %v - and after the fetching load had returned (tick %d), but it was answered from the cache with that fetch", l.id, keyName(l.key), l.call, age, f.id, f.end, w.ttlOf(f.key), w.loads[f.byLoad].ret)
			}
		}
	}
	if expectFetches != nil {
		got := map[pingKey]int{}
		for _, f := range w.fetches {
			got[f.key]++
		}
		for k, n := range expectFetches {
			if got[k] != n {
				x.Fail("cache-not-used", "%d backend status requests for %s, want %d (every fetch of this scenario is forced by a miss or an expiry)", got[k], keyName(k), n)
			}
		}
	}
	var parts []string
	for _, l := range w.loads {
		parts = append(parts, fmt.Sprintf("L%d=%d", l.id, l.fetch))
	}
	sort.Strings(parts)
	x.Outcome(strings.Join(parts, ","))
}

func scenarios32() []schedrun.Scenario {
	return []schedrun.Scenario{
		{Name: "2-loads-vs-reset-then-load", Quick: 2, Thorough: 3, Body: func(x *sched.X) {
			w := newWorld32(x)
			x.Go("l1", func() { w.load(keyA) })
			x.Go("l2", func() { w.load(keyA) })
			x.Go("r", func() { w.reset(); w.load(keyA) })
			x.AtEnd(func() { w.load(keyA); w.oracle(nil) })
		}},
		{Name: "load-twice-vs-reset", Quick: 3, Thorough: 6, Body: func(x *sched.X) {
			w := newWorld32(x)
			x.Go("l1", func() { w.load(keyA); w.load(keyA) })
			x.Go("r", func() { w.reset(); w.load(keyA) })
			x.AtEnd(func() { w.load(keyA); w.oracle(nil) })
		}},
		{Name: "warm-cache-reset-2-loads", Quick: 2, Thorough: 3, Body: func(x *sched.X) {
			w := newWorld32(x)
			w.load(keyA) // cached before anything concurrent happens
			x.Go("l1", func() { w.load(keyA) })
			x.Go("r", func() { w.reset() })
			x.Go("l2", func() { w.load(keyA); w.load(keyA) })
			x.AtEnd(func() { w.load(keyA); w.oracle(nil) })
		}},
		{Name: "other-keys-and-reset", Quick: 2, Thorough: 3, Body: func(x *sched.X) {
			w := newWorld32(x)
			x.Go("l1", func() { w.load(keyA) })
			x.Go("l2", func() { w.load(keyA2); w.load(keyA) })
			x.Go("l3", func() { w.load(keyAg); w.load(keyB) })
			x.Go("r", func() { w.reset() })
			x.AtEnd(func() { w.load(keyA); w.load(keyA2); w.load(keyAg); w.load(keyB); w.oracle(nil) })
		}},
		{Name: "two-resets", Quick: 2, Thorough: 3, Body: func(x *sched.X) {
			w := newWorld32(x)
			x.Go("l1", func() { w.load(keyA); w.load(keyA) })
			x.Go("r1", func() { w.reset(); w.load(keyA) })
			x.Go("r2", func() { w.reset() })
			x.AtEnd(func() { w.oracle(nil) })
		}},
		{Name: "no-reset-single-fetch", Quick: 3, Thorough: 4, Body: func(x *sched.X) {
			w := newWorld32(x)
			x.Go("l1", func() { w.load(keyA); w.load(keyA) })
			x.Go("l2", func() { w.load(keyA) })
			x.Go("l3", func() { w.load(keyA2) })
			x.AtEnd(func() { w.load(keyA); w.oracle(map[pingKey]int{keyA: 1, keyA2: 1}) })
		}},
		{Name: "ttl-expiry", Quick: 3, Thorough: 6, Body: func(x *sched.X) {
			w := newWorld32(x)
			x.Go("l1", func() { w.load(keyA); w.load(keyA) })
			x.Go("clock", func() { w.jump(); w.load(keyA) })
			x.AtEnd(func() { w.load(keyA); w.oracle(nil) })
		}},
		{Name: "ttl-expiry-and-reset", Quick: 2, Thorough: 3, Body: func(x *sched.X) {
			w := newWorld32(x)
			w.load(keyA)
			x.Go("l1", func() { w.load(keyA) })
			x.Go("clock", func() { w.jump(); w.load(keyA) })
			x.Go("r", func() { w.reset() })
			x.AtEnd(func() { w.load(keyA); w.oracle(nil) })
		}},
		// keys that differ in the BACKEND only, in flight together (no reset, no expiry: one fetch each, each answered
		// with its own backend's status)
		{Name: "two-backends-in-flight", Quick: 2, Thorough: 3, Body: func(x *sched.X) {
			w := newWorld32(x)
			x.Go("l1", func() { w.load(keyA); w.request(keyB) })
			x.Go("l2", func() { w.load(keyB); w.request(keyA) })
			x.Go("l3", func() { w.request(keyA) })
			x.AtEnd(func() { w.load(keyA); w.load(keyB); w.oracle(map[pingKey]int{keyA: 1, keyB: 1}) })
		}},
		// failed backend fetches: the first / every second fetch fails; a failure obtained before a reset is as
		// stale afterwards as a status
		{Name: "failed-fetch/2-requests-vs-reset-then-request", Quick: 2, Thorough: 3, Body: func(x *sched.X) {
			w := newWorld32(x)
			w.fails = func(id int) bool { return id == 0 }
			x.Go("l1", func() { w.request(keyA) })
			x.Go("l2", func() { w.request(keyA) })
			x.Go("r", func() { w.reset(); w.request(keyA) })
			x.AtEnd(func() { w.request(keyA); w.oracle(nil) })
		}},
		{Name: "failed-fetch/warm-failure-reset-and-expiry", Quick: 2, Thorough: 3, Body: func(x *sched.X) {
			w := newWorld32(x)
			w.fails = func(id int) bool { return id%2 == 0 }
			w.request(keyA) // a cached failure
			x.Go("l1", func() { w.request(keyA); w.request(keyB) })
			x.Go("clock", func() { w.jump(); w.request(keyA) })
			x.Go("r", func() { w.reset() })
			x.AtEnd(func() { w.request(keyA); w.request(keyB); w.oracle(nil) })
		}},
		// the route's TTL, both sides of the boundary and per route: A lives 1 h, B 4 h
		{Name: "ttl-boundary-per-route", Quick: 2, Thorough: 3, Body: func(x *sched.X) {
			w := newWorld32(x)
			w.ttls = map[pingKey]time.Duration{keyB: 4 * time.Hour}
			x.Go("t", func() {
				w.request(keyA)
				w.load(keyB)
				w.jumpBy(30 * time.Minute) // +0:30: both still cached
				w.request(keyA)
				w.request(keyB)
				w.jumpBy(90 * time.Minute) // +2:00: A expired, B not
				w.request(keyA)
				w.request(keyB)
				w.jumpBy(90 * time.Minute) // +3:30
				w.load(keyB)
				w.jumpBy(30 * time.Minute) // +4:00: B expired; A (fetched at +2:00) expired at +3:00
				w.request(keyB)
				w.request(keyA)
			})
			x.Go("other", func() { w.request(keyA2) })
			x.AtEnd(func() { w.oracle(map[pingKey]int{keyA: 3, keyB: 2, keyA2: 1}) })
		}},
		// the same races with requests that take the fast path get(key) before the loading path, as the real
		// resolveStatusResponse does
		{Name: "fast-path/2-requests-vs-reset-then-request", Quick: 2, Thorough: 3, Body: func(x *sched.X) {
			w := newWorld32(x)
			x.Go("l1", func() { w.request(keyA) })
			x.Go("l2", func() { w.request(keyA) })
			x.Go("r", func() { w.reset(); w.request(keyA) })
			x.AtEnd(func() { w.request(keyA); w.oracle(nil) })
		}},
		{Name: "fast-path/warm-cache-reset-2-requests", Quick: 2, Thorough: 3, Body: func(x *sched.X) {
			w := newWorld32(x)
			w.request(keyA)
			x.Go("l1", func() { w.request(keyA) })
			x.Go("r", func() { w.reset() })
			x.Go("l2", func() { w.request(keyA); w.request(keyA) })
			x.AtEnd(func() { w.request(keyA); w.oracle(nil) })
		}},
		{Name: "fast-path/other-keys-and-reset", Quick: 2, Thorough: 3, Body: func(x *sched.X) {
			w := newWorld32(x)
			w.request(keyA)
			w.request(keyAg)
			x.Go("l1", func() { w.request(keyA); w.request(keyB) })
			x.Go("l2", func() { w.request(keyA2); w.request(keyAg) })
			x.Go("r", func() { w.reset() })
			x.AtEnd(func() { w.request(keyA); w.request(keyA2); w.request(keyAg); w.request(keyB); w.oracle(nil) })
		}},
		{Name: "fast-path/no-reset-single-fetch", Quick: 3, Thorough: 4, Body: func(x *sched.X) {
			w := newWorld32(x)
			x.Go("l1", func() { w.request(keyA); w.request(keyA) })
			x.Go("l2", func() { w.request(keyA) })
			x.Go("l3", func() { w.request(keyA2) })
			x.AtEnd(func() { w.request(keyA); w.oracle(map[pingKey]int{keyA: 1, keyA2: 1}) })
		}},
		{Name: "fast-path/ttl-expiry", Quick: 3, Thorough: 6, Body: func(x *sched.X) {
			w := newWorld32(x)
			x.Go("l1", func() { w.request(keyA); w.request(keyA) })
			x.Go("clock", func() { w.jump(); w.request(keyA) })
			x.AtEnd(func() { w.request(keyA); w.oracle(nil) })
		}},
		{Name: "fast-path/ttl-expiry-and-reset", Quick: 2, Thorough: 3, Body: func(x *sched.X) {
			w := newWorld32(x)
			w.request(keyA)
			x.Go("l1", func() { w.request(keyA) })
			x.Go("clock", func() { w.jump(); w.request(keyA) })
			x.Go("r", func() { w.reset() })
			x.AtEnd(func() { w.request(keyA); w.oracle(nil) })
		}},
	}
}

// ---------------------------------------------------------------- part fallback (real TCP, EOF driven)

type fbClient struct {
	netmc.MinecraftConn
	ctx context.Context
}

type fbConn struct{ net.Conn }

func (fbConn) RemoteAddr() net.Addr { return &net.TCPAddr{IP: net.IPv4(127, 0, 0, 1), Port: 40000} }

func (c *fbClient) Conn() net.Conn           { return fbConn{} }
func (c *fbClient) Context() context.Context { return c.ctx }

func varint(v int) []byte {
	var out []byte
	u := uint32(v)
	for {
		if u&^0x7F == 0 {
			return append(out, byte(u))
		}
		out = append(out, byte(u&0x7F)|0x80)
		u >>= 7
	}
}

func readFrame(c net.Conn) ([]byte, error) {
	n, sh := 0, 0
	for {
		var b [1]byte
		if _, err := io.ReadFull(c, b[:]); err != nil {
			return nil, err
		}
		n |= int(b[0]&0x7F) << sh
		if b[0]&0x80 == 0 {
			break
		}
		sh += 7
	}
	buf := make([]byte, n)
	_, err := io.ReadFull(c, buf)
	return buf, err
}

// backend kinds: live answers the status request; live-extra answers with a status packet that carries extra bytes
// behind the JSON (mods do that; it is a success); closer accepts and closes; wrong-packet answers with another
// packet (a pong); dead refuses.
func startBackend(kind, motd string, wg *sync.WaitGroup) (addr string, stop func()) {
	if kind == "dead" {
		// bound, not listening: refuses, and the port cannot be handed to a later listener of this run
		fd, err := syscall.Socket(syscall.AF_INET, syscall.SOCK_STREAM, 0)
		if err != nil {
			panic(err)
		}
		if err = syscall.Bind(fd, &syscall.SockaddrInet4{Addr: [4]byte{127, 0, 0, 1}}); err != nil {
			panic(err)
		}
		sa, err := syscall.Getsockname(fd)
		if err != nil {
			panic(err)
		}
		return fmt.Sprintf("127.0.0.1:%d", sa.(*syscall.SockaddrInet4).Port), func() { _ = syscall.Close(fd) }
	}
	ln, err := net.Listen("tcp", "127.0.0.1:0")
	if err != nil {
		panic(err)
	}
	addr = ln.Addr().String()
	wg.Add(1)
	go func() {
		defer wg.Done()
		for {
			c, err := ln.Accept()
			if err != nil {
				return
			}
			if kind == "closer" {
				_ = c.Close()
				continue
			}
			func() {
				defer c.Close()
				if _, err := readFrame(c); err != nil { // handshake
					return
				}
				if _, err := readFrame(c); err != nil { // status request
					return
				}
				js := `{"version":{"name":"x","protocol":765},"players":{"max":1,"online":0},"description":{"text":"` + motd + `"}}`
				body := append([]byte{0x00}, append(varint(len(js)), js...)...)
				switch kind {
				case "live-extra":
					body = append(body, 0x01, 0x02, 0x03)
				case "wrong-packet":
					body = []byte{0x01, 0, 0, 0, 0, 0, 0, 0, 42}
				}
				_, _ = c.Write(append(varint(len(body)), body...))
			}()
		}
	}()
	return addr, func() { _ = ln.Close() }
}

type fbCase struct {
	Kinds    []string `json:"kinds"`
	Fallback bool     `json:"fallback"`
	Cache    bool     `json:"cache"`
}

func runFallback(r *vrt.R) {
	var wg sync.WaitGroup
	addrs := map[string][]string{}
	var stops []func()
	for _, k := range []string{"live", "dead", "closer", "live-extra", "wrong-packet"} {
		for i := 0; i < 3; i++ {
			a, stop := startBackend(k, fmt.Sprintf("LIVE-%d", i), &wg)
			addrs[k] = append(addrs[k], a)
			stops = append(stops, stop)
		}
	}
	defer func() {
		for _, s := range stops {
			s()
		}
		wg.Wait()
	}()
	kinds := []string{"live", "dead", "closer", "live-extra", "wrong-packet"}
	var lists [][]string
	var rec func(cur []string)
	rec = func(cur []string) {
		if len(cur) > 0 {
			lists = append(lists, append([]string(nil), cur...))
		}
		if len(cur) == 3 {
			return
		}
		for _, k := range kinds {
			rec(append(cur, k))
		}
	}
	rec(nil)
	gen := uint64(1000)
	n := 0
	for _, l := range lists {
		for _, fb := range []bool{false, true} {
			for _, cache := range []bool{false, true} {
				n++
				gen++
				c := fbCase{Kinds: l, Fallback: fb, Cache: cache}
				var backends []string
				firstLive := ""
				for i, k := range l {
					backends = append(backends, addrs[k][i])
					if (k == "live" || k == "live-extra") && firstLive == "" {
						firstLive = fmt.Sprintf("LIVE-%d", i)
					}
				}
				route := config.Route{Host: []string{"*"}, Backend: backends, CachePingTTL: configutil.Duration(-1)}
				if cache {
					route.CachePingTTL = configutil.Duration(time.Hour)
				}
				if fb {
					route.Fallback = &config.Status{MOTD: &configutil.Component{Value: &component.Text{Content: "FALLBACK-MOTD"}}, Version: ping.Version{Name: "fb", Protocol: 765}}
				}
				hs := &packet.Handshake{ProtocolVersion: 765, ServerAddress: "example.org", Port: 25565, NextStatus: 1}
				hctx := &proto.PacketContext{Direction: proto.ServerBound, Protocol: 765, PacketID: 0}
				update(hctx, hs)
				sctx := &proto.PacketContext{Direction: proto.ServerBound, Protocol: 765, PacketID: 0, Payload: []byte{0x00}}
				_, resp, err := ResolveStatusResponseWithGeneration(5*time.Second, gen, []config.Route{route}, logr.Discard(), &fbClient{ctx: context.Background()}, hs, hctx, sctx, NewStrategyManager())
				status := ""
				if resp != nil {
					status = resp.Status
				}
				isFallback := strings.Contains(status, "FALLBACK-MOTD")
				desc := fmt.Sprintf("backends=%v fallback-configured=%v cache=%v: response=%q err=%v", l, fb, cache, status, err)
				r.Class(fmt.Sprintf("fallback:any-live=%v/fallback=%v/cache=%v", firstLive != "", fb, cache))
				switch {
				case firstLive != "" && isFallback:
					r.Violation("fallback/used-although-a-backend-answered", desc, c)
				case firstLive != "" && (err != nil || !strings.Contains(status, firstLive)):
					r.Violation("fallback/live-backend-not-used", desc+fmt.Sprintf("; want the status of %s", firstLive), c)
				case firstLive == "" && !fb && (err == nil || resp != nil):
					r.Violation("fallback/status-from-nowhere", desc+"; every backend failed and no fallback is configured", c)
				case firstLive == "" && fb && !isFallback:
					r.Violation("fallback/not-used-when-all-failed", desc, c)
				}
				var js map[string]any
				if status != "" && json.Unmarshal([]byte(status), &js) != nil {
					r.Violation("fallback/invalid-json", desc, c)
				}
			}
		}
	}
	r.Eval(n)
	r.Nontrivial(n)
	r.Sample(map[string]any{"part": "fallback", "cases": n, "backend_kinds": kinds})
	_ = bytes.MinRead
}

// ---------------------------------------------------------------- driver

func TestVerif(t *testing.T) {
	vrt.Run(t, "C32", func(r *vrt.R) {
		var fc fbCase
		if r.Replay() != nil && bytes.Contains(r.Replay(), []byte(`"kinds"`)) {
			_ = r.ReplayInto(&fc)
			runFallback(r) // cheap: re-run the whole table, the failing case reports again
			return
		}
		if r.Replay() == nil && r.Mine(0) {
			runFallback(r)
		}
		schedrun.Run(r, scenarios32())
	})
}
