package netmc

// C44 — connections tear down exactly once and survive handler panics.
//
// Seam: the real minecraftConn over a scripted in-memory net.Conn (Write appends or fails with an
// injected error, Read hands out scripted bytes and then EOF, nothing ever blocks).
//
// Pass "main" (engine sched): 2-3 threads out of {Close, CloseWith(packet), CloseUnknown, a write that
// fails, the REAL startReadLoop reaching EOF (optionally parked behind SetAutoReading(false)), a state
// switch that releases held packets into a failing connection} in every interleaving within the
// preemption bound. Oracle: SessionHandler.Disconnected ran exactly once (never twice at any point),
// every write that starts after a close returned reports ErrClosedConn, no deadlock, no panic.
//
// Pass "panics" (engine enum, real goroutines, no scheduler): every sequence of <=3 packets whose
// handler behaviour is one of {ok, panic(error), panic(string), runtime error, panic(custom), panic(nil),
// handler closes the connection} fed through the real read loop; the panic must not escape, the loop
// must return, teardown must have run exactly once. Plus the same over net.Pipe with a concurrent
// closer under a generous watchdog.

import (
	"context"
	"encoding/binary"
	"errors"
	"fmt"
	"io"
	"net"
	"os"
	"strings"
	"sync"
	"syscall"
	"testing"
	"time"

	"go.minekube.com/gate/pkg/edition/java/proto/packet"
	"go.minekube.com/gate/pkg/edition/java/proto/packet/plugin"
	"go.minekube.com/gate/pkg/edition/java/proto/packet/title"
	"go.minekube.com/gate/pkg/edition/java/proto/state"
	"go.minekube.com/gate/pkg/edition/java/proto/version"
	"go.minekube.com/gate/pkg/edition/java/proxy/zzverif/dualrun"
	"go.minekube.com/gate/pkg/edition/java/proxy/zzverif/vrt"
	"go.minekube.com/gate/pkg/gate/proto"
	"go.minekube.com/gate/pkg/internal/packetlimiter"
)

// ---------------------------------------------------------------- scripted conn

type conn44 struct {
	mu       sync.Mutex
	in       []byte // scripted inbound bytes, then EOF
	out      []byte
	writeErr error
	rerrs    []error // once `in` is used up, Read fails with these in turn, then EOF
	dlErr    error   // SetWriteDeadline fails with it (what a closed socket does before the flush even starts)
	closes   int
}

var errInjected = errors.New("injected write failure")

func (c *conn44) Write(p []byte) (int, error) {
	c.mu.Lock()
	defer c.mu.Unlock()
	if c.writeErr != nil {
		return 0, c.writeErr
	}
	if c.closes > 0 {
		return 0, net.ErrClosed
	}
	c.out = append(c.out, p...)
	return len(p), nil
}
func (c *conn44) Read(p []byte) (int, error) {
	c.mu.Lock()
	defer c.mu.Unlock()
	if c.closes > 0 {
		return 0, net.ErrClosed
	}
	if len(c.in) == 0 {
		if len(c.rerrs) > 0 {
			err := c.rerrs[0]
			c.rerrs = c.rerrs[1:]
			return 0, err
		}
		return 0, io.EOF
	}
	n := copy(p, c.in)
	c.in = c.in[n:]
	return n, nil
}
func (c *conn44) failWrites()                      { c.failWritesWith(errInjected) }
func (c *conn44) failWritesWith(err error)         { c.mu.Lock(); c.writeErr = err; c.mu.Unlock() }
func (c *conn44) failDeadlinesWith(err error)      { c.mu.Lock(); c.dlErr = err; c.mu.Unlock() }
func (c *conn44) Close() error                     { c.mu.Lock(); c.closes++; c.mu.Unlock(); return nil }
func (c *conn44) LocalAddr() net.Addr              { return &net.TCPAddr{} }
func (c *conn44) RemoteAddr() net.Addr             { return &net.TCPAddr{} }
func (c *conn44) SetDeadline(time.Time) error      { return nil }
func (c *conn44) SetReadDeadline(time.Time) error  { return nil }
func (c *conn44) SetWriteDeadline(time.Time) error { c.mu.Lock(); defer c.mu.Unlock(); return c.dlErr }

// The classes of write errors the connection code tells apart (closeOnWriteErr looks at the error to
// decide what to LOG: ErrClosedConn and *net.OpError wrapping net.ErrClosed / ECONNRESET are silent). All
// of them describe the socket, none of them means that the minecraftConn has been torn down already, so
// the statement asks the same of every class: teardown exactly once, Closed(), later writes refused.
type errClass44 struct {
	name string
	err  error
}

type timeoutErr44 struct{}

func (timeoutErr44) Error() string   { return "i/o timeout" }
func (timeoutErr44) Timeout() bool   { return true }
func (timeoutErr44) Temporary() bool { return true }

var errClasses44 = []errClass44{
	{"plain", errInjected},
	{"io.ErrClosedPipe", io.ErrClosedPipe},
	{"OpError(ECONNRESET)", &net.OpError{Op: "write", Net: "tcp", Err: os.NewSyscallError("write", syscall.ECONNRESET)}},
	{"OpError(net.ErrClosed)", &net.OpError{Op: "write", Net: "tcp", Err: net.ErrClosed}},
	{"OpError(EPIPE)", &net.OpError{Op: "write", Net: "tcp", Err: os.NewSyscallError("write", syscall.EPIPE)}},
	{"OpError(timeout)", &net.OpError{Op: "write", Net: "tcp", Err: timeoutErr44{}}},
	{"bare-ECONNRESET", syscall.ECONNRESET},
	{"ErrClosedConn-from-below", fmt.Errorf("wrapped transport: %w", ErrClosedConn)},
}

// frame builds an uncompressed frame: varint(len) varint(id) payload.
func frame44(id int, payload []byte) []byte {
	var body []byte
	body = appendVarint(body, id)
	body = append(body, payload...)
	return append(appendVarint(nil, len(body)), body...)
}
func appendVarint(b []byte, v int) []byte {
	u := uint32(v)
	for u >= 0x80 {
		b = append(b, byte(u)|0x80)
		u >>= 7
	}
	return append(b, byte(u))
}

const idKeepAliveServerboundPlay = 0x1A // protocol 769

func keepAliveFrame(n int) []byte {
	var p [8]byte
	binary.BigEndian.PutUint64(p[:], uint64(n))
	return frame44(idKeepAliveServerboundPlay, p[:])
}

// ---------------------------------------------------------------- handler

type handler44 struct {
	name         string
	mu           sync.Mutex
	disconnected int
	activated    int
	handled      []int // sequence numbers of packets handled
	behave       func(n int, pc *proto.PacketContext)
	onActivated  func() // what the handler does when it becomes the active one (real handlers write / disconnect there)
}

func (h *handler44) HandlePacket(pc *proto.PacketContext) {
	n := -1
	if ka, ok := pc.Packet.(*packet.KeepAlive); ok {
		n = int(ka.RandomID)
	}
	h.mu.Lock()
	h.handled = append(h.handled, n)
	h.mu.Unlock()
	if h.behave != nil {
		h.behave(n, pc)
	}
}
func (h *handler44) Disconnected() { h.mu.Lock(); h.disconnected++; h.mu.Unlock() }
func (h *handler44) Activated() {
	h.mu.Lock()
	h.activated++
	fn := h.onActivated
	h.mu.Unlock()
	if fn != nil {
		fn()
	}
}
func (h *handler44) Deactivated() {}
func (h *handler44) count() int   { h.mu.Lock(); defer h.mu.Unlock(); return h.disconnected }

// ---------------------------------------------------------------- fixture (sched pass)

type f44 struct {
	e    *dualrun.Env
	base *conn44
	mc   *minecraftConn
	h    *handler44
	h2   *handler44 // a second session handler (configuration state) for the handler-swap scenarios
	// tag prefixes this fixture's violation keys (scenarios that run several fixtures one after the other)
	tag string
	// noHandler: the connection never had a session handler, so there is no session to tear down; the
	// rest of the teardown (underlying connection closed once, writes refused) is still due
	noHandler bool
	mu        sync.Mutex
	ops       []*op44
	limit     int

	cancelParent context.CancelFunc
}

type op44 struct {
	kind      string
	call, ret int
	err       error
	closing   bool // a call that closes the connection (its return marks "closed from now on")
	write     bool
	// entryGuarded: the call starts with `if Closed(c) { return ErrClosedConn }` (CloseWith, the write
	// methods), so it reaches a close path only if the parent context was not cancelled before it began
	entryGuarded bool
	cancel       bool // cancellation of the parent context (no close path)
}

func new44(e *dualrun.Env, in []byte) *f44 { return new44x(e, in, true) }

// new44x: withHandler=false leaves the connection without any session handler (a connection that is
// closed before its first handler was installed).
func new44x(e *dualrun.Env, in []byte, withHandler bool) *f44 { return new44y(e, in, withHandler, nil) }

func new44y(e *dualrun.Env, in []byte, withHandler bool, limiter *packetlimiter.Limiter) *f44 {
	base := &conn44{in: in}
	// the connection's context derives from a cancellable parent (in production the parent is the
	// accepted connection's / the proxy's context); cancelling it makes Closed(c) true WITHOUT any close
	// path having run
	parent, cancel := context.WithCancel(context.Background())
	conn, _ := NewMinecraftConn(parent, base, proto.ServerBound, time.Second, time.Second, -1, limiter)
	f := &f44{e: e, base: base, mc: conn.(*minecraftConn), h: &handler44{name: "h1"}, h2: &handler44{name: "h2"}, cancelParent: cancel}
	f.mc.SetProtocol(version.Minecraft_1_21_4.Protocol)
	f.noHandler = !withHandler
	if withHandler {
		f.mc.SetActiveSessionHandler(state.Play, f.h)
	} else {
		f.mc.SetState(state.Play)
	}
	e.OnPoint(func() {
		if n := f.h.disconnected + f.h2.disconnected; n > 1 {
			e.Fail("teardown-twice", "SessionHandler.Disconnected has run %d times (h1 %d, h2 %d)", n, f.h.disconnected, f.h2.disconnected)
		}
	})
	return f
}

func (f *f44) fail(key, format string, a ...any) {
	if f.tag != "" {
		key = f.tag + "/" + key
	}
	f.e.Fail(key, format, a...)
}

// teardowns is the number of session teardowns over ALL handlers the connection ever had: the statement
// speaks about the connection's teardown, whichever handler happens to be active when it closes.
func (f *f44) teardowns() int { return f.h.count() + f.h2.count() }

func (f *f44) do(kind string, closing, write bool, fn func() error) *op44 {
	o := &op44{kind: kind, closing: closing, write: write}
	f.mu.Lock()
	f.ops = append(f.ops, o)
	f.mu.Unlock()
	o.call = f.e.Tick()
	o.err = fn()
	o.ret = f.e.Tick()
	return o
}

var disconnectPacket44 = &packet.KeepAlive{RandomID: 99}

func (f *f44) close() { f.do("Close", true, false, f.mc.Close) }
func (f *f44) closeUnknown() {
	f.do("CloseUnknown", true, false, func() error { return CloseUnknown(f.mc) })
}
func (f *f44) closeWith() {
	f.do("CloseWith", true, false, func() error { return CloseWith(f.mc, disconnectPacket44) }).entryGuarded = true
}

// cancel cancels the parent context the connection was created with.
func (f *f44) cancel() {
	f.do("cancel(parent ctx)", false, false, func() error { f.cancelParent(); return nil }).cancel = true
}
func (f *f44) readLoop() {
	f.do("readLoop", true, false, func() error { f.mc.startReadLoop(); return nil })
}

// failingWrite: the peer is gone, the write fails and must close the connection.
func (f *f44) failingWrite() {
	f.base.failWrites()
	o := f.do("WritePacket(failing)", true, true, func() error { return f.mc.WritePacket(&packet.KeepAlive{RandomID: 1}) })
	o.entryGuarded = true
	if o.err == nil {
		f.fail("write-error-swallowed", "WritePacket on a connection whose writes fail returned nil")
	}
}

// failingVia: the peer is gone; whichever write entry point notices it must report the error and close
// the connection (-> teardown). Small payloads are buffered and fail in the flush, payloads larger than
// the 4096-byte write buffer fail inside the encoder's write itself - two different close-on-error sites
// per entry point.
func (f *f44) failingVia(kind string) { f.failingViaErr(kind, errInjected) }

// failingViaErr is failingVia with the class of error the socket reports. Further entry points:
// "WritePacket"; "Flush(deadline)" = the flush cannot even set its write deadline (a closed socket);
// "release/<call>" = leaving configuration releases one held play packet into the failing connection
// (the fixture must have gone through holdOne).
func (f *f44) failingViaErr(kind string, werr error) {
	if kind == "Flush(deadline)" {
		f.base.failDeadlinesWith(werr)
	} else {
		f.base.failWritesWith(werr)
	}
	small := []byte{0x26, 0, 0, 0, 0, 0, 0, 0, 6}
	large := make([]byte, 6000)
	large[0] = 0x26
	isWrite := true
	var fn func() error
	switch kind {
	case "WritePacket":
		fn = func() error { return f.mc.WritePacket(&packet.KeepAlive{RandomID: 1}) }
	case "Write":
		fn = func() error { return f.mc.Write(small) }
	case "Write(large)":
		fn = func() error { return f.mc.Write(large) }
	case "BufferPayload(large)":
		fn = func() error { return f.mc.BufferPayload(large) }
	case "BufferPacket(large)":
		fn = func() error { return f.mc.BufferPacket(&plugin.Message{Channel: "verif:c44", Data: large}) }
	case "BufferPayload+Flush", "Flush(deadline)":
		fn = func() error {
			if err := f.mc.BufferPayload(small); err != nil {
				return err
			}
			return f.mc.Flush()
		}
	case "BufferPacket+Flush":
		fn = func() error {
			if err := f.mc.BufferPacket(&packet.KeepAlive{RandomID: 7}); err != nil {
				return err
			}
			return f.mc.Flush()
		}
	case "release/SetState":
		isWrite, fn = false, func() error { f.mc.SetState(state.Play); return nil }
	case "release/SetOutboundState":
		isWrite, fn = false, func() error { f.mc.SetOutboundState(state.Play); return nil }
	case "release/SetActiveSessionHandler":
		isWrite, fn = false, func() error { f.mc.SetActiveSessionHandler(state.Play, f.h); return nil }
	case "release/SwitchSessionHandler":
		isWrite, fn = false, func() error { f.switchTo(state.Play); return nil }
	default:
		panic(kind)
	}
	o := f.do(kind+"(failing)", true, isWrite, fn)
	o.entryGuarded = isWrite
	if isWrite && o.err == nil {
		f.fail("write-error-swallowed", "%s on a connection whose writes fail with %v returned nil", kind, werr)
	}
	// closed by a write error: whoever closed it, the connection is closed once the failed call is back
	if !Closed(f.mc) {
		f.fail("write-error/not-closed", "%s met the socket error %v (returned %v) and the connection is still open afterwards", kind, werr, o.err)
	}
}

var failingEntries44 = []string{"WritePacket", "Write", "Write(large)", "BufferPayload(large)", "BufferPacket(large)",
	"BufferPayload+Flush", "BufferPacket+Flush", "Flush(deadline)",
	"release/SetState", "release/SetOutboundState", "release/SetActiveSessionHandler", "release/SwitchSessionHandler"}

// errClassScenarios44: for every class of socket error, (1) every write entry point and every
// queue-release call, each on a fresh connection, followed by the four write calls (nothing is reading:
// only the write error can close the connection); (2) the failing write racing with an explicit Close;
// (3) the failing write while the read loop is parked behind SetAutoReading(false) - the close caused by
// the write error has to free it.
// readEnd44: the ways the read loop can END (the statement: "by its read loop ending"), by the class of
// what the socket / the stream delivers - the reader sorts read errors into retry (EAGAIN, temporary
// net errors: the loop carries on) and fatal ones, garbage ends it through the decoder, and the
// serverbound rate limiter ends it without any error.
type readEnd44 struct {
	name    string
	in      []byte
	errs    []error
	limiter bool
}

var readEnds44 = []readEnd44{
	{name: "EOF"},
	{name: "EOF-mid-frame", in: keepAliveFrame(1)[:5]},
	{name: "plain-error", errs: []error{errInjected}},
	{name: "OpError(ECONNRESET)", errs: []error{&net.OpError{Op: "read", Net: "tcp", Err: os.NewSyscallError("read", syscall.ECONNRESET)}}},
	{name: "OpError(net.ErrClosed)", errs: []error{&net.OpError{Op: "read", Net: "tcp", Err: net.ErrClosed}}},
	{name: "io.ErrClosedPipe", errs: []error{io.ErrClosedPipe}},
	{name: "retry(EAGAIN,temporary)-then-EOF", in: keepAliveFrame(1), errs: []error{syscall.EAGAIN, &net.OpError{Op: "read", Net: "tcp", Err: timeoutErr44{}}}},
	{name: "garbage-frame-length", in: []byte{0xff, 0xff, 0xff, 0xff, 0xff, 0xff}},
	{name: "oversized-frame", in: []byte{0xff, 0xff, 0xff, 0x07, 0x00}},
	{name: "unknown-packet-then-EOF", in: frame44(0x7e, []byte{1, 2, 3})},
	{name: "rate-limit-exceeded", in: append(keepAliveFrame(1), keepAliveFrame(2)...), limiter: true},
}

func readEndScenarios44() []dualrun.Scenario {
	var out []dualrun.Scenario
	mkf := func(e *dualrun.Env, re readEnd44) *f44 {
		var lim *packetlimiter.Limiter
		if re.limiter {
			// 1 packet per millisecond window = 1000/s > 500/s: the first packet already exceeds the limit,
			// whatever the clock does
			lim = packetlimiter.New(500, 0, time.Millisecond)
		}
		f := new44y(e, append([]byte{}, re.in...), true, lim)
		f.base.rerrs = append([]error{}, re.errs...)
		return f
	}
	for _, re := range readEnds44 {
		out = append(out,
			dualrun.Scenario{Name: "readloop-ends/" + re.name + "/alone", Quick: -1, Thorough: -1, Body: func(e *dualrun.Env) {
				f := mkf(e, re)
				e.Go("a", func() { f.readLoop(); f.writes() })
				f.finish(true)
			}},
			dualrun.Scenario{Name: "readloop-ends/" + re.name + "/vs-Close", Quick: 3, Thorough: -1, Body: func(e *dualrun.Env) {
				f := mkf(e, re)
				e.Go("a", func() { f.readLoop(); f.writes() })
				e.Go("b", func() { f.close() })
				f.finish(true)
			}},
		)
	}
	// "however many times": every closing call several times in a row from each of two goroutines
	out = append(out, dualrun.Scenario{Name: "repeated-closes-vs-repeated-closes", Quick: 2, Thorough: 4, Body: func(e *dualrun.Env) {
		f := new44(e, nil)
		e.Go("a", func() { f.close(); f.close(); f.closeUnknown(); f.closeWith(); f.writes() })
		e.Go("b", func() { f.closeUnknown(); f.closeWith(); f.close(); f.closeUnknown() })
		f.finish(true)
	}})
	return out
}

func errClassScenarios44() []dualrun.Scenario {
	var out []dualrun.Scenario
	for _, ec := range errClasses44 {
		out = append(out,
			dualrun.Scenario{Name: "write-error/" + ec.name + "/every-entry-point", Quick: -1, Thorough: -1, Body: func(e *dualrun.Env) {
				var fs []*f44
				for _, entry := range failingEntries44 {
					f := new44(e, nil)
					f.tag = entry
					if strings.HasPrefix(entry, "release/") {
						f.holdOne()
					}
					fs = append(fs, f)
				}
				e.Go("a", func() {
					for i, entry := range failingEntries44 {
						fs[i].failingViaErr(entry, ec.err)
						fs[i].writes()
					}
				})
				for _, f := range fs {
					f.finish(true)
				}
			}},
			dualrun.Scenario{Name: "write-error/" + ec.name + "/WritePacket-vs-Close", Quick: 3, Thorough: -1, Body: func(e *dualrun.Env) {
				f := new44(e, nil)
				e.Go("a", func() { f.failingViaErr("WritePacket", ec.err); f.writes() })
				e.Go("b", func() { f.close() })
				f.finish(true)
			}},
			dualrun.Scenario{Name: "write-error/" + ec.name + "/parked-readloop", Quick: 3, Thorough: -1, Body: func(e *dualrun.Env) {
				f := new44(e, nil)
				f.mc.SetAutoReading(false)
				e.Go("a", func() { f.readLoop() })
				e.Go("b", func() { f.failingViaErr("BufferPayload+Flush", ec.err); f.writes() })
				f.finish(true)
			}},
		)
	}
	return out
}

// the four ways to write
func (f *f44) writes() {
	f.do("WritePacket", false, true, func() error { return f.mc.WritePacket(&packet.KeepAlive{RandomID: 2}) })
	f.do("BufferPacket", false, true, func() error { return f.mc.BufferPacket(&packet.KeepAlive{RandomID: 3}) })
	f.do("Write", false, true, func() error { return f.mc.Write([]byte{0x26, 0, 0, 0, 0, 0, 0, 0, 4}) })
	f.do("BufferPayload", false, true, func() error { return f.mc.BufferPayload([]byte{0x26, 0, 0, 0, 0, 0, 0, 0, 5}) })
}

func (f *f44) finish(expectClosed bool) {
	f.e.AtEnd(func() {
		n := f.teardowns()
		var hist []string
		for _, o := range f.ops {
			e := "nil"
			if o.err != nil {
				e = o.err.Error()
			}
			hist = append(hist, fmt.Sprintf("%s[%d..%d]=%s", o.kind, o.call, o.ret, e))
		}
		h := strings.Join(hist, " ")
		closed := Closed(f.mc)
		if expectClosed && !closed {
			f.fail("not-closed", "every thread finished but the connection is not closed; %s", h)
		}
		// has a close path definitely run? (Close, CloseUnknown and the read loop's deferred close always
		// reach closeKnown; entry-guarded calls only if the parent context was not yet cancelled when they began)
		ranClose := ""
		for _, o := range f.ops {
			if !o.closing {
				continue
			}
			definite := true
			if o.entryGuarded {
				for _, c := range f.ops {
					if c.cancel && c.ret < o.call {
						definite = false
					}
				}
			}
			if definite {
				ranClose = o.kind
			}
		}
		if f.noHandler {
			if n != 0 {
				f.fail("teardown-count", "no session handler was ever installed, yet Disconnected ran %d times; %s", n, h)
			}
		} else if ranClose != "" && n != 1 {
			f.fail("teardown-count", "a close path ran (%s), SessionHandler.Disconnected ran %d times, want exactly 1; %s", ranClose, n, h)
		}
		if ranClose != "" && f.base.closes != 1 {
			f.fail("underlying-close-count", "a close path ran (%s), the underlying net.Conn was closed %d times, want exactly 1; %s", ranClose, f.base.closes, h)
		}
		if ranClose == "" && closed && n > 1 {
			f.fail("teardown-count", "SessionHandler.Disconnected ran %d times; %s", n, h)
		}
		if !closed && n != 0 {
			f.fail("teardown-count", "connection open but SessionHandler.Disconnected ran %d times; %s", n, h)
		}
		// later writes report the connection as closed
		for _, w := range f.ops {
			if !w.write || w.closing {
				continue
			}
			for _, c := range f.ops {
				if c.closing && c.ret > 0 && c.ret < w.call && !errors.Is(w.err, ErrClosedConn) {
					f.fail("write-after-close/"+w.kind, "%s started after %s had returned, yet it returned %v instead of ErrClosedConn; %s", w.kind, c.kind, w.err, h)
				}
			}
		}
		var o []string
		for _, op := range f.ops {
			if op.closing {
				r := "closed-it"
				if errors.Is(op.err, ErrClosedConn) {
					r = "already"
				} else if op.err != nil {
					r = "err"
				}
				o = append(o, op.kind+":"+r)
			} else if op.err == nil {
				o = append(o, op.kind+":ok")
			}
		}
		f.e.Outcome(strings.Join(o, ",") + fmt.Sprintf("|base.Close=%d", f.base.closes))
	})
}

func scenarios44() []dualrun.Scenario {
	type th = map[string]func(f *f44)
	mk := func(name string, quick, thorough int, in []byte, setup func(f *f44), threads th) dualrun.Scenario {
		return dualrun.Scenario{Name: name, Quick: quick, Thorough: thorough, Body: func(e *dualrun.Env) {
			f := new44(e, in)
			if setup != nil {
				setup(f)
			}
			var names []string
			for n := range threads {
				names = append(names, n)
			}
			sortStrings(names)
			for _, n := range names {
				fn := threads[n]
				e.Go(n, func() { fn(f) })
			}
			f.finish(true)
		}}
	}
	const U = -1
	return []dualrun.Scenario{
		mk("Close-vs-Close", U, U, nil, nil, th{
			"a": func(f *f44) { f.close(); f.writes() },
			"b": func(f *f44) { f.close(); f.writes() }}),
		mk("Close-vs-CloseWith", 3, U, nil, nil, th{
			"a": func(f *f44) { f.close(); f.writes() },
			"b": func(f *f44) { f.closeWith(); f.writes() }}),
		mk("CloseWith-vs-CloseWith", 3, U, nil, nil, th{
			"a": func(f *f44) { f.closeWith() },
			"b": func(f *f44) { f.closeWith(); f.writes() }}),
		mk("failing-write-vs-Close", 3, U, nil, nil, th{
			"a": func(f *f44) { f.failingWrite(); f.writes() },
			"b": func(f *f44) { f.close() }}),
		mk("failing-write-vs-failing-write", 3, U, nil, nil, th{
			"a": func(f *f44) { f.failingWrite() },
			"b": func(f *f44) { f.failingWrite(); f.writes() }}),
		mk("readloop-EOF-vs-Close", 3, U, nil, nil, th{
			"a": func(f *f44) { f.readLoop(); f.writes() },
			"b": func(f *f44) { f.close() }}),
		mk("readloop-EOF-vs-CloseWith-vs-failing-write", 2, 3, nil, nil, th{
			"a": func(f *f44) { f.readLoop() },
			"b": func(f *f44) { f.closeWith() },
			"c": func(f *f44) { f.failingWrite(); f.writes() }}),
		mk("Close-vs-CloseUnknown-vs-writer", 2, 3, nil, nil, th{
			"a": func(f *f44) { f.close() },
			"b": func(f *f44) { f.closeUnknown() },
			"c": func(f *f44) { f.writes() }}),
		// the parent context is cancelled (Closed(c) becomes true without any close path having run): the
		// teardown must still happen, exactly once, as soon as a close path runs
		mk("parent-cancelled-then-Close", U, U, nil, func(f *f44) { f.cancel() }, th{
			"a": func(f *f44) { f.close(); f.writes() }}),
		mk("parent-cancelled-then-readloop-EOF", U, U, nil, func(f *f44) { f.cancel() }, th{
			"a": func(f *f44) { f.readLoop(); f.writes() }}),
		mk("parent-cancelled-then-CloseUnknown-vs-Close", 3, U, nil, func(f *f44) { f.cancel() }, th{
			"a": func(f *f44) { f.closeUnknown() },
			"b": func(f *f44) { f.close(); f.writes() }}),
		mk("parent-cancel-vs-Close", U, U, nil, nil, th{
			"a": func(f *f44) { f.cancel() },
			"b": func(f *f44) { f.close(); f.writes() }}),
		mk("parent-cancel-vs-CloseWith", U, U, nil, nil, th{
			"a": func(f *f44) { f.cancel() },
			"b": func(f *f44) { f.closeWith(); f.writes() }}),
		mk("parent-cancel-vs-failing-write", U, U, nil, nil, th{
			"a": func(f *f44) { f.cancel() },
			"b": func(f *f44) { f.failingWrite(); f.writes() }}),
		mk("parent-cancel-vs-failing-write-then-readloop-EOF", 3, U, nil, nil, th{
			"a": func(f *f44) { f.cancel() },
			"b": func(f *f44) { f.failingWrite(); f.readLoop() }}),
		mk("parent-cancel-vs-readloop-vs-CloseWith", 2, 3, keepAliveFrame(1), nil, th{
			"a": func(f *f44) { f.cancel() },
			"b": func(f *f44) { f.readLoop() },
			"c": func(f *f44) { f.closeWith(); f.writes() }}),
		// auto reading disabled: the read loop is parked and must be freed by the close
		mk("parked-readloop-vs-Close", 3, U, nil, func(f *f44) { f.mc.SetAutoReading(false) }, th{
			"a": func(f *f44) { f.readLoop() },
			"b": func(f *f44) { f.close(); f.writes() }}),
		mk("readloop-vs-SetAutoReading(false)-then-CloseWith", 3, U, keepAliveFrame(1), nil, th{
			"a": func(f *f44) { f.readLoop() },
			"b": func(f *f44) { f.mc.SetAutoReading(false); f.closeWith() }}),
		// the handler itself closes the connection while handling a packet (what session handlers do on
		// unexpected packets), concurrently with an outside close
		mk("handler-closes-vs-Close", 3, U, append(keepAliveFrame(1), keepAliveFrame(2)...), func(f *f44) {
			f.h.behave = func(n int, _ *proto.PacketContext) {
				if n == 1 {
					_ = f.mc.Close()
				}
			}
		}, th{
			"a": func(f *f44) { f.readLoop() },
			"b": func(f *f44) { f.close(); f.writes() }}),
		// leaving configuration releases the held packets into a connection whose writes fail
		mk("release-held-packets-into-failing-conn/SetState", U, U, nil, func(f *f44) { f.holdOne() }, th{
			"a": func(f *f44) {
				f.base.failWrites()
				f.do("SetState(Play)", true, false, func() error { f.mc.SetState(state.Play); return nil })
				f.writes()
			}}),
		mk("release-held-packets-into-failing-conn/SetOutboundState-vs-Close", 3, U, nil, func(f *f44) { f.holdOne() }, th{
			"a": func(f *f44) {
				f.base.failWrites()
				f.do("SetOutboundState(Play)", true, false, func() error { f.mc.SetOutboundState(state.Play); return nil })
			},
			"b": func(f *f44) { f.close() }}),
		mk("release-held-packets-into-failing-conn/SetActiveSessionHandler", U, U, nil, func(f *f44) { f.holdOne() }, th{
			"a": func(f *f44) {
				f.base.failWrites()
				f.do("SetActiveSessionHandler(Play)", true, false, func() error {
					f.mc.SetActiveSessionHandler(state.Play, f.h)
					return nil
				})
				f.writes()
			}}),
		mk("release-held-packets-into-failing-conn/SwitchSessionHandler-vs-Close", 3, U, nil, func(f *f44) {
			f.mc.AddSessionHandler(state.Config, f.h)
			f.holdOne()
		}, th{
			"a": func(f *f44) {
				f.base.failWrites()
				f.do("SwitchSessionHandler(Play)", true, false, func() error { f.mc.SwitchSessionHandler(state.Play); return nil })
			},
			"b": func(f *f44) { f.close() }}),
		// ---- every write entry point closes on an I/O error (buffered -> fails in the flush; larger than the
		// write buffer -> fails in the write itself) ----
		mk("failing-Write-vs-Close", 3, U, nil, nil, th{
			"a": func(f *f44) { f.failingVia("Write"); f.writes() },
			"b": func(f *f44) { f.close() }}),
		mk("failing-Write(large)-vs-Close", 3, U, nil, nil, th{
			"a": func(f *f44) { f.failingVia("Write(large)"); f.writes() },
			"b": func(f *f44) { f.close() }}),
		mk("failing-BufferPayload(large)-vs-Close", 3, U, nil, nil, th{
			"a": func(f *f44) { f.failingVia("BufferPayload(large)"); f.writes() },
			"b": func(f *f44) { f.close() }}),
		mk("failing-BufferPacket(large)-vs-Close", 3, U, nil, nil, th{
			"a": func(f *f44) { f.failingVia("BufferPacket(large)"); f.writes() },
			"b": func(f *f44) { f.close() }}),
		mk("failing-BufferPayload+Flush-vs-failing-BufferPacket+Flush", 3, U, nil, nil, th{
			"a": func(f *f44) { f.failingVia("BufferPayload+Flush"); f.writes() },
			"b": func(f *f44) { f.failingVia("BufferPacket+Flush") }}),
		// ---- the session handler is swapped (login -> configuration -> play do that) while the connection
		// closes: the teardown runs once in total, on whichever handler is the active one ----
		mk("handler-swap/SetActiveSessionHandler-vs-Close", 3, U, nil, nil, th{
			"a": func(f *f44) {
				f.do("SetActiveSessionHandler(Config,h2)", false, false, func() error { f.mc.SetActiveSessionHandler(state.Config, f.h2); return nil })
				f.writes()
			},
			"b": func(f *f44) { f.close() }}),
		mk("handler-swap/SwitchSessionHandler-vs-Close", 3, U, nil, func(f *f44) { f.mc.AddSessionHandler(state.Config, f.h2) }, th{
			"a": func(f *f44) {
				f.do("SwitchSessionHandler(Config->h2)", false, false, func() error { f.switchTo(state.Config); return nil })
				f.writes()
			},
			"b": func(f *f44) { f.close() }}),
		mk("handler-swap/SwitchSessionHandler-vs-readloop-EOF-vs-failing-write", 2, 3, nil, func(f *f44) { f.mc.AddSessionHandler(state.Config, f.h2) }, th{
			"a": func(f *f44) {
				f.do("SwitchSessionHandler(Config->h2)", false, false, func() error { f.switchTo(state.Config); return nil })
			},
			"b": func(f *f44) { f.readLoop() },
			"c": func(f *f44) { f.failingWrite() }}),
		// ---- re-entrancy: the handler that is being activated closes the connection itself - directly (the
		// auth handler disconnects a rejected player in Activated) or through a write that fails (the play
		// handlers send their channel registrations in Activated) ----
		mk("activated-closes/SetActiveSessionHandler", U, U, nil, func(f *f44) {
			f.h2.onActivated = func() { _ = f.mc.Close() }
		}, th{
			"a": func(f *f44) {
				f.do("SetActiveSessionHandler(Config,h2 closing in Activated)", true, false, func() error { f.mc.SetActiveSessionHandler(state.Config, f.h2); return nil })
				f.writes()
			}}),
		mk("activated-closes/SwitchSessionHandler", U, U, nil, func(f *f44) {
			f.mc.AddSessionHandler(state.Config, f.h2)
			f.h2.onActivated = func() { _ = f.mc.Close() }
		}, th{
			"a": func(f *f44) {
				f.do("SwitchSessionHandler(Config->h2 closing in Activated)", true, false, func() error { f.switchTo(state.Config); return nil })
				f.writes()
			}}),
		mk("activated-writes-into-failing-conn/SetActiveSessionHandler-vs-Close", 3, U, nil, func(f *f44) {
			f.h2.onActivated = func() { _ = f.mc.WritePacket(&packet.KeepAlive{RandomID: 8}) }
		}, th{
			"a": func(f *f44) {
				f.base.failWrites()
				f.do("SetActiveSessionHandler(Config,h2 writing in Activated)", true, false, func() error { f.mc.SetActiveSessionHandler(state.Config, f.h2); return nil })
				f.writes()
			},
			"b": func(f *f44) { f.close() }}),
		mk("activated-writes-into-failing-conn/SwitchSessionHandler", U, U, nil, func(f *f44) {
			f.mc.AddSessionHandler(state.Config, f.h2)
			f.h2.onActivated = func() { _ = f.mc.WritePacket(&packet.KeepAlive{RandomID: 8}) }
		}, th{
			"a": func(f *f44) {
				f.base.failWrites()
				f.do("SwitchSessionHandler(Config->h2 writing in Activated)", true, false, func() error { f.switchTo(state.Config); return nil })
				f.writes()
			}}),
		mk("activated-writes-into-failing-conn/SwitchSessionHandler-vs-Close", 3, U, nil, func(f *f44) {
			f.mc.AddSessionHandler(state.Config, f.h2)
			f.h2.onActivated = func() { _ = f.mc.WritePacket(&packet.KeepAlive{RandomID: 8}) }
		}, th{
			"a": func(f *f44) {
				f.base.failWrites()
				f.do("SwitchSessionHandler(Config->h2 writing in Activated)", true, false, func() error { f.switchTo(state.Config); return nil })
			},
			"b": func(f *f44) { f.close(); f.writes() }}),
		// ---- a connection that never got a session handler (closed before the first one was installed) ----
		{Name: "no-handler/Close-vs-failing-write", Quick: 3, Thorough: U, Body: func(e *dualrun.Env) {
			f := new44x(e, nil, false)
			e.Go("a", func() { f.close(); f.writes() })
			e.Go("b", func() { f.failingWrite() })
			f.finish(true)
		}},
	}
}

// switchTo switches to the handler registered for the state; the switch must take place.
func (f *f44) switchTo(reg *state.Registry) {
	if !f.mc.SwitchSessionHandler(reg) {
		f.fail("switch-refused", "SwitchSessionHandler(%v) = false although a handler is registered for that state", reg)
	}
}

// holdOne brings the connection into configuration (same handler) and lets one play-only packet be held.
func (f *f44) holdOne() {
	if !f.mc.SwitchSessionHandler(state.Config) {
		f.mc.AddSessionHandler(state.Config, f.h)
		if !f.mc.SwitchSessionHandler(state.Config) {
			panic("c44: cannot switch to config")
		}
	}
	if err := f.mc.BufferPacket(&title.Times{FadeIn: 1, Stay: 2, FadeOut: 3}); err != nil {
		panic(err)
	}
	if len(f.base.out) != 0 {
		panic("c44: play-only packet was not held")
	}
}

func sortStrings(s []string) {
	for i := range s {
		for j := i + 1; j < len(s); j++ {
			if s[j] < s[i] {
				s[i], s[j] = s[j], s[i]
			}
		}
	}
}

// ---------------------------------------------------------------- pass "panics"

type customPanic struct{ n int }

var behaviours44 = []string{"ok", "panic-error", "panic-string", "panic-runtime", "panic-custom", "panic-nil", "close",
	// the handler answers with a packet and the socket fails the write with an error of that class
	"write-fails:plain", "write-fails:OpError(ECONNRESET)", "write-fails:OpError(net.ErrClosed)"}

// failable44 wraps the connection's socket: once armed, every Write fails with the given error.
type failable44 struct {
	net.Conn
	mu  sync.Mutex
	err error
}

func (c *failable44) arm(err error) { c.mu.Lock(); c.err = err; c.mu.Unlock() }
func (c *failable44) Write(p []byte) (int, error) {
	c.mu.Lock()
	err := c.err
	c.mu.Unlock()
	if err != nil {
		return 0, err
	}
	return c.Conn.Write(p)
}

func closesConn44(kind string) bool {
	return kind == "close" || strings.HasPrefix(kind, "write-fails:")
}

// behave44 runs inside HandlePacket. report collects what a write failure left behind, checked the moment
// the failing write returns (the statement: closed by a write error => teardown ran exactly once, the
// connection is closed, later writes say so).
func behave44(mc *minecraftConn, sock *failable44, h *handler44, kind string, report func(key, desc string)) {
	if cls, ok := strings.CutPrefix(kind, "write-fails:"); ok {
		for _, ec := range errClasses44 {
			if ec.name == cls {
				sock.arm(ec.err)
			}
		}
		err := mc.WritePacket(&packet.KeepAlive{RandomID: 77})
		if err == nil {
			report("write-error-swallowed", "WritePacket returned nil although the socket failed the write")
		}
		if !Closed(mc) {
			report("write-error/not-closed", fmt.Sprintf("WritePacket failed with %v but the connection is not closed afterwards", err))
		}
		if n := h.count(); n != 1 {
			report("write-error/teardown-count", fmt.Sprintf("WritePacket failed with %v; SessionHandler.Disconnected has run %d times, want exactly 1", err, n))
		}
		if err2 := mc.WritePacket(&packet.KeepAlive{RandomID: 78}); !errors.Is(err2, ErrClosedConn) {
			report("write-error/write-after-close", fmt.Sprintf("the write after the failed one (%v) returned %v, want ErrClosedConn", err, err2))
		}
		return
	}
	switch kind {
	case "panic-error":
		panic(errors.New("handler failed"))
	case "panic-string":
		panic("handler failed")
	case "panic-runtime":
		var m map[string]int
		m["x"] = 1 // assignment to entry in nil map
	case "panic-custom":
		panic(customPanic{7})
	case "panic-nil":
		panic(nil)
	case "close":
		_ = mc.Close()
	}
}

type panicCase struct {
	Seq  []string `json:"seq"`
	Mode string   `json:"mode"` // scripted | pipe
}

// runPanicCase feeds len(seq) packets through the real read loop; packet i's handler behaves seq[i].
func runPanicCase(r *vrt.R, pc panicCase) {
	var in []byte
	for i := range pc.Seq {
		in = append(in, keepAliveFrame(i+1)...)
	}
	h := &handler44{}
	var mc *minecraftConn
	var sock *failable44
	var repMu sync.Mutex
	reports := map[string]string{}
	h.behave = func(n int, _ *proto.PacketContext) {
		if n >= 1 && n <= len(pc.Seq) {
			behave44(mc, sock, h, pc.Seq[n-1], func(key, d string) {
				repMu.Lock()
				reports[key] = fmt.Sprintf("handler of packet %d (%s): %s", n, pc.Seq[n-1], d)
				repMu.Unlock()
			})
		}
	}
	desc := fmt.Sprintf("packets with handler behaviours %v over a %s connection", pc.Seq, pc.Mode)
	done := make(chan any, 1)
	var closeClient func()
	if pc.Mode == "scripted" {
		sock = &failable44{Conn: &conn44{in: in}}
		conn, loop := NewMinecraftConn(context.Background(), sock, proto.ServerBound, 5*time.Second, 5*time.Second, -1, nil)
		mc = conn.(*minecraftConn)
		mc.SetProtocol(version.Minecraft_1_21_4.Protocol)
		mc.SetActiveSessionHandler(state.Play, h)
		go func() {
			defer func() { done <- recover() }()
			loop()
		}()
	} else {
		srv, cli := net.Pipe()
		sock = &failable44{Conn: srv}
		conn, loop := NewMinecraftConn(context.Background(), sock, proto.ServerBound, 5*time.Second, 5*time.Second, -1, nil)
		mc = conn.(*minecraftConn)
		mc.SetProtocol(version.Minecraft_1_21_4.Protocol)
		mc.SetActiveSessionHandler(state.Play, h)
		go func() {
			defer func() { done <- recover() }()
			loop()
		}()
		go func() { // the client: writes its packets, then waits to be closed
			_, _ = cli.Write(in)
		}()
		closeClient = func() { _ = cli.Close() }
		go func() { _, _ = io.Copy(io.Discard, cli) }()
	}
	finished := func(d time.Duration) (any, bool) {
		select {
		case p := <-done:
			return p, true
		case <-time.After(d):
			return nil, false
		}
	}
	var escaped any
	var ok bool
	if pc.Mode == "pipe" {
		// the loop keeps reading after the last packet: an outside closer ends it unless the handler did
		if escaped, ok = finished(300 * time.Millisecond); !ok {
			_ = mc.Close()
			escaped, ok = finished(20 * time.Second)
		}
		closeClient()
	} else {
		escaped, ok = finished(20 * time.Second)
	}
	r.Eval(1)
	if !ok {
		r.NotExhaustive("watchdog: read loop did not return within 20s for " + desc)
		return
	}
	key := "panics/" + pc.Mode + "/"
	if escaped != nil {
		r.Violation(key+"panic-escaped", fmt.Sprintf("a panic in HandlePacket escaped startReadLoop (%v): %s", escaped, desc), pc)
		return
	}
	repMu.Lock()
	for k, d := range reports {
		r.Violation(key+k, d+": "+desc, pc)
	}
	repMu.Unlock()
	if !Closed(mc) {
		r.Violation(key+"not-closed", "startReadLoop returned but the connection is not closed: "+desc, pc)
	}
	if n := h.count(); n != 1 {
		r.Violation(key+"teardown-count", fmt.Sprintf("SessionHandler.Disconnected ran %d times, want exactly 1: %s", n, desc), pc)
	}
	if err := mc.WritePacket(&packet.KeepAlive{RandomID: 5}); !errors.Is(err, ErrClosedConn) {
		r.Violation(key+"write-after-close", fmt.Sprintf("WritePacket after the read loop ended returned %v, want ErrClosedConn: %s", err, desc), pc)
	}
	// evidence only: did the loop carry on after a panic (every packet up to the first "close" handled)?
	want := len(pc.Seq)
	for i, b := range pc.Seq {
		if closesConn44(b) {
			want = i + 1
			break
		}
	}
	h.mu.Lock()
	got := len(h.handled)
	h.mu.Unlock()
	if got == want {
		r.Class("loop-handled-every-packet-up-to-close")
	} else {
		r.Class("loop-ended-early-but-closed")
	}
	r.Distinct(fmt.Sprintf("%s|%v", pc.Mode, pc.Seq))
	r.Class("panics:" + pc.Mode)
	for _, b := range pc.Seq {
		if strings.HasPrefix(b, "panic") || strings.HasPrefix(b, "write-fails") {
			r.Class("behaviour:" + b)
		}
	}
}

func panicsPass(r *vrt.R) {
	var rp panicCase
	if r.ReplayInto(&rp) {
		runPanicCase(r, rp)
		return
	}
	maxLen := 3
	var cases []panicCase
	var rec func(seq []string)
	rec = func(seq []string) {
		if len(seq) > 0 {
			cases = append(cases, panicCase{Seq: append([]string{}, seq...), Mode: "scripted"})
		}
		if len(seq) == maxLen {
			return
		}
		for _, b := range behaviours44 {
			rec(append(seq, b))
		}
	}
	rec(nil)
	// net.Pipe with real blocking reads and an outside closer: length <= 2 (each case waits 300 ms)
	for _, c := range cases {
		if len(c.Seq) <= 2 && (r.Thorough() || len(c.Seq) == 1 || c.Seq[0] != "ok" && c.Seq[1] == "ok") {
			cases = append(cases, panicCase{Seq: c.Seq, Mode: "pipe"})
		}
	}
	var wg sync.WaitGroup
	sem := make(chan struct{}, 8)
	for i, c := range cases {
		if !r.Mine(i) || r.Expired() {
			continue
		}
		if i < 3 {
			r.Sample(c)
		}
		wg.Add(1)
		sem <- struct{}{}
		go func() {
			defer wg.Done()
			defer func() { <-sem }()
			runPanicCase(r, c)
		}()
	}
	wg.Wait()
}

func TestVerif(t *testing.T) {
	vrt.Run(t, "C44", func(r *vrt.R) {
		if os.Getenv("VERIF_PASS") == "panics" {
			panicsPass(r)
			return
		}
		dualrun.Run(r, append(append(scenarios44(), errClassScenarios44()...), readEndScenarios44()...))
	})
}
