package proxy

import (
	"bytes"
	"fmt"
	"testing"
	"testing/synctest"

	"go.minekube.com/gate/pkg/edition/java/config"
	"go.minekube.com/gate/pkg/edition/java/proto/state"
	"go.minekube.com/gate/pkg/edition/java/proto/version"
	"go.minekube.com/gate/pkg/edition/java/proxy/zzverif/vrt"
	"go.minekube.com/gate/pkg/gate/proto"
)

type c15Case struct {
	Protocol        int
	ClientThreshold int
	BackendThreshold int
	C2S             []int // payload sizes client -> backend (data bytes after the id)
	S2C             []int
	Order           []int // 0 = deliver next client packet, 1 = deliver next backend packet
	C2SKinds        []string `json:",omitempty"` // per C2S element: "" = unregistered id, else a known pass-through type (c15_known_test.go)
	S2CKinds        []string `json:",omitempty"`
}

func fill(n int, seed byte, compressible bool) []byte {
	b := make([]byte, n)
	x := uint32(seed)*2654435761 + 12345
	for i := range b {
		if compressible {
			b[i] = seed
		} else {
			x = x*1664525 + 1013904223
			b[i] = byte(x >> 24)
		}
	}
	return b
}

func payloadFor(id int, size int, seed byte) []byte {
	p := []byte{byte(id)}
	// payloads near the 2^21-1 frame limit are kept compressible: an incompressible one would not fit
	// a legal compressed frame, which no vanilla peer can send or receive either
	return append(p, fill(size, seed, seed%2 == 0 || size >= 1<<20)...)
}

// runC15 returns failKey, failDesc.
func runC15(t *testing.T, c c15Case) (fk, fd string) {
	fail := func(k, f string, a ...any) {
		if fk == "" {
			fk, fd = k, fmt.Sprintf(f, a...)
		}
	}
	synctest.Test(t, func(t *testing.T) {
		w := newKWorld(t, kOpts{Servers: []string{"a"}, Try: []string{"a"}, ClientThreshold: c.ClientThreshold,
			// the scripted 1.19-1.19.2 client has no profile key (offline mode)
			Mutate: func(cfg *config.Config) { cfg.ForceKeyAuthentication = false }})
		protocol := proto.Protocol(c.Protocol)
		cl, be, err := w.joinInitial(protocol, "Relay_1", c.BackendThreshold)
		defer func() { w.close(cl) }()
		if err != nil {
			fail("setup", "could not bring the player into play: %v", err)
			return
		}
		cl.take()
		be.take()
		if cl.conn.ClosedByProxy() || be.conn.ClosedByProxy() {
			fail("setup", "connection closed right after join (client %v backend %v)", cl.conn.ClosedByProxy(), be.conn.ClosedByProxy())
			return
		}
		sIDs := unregisteredIDs(state.Play, proto.ServerBound, protocol, 3)
		cIDs := unregisteredIDs(state.Play, proto.ClientBound, protocol, 3)
		var sentC2S, sentS2C, gotAtBackend, gotAtClient [][]byte
		ci, si := 0, 0
		for step, dir := range c.Order {
			if dir == 0 {
				p := payloadFor(sIDs[ci%len(sIDs)], c.C2S[ci], byte(ci*2+1))
				if ci < len(c.C2SKinds) && c.C2SKinds[ci] != "" {
					kp, ok := c15Known(c.C2SKinds[ci], protocol)
					if !ok {
						fail("setup", "known type %s not encodable for protocol %d", c.C2SKinds[ci], protocol)
						return
					}
					p = kp
				}
				ci++
				sentC2S = append(sentC2S, p)
				cl.sendPayload(p)
			} else {
				p := payloadFor(cIDs[si%len(cIDs)], c.S2C[si], byte(si*2+2))
				if si < len(c.S2CKinds) && c.S2CKinds[si] != "" {
					kp, ok := c15Known(c.S2CKinds[si], protocol)
					if !ok {
						fail("setup", "known type %s not encodable for protocol %d", c.S2CKinds[si], protocol)
						return
					}
					p = kp
				}
				si++
				sentS2C = append(sentS2C, p)
				be.sendPayload(p)
			}
			synctest.Wait()
			gotAtBackend = append(gotAtBackend, be.take()...)
			gotAtClient = append(gotAtClient, cl.take()...)
			if cl.err != nil || be.err != nil {
				fail("malformed-frame", "step %d: framing error client=%v backend=%v", step, cl.err, be.err)
				return
			}
		}
		cmp := func(dir string, sent, got [][]byte) {
			if len(sent) != len(got) {
				fail("relay-count/"+dir, "%s: sent %d packets, other side received %d (client closed=%v backend closed=%v)", dir, len(sent), len(got), cl.conn.ClosedByProxy(), be.conn.ClosedByProxy())
				return
			}
			for i := range sent {
				if !bytes.Equal(sent[i], got[i]) {
					fail("relay-payload/"+dir, "%s: packet %d differs: sent %d bytes (id %#x), received %d bytes (id %#x)", dir, i, len(sent[i]), sent[i][0], len(got[i]), got[i][0])
					return
				}
			}
		}
		cmp("client->backend", sentC2S, gotAtBackend)
		cmp("backend->client", sentS2C, gotAtClient)
	})
	return
}

func interleavings(a, b int) [][]int {
	var out [][]int
	var rec func(cur []int, x, y int)
	rec = func(cur []int, x, y int) {
		if x == a && y == b {
			out = append(out, append([]int{}, cur...))
			return
		}
		if x < a {
			rec(append(cur, 0), x+1, y)
		}
		if y < b {
			rec(append(cur, 1), x, y+1)
		}
	}
	rec(nil, 0, 0)
	return out
}

func sizeAlphabet(t1, t2 int, thorough bool) []int {
	m := map[int]bool{0: true, 1: true}
	for _, t := range []int{t1, t2} {
		if t > 0 {
			// payload = id byte + data, so data sizes around t-1
			for _, d := range []int{-2, -1, 0, 1} {
				if t+d >= 0 {
					m[t+d] = true
				}
			}
		}
	}
	m[32767] = true
	if thorough {
		m[1<<20] = true
		m[(1<<21)-64] = true
	}
	var out []int
	for v := range m {
		out = append(out, v)
	}
	// deterministic order
	for i := range out {
		for j := i + 1; j < len(out); j++ {
			if out[j] < out[i] {
				out[i], out[j] = out[j], out[i]
			}
		}
	}
	return out
}

func seqs(alpha []int, n int) [][]int {
	if n == 0 {
		return [][]int{{}}
	}
	var out [][]int
	for _, s := range seqs(alpha, n-1) {
		for _, a := range alpha {
			out = append(out, append(append([]int{}, s...), a))
		}
	}
	return out
}

func TestVerif(t *testing.T) {
	vrt.Run(t, "C15", func(r *vrt.R) {
		var rc c15Case
		if r.ReplayInto(&rc) {
			r.Eval(1)
			if k, d := runC15(t, rc); k != "" {
				r.Violation(k, d, rc)
			}
			return
		}
		// known pass-through types (tab-list mirror, boss bars, keep-alive, header/footer, bundle delimiter, client settings)
		kidx := 0
		c15KnownCases(r, func(c c15Case) {
			kidx++
			if !r.Mine(kidx) || r.Expired() {
				return
			}
			k, d := runC15(t, c)
			r.Eval(1)
			r.Traces(1)
			r.Nontrivial(1)
			r.Class(fmt.Sprintf("proto:%d", c.Protocol))
			r.Class(c15KindLabel(c))
			if k != "" {
				if lbl := c15KindLabel(c); lbl != "" && k != "setup" {
					k = lbl + "/" + k
				}
				r.Violation(k, fmt.Sprintf("%+v\n%s", c, d), c)
			}
			if kidx%500 == 1 {
				r.Sample(c)
			}
		})
		c15AllVersionCases(r, func(c c15Case) {
			kidx++
			if !r.Mine(kidx) || r.Expired() {
				return
			}
			k, d := runC15(t, c)
			r.Eval(1)
			r.Traces(1)
			r.Nontrivial(1)
			r.Class(fmt.Sprintf("proto:%d", c.Protocol))
			r.Class("all-versions")
			if k != "" {
				r.Violation(k, fmt.Sprintf("%+v\n%s", c, d), c)
			}
		})
		protos := []proto.Protocol{version.Minecraft_1_8.Protocol, version.Minecraft_1_12_2.Protocol, version.Minecraft_1_20_3.Protocol, version.Minecraft_1_21_4.Protocol, version.MaximumVersion.Protocol}
		ths := []int{-1, 0, 64, 256}
		idx := 0
		for pi, pr := range protos {
			for _, ct := range ths {
				for _, bt := range ths {
					// quick tier: all 16 threshold pairs for 1.12.2 and 1.21.4, three representative pairs elsewhere
					if r.Quick() && pi != 1 && pi != 3 && !((ct == -1 && bt == -1) || (ct == 256 && bt == 64) || (ct == 0 && bt == 256)) {
						continue
					}
					alpha := sizeAlphabet(ct, bt, r.Thorough())
					// stream shapes: (1,1) with all sizes squared; (2,2)/(2,1) with a reduced alphabet
					type shape struct{ a, b int }
					shapes := []shape{{1, 0}, {0, 1}, {1, 1}, {2, 2}}
					big := []int{1 << 20, (1 << 21) - 64}
					if r.Thorough() {
						shapes = append(shapes, shape{3, 1}, shape{1, 3})
					}
					for _, sh := range shapes {
						al := alpha
						if sh.a+sh.b > 2 {
							al = []int{0, alpha[len(alpha)/2], 32767}
							if ct > 0 {
								al[1] = ct
							} else if bt > 0 {
								al[1] = bt
							}
							if r.Quick() {
								al = al[1:]
							}
						}
						if sh.a+sh.b == 1 {
							al = append(append([]int{}, al...), big...) // single huge packets in either direction, every tier
						}
						for _, cs := range seqs(al, sh.a) {
							for _, ss := range seqs(al, sh.b) {
								for _, ord := range interleavings(sh.a, sh.b) {
									idx++
									if !r.Mine(idx) {
										continue
									}
									if r.Expired() {
										return
									}
									c := c15Case{Protocol: int(pr), ClientThreshold: ct, BackendThreshold: bt, C2S: cs, S2C: ss, Order: ord}
									k, d := runC15(t, c)
									r.Eval(1)
									r.Traces(1)
									r.Class(fmt.Sprintf("proto:%d", pr))
									if ct != bt {
										r.Class("thresholds-differ")
									}
									nt := false
									for _, s := range append(append([]int{}, cs...), ss...) {
										if (ct >= 0 && s+1 >= ct) || (bt >= 0 && s+1 >= bt) {
											nt = true
										}
										if s >= 1<<20 {
											r.Class("size>=1MiB")
										}
									}
									if nt {
										r.Nontrivial(1)
									}
									if k != "" {
										r.Violation(k, fmt.Sprintf("%+v\n%s", c, d), c)
									}
									if idx%5000 == 1 {
										r.Sample(c)
									}
								}
							}
						}
					}
				}
			}
		}
	})
}
