package netmc

// C15, second pass (engine sched): while the relay path writes non-intercepted payloads to a connection,
// other goroutines of the proxy write to the SAME connection (keep-alives, plugin API, the other read loop).
// Every interleaving (scheduling points: every mutex operation in netmc/codec and every step of the slow
// net.Conn.Write) must still deliver each relayed payload intact, exactly once and in relay order.

import (
	"bytes"
	"context"
	"fmt"
	"io"
	"net"
	"testing"
	"time"

	"go.minekube.com/gate/pkg/edition/java/proto/state"
	"go.minekube.com/gate/pkg/edition/java/proto/version"
	"go.minekube.com/gate/pkg/edition/java/proxy/zzverif/e2e"
	"go.minekube.com/gate/pkg/edition/java/proxy/zzverif/sched"
	"go.minekube.com/gate/pkg/edition/java/proxy/zzverif/schedrun"
	"go.minekube.com/gate/pkg/edition/java/proxy/zzverif/vrt"
	"go.minekube.com/gate/pkg/gate/proto"
)

// slowConn models a socket write that takes time: the bytes of p are taken in two steps with a
// scheduling point in between (a real write reads p while other goroutines may run).
type slowConn struct {
	out    []byte
	closed bool
}

func (c *slowConn) Write(p []byte) (int, error) {
	if c.closed {
		return 0, net.ErrClosed
	}
	sched.Point("conn.Write.begin", nil)
	h := len(p) / 2
	c.out = append(c.out, p[:h]...)
	sched.Point("conn.Write.mid", nil)
	c.out = append(c.out, p[h:]...)
	return len(p), nil
}
func (c *slowConn) Read([]byte) (int, error)         { return 0, io.EOF }
func (c *slowConn) Close() error                     { c.closed = true; return nil }
func (c *slowConn) LocalAddr() net.Addr              { return &net.TCPAddr{} }
func (c *slowConn) RemoteAddr() net.Addr             { return &net.TCPAddr{} }
func (c *slowConn) SetDeadline(time.Time) error      { return nil }
func (c *slowConn) SetReadDeadline(time.Time) error  { return nil }
func (c *slowConn) SetWriteDeadline(time.Time) error { return nil }

func wPayload(id byte, n int, seed byte) []byte {
	p := make([]byte, 1+n)
	p[0] = id
	x := uint32(seed)*2654435761 + 7
	for i := 1; i < len(p); i++ {
		x = x*1664525 + 1013904223
		p[i] = byte(x >> 24)
	}
	return p
}

type wScenario struct {
	name      string
	threshold int
	relay     [][]byte // written in order by the relay thread through Write(payload)
	others    [][][]byte // each inner list is written in order by one other thread
	buffered  bool // others use BufferPayload+Flush instead of Write
}

func wBody(sc wScenario) func(x *sched.X) {
	return func(x *sched.X) {
		base := &slowConn{}
		conn, _ := NewMinecraftConn(context.Background(), base, proto.ClientBound, time.Second, time.Second, -1, nil)
		mc := conn.(*minecraftConn)
		mc.SetProtocol(version.Minecraft_1_20_3.Protocol)
		mc.SetState(state.Play)
		if sc.threshold >= 0 {
			if err := mc.SetCompressionThreshold(sc.threshold); err != nil {
				panic(err)
			}
		}
		var errs []error
		x.Go("relay", func() {
			for _, p := range sc.relay {
				if err := mc.Write(p); err != nil {
					errs = append(errs, err)
				}
			}
		})
		for i, list := range sc.others {
			list := list
			x.Go(fmt.Sprintf("other%d", i), func() {
				for _, p := range list {
					var err error
					if sc.buffered {
						if err = mc.BufferPayload(p); err == nil {
							err = mc.Flush()
						}
					} else {
						err = mc.Write(p)
					}
					if err != nil {
						errs = append(errs, err)
					}
				}
			})
		}
		x.AtEnd(func() {
			if len(errs) != 0 {
				x.Fail("write-error", "writes failed: %v", errs)
				return
			}
			df := e2e.NewDeframer()
			df.SetThreshold(sc.threshold)
			df.Feed(base.out)
			var got [][]byte
			for {
				f, err := df.Next()
				if err != nil {
					x.Fail("stream-corrupt", "the byte stream written to the connection does not deframe: %v (after %d frames)", err, len(got))
					return
				}
				if f == nil {
					break
				}
				got = append(got, f)
			}
			if df.Pending() != 0 {
				x.Fail("stream-corrupt", "%d trailing bytes that are not a frame", df.Pending())
				return
			}
			// every written payload exactly once, each thread's payloads in its own order
			want := map[string]int{}
			lists := append([][][]byte{sc.relay}, sc.others...)
			total := 0
			for _, l := range lists {
				for _, p := range l {
					want[string(p)]++
					total++
				}
			}
			if len(got) != total {
				x.Fail("frame-count", "%d frames on the wire, %d payloads written", len(got), total)
				return
			}
			for _, g := range got {
				want[string(g)]--
			}
			for k, n := range want {
				if n != 0 {
					x.Fail("payload-differs", "payload with id %#x (%d bytes) appears %+d times too %s", k[0], len(k), -n, map[bool]string{true: "often", false: "rarely"}[n < 0])
					return
				}
			}
			for li, l := range lists {
				idx := 0
				for _, g := range got {
					if idx < len(l) && bytes.Equal(g, l[idx]) {
						idx++
					}
				}
				if idx != len(l) {
					x.Fail("order", "thread %d's payloads are not in written order on the wire", li)
				}
			}
			order := ""
			for _, g := range got {
				order += fmt.Sprintf("%02x", g[0])
			}
			x.Outcome(order)
		})
	}
}

func TestVerif(t *testing.T) {
	vrt.Run(t, "C15", func(r *vrt.R) {
		a1, a2 := wPayload(0x70, 40, 1), wPayload(0x71, 300, 2)
		b1, b2 := wPayload(0x72, 12, 3), wPayload(0x73, 270, 4)
		big := wPayload(0x74, 5000, 5) // larger than the 4096-byte write buffer
		schedrun.Run(r, []schedrun.Scenario{
			{Name: "relay2-vs-writer1", Quick: 2, Thorough: -1, Body: wBody(wScenario{threshold: -1, relay: [][]byte{a1, a2}, others: [][][]byte{{b1}}})},
			{Name: "relay2-vs-writer1-compressed", Quick: 2, Thorough: 3, Body: wBody(wScenario{threshold: 256, relay: [][]byte{a1, a2}, others: [][][]byte{{b2}}})},
			{Name: "relay2-vs-buffer+flush", Quick: 2, Thorough: -1, Body: wBody(wScenario{threshold: -1, relay: [][]byte{a1, a2}, others: [][][]byte{{b1}}, buffered: true})},
			{Name: "relay-big-vs-writer", Quick: 2, Thorough: 3, Body: wBody(wScenario{threshold: -1, relay: [][]byte{big, a1}, others: [][][]byte{{b1}}})},
			{Name: "relay2-vs-2writers", Quick: 1, Thorough: 2, Body: wBody(wScenario{threshold: -1, relay: [][]byte{a1, a2}, others: [][][]byte{{b1}, {b2}}})},
		})
	})
}
