package proxy

import (
	"fmt"

	"go.minekube.com/common/minecraft/component"
	"go.minekube.com/gate/pkg/edition/java/profile"
	"go.minekube.com/gate/pkg/edition/java/proto/packet"
	"go.minekube.com/gate/pkg/edition/java/proto/packet/bossbar"
	"go.minekube.com/gate/pkg/edition/java/proto/packet/chat"
	"go.minekube.com/gate/pkg/edition/java/proto/packet/tablist/legacytablist"
	"go.minekube.com/gate/pkg/edition/java/proto/packet/tablist/playerinfo"
	"go.minekube.com/gate/pkg/edition/java/proto/state"
	"go.minekube.com/gate/pkg/edition/java/proto/version"
	"go.minekube.com/gate/pkg/edition/java/proxy/zzverif/e2e"
	"go.minekube.com/gate/pkg/edition/java/proxy/zzverif/vrt"
	"go.minekube.com/gate/pkg/gate/proto"
	"go.minekube.com/gate/pkg/util/uuid"
)

// Known pass-through types: packets the proxy decodes and looks at (to mirror the tab list, remember boss
// bars, record client settings, note a keep-alive id) but whose relay the statement still requires to be
// byte-identical and in order. The payloads only have to be well-formed; the oracle is identity, so it
// does not matter that the repo's encoder is used to build them. Variants the mirror REJECTS (zero UUID,
// empty profile name, updates for unknown ids, empty action set) are included on purpose: a rejected
// update is still a packet of the backend's stream.
var c15S2CKinds = []string{
	"keepalive", "header-footer", "bossbar-add", "bossbar-remove-unknown", "bundle",
	"ladd", "ladd-zero-uuid", "ladd-empty-name", "llatency-unknown", "lremove-unknown", "ladd-two-second-zero",
	"uadd", "ulatency-unknown", "uempty-actions", "rremove-unknown", "rremove-empty",
}
var c15C2SKinds = []string{"client-settings"}

func c15Known(kind string, protocol proto.Protocol) ([]byte, bool) {
	enc := func(dir proto.Direction, p proto.Packet) ([]byte, bool) {
		b, err := e2e.Encode(state.Play, dir, protocol, p)
		return b, err == nil
	}
	u1 := uuid.UUID{0x11, 2, 3, 4, 5, 6, 0x30, 8, 0x89, 10, 11, 12, 13, 14, 15, 16}
	u2 := uuid.UUID{0x22, 2, 3, 4, 5, 6, 0x30, 8, 0x89, 10, 11, 12, 13, 14, 15, 17}
	legacy := protocol.Lower(version.Minecraft_1_19_3)
	zeroUUIDAt := func(b []byte, ok bool, nth int) ([]byte, bool) {
		if !ok {
			return nil, false
		}
		_, data, err := e2e.SplitID(b)
		if err != nil || len(data) < 18 {
			return nil, false
		}
		off := len(b) - len(data) + 2 // action varint, count varint (both < 128)
		if nth == 1 {
			// second item of a latency update: uuid(16) + latency varint(1)
			off += 17
		}
		if off+16 > len(b) {
			return nil, false
		}
		for i := 0; i < 16; i++ {
			b[off+i] = 0
		}
		return b, true
	}
	switch kind {
	case "keepalive":
		return enc(proto.ClientBound, &packet.KeepAlive{RandomID: 0x1234567})
	case "header-footer":
		return enc(proto.ClientBound, &packet.HeaderAndFooter{
			Header: *chat.FromComponentProtocol(&component.Text{Content: "head"}, protocol),
			Footer: *chat.FromComponentProtocol(&component.Text{Content: "foot"}, protocol)})
	case "bossbar-add":
		if protocol.Lower(version.Minecraft_1_9) {
			return nil, false
		}
		return enc(proto.ClientBound, &bossbar.BossBar{ID: u1, Action: bossbar.AddAction,
			Name: chat.FromComponentProtocol(&component.Text{Content: "boss"}, protocol), Percent: 0.5,
			Color: bossbar.RedColor, Overlay: bossbar.Notched10Overlay, Flags: 1})
	case "bossbar-remove-unknown":
		if protocol.Lower(version.Minecraft_1_9) {
			return nil, false
		}
		return enc(proto.ClientBound, &bossbar.BossBar{ID: u2, Action: bossbar.RemoveAction})
	case "bundle":
		if protocol.Lower(version.Minecraft_1_19_4) {
			return nil, false
		}
		return enc(proto.ClientBound, &packet.BundleDelimiter{})
	case "ladd", "ladd-zero-uuid", "ladd-empty-name":
		if !legacy {
			return nil, false
		}
		name := "npc_1"
		if kind == "ladd-empty-name" {
			name = ""
		}
		b, ok := enc(proto.ClientBound, &legacytablist.PlayerListItem{Action: legacytablist.AddPlayerListItemAction,
			Items: []legacytablist.PlayerListItemEntry{{ID: u1, Name: name, GameMode: 1, Latency: 5,
				Properties: []profile.Property{{Name: "textures", Value: "dmFsdWU=", Signature: "c2ln"}}}}})
		if kind == "ladd-zero-uuid" {
			return zeroUUIDAt(b, ok, 0)
		}
		return b, ok
	case "llatency-unknown", "ladd-two-second-zero":
		if !legacy {
			return nil, false
		}
		b, ok := enc(proto.ClientBound, &legacytablist.PlayerListItem{Action: legacytablist.UpdateLatencyPlayerListItemAction,
			Items: []legacytablist.PlayerListItemEntry{{ID: u2, Latency: 42}, {ID: u1, Latency: 43}}})
		if kind == "ladd-two-second-zero" {
			return zeroUUIDAt(b, ok, 1)
		}
		return b, ok
	case "lremove-unknown":
		if !legacy {
			return nil, false
		}
		return enc(proto.ClientBound, &legacytablist.PlayerListItem{Action: legacytablist.RemovePlayerListItemAction,
			Items: []legacytablist.PlayerListItemEntry{{ID: u2}}})
	case "uadd":
		if legacy {
			return nil, false
		}
		return enc(proto.ClientBound, &playerinfo.Upsert{
			ActionSet: []playerinfo.UpsertAction{playerinfo.AddPlayerAction, playerinfo.UpdateListedAction, playerinfo.UpdateLatencyAction},
			Entries: []*playerinfo.Entry{{ProfileID: u1, Profile: profile.GameProfile{ID: u1, Name: "npc_1"}, Listed: true, Latency: 7}}})
	case "ulatency-unknown":
		if legacy {
			return nil, false
		}
		return enc(proto.ClientBound, &playerinfo.Upsert{
			ActionSet: []playerinfo.UpsertAction{playerinfo.UpdateLatencyAction},
			Entries:   []*playerinfo.Entry{{ProfileID: u2, Latency: 9}}})
	case "uempty-actions":
		if legacy {
			return nil, false
		}
		return enc(proto.ClientBound, &playerinfo.Upsert{Entries: []*playerinfo.Entry{{ProfileID: u1}, {ProfileID: uuid.Nil}}})
	case "rremove-unknown":
		if legacy {
			return nil, false
		}
		return enc(proto.ClientBound, &playerinfo.Remove{PlayersToRemove: []uuid.UUID{u2, uuid.Nil}})
	case "rremove-empty":
		if legacy {
			return nil, false
		}
		return enc(proto.ClientBound, &playerinfo.Remove{})
	case "client-settings":
		return enc(proto.ServerBound, &packet.ClientSettings{Locale: "en_US", ViewDistance: 8, ChatColors: true,
			SkinParts: 0x7f, MainHand: 1, ClientListingAllowed: true})
	}
	return nil, false
}

// knownCases enumerates, per protocol and threshold pair, every applicable known type K in the streams
// [K], [U K U] and (thorough: every ordered pair) [K K'], with one unknown client packet interleaved at
// every position for the backend->client kinds, and the mirrored shapes for client->backend kinds.
func c15KnownCases(r *vrt.R, run func(c c15Case)) {
	protos := []proto.Protocol{version.Minecraft_1_8.Protocol, version.Minecraft_1_12_2.Protocol, version.Minecraft_1_16_4.Protocol,
		version.Minecraft_1_19_1.Protocol, version.Minecraft_1_19_3.Protocol, version.Minecraft_1_20_3.Protocol,
		version.Minecraft_1_21_4.Protocol, version.MaximumVersion.Protocol}
	pairs := [][2]int{{-1, -1}, {256, 64}, {0, 256}}
	if r.Thorough() {
		pairs = append(pairs, [2]int{64, -1}, [2]int{-1, 0}, [2]int{0, 0})
	}
	for _, pr := range protos {
		for _, th := range pairs {
			var s2c, c2s []string
			for _, k := range c15S2CKinds {
				if _, ok := c15Known(k, pr); ok {
					s2c = append(s2c, k)
				}
			}
			for _, k := range c15C2SKinds {
				if _, ok := c15Known(k, pr); ok {
					c2s = append(c2s, k)
				}
			}
			base := c15Case{Protocol: int(pr), ClientThreshold: th[0], BackendThreshold: th[1]}
			for _, k := range s2c {
				c := base
				c.S2C, c.S2CKinds, c.Order = []int{0}, []string{k}, []int{1}
				run(c)
				for _, ord := range interleavings(1, 3) {
					c := base
					c.C2S, c.S2C, c.S2CKinds, c.Order = []int{70}, []int{300, 0, 5}, []string{"", k, ""}, ord
					run(c)
				}
				if r.Thorough() {
					for _, k2 := range s2c {
						c := base
						c.S2C, c.S2CKinds, c.Order = []int{0, 0, 3}, []string{k, k2, ""}, []int{1, 1, 1}
						run(c)
					}
				} else {
					// quick: each kind followed by itself and by the first kind (a valid update after a rejected one)
					for _, k2 := range []string{k, s2c[0], s2c[len(s2c)-1]} {
						c := base
						c.S2C, c.S2CKinds, c.Order = []int{0, 0, 3}, []string{k, k2, ""}, []int{1, 1, 1}
						run(c)
					}
				}
			}
			for _, k := range c2s {
				for _, ord := range interleavings(3, 1) {
					c := base
					c.C2S, c.C2SKinds, c.S2C, c.Order = []int{300, 0, 5}, []string{"", k, ""}, []int{70}, ord
					run(c)
				}
			}
		}
	}
}

// c15AllVersionCases: "over supported versions" - every supported protocol the scripted peers can speak,
// one differing threshold pair, one packet per direction in both delivery orders, sizes around both thresholds.
func c15AllVersionCases(r *vrt.R, run func(c c15Case)) {
	for _, v := range version.Versions {
		if !version.Protocol(v.Protocol).Supported() || v.Protocol.Lower(version.Minecraft_1_8) {
			continue // 1.7.x framing of the scripted peers is not implemented (spec assumption)
		}
		for _, cs := range []int{0, 63, 255, 256} {
			for _, ss := range []int{0, 63, 255, 256} {
				for _, ord := range interleavings(1, 1) {
					run(c15Case{Protocol: int(v.Protocol), ClientThreshold: 256, BackendThreshold: 64, C2S: []int{cs}, S2C: []int{ss}, Order: ord})
				}
			}
		}
	}
}

func c15KindLabel(c c15Case) string {
	for _, k := range append(append([]string{}, c.S2CKinds...), c.C2SKinds...) {
		if k != "" {
			return fmt.Sprintf("known:%s", k)
		}
	}
	return ""
}
