package proxy

import "go.minekube.com/gate/pkg/edition/java/proxy/zzverif/vrt"

// c24SchedPass is replaced by the real implementation in the instrumented pass.
func c24SchedPass(r *vrt.R) bool { return false }
