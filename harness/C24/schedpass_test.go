package proxy

import (
	"fmt"

	"go.minekube.com/gate/pkg/edition/java/forge"
	"go.minekube.com/gate/pkg/edition/java/proto/packet/plugin"
	"go.minekube.com/gate/pkg/edition/java/proto/state"
	"go.minekube.com/gate/pkg/edition/java/proxy/phase"
	"go.minekube.com/gate/pkg/edition/java/proxy/zzverif/sched"
	"go.minekube.com/gate/pkg/edition/java/proxy/zzverif/schedrun"
	"go.minekube.com/gate/pkg/edition/java/proxy/zzverif/vrt"
)

// Engine A: the client read loop (one thread, messages in send order) against the backend read loop
// (readiness: config flush / JoinGame), every interleaving at lock / atomic granularity.
//
// Final oracle (DESIGN 2a: a message whose handling overlaps readiness may take either path provided order
// is kept): no message delivered twice; deliveries in send order; once the backend is ready and both loops
// are quiescent no sent message is still held back by the proxy.

func c24SchedFinal(x *sched.X, r *c24Rig, sent int) {
	seen := map[int]bool{}
	last := 0
	for _, d := range r.log {
		if seen[d.idx] {
			x.Fail("delivered-twice", "message #%d delivered twice: %v", d.idx, r.log)
		}
		seen[d.idx] = true
		if d.idx < last {
			x.Fail("overtaken", "message #%d delivered after #%d: %v", d.idx, last, r.log)
		}
		last = d.idx
	}
	var missing []int
	for i := 1; i <= sent; i++ {
		if !seen[i] {
			missing = append(missing, i)
		}
	}
	n, _ := r.queueLen()
	if len(missing) != 0 {
		switch {
		case n < len(missing):
			// neither delivered nor held: the proxy dropped it
			x.Fail("lost", "message(s) %v were neither delivered nor are they held by the proxy (queue length %d); deliveries: %v", missing, n, r.log)
		case missing[0] < last:
			x.Fail("overtaken", "message(s) %v still held back (queue length %d) although the later-sent #%d was delivered: %v", missing, n, last, r.log)
		default:
			x.Fail("stranded", "the backend is ready and both loops are idle, message(s) %v are still held by the proxy (queue length %d): %v", missing, n, r.log)
		}
	}
	x.Outcome(fmt.Sprintf("%v q=%d", r.log, n))
}

func c24SchedRun(r *vrt.R) {
	schedrun.Run(r, []schedrun.Scenario{
		{Name: "config-flush-vs-2msgs", Quick: 2, Thorough: -1, Body: func(x *sched.X) {
			rig := c24NewRig("config")
			x.Go("client", func() {
				rig.sendIndexed(c24Chan, 2)
				rig.sendIndexed(c24Chan, 2)
			})
			x.Go("backend", func() {
				if err := rig.cfg.flushQueuedPluginMessagesTo(rig.scs["A"]); err != nil {
					x.Fail("error", "flush: %v", err)
				}
			})
			x.AtEnd(func() { c24SchedFinal(x, rig, 2) })
		}},
		{Name: "config-flush-vs-3msgs-event-path", Quick: 2, Thorough: 3, Body: func(x *sched.X) {
			rig := c24NewRig("config")
			rig.sendIndexed(c24Chan, 2) // queued before the race starts
			x.Go("client", func() {
				rig.sendIndexed(c24RegChan, 2)
				rig.sendIndexed(c24Chan, 2)
			})
			x.Go("backend", func() {
				if err := rig.cfg.flushQueuedPluginMessagesTo(rig.scs["A"]); err != nil {
					x.Fail("error", "flush: %v", err)
				}
			})
			x.AtEnd(func() { c24SchedFinal(x, rig, 3) })
		}},
		{Name: "config-switch-flushB-vs-2msgs", Quick: 2, Thorough: -1, Body: func(x *sched.X) {
			rig := c24NewRig("config")
			if err := rig.cfg.flushQueuedPluginMessagesTo(rig.scs["A"]); err != nil {
				x.Fail("error", "flush A: %v", err)
			}
			rig.sendIndexed(c24Chan, 2) // direct to A
			rig.setInFlight("B")
			x.Go("client", func() {
				rig.sendIndexed(c24Chan, 2)
				rig.sendIndexed(c24Chan, 2)
			})
			x.Go("backend", func() {
				if err := rig.cfg.flushQueuedPluginMessagesTo(rig.scs["B"]); err != nil {
					x.Fail("error", "flush B: %v", err)
				}
			})
			x.AtEnd(func() { c24SchedFinal(x, rig, 3) })
		}},
		// Play phase, first join of a legacy Forge client: FML|HS messages use the connection in flight while
		// there is no connected server yet ("edge case when packet with FML client handshake arrives after
		// JoinGame"); the JoinGame handling on the backend loop completes the client phase, drains the queue and
		// completes the join.
		{Name: "play-firstjoin-vs-2fml", Quick: 2, Thorough: 4, Body: c24FirstJoinBody},
		// Play phase, server switch of a legacy Forge client: message #1 is queued while the client re-runs its
		// FML handshake; the client's final FML|HS ACK completes the handshake and asks for a flush while the
		// backend loop is inside handleJoinGame (connected server cleared, old backend closed, then
		// handleBackendJoinGame drains to the new backend B, then B becomes the connected server).
		{Name: "play-switch-fmlack-vs-joingame", Quick: 2, Thorough: 4, Body: func(x *sched.X) {
			rig := c24NewRig("play")
			rig.player.SendLegacyForgeHandshakeResetPacket()
			rig.sendIndexed(c24Chan, 2) // #1: held back, the handshake is not complete
			for _, d := range []int{forge.ClientHelloDiscriminator, forge.ModListDiscriminator, forge.AckDiscriminator, forge.AckDiscriminator, forge.AckDiscriminator} {
				rig.sendRaw(forge.LegacyHandshakeChannel, []byte{byte(d), 0})
			}
			if len(rig.log) != 0 {
				x.Fail("setup", "message delivered before the handshake completed: %v", rig.log)
			}
			rig.newBackend("B", state.Play)
			dest := rig.scs["B"]
			dest.connPhase = phase.UnknownBackendPhase
			rig.setInFlight("B")
			x.Go("client", func() {
				rig.sendRaw(forge.LegacyHandshakeChannel, []byte{byte(forge.AckDiscriminator & 0xff), 0}) // completes the handshake -> flush
			})
			x.Go("backend", func() {
				rig.player.mu.Lock()
				existing := rig.player.connectedServer_
				rig.player.connectedServer_ = nil
				rig.player.mu.Unlock()
				existing.disconnect()
				jg := c24JoinGame()
				if err := rig.play.handleBackendJoinGame(c24JoinCtx(rig, jg), jg, dest); err != nil {
					x.Fail("error", "join: %v", err)
				}
				rig.player.setConnectedServer(dest)
			})
			x.AtEnd(func() { c24SchedFinal(x, rig, 1) })
		}},
	})
}

func c24FirstJoinBody(x *sched.X) {
	rig := c24NewPlayFirstJoinRig()
	x.Go("client", func() {
		rig.sendFML(1)
		x.Log("client: m1 handled, log=%v", rig.log)
		rig.sendFML(2)
		x.Log("client: m2 handled, log=%v", rig.log)
	})
	x.Go("backend", func() {
		if err := rig.joinInFlight("A"); err != nil {
			x.Fail("error", "join: %v", err)
		}
		x.Log("backend: join done, log=%v", rig.log)
	})
	x.AtEnd(func() { c24SchedFinal(x, rig, 2) })
}

// c24NewPlayFirstJoinRig: a legacy Forge client in the play handler before its first JoinGame: no connected
// server, backend A in flight.
func c24NewPlayFirstJoinRig() *c24Rig {
	r := c24NewRig("play")
	a := r.scs["A"]
	a.connPhase = phase.UnknownBackendPhase
	a.completedJoin.Store(false)
	r.backends["A"].st = state.Play
	r.backends["A"].onWrite = func(c *g7Conn, w g7Write) {
		if pm, ok := w.Pkt.(*plugin.Message); ok && pm.Channel == forge.LegacyHandshakeChannel && len(pm.Data) >= 3 && pm.Data[0] == forge.RegistryDiscriminator {
			r.log = append(r.log, c24Delivery{"A", int(pm.Data[1])<<8 | int(pm.Data[2])})
		}
	}
	r.player.mu.Lock()
	r.player.connectedServer_ = nil
	r.player.connInFlight = a
	r.player.connPhase = phase.NotStartedLegacyForgeHandshakeClientPhase
	r.player.mu.Unlock()
	r.play.spawned.Store(false)
	return r
}

// sendFML sends an FML|HS message that does not advance the handshake phase (RegistryData) and carries idx.
func (r *c24Rig) sendFML(idx int) {
	r.sent++
	r.sendRaw(forge.LegacyHandshakeChannel, []byte{forge.RegistryDiscriminator, byte(idx >> 8), byte(idx)})
}

// joinInFlight: JoinGame for the connection that is already in flight (no fresh connection).
func (r *c24Rig) joinInFlight(n string) error {
	dest := r.scs[n]
	jg := c24JoinGame()
	if err := r.play.handleBackendJoinGame(c24JoinCtx(r, jg), jg, dest); err != nil {
		return err
	}
	r.player.setConnectedServer(dest)
	return nil
}
